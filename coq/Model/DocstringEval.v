(* Evaluation entry points used by the correspondence check of C19 (harness/c19.py).
   Results are lists of small integers:  outcome = [0] (no exception) or 1 :: <exception class path>. *)
From Coq Require Import List ZArith Bool String.
From PV Require Import Base.Exn Model.DocstringTyping Model.Docstring Model.DocstringClass Spec.DocstringSpec Gen.Docstring.
Import ListNotations.
Open Scope string_scope.
Open Scope Z_scope.
Open Scope list_scope.

Definition b2z (b : bool) : Z := if b then 1 else 0.

Definition enc {A} (o : outcome A) : list Z :=
  match o with
  | Ok _ => [0]
  | Raise e => 1 :: map Z.of_nat e
  end.

Definition full_scope (extra : list string) (l : list fcase) : list string :=
  extra ++ flat_map (fun fc => ann_names (f_ann fc)) l.

(* one decoration (a function, or the methods of a class in class-dict order):
     outcome of the whole decoration, -1,
     per function: applies, consistent (spec), sig_ok, scope_ok, ctx_covers, doc_typed, doc_evaluable,
                   no "typing." text, doc_wf, no_hiding, outcome of decorating that function alone, -2          *)
Definition eval_case (extra : list string) (l : list fcase) : list Z :=
  let scope := full_scope extra l in
  enc (decorate_all docstring_prog l) ++ [-1] ++
  flat_map (fun fc =>
    [ b2z (applies (f_require fc) (f_doc fc));
      b2z (consistentb scope (f_ann fc) (f_doc fc));
      b2z (sig_ok (f_ann fc));
      b2z (scope_ok scope (f_ann fc));
      b2z (ctx_covers [] (f_ann fc));
      b2z (doc_typed (f_doc fc));
      b2z (doc_evaluable scope (f_doc fc));
      b2z (doc_no_typing_dot (f_doc fc));
      b2z (doc_wf (f_doc fc));
      b2z (no_hiding scope) ]
    ++ enc (decorate docstring_prog fc) ++ [-2]) l.

(* a module that decorates classes of a chain (Model/DocstringClass.v): the harness hands over EVERY class with ALL its own
   methods, each with its own parsed __doc__, and how each decorated class is decorated (None: class decorator, Some names:
   function decorator on those attributes); the model decides which functions are reached and with which docstring.
   Same result format as eval_case; an attribute that does not exist: the module raises AttributeError, no function.    *)
Definition eval_chain_case (extra : list string) (req : bool) (ds : list (klass * option (list string))) : list Z :=
  match reached_all req ds with
  | Ok l => eval_case extra l
  | Raise e => enc (@Raise unit e) ++ [-1]
  end.

(* ---- the typing model alone: eval(text, globals(), context) and == ------------------------------- *)

(* The model value and the reified real value are the same object up to what `==` cannot see: typing
   caches Union[...] / X[...] by == of the arguments (functools.lru_cache), so the order of the members of
   a typing.Union, and whether a union nested in a typing generic is spelled X | Y or Union[X, Y], depend
   on what was evaluated earlier in the process.  The head constructor has to agree.                  *)
Definition same_head (a b : ty) : bool :=
  match a, b with
  | TNone, TNone | TEllipsis, TEllipsis | TAny, TAny | TCls _, TCls _ | TBare _, TBare _
  | TUnion _, TUnion _ | TPipe _, TPipe _ | TGen _ _, TGen _ _ | TTup _, TTup _ | TLst _, TLst _ => true
  | _, _ => false
  end.

Definition ty_same (a b : ty) : bool := same_head a b && ty_eqb a b && ty_eqb b a.

Definition same_as (o : outcome ty) (real : option ty) : Z :=
  match o, real with
  | Ok t, Some r => b2z (ty_same t r)
  | Raise _, None => 1
  | _, _ => 0
  end.

(* outcome of e1, -1, outcome of e2, -1, [v1 == v2; v2 == v1; model value 1 identical to the reified real
   value; same for 2; wf_expr e1; wf_expr e2; upd of value 1 (context names) as a count]            *)
Definition eval_typing_case (ctx : list string) (e1 e2 : texpr) (r1 r2 : option ty) : list Z :=
  let o1 := eval ctx e1 in
  let o2 := eval ctx e2 in
  enc o1 ++ [-1] ++ enc o2 ++ [-1] ++
  [ match o1, o2 with Ok a, Ok b => b2z (ty_eqb a b) | _, _ => -3 end;
    match o1, o2 with Ok a, Ok b => b2z (ty_eqb b a) | _, _ => -3 end;
    same_as o1 r1; same_as o2 r2; b2z (wf_expr e1); b2z (wf_expr e2) ].

(* _update_context on a reified annotation: is `n` a key of the context afterwards?  one bit per name *)
Definition eval_upd_case (t : ty) (names : list string) : list Z :=
  map (fun n => b2z (mem n (upd t))) names.
