(* Model of the ENABLE_PEDANTIC switch (C09).  The data (name of the variable, body of is_enabled,
   the literals assigned by enable/disable, which decorator reaches which guard, what lies behind
   the guards, every reference to the switch in the package) is regenerated from /repo into
   Gen/Env.v on every run by translator/t_env.py; this file interprets it.  No proofs here.    *)
From Coq Require Import List Bool String Arith.
From PV Require Import Base.Exn.
Import ListNotations.
Open Scope list_scope.

Inductive envv := Unset | Val (s : string).

(* ---- env_var_logic.py ---------------------------------------------------------------- *)
Inductive bexp :=
| BConst (b : bool)
| BIsSet                                   (* NAME in os.environ *)
| BValEq (s : string)                      (* os.environ[NAME] == s     (KeyError when unset) *)
| BGetEq (dflt : option string) (s : string)   (* os.environ.get(NAME, dflt) == s *)
| BNot (a : bexp) | BAnd (a b : bexp) | BOr (a b : bexp).
Inductive ie_stmt := IeIfRet (c r : bexp) | IeRet (r : bexp).
Inductive env_assign := SetVal (s : string) | DelVar.

Fixpoint eval_bexp (b : bexp) (e : envv) : outcome bool :=
  match b with
  | BConst x => Ok x
  | BIsSet => Ok (match e with Unset => false | Val _ => true end)
  | BValEq s => match e with Unset => Raise KeyErrorC | Val v => Ok (String.eqb v s) end
  | BGetEq d s => Ok (match e with
                      | Val v => String.eqb v s
                      | Unset => match d with Some dv => String.eqb dv s | None => false end
                      end)
  | BNot a => bind (eval_bexp a e) (fun x => Ok (negb x))
  | BAnd a c => bind (eval_bexp a e) (fun x => if x then eval_bexp c e else Ok false)
  | BOr a c => bind (eval_bexp a e) (fun x => if x then Ok true else eval_bexp c e)
  end.

(* falling off the end returns None, which `if not is_enabled()` treats as disabled *)
Fixpoint run_is_enabled (p : list ie_stmt) (e : envv) : outcome bool :=
  match p with
  | [] => Ok false
  | IeRet r :: _ => eval_bexp r e
  | IeIfRet c r :: p' => bind (eval_bexp c e) (fun x => if x then eval_bexp r e else run_is_enabled p' e)
  end.

Definition run_assign (a : env_assign) (e : envv) : envv :=
  match a with SetVal s => Val s | DelVar => Unset end.

(* ---- cross reference ------------------------------------------------------------------ *)
Inductive site := SitePedantic | SiteForAll.
Inductive phase := PhEnvLogic | PhModule | PhDecoration (s : site) | PhCall (s : site) | PhElsewhere
                 | PhCreate (s : site).   (* body of the factory pedantic(...) / for_all_methods(...): runs when the decorator
                                             OBJECT is created, possibly long before it is applied *)
Inductive ref_kind := RImport | RIsEnabledCall | RSwitchRead | RSwitchWrite | RVarName | RVarLiteral
                    | RToggle | RForeignRead | RUnknown
                    | RDecoUse.      (* one of the seven decorators is used (applying it reads the switch) *)
Record env_ref := { er_file : string; er_scope : string; er_line : nat; er_kind : ref_kind;
                    er_guard : bool; er_phase : phase }.
Inductive route := RouteGuard (s : site) | RouteVia (name : string) | RouteNoGuard.

(* a reference is harmless iff it is inside env_var_logic.py, an import of the names, one of the two
   first-statement guards, a read of a *caller-named* other variable (EnvironmentVariableParameter),
   or the use of a decorator inside one of the exact-shape shortcuts (er_guard), which run at
   decoration time of the shortcut *)
Definition ref_allowed (r : env_ref) : bool :=
  match er_phase r, er_kind r with
  | PhEnvLogic, _ => true
  | _, RImport => true
  | PhDecoration _, RIsEnabledCall => er_guard r
  | _, RForeignRead => true
  | PhElsewhere, RDecoUse => er_guard r
  | _, _ => false
  end.

Definition is_guard_ref (r : env_ref) : bool :=
  match er_phase r, er_kind r with PhDecoration _, RIsEnabledCall => er_guard r | _, _ => false end.

Definition reads_switch (k : ref_kind) : bool :=
  match k with RIsEnabledCall | RSwitchRead | RUnknown | RDecoUse => true | _ => false end.

(* ---- the seven decorators --------------------------------------------------------------- *)
Inductive dkind := DPedantic | DPedanticReqDoc | DPedanticClass | DPedanticClassReqDoc
                 | DTraceClass | DTimerClass | DForAllMethods.
Definition all_dkinds := [DPedantic; DPedanticReqDoc; DPedanticClass; DPedanticClassReqDoc; DTraceClass; DTimerClass; DForAllMethods].

Definition dname (d : dkind) : string :=
  match d with
  | DPedantic => "pedantic" | DPedanticReqDoc => "pedantic_require_docstring"
  | DPedanticClass => "pedantic_class" | DPedanticClassReqDoc => "pedantic_class_require_docstring"
  | DTraceClass => "trace_class" | DTimerClass => "timer_class" | DForAllMethods => "for_all_methods"
  end%string.

Definition site_eqb (a b : site) : bool :=
  match a, b with SitePedantic, SitePedantic | SiteForAll, SiteForAll => true | _, _ => false end.

(* wrappers of which site run when an object decorated by d is called *)
Definition site_relevant (d : dkind) (s : site) : bool :=
  match d, s with
  | (DPedantic | DPedanticReqDoc), SitePedantic => true
  | (DPedanticClass | DPedanticClassReqDoc), _ => true
  | (DTraceClass | DTimerClass | DForAllMethods), SiteForAll => true
  | _, _ => false
  end.

Record switch_model := {
  sm_var : string;                                   (* name of the environment variable *)
  sm_prog : list ie_stmt; sm_enable : env_assign; sm_disable : env_assign;
  sm_routes : list (string * route); sm_refs : list env_ref;
  sm_paths : list (site * bool) }.                   (* behind the guard the decorator installs its wrapper(s) *)

Inductive dobj := Identity (x : nat) | Wrapped (d : dkind) (x : nat).
(* decos: decorator objects that were created (for_all_methods(inner), pedantic(), pedantic_require_docstring(), or a
   reference to one of the class decorators) and not yet necessarily applied, with the value of the variable at creation *)
Record state := { env : envv; objs : list dobj; decos : list (dkind * envv) }.

Inductive op := OSetenv (s : string) | OUnsetenv | OEnable | ODisable | ODecorate (d : dkind) (x : nat) | OCall (i : nat)
              | OCreate (d : dkind)            (* obtain a decorator object, keep it *)
              | OApply (k : nat) (x : nat).    (* apply the k-th kept decorator object to a fresh target x *)

Inductive behaviour := Plain | Checked | CallRaises.
Inductive obs := ONone | ODeco (identity : bool) | ODecoRaise | OCalled (b : behaviour).

Section Model.
  Variable M : switch_model.

  Fixpoint find_route (l : list (string * route)) (n : string) : option route :=
    match l with
    | [] => None
    | (k, r) :: l' => if String.eqb k n then Some r else find_route l' n
    end.

  (* does applying decorator `n` start with a guard on the switch *)
  Fixpoint guarded (fuel : nat) (n : string) : bool :=
    match fuel with
    | O => false
    | S f => match find_route (sm_routes M) n with
             | Some (RouteGuard _) => true
             | Some (RouteVia n') => guarded f n'
             | _ => false
             end
    end.

  Definition honours (d : dkind) : bool := guarded 4 (dname d).

  Definition call_reads (d : dkind) : bool :=
    existsb (fun r => reads_switch (er_kind r) &&
                      match er_phase r with PhCall s => site_relevant d s | _ => false end) (sm_refs M).

  (* the factory body refers to the switch: the value seen at creation would be frozen into the decorator object *)
  Definition create_reads (d : dkind) : bool :=
    existsb (fun r => reads_switch (er_kind r) &&
                      match er_phase r with PhCreate s => site_relevant d s | _ => false end) (sm_refs M).

  Definition is_enabled (e : envv) : outcome bool := run_is_enabled (sm_prog M) e.

  (* every guard site whose wrappers run when an object decorated by d is called does install them *)
  Definition site_wraps (s : site) : bool :=
    existsb (fun p => site_eqb (fst p) s && snd p) (sm_paths M).
  Definition wraps (d : dkind) : bool :=
    forallb (fun s => negb (site_relevant d s) || site_wraps s) [SitePedantic; SiteForAll].

  Definition call_behaviour (o : dobj) (e : envv) : behaviour :=
    match o with
    | Identity _ => Plain
    | Wrapped d _ =>
      if negb (wraps d) then Plain
      else if call_reads d then
        match is_enabled e with Ok true => Checked | Ok false => Plain | Raise _ => CallRaises end
      else Checked
    end.

  Definition with_env (s : state) (e : envv) : state := {| env := e; objs := objs s; decos := decos s |}.
  Definition add_obj (s : state) (o : dobj) : state := {| env := env s; objs := objs s ++ [o]; decos := decos s |}.

  (* apply decorator d to target x; e is the value of the variable the guard sees *)
  Definition decorate (s : state) (d : dkind) (x : nat) (e : envv) : state * obs :=
    if honours d then
      match is_enabled e with
      | Ok true => (add_obj s (Wrapped d x), ODeco false)
      | Ok false => (add_obj s (Identity x), ODeco true)
      | Raise _ => (s, ODecoRaise)
      end
    else (add_obj s (Wrapped d x), ODeco false).

  Definition step (s : state) (o : op) : state * obs :=
    match o with
    | OSetenv v => (with_env s (Val v), ONone)
    | OUnsetenv => (with_env s Unset, ONone)
    | OEnable => (with_env s (run_assign (sm_enable M) (env s)), ONone)
    | ODisable => (with_env s (run_assign (sm_disable M) (env s)), ONone)
    | ODecorate d x => decorate s d x (env s)
    | OCall i =>
      match nth_error (objs s) i with
      | Some o' => (s, OCalled (call_behaviour o' (env s)))
      | None => (s, ONone)
      end
    | OCreate d => ({| env := env s; objs := objs s; decos := decos s ++ [(d, env s)] |}, ONone)
    | OApply k x =>
      match nth_error (decos s) k with
      | Some (d, e0) => decorate s d x (if create_reads d then e0 else env s)
      | None => (s, ONone)
      end
    end.

  Fixpoint run_ops (s : state) (h : list op) : state * list obs :=
    match h with
    | [] => (s, [])
    | o :: h' => let (s1, b) := step s o in let (s2, bs) := run_ops s1 h' in (s2, b :: bs)
    end.
End Model.

