(* Model of the ENABLE_PEDANTIC switch (C09).  The data (name of the variable, body of is_enabled,
   the literals assigned by enable/disable, which decorator reaches which guard, what lies behind
   the guards, every reference to the switch in the package) is regenerated from /repo into
   Gen/Env.v on every run by translator/t_env.py; this file interprets it.  No proofs here.    *)
From Coq Require Import List Bool String Arith.
From PV Require Import Base.Exn.
Import ListNotations.
Open Scope list_scope.

Inductive envv := Unset | Val (s : string).

(* ---- env_var_logic.py ---------------------------------------------------------------- *)
Inductive bexp :=
| BConst (b : bool)
| BIsSet                                   (* NAME in os.environ *)
| BValEq (s : string)                      (* os.environ[NAME] == s     (KeyError when unset) *)
| BGetEq (dflt : option string) (s : string)   (* os.environ.get(NAME, dflt) == s *)
| BNot (a : bexp) | BAnd (a b : bexp) | BOr (a b : bexp).
Inductive ie_stmt := IeIfRet (c r : bexp) | IeRet (r : bexp).
Inductive env_assign := SetVal (s : string) | DelVar.

Fixpoint eval_bexp (b : bexp) (e : envv) : outcome bool :=
  match b with
  | BConst x => Ok x
  | BIsSet => Ok (match e with Unset => false | Val _ => true end)
  | BValEq s => match e with Unset => Raise KeyErrorC | Val v => Ok (String.eqb v s) end
  | BGetEq d s => Ok (match e with
                      | Val v => String.eqb v s
                      | Unset => match d with Some dv => String.eqb dv s | None => false end
                      end)
  | BNot a => bind (eval_bexp a e) (fun x => Ok (negb x))
  | BAnd a c => bind (eval_bexp a e) (fun x => if x then eval_bexp c e else Ok false)
  | BOr a c => bind (eval_bexp a e) (fun x => if x then Ok true else eval_bexp c e)
  end.

(* falling off the end returns None, which `if not is_enabled()` treats as disabled *)
Fixpoint run_is_enabled (p : list ie_stmt) (e : envv) : outcome bool :=
  match p with
  | [] => Ok false
  | IeRet r :: _ => eval_bexp r e
  | IeIfRet c r :: p' => bind (eval_bexp c e) (fun x => if x then eval_bexp r e else run_is_enabled p' e)
  end.

Definition run_assign (a : env_assign) (e : envv) : envv :=
  match a with SetVal s => Val s | DelVar => Unset end.

(* ---- cross reference ------------------------------------------------------------------ *)
Inductive site := SitePedantic | SiteForAll.
Inductive phase := PhEnvLogic | PhModule | PhDecoration (s : site) | PhCall (s : site) | PhElsewhere
                 | PhCreate (s : site).   (* body of the factory pedantic(...) / for_all_methods(...): runs when the decorator
                                             OBJECT is created, possibly long before it is applied *)
Inductive ref_kind := RImport | RIsEnabledCall | RSwitchRead | RSwitchWrite | RVarName | RVarLiteral
                    | RToggle | RForeignRead | RUnknown
                    | RDecoUse.      (* one of the seven decorators is used (applying it reads the switch) *)
Record env_ref := { er_file : string; er_scope : string; er_line : nat; er_kind : ref_kind;
                    er_guard : bool; er_phase : phase }.
Inductive route := RouteGuard (s : site) | RouteVia (name : string) | RouteNoGuard.

(* a reference is harmless iff it is inside env_var_logic.py, an import of the names, one of the two
   first-statement guards, a read of a *caller-named* other variable (EnvironmentVariableParameter),
   or the use of a decorator inside one of the exact-shape shortcuts (er_guard), which run at
   decoration time of the shortcut *)
Definition ref_allowed (r : env_ref) : bool :=
  match er_phase r, er_kind r with
  | PhEnvLogic, _ => true
  | _, RImport => true
  | PhDecoration _, RIsEnabledCall => er_guard r
  | _, RForeignRead => true
  | PhElsewhere, RDecoUse => er_guard r
  | _, _ => false
  end.

Definition is_guard_ref (r : env_ref) : bool :=
  match er_phase r, er_kind r with PhDecoration _, RIsEnabledCall => er_guard r | _, _ => false end.

Definition reads_switch (k : ref_kind) : bool :=
  match k with RIsEnabledCall | RSwitchRead | RUnknown | RDecoUse => true | _ => false end.

(* ---- the seven decorators --------------------------------------------------------------- *)
Inductive dkind := DPedantic | DPedanticReqDoc | DPedanticClass | DPedanticClassReqDoc
                 | DTraceClass | DTimerClass | DForAllMethods.
Definition all_dkinds := [DPedantic; DPedanticReqDoc; DPedanticClass; DPedanticClassReqDoc; DTraceClass; DTimerClass; DForAllMethods].

Definition dname (d : dkind) : string :=
  match d with
  | DPedantic => "pedantic" | DPedanticReqDoc => "pedantic_require_docstring"
  | DPedanticClass => "pedantic_class" | DPedanticClassReqDoc => "pedantic_class_require_docstring"
  | DTraceClass => "trace_class" | DTimerClass => "timer_class" | DForAllMethods => "for_all_methods"
  end%string.

Definition site_eqb (a b : site) : bool :=
  match a, b with SitePedantic, SitePedantic | SiteForAll, SiteForAll => true | _, _ => false end.

(* wrappers of which site run when an object decorated by d is called *)
Definition site_relevant (d : dkind) (s : site) : bool :=
  match d, s with
  | (DPedantic | DPedanticReqDoc), SitePedantic => true
  | (DPedanticClass | DPedanticClassReqDoc), _ => true
  | (DTraceClass | DTimerClass | DForAllMethods), SiteForAll => true
  | _, _ => false
  end.

Record switch_model := {
  sm_var : string;                                   (* name of the environment variable *)
  sm_prog : list ie_stmt; sm_enable : env_assign; sm_disable : env_assign;
  sm_routes : list (string * route); sm_refs : list env_ref;
  sm_paths : list (site * bool) }.                   (* behind the guard the decorator installs its wrapper(s) *)

(* ---- objects ------------------------------------------------------------------------------
   Every function / class that exists is a cell of the heap, addressed by its position; cells are only ever added.
   c_layers: the checking wrappers that were installed around the plain callable (functions) or around the methods
   the class defines itself (classes), outermost first.  c_base: for a class created as a subclass of an earlier object,
   the address of that class (methods the subclass does not define are looked up there WHEN THEY ARE CALLED).
   pedantic / pedantic_require_docstring decorate functions and return a NEW function (the given one is not touched);
   the five class decorators modify the given class IN PLACE and return it.                                            *)
Inductive family := FFn | FCls.
Definition fam (d : dkind) : family :=
  match d with DPedantic | DPedanticReqDoc => FFn | _ => FCls end.
Definition family_eqb (a b : family) : bool :=
  match a, b with FFn, FFn | FCls, FCls => true | _, _ => false end.

Record cell := { c_layers : list dkind; c_base : option nat }.
(* a decorated object: what was handed to the decorator and what the decorator returned *)
Record dobj := { o_fam : family; o_given : nat; o_res : nat }.
(* decos: decorator objects that were created (for_all_methods(inner), pedantic(), pedantic_require_docstring(), or a
   reference to one of the class decorators) and not yet necessarily applied, with the value of the variable at creation *)
Record state := { env : envv; heap : list cell; objs : list dobj; decos : list (dkind * envv) }.

(* where the decorator of a (re-)decoration comes from: written directly above / around the target, or a kept object *)
Inductive dsrc := Direct (d : dkind) | Kept (k : nat).

Inductive op := OSetenv (s : string) | OUnsetenv | OEnable | ODisable
              | ODecorate (d : dkind)          (* decorate a FRESH function / class *)
              | OCall (i : nat)
              | OCreate (d : dkind)            (* obtain a decorator object, keep it *)
              | OApply (k : nat)               (* apply the k-th kept decorator object to a fresh target *)
              | ORedecorate (src : dsrc) (i : nat) (again : bool)
                (* decorate an object that went through a decorator earlier in the history: again = false the object that
                   was GIVEN to the decorator when object #i was made, again = true object #i itself (the result) *)
              | OSubDecorate (src : dsrc) (i : nat).
                (* define a fresh subclass of object #i (a class) and decorate the subclass *)

Inductive behaviour := Plain | Checked | CallRaises.
(* OUnspec is never produced by the model: the specification uses it where the statement demands nothing *)
Inductive obs := ONone | ODeco (identity : bool) | ODecoRaise | OCalled (b : behaviour) | OUnspec.

Fixpoint set_nth {A} (l : list A) (n : nat) (x : A) : list A :=
  match l, n with
  | [], _ => []
  | _ :: l', O => x :: l'
  | y :: l', S n' => y :: set_nth l' n' x
  end.

Section Model.
  Variable M : switch_model.

  Fixpoint find_route (l : list (string * route)) (n : string) : option route :=
    match l with
    | [] => None
    | (k, r) :: l' => if String.eqb k n then Some r else find_route l' n
    end.

  (* does applying decorator `n` start with a guard on the switch *)
  Fixpoint guarded (fuel : nat) (n : string) : bool :=
    match fuel with
    | O => false
    | S f => match find_route (sm_routes M) n with
             | Some (RouteGuard _) => true
             | Some (RouteVia n') => guarded f n'
             | _ => false
             end
    end.

  Definition honours (d : dkind) : bool := guarded 4 (dname d).

  Definition call_reads (d : dkind) : bool :=
    existsb (fun r => reads_switch (er_kind r) &&
                      match er_phase r with PhCall s => site_relevant d s | _ => false end) (sm_refs M).

  (* the factory body refers to the switch: the value seen at creation would be frozen into the decorator object *)
  Definition create_reads (d : dkind) : bool :=
    existsb (fun r => reads_switch (er_kind r) &&
                      match er_phase r with PhCreate s => site_relevant d s | _ => false end) (sm_refs M).

  Definition is_enabled (e : envv) : outcome bool := run_is_enabled (sm_prog M) e.

  (* every guard site whose wrappers run when an object decorated by d is called does install them *)
  Definition site_wraps (s : site) : bool :=
    existsb (fun p => site_eqb (fst p) s && snd p) (sm_paths M).
  Definition wraps (d : dkind) : bool :=
    forallb (fun s => negb (site_relevant d s) || site_wraps s) [SitePedantic; SiteForAll].

  (* one wrapper installed by decorator d, called while the variable is e *)
  Definition layer_behaviour (d : dkind) (e : envv) : behaviour :=
    if negb (wraps d) then Plain
    else if call_reads d then
      match is_enabled e with Ok true => Checked | Ok false => Plain | Raise _ => CallRaises end
    else Checked.

  (* the outermost wrapper runs first; a wrapper that does nothing hands over to the next one *)
  Fixpoint layers_behaviour (ws : list dkind) (e : envv) : behaviour :=
    match ws with
    | [] => Plain
    | d :: ws' => match layer_behaviour d e with Plain => layers_behaviour ws' e | b => b end
    end.

  Definition layers_at (hp : list cell) (a : nat) : list dkind :=
    match nth_error hp a with Some c => c_layers c | None => [] end.

  (* calling the function at address a / a method the class at address a defines itself *)
  Definition cell_behaviour (s : state) (a : nat) (e : envv) : behaviour := layers_behaviour (layers_at (heap s) a) e.
  (* calling, on an instance of the class at address a, a method it inherits: found in the base class at call time *)
  Definition inherited_behaviour (s : state) (a : nat) (e : envv) : option behaviour :=
    match nth_error (heap s) a with
    | Some {| c_base := Some b |} => Some (cell_behaviour s b e)
    | _ => None
    end.
  Definition call_behaviour (s : state) (o : dobj) (e : envv) : behaviour := cell_behaviour s (o_res o) e.

  Definition with_env (s : state) (e : envv) : state := {| env := e; heap := heap s; objs := objs s; decos := decos s |}.
  Definition add_obj (s : state) (o : dobj) : state :=
    {| env := env s; heap := heap s; objs := objs s ++ [o]; decos := decos s |}.
  Definition alloc (s : state) (c : cell) : state :=
    {| env := env s; heap := heap s ++ [c]; objs := objs s; decos := decos s |}.
  Definition base_at (hp : list cell) (a : nat) : option nat :=
    match nth_error hp a with Some c => c_base c | None => None end.

  (* behind the guard: the decorator installs its wrapper - around a new function, or into the given class *)
  Definition wrap (s : state) (d : dkind) (a : nat) : state * obs :=
    match fam d with
    | FFn => (add_obj (alloc s {| c_layers := d :: layers_at (heap s) a; c_base := None |})
                      {| o_fam := FFn; o_given := a; o_res := List.length (heap s) |}, ODeco false)
    | FCls => (add_obj {| env := env s;
                          heap := set_nth (heap s) a {| c_layers := d :: layers_at (heap s) a; c_base := base_at (heap s) a |};
                          objs := objs s; decos := decos s |}
                       {| o_fam := FCls; o_given := a; o_res := a |}, ODeco false)
    end.

  (* apply decorator d to the object at address a; e is the value of the variable the guard sees *)
  Definition decorate_at (s : state) (d : dkind) (a : nat) (e : envv) : state * obs :=
    if honours d then
      match is_enabled e with
      | Ok true => wrap s d a
      | Ok false => (add_obj s {| o_fam := fam d; o_given := a; o_res := a |}, ODeco true)
      | Raise _ => (s, ODecoRaise)
      end
    else wrap s d a.

  (* the decorator and the value of the variable its guard will see *)
  Definition resolve (s : state) (src : dsrc) : option (dkind * envv) :=
    match src with
    | Direct d => Some (d, env s)
    | Kept k => match nth_error (decos s) k with
                | Some (d, e0) => Some (d, if create_reads d then e0 else env s)
                | None => None
                end
    end.

  (* a fresh target: a new plain function / class (with base class b) *)
  Definition decorate_fresh (s : state) (d : dkind) (b : option nat) (e : envv) : state * obs :=
    decorate_at (alloc s {| c_layers := []; c_base := b |}) d (List.length (heap s)) e.

  Definition step (s : state) (o : op) : state * obs :=
    match o with
    | OSetenv v => (with_env s (Val v), ONone)
    | OUnsetenv => (with_env s Unset, ONone)
    | OEnable => (with_env s (run_assign (sm_enable M) (env s)), ONone)
    | ODisable => (with_env s (run_assign (sm_disable M) (env s)), ONone)
    | ODecorate d => decorate_fresh s d None (env s)
    | OCall i =>
      match nth_error (objs s) i with
      | Some o' => (s, OCalled (call_behaviour s o' (env s)))
      | None => (s, ONone)
      end
    | OCreate d => ({| env := env s; heap := heap s; objs := objs s; decos := decos s ++ [(d, env s)] |}, ONone)
    | OApply k =>
      match resolve s (Kept k) with
      | Some (d, e) => decorate_fresh s d None e
      | None => (s, ONone)
      end
    | ORedecorate src i again =>
      match nth_error (objs s) i, resolve s src with
      | Some o', Some (d, e) =>
        if family_eqb (fam d) (o_fam o') then decorate_at s d (if again then o_res o' else o_given o') e else (s, ONone)
      | _, _ => (s, ONone)
      end
    | OSubDecorate src i =>
      match nth_error (objs s) i, resolve s src with
      | Some o', Some (d, e) =>
        match o_fam o', fam d with
        | FCls, FCls => decorate_fresh s d (Some (o_res o')) e
        | _, _ => (s, ONone)
        end
      | _, _ => (s, ONone)
      end
    end.

  Fixpoint run_ops (s : state) (h : list op) : state * list obs :=
    match h with
    | [] => (s, [])
    | o :: h' => let (s1, b) := step s o in let (s2, bs) := run_ops s1 h' in (s2, b :: bs)
    end.
End Model.
