(* Evaluation entry point used by the correspondence check of C15 (harness/c15.py).      *)
From Coq Require Import List ZArith Bool.
From PV Require Import Base.Exn Model.RetrySem Model.RetryGroups Spec.RetrySpec Gen.Retry.
Import ListNotations.
Open Scope Z_scope.

Definition outs_of (l : list oc) (tail : oc) : nat -> oc := fun i => nth i l tail.
Definition listed_of (spec : list exn) : exn -> bool := fun e => existsb (derives e) spec.

Definition enc_result (r : result) : list Z :=
  match r with RFrom i => [0; Z.of_nat i] | RNone => [1; 0] | RDiverge => [2; 0] end.
Definition enc_event (e : event) : Z :=
  match e with ECall FwdSame => 1 | ECall FwdOther => 2 | ESleep => 3 | ELog => 4 end.

(* [kind; idx; calls demanded by the spec] ++ model trace ++ [-1] ++ trace demanded by the spec *)
Definition eval_case (attempts : Z) (spec : list exn) (l : list oc) (tail : oc) : list Z :=
  let listed := listed_of spec in
  let outs := outs_of l tail in
  let r := retry_run Gen.Retry.retry_cfg attempts listed outs in
  let n := spec_calls_exec attempts listed outs in
  enc_result (fst r) ++ [Z.of_nat n] ++ map enc_event (filter not_log (snd r)) ++ [-1]
  ++ map enc_event (spec_trace n).

(* the same over exception OBJECTS (plain instances and exception groups, Model/RetryGroups.v): the loop
   sees the class of the raised object (oc_of); the demanded count is computed by the object-level
   specification (spec_calls_exec_x), independently of that projection *)
Definition eval_case_x (attempts : Z) (spec : list exn) (l : list xoc) (tail : xoc) : list Z :=
  let listed := listed_g spec in
  let xouts := xouts_of l tail in
  let r := retry_run Gen.Retry.retry_cfg attempts listed (fun i => oc_of (xouts i)) in
  let n := spec_calls_exec_x attempts listed xouts in
  enc_result (fst r) ++ [Z.of_nat n] ++ map enc_event (filter not_log (snd r)) ++ [-1]
  ++ map enc_event (spec_trace n).
