(* C19 - the part of CPython 3.12's `typing` that the docstring check of pedantic relies on.

   pedantic compares an annotation (a typing object) with the value of `eval(<documented type>,
   globals(), context)`.  This file models, executably and without proofs,

     ty        the objects involved (classes, None, ..., Any, typing.X unsubscripted,
               Union[...] after typing's normalisation, X[...] for typing and builtin generics,
               and the tuple / list values that occur while a subscript is evaluated),
     ty_eqb    `==` on those objects (Union compares as a set, everything else structurally,
               typing.List[int] != list[int]),
     texpr     the expression syntax of a documented type (what `ast.parse(text, mode='eval')`
               yields on the supported fragment),
     eval      evaluation of such an expression: name lookup (context first, then the globals
               of check_docstring.py: `from typing import *` and the builtins), subscription with
               typing's checks (arity, "Plain typing.Union is not valid", unhashable arguments
               of Union ...) and normalisation (None -> NoneType, flattening, duplicate removal,
               single-member collapse).  Exception-precise: NameError / TypeError / SyntaxError.

   Class identity is the class name (modelling assumption of the whole framework).
   Nothing here comes from /repo; it is validated by the correspondence check of C19 only.   *)
From Coq Require Import List Bool Arith String.
From PV Require Import Base.Exn.
Import ListNotations.
Open Scope string_scope.
Open Scope list_scope.

Definition SyntaxErrorC : exn := [0; 15].
Definition UnboundLocalErrorC : exn := [0; 10; 0].

(* --------------------------------------------------------------------------------------- *)
(* objects *)

Inductive gname :=
| GTyping (n : string)      (* typing.List[...] : a typing._GenericAlias named n *)
| GBuiltin (n : string).    (* list[...]        : a types.GenericAlias of the builtin class n *)

Inductive ty :=
| TNone                       (* the object None *)
| TEllipsis                   (* the object ... *)
| TAny                        (* typing.Any *)
| TCls (n : string)           (* a class, builtin or user defined; NoneType is TCls "NoneType" *)
| TBare (n : string)          (* typing.List, typing.Union, ... not subscripted *)
| TUnion (l : list ty)        (* typing.Union[...]: flat, duplicate free, at least two members *)
| TGen (g : gname) (args : list ty)   (* __args__ as CPython stores them (Callable flattened) *)
| TTup (l : list ty)          (* a Python tuple (only while evaluating a subscript) *)
| TLst (l : list ty)          (* a Python list  (first argument of Callable) *)
| TPipe (l : list ty).        (* types.UnionType `X | Y`: flat, duplicate free, at least two members *)

Definition gname_eqb (a b : gname) : bool :=
  match a, b with
  | GTyping n, GTyping m => String.eqb n m
  | GBuiltin n, GBuiltin m => String.eqb n m
  | _, _ => false
  end.

(* list iterators used by the nested fixpoints below (the element function is a Section variable,
   so that the guard checker accepts `ty_eqb`)                                                   *)
Section ListIter.
  Variable A : Type.
  Variable eq : A -> A -> bool.
  Fixpoint list_eqb (l1 l2 : list A) {struct l1} : bool :=
    match l1, l2 with
    | [], [] => true
    | x :: r, y :: s => eq x y && list_eqb r s
    | _, _ => false
    end.
  (* every member of l1 is `eq` to some member of l2 *)
  Definition sub_l (l1 l2 : list A) : bool := forallb (fun x => existsb (eq x) l2) l1.
  (* every member of l2 has some member of l1 that is `eq` to it *)
  Definition sub_r (l1 l2 : list A) : bool := forallb (fun y => existsb (fun x => eq x y) l1) l2.
End ListIter.
Arguments list_eqb {A} eq l1 l2.
Arguments sub_l {A} eq l1 l2.
Arguments sub_r {A} eq l1 l2.

(* `a == b`.  _UnionGenericAlias.__eq__ is set(self.__args__) == set(other.__args__) and accepts a
   types.UnionType on the other side; types.UnionType compares its args as sets too and defers to the
   typing object otherwise: the four Union combinations compare as sets.  _GenericAlias.__eq__ /
   types.GenericAlias compare origin and the args tuple; classes, None, ..., Any and the unsubscripted
   typing objects compare by identity.                                                            *)
Fixpoint ty_eqb (a b : ty) {struct a} : bool :=
  match a, b with
  | TNone, TNone => true
  | TEllipsis, TEllipsis => true
  | TAny, TAny => true
  | TCls n, TCls m => String.eqb n m
  | TBare n, TBare m => String.eqb n m
  | TUnion l1, TUnion l2 | TUnion l1, TPipe l2 | TPipe l1, TUnion l2 | TPipe l1, TPipe l2 =>
      sub_l ty_eqb l1 l2 && sub_r ty_eqb l1 l2
  | TGen g1 a1, TGen g2 a2 => gname_eqb g1 g2 && list_eqb ty_eqb a1 a2
  | TTup a1, TTup a2 => list_eqb ty_eqb a1 a2
  | TLst a1, TLst a2 => list_eqb ty_eqb a1 a2
  | _, _ => false
  end.

(* hash(x) succeeds: a list is unhashable, and so is everything that hashes its __args__ *)
Fixpoint hashable (t : ty) : bool :=
  match t with
  | TLst _ => false
  | TUnion l => forallb hashable l
  | TPipe l => forallb hashable l
  | TGen _ l => forallb hashable l
  | TTup l => forallb hashable l
  | _ => true
  end.

(* class names occurring in an object (what a docstring has to be able to name) *)
Fixpoint cls_names (t : ty) : list string :=
  match t with
  | TCls n => [n]
  | TUnion l => flat_map cls_names l
  | TPipe l => flat_map cls_names l
  | TGen _ l => flat_map cls_names l
  | TTup l => flat_map cls_names l
  | TLst l => flat_map cls_names l
  | _ => []
  end.

(* --------------------------------------------------------------------------------------- *)
(* the global namespace of check_docstring.py, restricted to the supported vocabulary *)

Inductive tkind := KFixed (n : nat) | KTuple | KCallable | KUnion | KOptional.

Definition typing_forms : list (string * tkind) :=
  [("List", KFixed 1); ("Set", KFixed 1); ("FrozenSet", KFixed 1); ("Dict", KFixed 2); ("Type", KFixed 1);
   ("Iterable", KFixed 1); ("Sequence", KFixed 1); ("Mapping", KFixed 2);
   ("Tuple", KTuple); ("Callable", KCallable); ("Union", KUnion); ("Optional", KOptional)].

Definition builtin_classes : list string :=
  ["int"; "str"; "float"; "bool"; "bytes"; "complex"; "object";
   "list"; "dict"; "set"; "frozenset"; "tuple"; "type"].

Definition subscriptable_builtins : list string := ["list"; "dict"; "set"; "frozenset"; "tuple"; "type"].

Definition mem (n : string) (l : list string) : bool := existsb (String.eqb n) l.

Fixpoint assoc {A} (n : string) (l : list (string * A)) : option A :=
  match l with
  | [] => None
  | (k, v) :: r => if String.eqb n k then Some v else assoc n r
  end.

Definition form_kind (n : string) : option tkind := assoc n typing_forms.

Definition globals (n : string) : option ty :=
  if String.eqb n "Any" then Some TAny
  else match form_kind n with
       | Some _ => Some (TBare n)
       | None => if mem n builtin_classes then Some (TCls n) else None
       end.

(* --------------------------------------------------------------------------------------- *)
(* subscription: X[...] *)

Definition NoneTypeT : ty := TCls "NoneType".

(* the subscript value as a parameter tuple: `if not isinstance(params, tuple): params = (params,)` *)
Definition as_params (s : ty) : list ty := match s with TTup l => l | x => [x] end.

(* typing._type_convert: None -> type(None) (strings -> ForwardRef are outside the fragment) *)
Definition type_convert (t : ty) : ty := match t with TNone => NoneTypeT | x => x end.

Definition is_special_form (n : string) : bool :=
  match form_kind n with Some KUnion | Some KOptional => true | _ => false end.

(* typing._type_check of 3.12: plain special forms and tuples are rejected, nothing else *)
Definition type_check (t : ty) : outcome ty :=
  match type_convert t with
  | TBare n => if is_special_form n then Raise TypeErrorC else Ok (TBare n)
  | TTup _ => Raise TypeErrorC
  | x => Ok x
  end.

Fixpoint type_check_all (l : list ty) : outcome (list ty) :=
  match l with
  | [] => Ok []
  | x :: r => bind (type_check x) (fun x' => bind (type_check_all r) (fun r' => Ok (x' :: r')))
  end.

Definition flatten_union (l : list ty) : list ty :=
  flat_map (fun p => match p with TUnion m => m | TPipe m => m | x => [x] end) l.

(* typing._deduplicate: the first member of every ==-class is kept, in order *)
Fixpoint dedupe (seen : list ty) (l : list ty) : list ty :=
  match l with
  | [] => []
  | x :: r => if existsb (fun s => ty_eqb s x) seen then dedupe seen r else x :: dedupe (x :: seen) r
  end.

(* typing.Union.__getitem__ on an already tuple-ised, non empty parameter list *)
Definition make_union (params : list ty) : outcome ty :=
  bind (type_check_all params) (fun ps =>
    let flat := flatten_union ps in
    if forallb hashable flat then
      match dedupe [] flat with
      | [x] => Ok x
      | l => Ok (TUnion l)
      end
    else Raise TypeErrorC).

Fixpoint last_is_ellipsis (l : list ty) : bool :=
  match l with
  | [] => false
  | [TEllipsis] => true
  | [_] => false
  | _ :: r => last_is_ellipsis r
  end.

Definition subscript (f s : ty) : outcome ty :=
  match f with
  | TBare n =>
      match form_kind n with
      | Some KUnion =>
          match s with
          | TTup [] => Raise TypeErrorC              (* Cannot take a Union of no types *)
          | _ => make_union (as_params s)
          end
      | Some KOptional =>
          bind (type_check s) (fun a => make_union [a; NoneTypeT])
      | Some (KFixed k) =>
          bind (type_check_all (as_params s)) (fun ps =>
            if Nat.eqb (List.length ps) k then Ok (TGen (GTyping n) ps) else Raise TypeErrorC)
      | Some KTuple =>
          let ps := as_params s in
          if Nat.leb 2 (List.length ps) && last_is_ellipsis ps
          then bind (type_check_all (removelast ps)) (fun ps' => Ok (TGen (GTyping n) (ps' ++ [TEllipsis])))
          else bind (type_check_all ps) (fun ps' => Ok (TGen (GTyping n) ps'))
      | Some KCallable =>
          match s with
          | TTup [args; result] =>
              bind (type_check result) (fun r =>
                match args with
                | TEllipsis => Ok (TGen (GTyping n) [TEllipsis; r])
                | TLst l => Ok (TGen (GTyping n) (map type_convert l ++ [r]))
                | TTup l => Ok (TGen (GTyping n) (map type_convert l ++ [r]))
                | x => Ok (TGen (GTyping n) [type_convert x; r])
                end)
          | _ => Raise TypeErrorC                    (* Callable must be used as Callable[[arg, ...], result] *)
          end
      | None => Raise TypeErrorC
      end
  | TCls n =>
      if mem n subscriptable_builtins
      then Ok (TGen (GBuiltin n) (as_params s))      (* types.GenericAlias: no conversion, no arity *)
      else Raise TypeErrorC                          (* type 'int' is not subscriptable *)
  | _ => Raise TypeErrorC                            (* None[..], Any[..], List[int][..], (a, b)[..] ... *)
  end.

(* --------------------------------------------------------------------------------------- *)
(* X | Y.
   type.__or__ / types.GenericAlias.__or__ / types.UnionType.__or__ (and their reflected forms) are
   _Py_union_type_or: both operands have to be None, a class (typing.Any is a class since 3.11), a
   types.GenericAlias or a types.UnionType; the result is a types.UnionType of the flattened members
   with None -> NoneType, duplicates removed (GenericAlias pairs by ==, everything else by identity),
   and the member itself when only one is left.  `None | None`: NoneType has no __or__.
   Every typing object (List, List[int], Union[...]) defines __or__ / __ror__ as Union[left, right].   *)
Definition c_unionable (t : ty) : bool :=
  match t with
  | TNone | TCls _ | TAny | TPipe _ => true
  | TGen (GBuiltin _) _ => true
  | _ => false
  end.

Definition is_typing_obj (t : ty) : bool :=
  match t with
  | TBare _ | TUnion _ => true
  | TGen (GTyping _) _ => true
  | _ => false
  end.

Definition pipe_members (t : ty) : list ty :=
  match t with TNone => [NoneTypeT] | TPipe l => l | x => [x] end.

Definition or_ty (a b : ty) : outcome ty :=
  if c_unionable a && c_unionable b then
    match a, b with
    | TNone, TNone => Raise TypeErrorC
    | _, _ =>
        match dedupe [] (pipe_members a ++ pipe_members b) with
        | [x] => Ok x
        | l => Ok (TPipe l)
        end
    end
  else if is_typing_obj a || is_typing_obj b then make_union [a; b]
  else Raise TypeErrorC.

(* --------------------------------------------------------------------------------------- *)
(* documented type expressions and their evaluation *)

Inductive texpr :=
| ENone
| EEllipsis
| EName (n : string)
| ESub (f s : texpr)          (* f[s]; a subscript `a, b` is ETuple [a; b] *)
| ETuple (l : list texpr)
| EList (l : list texpr)
| EOr (a b : texpr)           (* a | b *)
| EAttr (e : texpr) (a : string)   (* e.a for an attribute no object of the vocabulary has: NameError of e (`typing.List`), else AttributeError (`int.foo`) *)
| EInvalidSyntax.             (* the text is not a Python expression *)

(* eval(text, globals(), context): the context (locals) is searched first.  Every entry of the
   context maps a class name to that class, so the context is the list of its keys.           *)
Fixpoint eval (ctx : list string) (e : texpr) : outcome ty :=
  match e with
  | ENone => Ok TNone
  | EEllipsis => Ok TEllipsis
  | EName n => if mem n ctx then Ok (TCls n)
               else match globals n with Some v => Ok v | None => Raise NameErrorC end
  | ESub f s => bind (eval ctx f) (fun f' => bind (eval ctx s) (fun s' => subscript f' s'))
  | ETuple l =>
      bind ((fix evals (l : list texpr) : outcome (list ty) :=
               match l with
               | [] => Ok []
               | x :: r => bind (eval ctx x) (fun x' => bind (evals r) (fun r' => Ok (x' :: r')))
               end) l) (fun l' => Ok (TTup l'))
  | EList l =>
      bind ((fix evals (l : list texpr) : outcome (list ty) :=
               match l with
               | [] => Ok []
               | x :: r => bind (eval ctx x) (fun x' => bind (evals r) (fun r' => Ok (x' :: r')))
               end) l) (fun l' => Ok (TLst l'))
  | EOr a b => bind (eval ctx a) (fun a' => bind (eval ctx b) (fun b' => or_ty a' b'))
  | EAttr e _ => bind (eval ctx e) (fun _ => Raise AttributeErrorC)
  | EInvalidSyntax => Raise SyntaxErrorC
  end.

Fixpoint evals (ctx : list string) (l : list texpr) : outcome (list ty) :=
  match l with
  | [] => Ok []
  | x :: r => bind (eval ctx x) (fun x' => bind (evals ctx r) (fun r' => Ok (x' :: r')))
  end.

(* names mentioned by an expression *)
Fixpoint enames (e : texpr) : list string :=
  match e with
  | EName n => [n]
  | ESub f s => enames f ++ enames s
  | ETuple l => flat_map enames l
  | EList l => flat_map enames l
  | EOr a b => enames a ++ enames b
  | EAttr e _ => enames e
  | _ => []
  end.

(* --------------------------------------------------------------------------------------- *)
(* well-formed type expressions: the documented-type vocabulary of the property.
   Names are arbitrary (an unknown name is a NameError, which pedantic turns into its own
   exception); what is excluded is everything on which `eval` raises something else.       *)

Definition is_generic_name (n : string) : bool :=
  match form_kind n with Some _ => true | None => false end.

(* the arguments of Tuple[...] / tuple[...]: types, optionally followed by `...` *)
Section TupleArgs.
  Variable wf : texpr -> bool.
  Fixpoint tuple_args_ok (l : list texpr) : bool :=
    match l with
    | [] => true
    | [EEllipsis] => true
    | x :: r => wf x && tuple_args_ok r
    end.
End TupleArgs.

(* an expression usable as a type argument *)
Fixpoint wf_expr (e : texpr) : bool :=
  match e with
  | ENone => true
  | EName n => negb (is_special_form n)
  | ESub (EName n) s =>
      match form_kind n with
      | Some KUnion =>
          match s with
          | ETuple l => negb (Nat.eqb (List.length l) 0) && forallb wf_expr l
          | x => wf_expr x
          end
      | Some KOptional =>
          match s with ETuple _ => false | x => wf_expr x end
      | Some (KFixed k) =>
          match s with
          | ETuple l => Nat.eqb (List.length l) k && forallb wf_expr l
          | x => Nat.eqb k 1 && wf_expr x
          end
      | Some KTuple =>
          match s with
          | ETuple l =>
              tuple_args_ok wf_expr l
          | x => wf_expr x
          end
      | Some KCallable =>
          match s with
          | ETuple [EEllipsis; r] => wf_expr r
          | ETuple [EList l; r] => forallb wf_expr l && wf_expr r
          | _ => false
          end
      | None =>
          mem n subscriptable_builtins &&
          match s with
          | ETuple l =>
              tuple_args_ok wf_expr l
          | x => wf_expr x
          end
      end
  | EOr a b =>
      wf_expr a && wf_expr b && negb (match a, b with ENone, ENone => true | _, _ => false end)
  | _ => false
  end.

(* --------------------------------------------------------------------------------------- *)
(* the parsed docstring: input of the docstring check (model) and of its specification.
   Produced by docstring_parser from func.__doc__; the parser itself is outside the model.  *)

Inductive rawdoc := RawNone | RawEmpty | RawText.      (* func.__doc__ is None / == '' / anything else *)

Record dtype := { dt_text : string; dt_expr : texpr }.

Definition dparam := (string * option dtype)%type.      (* arg_name, type_name *)

Record docT := {
  d_raw : rawdoc;
  d_params : list dparam;                  (* docstring.params, in docstring order *)
  d_returns : option (list dtype) }.       (* None: no Returns section; Some l: returns.args = 'returns' :: l *)


(* 'needle' in text (Python substring test on str) *)
Fixpoint contains (needle text : string) : bool :=
  String.prefix needle text ||
  match text with
  | EmptyString => false
  | String _ rest => contains needle rest
  end.
