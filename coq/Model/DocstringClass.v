(* C19 - classes: WHICH function objects the docstring-checking decorators see when they are applied to a class or to an
   attribute of a class, and WITH WHICH docstring.

   A class is its own dict (the functions defined in its body, in definition order) and, for this model, at most one
   base class (linear chains: the method resolution order is own dict, then the base, then its base ...).
     * pedantic_class_require_docstring(K)  - written as a decorator over the class statement or called later, once the
       class object exists - runs `for attr in cls.__dict__`: the OWN functions of K, in class-dict order; inherited ones
       are not touched (class_decorators.for_all_methods, pinned by a source lock).
     * pedantic(K.m) / pedantic_require_docstring(K.m) - `@...` in the class body, or called later on the attribute -
       receives the function object `getattr` finds: the nearest definition along the chain.
   In both cases the docstring that is checked is the `__doc__` of THAT function object (decorated_function.py: parse(func.__doc__),
   raw_doc = self._func.__doc__; Gen.Docstring.accessors_ok).  A method that overrides a documented method of a base class
   and has no docstring of its own HAS NO DOCSTRING: `inherited_doc` below (what inspect.getdoc / help() show) is not an
   input of the check.  No proofs in this file.                                                                         *)
From Coq Require Import List Bool String.
From PV Require Import Base.Exn Model.DocstringTyping Model.Docstring.
Import ListNotations.
Open Scope string_scope.
Open Scope list_scope.

Record meth := {
  m_name : string;
  m_ann : list (string * ty);              (* inspect.getfullargspec(f).annotations *)
  m_doc : docT }.                          (* f.__doc__ of this very function, parsed *)

Inductive klass := Klass (own : list meth) (parent : option klass).

Definition k_own (k : klass) : list meth := match k with Klass o _ => o end.
Definition k_parent (k : klass) : option klass := match k with Klass _ p => p end.

Fixpoint find_meth (n : string) (l : list meth) : option meth :=
  match l with
  | [] => None
  | m :: r => if String.eqb (m_name m) n then Some m else find_meth n r
  end.

(* getattr(K, n): own dict first, then along the chain *)
Fixpoint resolve (k : klass) (n : string) : option meth :=
  match k with
  | Klass own parent =>
      match find_meth n own with
      | Some m => Some m
      | None => match parent with Some p => resolve p n | None => None end
      end
  end.

(* the documentation a reader is shown for K.n (inspect.getdoc): the own docstring, and when that is None the docstring of
   the nearest ancestor's method of the same name that has one.  Deliberately NOT used by anything below. *)
Fixpoint inherited_doc (k : klass) (n : string) : option docT :=
  match k with
  | Klass own parent =>
      let up := match parent with Some p => inherited_doc p n | None => None end in
      match find_meth n own with
      | Some m => match d_raw (m_doc m) with RawNone => up | _ => Some (m_doc m) end
      | None => up
      end
  end.

Definition meth_case (req : bool) (m : meth) : fcase :=
  {| f_require := req; f_parser := true; f_ann := m_ann m; f_doc := m_doc m |}.

(* the functions a decoration of class k reaches, in decoration order:
     None        the class decorator (always require_docstring)
     Some names  a function decorator on the attributes K.n, n in names (decorator form: the own methods, in definition
                 order; call form: any attribute, in the order of the calls); an attribute that does not exist is an
                 AttributeError of the module, before any decorator runs                                              *)
Fixpoint resolve_all (k : klass) (names : list string) : outcome (list meth) :=
  match names with
  | [] => Ok []
  | n :: r => match resolve k n with
              | Some m => bind (resolve_all k r) (fun l => Ok (m :: l))
              | None => Raise AttributeErrorC
              end
  end.

Definition reached (req : bool) (k : klass) (how : option (list string)) : outcome (list fcase) :=
  match how with
  | None => Ok (map (meth_case true) (k_own k))
  | Some names => bind (resolve_all k names) (fun l => Ok (map (meth_case req) l))
  end.

Definition decorate_class (p : dprog) (k : klass) : outcome unit :=
  decorate_all p (map (meth_case true) (k_own k)).

Definition decorate_attr (p : dprog) (req : bool) (k : klass) (n : string) : outcome unit :=
  match resolve k n with
  | Some m => decorate p (meth_case req m)
  | None => Raise AttributeErrorC
  end.

(* a module that decorates several classes one after the other *)
Fixpoint reached_all (req : bool) (ds : list (klass * option (list string))) : outcome (list fcase) :=
  match ds with
  | [] => Ok []
  | (k, how) :: r => bind (reached req k how) (fun a => bind (reached_all req r) (fun b => Ok (a ++ b)))
  end.
