(* Executable model of pedantic/models/generator_wrapper.py: GeneratorWrapper around the generator
   object of a @pedantic generator function, as a state machine over next / send / throw / close.

   The generator protocol of CPython 3.12 (start, send, throw, close, exhaustion, the TypeError for a
   non-None value sent to a generator that has not started, PEP 479) is modelled, not verified.  A
   generator body is deterministic: a function from the history of resumptions to the next event.
   The checker is a Section variable (GeneratorWrapper passes no context: forward references cannot be
   resolved there).  No proofs here.                                                             *)
From Coq Require Import List Arith Bool.
From PV Require Import Base.Exn Base.Values Base.Ann Model.Checker.
Import ListNotations.
Open Scope list_scope.

Inductive resume := RSend (v : value) | RThrow (e : exn).          (* next() is send(None) *)
Inductive gev := GYield (v : value) | GReturn (v : value) | GRaise (e : exn).
Definition gbody := list resume -> gev.                             (* all resumptions so far, oldest first *)

Record gstate := { g_hist : list resume; g_started : bool; g_done : bool }.
Definition gstate0 : gstate := {| g_hist := []; g_started := false; g_done := false |}.

(* what an operation on the inner generator gives *)
Inductive ires := IYield (v : value) | IStop (v : value) | IRaise (e : exn) | INone.

Definition is_none (v : value) : bool := match v with VNone => true | _ => false end.

Section Inner.
  Variable body : gbody.

  Definition react (st : gstate) (r : resume) : ires * gstate :=
    let h := g_hist st ++ [r] in
    match body h with
    | GYield y => (IYield y, {| g_hist := h; g_started := true; g_done := false |})
    | GReturn v => (IStop v, {| g_hist := h; g_started := true; g_done := true |})
    | GRaise e =>
        (* PEP 479: a StopIteration that leaves the frame becomes a RuntimeError *)
        (IRaise (if derives e StopIterationC then RuntimeErrorC else e), {| g_hist := h; g_started := true; g_done := true |})
    end.

  Definition inner_send (st : gstate) (v : value) : ires * gstate :=
    if g_done st then (IStop VNone, st)
    else if negb (g_started st) && negb (is_none v) then (IRaise TypeErrorC, st)
    else react st (RSend v).

  Definition inner_throw (st : gstate) (e : exn) : ires * gstate :=
    if g_done st then (IRaise e, st)
    else if negb (g_started st) then (IRaise e, {| g_hist := g_hist st; g_started := false; g_done := true |})
    else react st (RThrow e).

  Definition inner_close (st : gstate) : ires * gstate :=
    if g_done st || negb (g_started st) then (INone, {| g_hist := g_hist st; g_started := g_started st; g_done := true |})
    else match react st (RThrow GeneratorExitC) with
         | (IYield _, st') => (IRaise RuntimeErrorC, st')             (* generator ignored GeneratorExit *)
         | (IStop _, st') => (INone, st')
         | (IRaise e, st') => if derives e GeneratorExitC then (INone, st') else (IRaise e, st')
         | (INone, st') => (INone, st')
         end.
End Inner.

(* ---------------- GeneratorWrapper ---------------- *)
Inductive gop := OpNext | OpSend (v : value) | OpThrow (e : exn) | OpClose.
(* what the caller of the wrapper gets *)
Inductive wres := WValue (v : value) | WStop (v : value) | WRaise (e : exn) | WNone.

Record wstate := { w_init : bool; w_tv : tvenv; w_inner : gstate }.
Definition wstate0 : wstate := {| w_init := false; w_tv := []; w_inner := gstate0 |}.

Section Wrapper.
  Variable check : ann -> value -> tvenv -> outcome unit * tvenv.
  Variable yt st_ rt : ann.                  (* _yield_type, _send_type, _return_type *)
  Variable body : gbody.

  (* GeneratorWrapper.send *)
  Definition w_send (w : wstate) (v : value) : wres * wstate :=
    let pre :=
      if w_init w then
        match check st_ v (w_tv w) with
        | (Ok _, tv') => Ok tv'
        | (Raise e, _) => Raise e
        end
      else Ok (w_tv w) in
    match pre with
    | Raise e => (WRaise e, w)
    | Ok tv1 =>
        match inner_send body (w_inner w) v with
        | (IStop r, g') =>
            match check rt r tv1 with
            | (Ok _, tv2) => (WStop r, {| w_init := true; w_tv := tv2; w_inner := g' |})
            | (Raise e, _) => (WRaise e, {| w_init := true; w_tv := tv1; w_inner := g' |})
            end
        | (IYield y, g') =>
            match check yt y tv1 with
            | (Ok _, tv2) => (WValue y, {| w_init := true; w_tv := tv2; w_inner := g' |})
            | (Raise e, _) => (WRaise e, {| w_init := true; w_tv := tv1; w_inner := g' |})
            end
        | (IRaise e, g') => (WRaise e, {| w_init := true; w_tv := tv1; w_inner := g' |})
        | (INone, g') => (WNone, {| w_init := true; w_tv := tv1; w_inner := g' |})
        end
    end.

  (* GeneratorWrapper.throw / close delegate to the generator; nothing is checked *)
  Definition w_throw (w : wstate) (e : exn) : wres * wstate :=
    match inner_throw body (w_inner w) e with
    | (IYield y, g') => (WValue y, {| w_init := w_init w; w_tv := w_tv w; w_inner := g' |})
    | (IStop r, g') => (WStop r, {| w_init := w_init w; w_tv := w_tv w; w_inner := g' |})
    | (IRaise e', g') => (WRaise e', {| w_init := w_init w; w_tv := w_tv w; w_inner := g' |})
    | (INone, g') => (WNone, {| w_init := w_init w; w_tv := w_tv w; w_inner := g' |})
    end.
  Definition w_close (w : wstate) : wres * wstate :=
    match inner_close body (w_inner w) with
    | (IRaise e', g') => (WRaise e', {| w_init := w_init w; w_tv := w_tv w; w_inner := g' |})
    | (_, g') => (WNone, {| w_init := w_init w; w_tv := w_tv w; w_inner := g' |})
    end.

  (* GeneratorWrapper.__next__: marks the wrapper initialised and resumes the generator with None - nothing is sent, so nothing
     is checked against the send type: a send(None) on a wrapper that is treated as not yet initialised *)
  Definition w_uninit (w : wstate) : wstate := {| w_init := false; w_tv := w_tv w; w_inner := w_inner w |}.
  Definition w_next (w : wstate) : wres * wstate := w_send (w_uninit w) VNone.

  Definition w_step (w : wstate) (o : gop) : wres * wstate :=
    match o with
    | OpNext => w_next w
    | OpSend v => w_send w v
    | OpThrow e => w_throw w e
    | OpClose => w_close w
    end.

  Fixpoint w_run (w : wstate) (ops : list gop) : list wres * wstate :=
    match ops with
    | [] => ([], w)
    | o :: ops' =>
        let (r, w1) := w_step w o in
        let (rs, w2) := w_run w1 ops' in
        (r :: rs, w2)
    end.
End Wrapper.
