(* Evaluation entry point of the correspondence stream env-history (harness/c09.py).       *)
From Coq Require Import List Bool String ZArith.
From PV Require Import Base.Exn Model.EnvSwitch Spec.EnvSpec Gen.Env.
Import ListNotations.
Open Scope Z_scope.

Definition the_model : switch_model :=
  {| sm_var := Gen.Env.env_var_name; sm_paths := Gen.Env.enabled_paths;
     sm_prog := Gen.Env.is_enabled_prog; sm_enable := Gen.Env.enable_pedantic_prog;
     sm_disable := Gen.Env.disable_pedantic_prog; sm_routes := Gen.Env.switch_routes;
     sm_refs := Gen.Env.env_refs |}.

Definition enc_obs (o : obs) : Z :=
  match o with
  | ONone => 0
  | ODeco true => 1          (* the very object *)
  | ODeco false => 2         (* a new / modified object *)
  | ODecoRaise => 3
  | OCalled Plain => 4
  | OCalled Checked => 5
  | OCalled CallRaises => 6
  end.

Definition dk (n : Z) : dkind :=
  match n with
  | 0 => DPedantic | 1 => DPedanticReqDoc | 2 => DPedanticClass | 3 => DPedanticClassReqDoc
  | 4 => DTraceClass | 5 => DTimerClass | _ => DForAllMethods
  end.

(* ops: [0; v] setenv (v: 0 -> "0", 1 -> "1", 2 -> "2", 3 -> "", 4 -> "true"), [1] unsetenv, [2] enable, [3] disable,
   [4; d; ...] decorate (further entries describe the target for the implementation worker; the model, like the
   statement, does not depend on them), [5; i] call, [6; d; ...] create a decorator object, [7; k; ...] apply the k-th
   created decorator object to a fresh target *)
Definition dec_op (l : list Z) : op :=
  match l with
  | [0; v] => OSetenv (match v with 0 => "0" | 1 => "1" | 2 => "2" | 3 => "" | _ => "true" end)%string
  | [1] => OUnsetenv
  | [2] => OEnable
  | [3] => ODisable
  | 4 :: d :: _ => ODecorate (dk d) 0
  | [5; i] => OCall (Z.to_nat i)
  | 6 :: d :: _ => OCreate (dk d)
  | 7 :: k :: _ => OApply (Z.to_nat k) 0
  | _ => OUnsetenv
  end.

Definition init_env (v : Z) : envv :=
  match v with 0 => Val "0" | 1 => Val "1" | 2 => Val "2" | 3 => Val "" | 4 => Val "true" | _ => Unset end%string.

(* model observations ++ [-1] ++ spec observations *)
Definition eval_case (init : Z) (h : list (list Z)) : list Z :=
  let ops := map dec_op h in
  map enc_obs (snd (run_ops the_model {| env := init_env init; objs := []; decos := [] |} ops))
  ++ [-1] ++ map enc_obs (snd (spec_run {| s_env := init_env init; s_objs := []; s_decos := 0%nat |} ops)).
