(* Evaluation entry point of the correspondence stream env-history (harness/c09.py).       *)
From Coq Require Import List Bool String ZArith.
From PV Require Import Base.Exn Model.EnvSwitch Spec.EnvSpec Gen.Env.
Import ListNotations.
Open Scope Z_scope.

Definition the_model : switch_model :=
  {| sm_var := Gen.Env.env_var_name; sm_paths := Gen.Env.enabled_paths;
     sm_prog := Gen.Env.is_enabled_prog; sm_enable := Gen.Env.enable_pedantic_prog;
     sm_disable := Gen.Env.disable_pedantic_prog; sm_routes := Gen.Env.switch_routes;
     sm_refs := Gen.Env.env_refs |}.

Definition enc_obs (o : obs) : Z :=
  match o with
  | ONone => 0
  | ODeco true => 1          (* the very object *)
  | ODeco false => 2         (* a new / modified object *)
  | ODecoRaise => 3
  | OCalled Plain => 4
  | OCalled Checked => 5
  | OCalled CallRaises => 6
  | OUnspec => 9             (* specification only: nothing is demanded *)
  end.

Definition dk (n : Z) : dkind :=
  match n with
  | 0 => DPedantic | 1 => DPedanticReqDoc | 2 => DPedanticClass | 3 => DPedanticClassReqDoc
  | 4 => DTraceClass | 5 => DTimerClass | _ => DForAllMethods
  end.

Definition dsrc_of (kind x : Z) : dsrc := match kind with 0 => Direct (dk x) | _ => Kept (Z.to_nat x) end.

(* ops: [0; v] setenv (v: 0 -> "0", 1 -> "1", 2 -> "2", 3 -> "", 4 -> "true"), [1] unsetenv, [2] enable, [3] disable,
   [4; d; ...] decorate (further entries describe the target for the implementation worker; the model, like the
   statement, does not depend on them), [5; i] call, [6; d; ...] create a decorator object, [7; k; ...] apply the k-th
   created decorator object to a fresh target,
   [8; i; w; 0; d; ...] / [8; i; w; 1; k] decorate again (directly with d / with the k-th created decorator object) the object
   that was given when object #i was decorated (w = 0) or object #i itself (w = 1),
   [9; i; 0; d; ...] / [9; i; 1; k] define a fresh subclass of object #i and decorate it *)
Definition dec_op (l : list Z) : op :=
  match l with
  | [0; v] => OSetenv (match v with 0 => "0" | 1 => "1" | 2 => "2" | 3 => "" | _ => "true" end)%string
  | [1] => OUnsetenv
  | [2] => OEnable
  | [3] => ODisable
  | 4 :: d :: _ => ODecorate (dk d)
  | [5; i] => OCall (Z.to_nat i)
  | 6 :: d :: _ => OCreate (dk d)
  | 7 :: k :: _ => OApply (Z.to_nat k)
  | 8 :: i :: w :: kind :: x :: _ => ORedecorate (dsrc_of kind x) (Z.to_nat i) (negb (Z.eqb w 0))
  | 9 :: i :: kind :: x :: _ => OSubDecorate (dsrc_of kind x) (Z.to_nat i)
  | _ => OUnsetenv
  end.

Definition init_env (v : Z) : envv :=
  match v with 0 => Val "0" | 1 => Val "1" | 2 => Val "2" | 3 => Val "" | 4 => Val "true" | _ => Unset end%string.

Definition init_state (e : envv) : state := {| env := e; heap := []; objs := []; decos := [] |}.
Definition init_sstate (e : envv) : sstate := {| s_env := e; s_beh := []; s_objs := []; s_decos := [] |}.

(* model observations ++ [-1] ++ spec observations *)
Definition eval_case (init : Z) (h : list (list Z)) : list Z :=
  let ops := map dec_op h in
  map enc_obs (snd (run_ops the_model (init_state (init_env init)) ops))
  ++ [-1] ++ map enc_obs (snd (spec_run (init_sstate (init_env init)) ops)).
