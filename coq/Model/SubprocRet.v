(* C17 - what the child hands back when the value the callee RETURNS is not plain data (input dimension
   `ret` of harness/c17.py): a picklable object with __await__, a generator-like object, a coroutine object.

   The child (`_inner`) has to decide whether something must be run on an event loop.  The regenerated
   child program says how it decides: CSetupLoop + CRunCallee true = by the FUNCTION, up front
   (inspect.iscoroutinefunction(fun)); CRunCallee false = never.  A third way - by the VALUE the call
   produced (inspect.isawaitable(res)) - is in the vocabulary of this model only (the translator fails
   closed on it); it is what Props/C17.v refutes.

   No proofs in this file. *)
From Coq Require Import List Arith Bool ZArith.
From PV Require Import Base.Exn Model.PipeKernel Model.Subproc.
Import ListNotations.

(* what awaiting an object with __await__ produces *)
Inductive await_out :=
| AwValue (n : nat)            (* a value: plain data n *)
| AwRaise (e : nat).           (* raises an exception of class number e *)

(* values a callee can return *)
Inductive value :=
| VData (n : nat)                          (* plain picklable data *)
| VAwaitable (cls : nat) (a : await_out)   (* picklable instance of class cls that defines __await__ *)
| VIterator (cls : nat)                    (* picklable generator-like object (no __await__) *)
| VCoro (v : value)                        (* a coroutine object whose completion returns v: NOT picklable *)
| VUnpicklable.                            (* any other value that cannot be pickled *)

Inductive callee :=
| SyncFn (returns : value)                 (* def f(...): return v *)
| CoroFn (returns : value).                (* async def f(...): return v *)

Inductive dispatch := DByFunction | DByValue | DNever.

Inductive sent :=
| SentValue (v : value)        (* tx.send(res) succeeded: the parent unpickles an equal object *)
| SentError (e : nat)          (* tx.send(SubprocessError(ex)) *)
| SendFails.                   (* pickling res raises outside the try: the child dies without a report *)

Definition picklable (v : value) : bool :=
  match v with VCoro _ | VUnpicklable => false | _ => true end.

(* inspect.isawaitable *)
Definition isawaitable (v : value) : bool :=
  match v with VAwaitable _ _ | VCoro _ => true | _ => false end.

(* calling the function (it returns normally: raising / dying callees are the business of Model/Subproc.v) *)
Definition call (c : callee) : value :=
  match c with SyncFn v => v | CoroFn v => VCoro v end.

(* event_loop.run_until_complete(x) *)
Definition run_until_complete (x : value) : value + nat :=
  match x with
  | VCoro v => inl v
  | VAwaitable _ (AwValue n) => inl (VData n)
  | VAwaitable _ (AwRaise e) => inr e
  | v => inl v                                (* not reached: guarded by the dispatch *)
  end.

Definition is_coroutine_function (c : callee) : bool :=
  match c with CoroFn _ => true | SyncFn _ => false end.

Definition send (r : value + nat) : sent :=
  match r with
  | inl v => if picklable v then SentValue v else SendFails
  | inr e => SentError e
  end.

Definition run_inner (d : dispatch) (c : callee) : sent :=
  match d with
  | DByFunction => if is_coroutine_function c then send (run_until_complete (call c)) else send (inl (call c))
  | DByValue => let res := call c in if isawaitable res then send (run_until_complete res) else send (inl res)
  | DNever => send (inl (call c))
  end.

(* how the regenerated child program decides *)
Definition is_setup (o : cop) : bool := match o with CSetupLoop => true | _ => false end.
Definition is_run (aware : bool) (o : cop) : bool :=
  match o with CRunCallee a => Bool.eqb a aware | _ => false end.
Definition dispatch_of (C : list cop) : option dispatch :=
  if existsb is_setup C && existsb (is_run true) C then Some DByFunction
  else if existsb (is_run false) C && negb (existsb (is_run true) C) then Some DNever
  else None.

(* ---- specification, from the property text: "yields exactly what the function returns ... when run with
   the same arguments" - for a coroutine function: what awaiting its call returns.  A value that cannot
   cross the process boundary cannot be yielded: then the await must fail (never yield something else). *)
Definition spec_result (c : callee) : value :=
  match c with SyncFn v => v | CoroFn v => v end.

Fixpoint value_eqb (a b : value) : bool :=
  match a, b with
  | VData n, VData m => Nat.eqb n m
  | VAwaitable k (AwValue n), VAwaitable k' (AwValue m) => Nat.eqb k k' && Nat.eqb n m
  | VAwaitable k (AwRaise n), VAwaitable k' (AwRaise m) => Nat.eqb k k' && Nat.eqb n m
  | VIterator k, VIterator k' => Nat.eqb k k'
  | VCoro x, VCoro y => value_eqb x y
  | VUnpicklable, VUnpicklable => true
  | _, _ => false
  end.

Definition sent_ok (c : callee) (s : sent) : bool :=
  let v := spec_result c in
  match s with
  | SentValue w => picklable v && value_eqb v w
  | SentError _ => false                    (* the function returned: reporting an exception is not its outcome *)
  | SendFails => negb (picklable v)
  end.

(* ---- entry point for the harness: ret kind x coroutine function -> [code]
   1 the parent gets an instance of the class the callee returned, 2 another value, 5 an exception raised
   by running the returned object, 0 nothing is sent (child dies: the parent reports ChildProcessError);
   9 the child program has no recognisable dispatch *)
Definition ret_value (k : nat) : value :=
  match k with
  | 0 => VData 7
  | 1 => VAwaitable 1 (AwValue 7)        (* 'awaitable' *)
  | 2 => VAwaitable 2 (AwRaise 20)       (* 'awaitable_fails' *)
  | 3 => VIterator 3                     (* 'iterator' *)
  | 4 => VAwaitable 4 (AwRaise 6)        (* 'awaitable_iter': a bare yield makes the Task raise RuntimeError *)
  | _ => VCoro (VData 7)                 (* 'coroutine' *)
  end.

Definition eval_ret (C : list cop) (k : nat) (is_async : bool) : list Z :=
  match dispatch_of C with
  | None => [9%Z]
  | Some d =>
      let v := ret_value k in
      match run_inner d (if is_async then CoroFn v else SyncFn v) with
      | SentValue w => if sent_ok (if is_async then CoroFn v else SyncFn v) (SentValue w) then [1%Z] else [2%Z]
      | SentError _ => [5%Z]
      | SendFails => [0%Z]
      end
  end.
