(* Evaluation entry point of the correspondence stream `dataclass` (harness/dc_common.py, C10 / C11).

   A case is a list of class chains, an initial heap of argument objects and a script of operations;
   `eval_case` runs the script on the model of Model/Dataclass.v under the REGENERATED decorator
   program (Gen/Dataclass.v) with the type checker of Model/Checker.v under the REGENERATED checker
   tables plugged in for `check`, and prints what the harness observes on the real classes:
   outcome class, journal (user __post_init__ / checked annotations, in order), class of the result,
   the object graph below every field in a canonical form, identity with the original's fields,
   number of mutable objects shared with the original, comparison tuples.  Codes only, no strings.
   No proofs here. *)
From Coq Require Import List ZArith Bool Arith.
From PV Require Import Base.Exn.
From PV Require Base.Values Base.Ann Model.CheckerCfg Model.Checker Spec.Conforms Gen.CheckerTables.
From PV Require Import Model.Dataclass Spec.DataclassSpec Gen.Dataclass.
Import ListNotations.
Open Scope Z_scope.

Definition FUEL : nat := 64%nat.
Definition EvalFailC : exn := [0%nat; 99%nat].        (* out of fuel / dangling token: never a normal result *)

Record env := mkEnv {
  e_ctx : list (nat * Values.cls * bool);     (* name -> class; flag: the name is local to the caller's frame *)
  e_anns : list Ann.ann;                      (* annotation token -> annotation object *)
  e_atoms : list Values.value;                (* atom number -> immutable value *)
  e_paths : list (list nat) }.                (* KUser c / KSelfCopy c -> user class *)

Definition ctx_of (E : env) (vis : bool) : nat -> option Values.cls :=
  fun n => match find (fun p => Nat.eqb (fst (fst p)) n && (vis || negb (snd p))) (e_ctx E) with
           | Some p => Some (snd (fst p)) | None => None end.

Fixpoint all_some {A} (l : list (option A)) : option (list A) :=
  match l with
  | [] => Some []
  | Some x :: r => match all_some r with Some t => Some (x :: t) | None => None end
  | None :: _ => None
  end.
Fixpoint pairs {A} (l : list A) : option (list (A * A)) :=
  match l with
  | [] => Some []
  | k :: v :: r => match pairs r with Some t => Some ((k, v) :: t) | None => None end
  | _ => None
  end.
Definition opt_bind {A B} (o : option A) (f : A -> option B) : option B := match o with Some x => f x | None => None end.

(* the tree the checker sees for a heap value *)
Fixpoint reify (fuel : nat) (E : env) (h : heap) (v : value) : option Values.value :=
  match fuel with
  | O => None
  | S k =>
    match v with
    | VAtom z => if z <? 0 then None else nth_error (e_atoms E) (Z.to_nat z)
    | VRef r =>
      match nth_error h r with
      | None => None
      | Some o =>
        let items := all_some (map (reify k E h) (o_items o)) in
        match o_kind o with
        | KList => option_map Values.VList items
        | KDict => option_map Values.VDict (opt_bind items pairs)
        | KOther 0%nat => option_map Values.VSet items
        | KOther 1%nat => option_map Values.VFrozenSet items
        | KOther 2%nat => option_map Values.VTuple items
        | KOther 3%nat => option_map Values.VDeque items
        | KOther 4%nat => option_map Values.VDefaultDict (opt_bind items pairs)
        | KOther 5%nat => option_map Values.VOrderedDict (opt_bind items pairs)
        | KOther _ => None
        | KUser c | KSelfCopy c =>
          match o_items o, nth_error (e_paths E) c with
          | [VAtom i], Some p => Some (Values.VInst p (Z.to_nat i))
          | _, _ => None
          end
        | KData _ => None
        end
      end
    end
  end.

Definition check_real (E : env) (vis : bool) (h : heap) (a : ann) (v : value) : outcome unit :=
  match nth_error (e_anns E) a, reify FUEL E h v with
  | Some A, Some V =>
    (* a plain string annotation is compared with the class NAMES in the MRO of the value: no context involved *)
    let vis' := match A with Ann.AStr _ => true | _ => vis end in
    fst (Checker.assert_matches1 CheckerTables.checker_cfg (ctx_of E vis') A V [])
  | _, _ => Raise EvalFailC
  end.

(* the specification's verdict for a field value (names as in the scope where the classes live) *)
Definition verdict_code (E : env) (h : heap) (a : ann) (v : value) : Z :=
  match nth_error (e_anns E) a, reify FUEL E h v with
  | Some A, Some V =>
    if Conforms.supported (ctx_of E true) A then
      match Conforms.conforms (ctx_of E true) A V with Conforms.Must => 1 | Conforms.MustNot => 2 | Conforms.Unspec => 0 end
    else 0
  | _, _ => 99
  end.

(* ---------------------------------------------------------------- codes *)
Definition FrozenC : exn := FrozenInstanceErrorC.
Definition enc_exn (e : exn) : Z :=
  if derives e EvalFailC then 99
  else if derives e PTypeCheckC then 1
  else if derives e PedanticExceptionC then 3
  else if derives e TypeErrorC then 10
  else if derives e ValueErrorC then 11
  else if derives e FrozenC then 13
  else if derives e AttributeErrorC then 12
  else if derives e NameErrorC then 14
  else match e with
       | [0%nat; k] => if Nat.leb 20%nat k then Z.of_nat k else 4
       | _ => if derives e ExceptionC then 4 else 5
       end.
Definition enc_event (e : event) : Z := match e with EPi c => 100 + Z.of_nat c | ECheck a _ => 1000 + Z.of_nat a end.
Definition kind_code (k : okind) : Z :=
  match k with
  | KList => 0 | KDict => 1 | KOther t => 10 + Z.of_nat t
  | KUser c => 100 + Z.of_nat c | KSelfCopy c => 200 + Z.of_nat c | KData c => 300 + Z.of_nat c
  end.
Definition mutable_kind (k : okind) : bool :=
  match k with
  | KList | KDict | KUser _ => true
  | KOther t => negb (Nat.eqb t 1%nat || Nat.eqb t 2%nat)      (* frozenset, tuple *)
  | KSelfCopy _ | KData _ => false
  end.

Fixpoint insert_z (x : Z) (l : list Z) : list Z :=
  match l with [] => [x] | y :: t => if x <=? y then x :: l else y :: insert_z x t end.
Definition sort_z (l : list Z) : list Z := fold_right insert_z [] l.
Definition atom_code (v : value) : Z := match v with VAtom z => z | VRef r => -1 - Z.of_nat r end.
(* sets are unordered: their elements (atoms in this stream) are shown sorted *)
Definition canon_items (o : obj) : list value :=
  match o_kind o with
  | KOther 0%nat => map VAtom (sort_z (map atom_code (o_items o)))
  | _ => o_items o
  end.

Fixpoint index_of (r : nat) (l : list nat) (i : nat) : option nat :=
  match l with [] => None | x :: t => if Nat.eqb x r then Some i else index_of r t (S i) end.

(* canonical form of the object graph below v: atoms by number, objects of the initial heap (< n0) by
   address, every other object by order of first visit *)
Fixpoint show (fuel : nat) (h : heap) (n0 : nat) (v : value) (seen : list nat) : list Z * list nat :=
  match fuel with
  | O => ([99], seen)
  | S k =>
    match v with
    | VAtom z => ([1; z], seen)
    | VRef r =>
      if (r <? n0)%nat then ([2; Z.of_nat r], seen) else
      match index_of r seen 0%nat with
      | Some i => ([4; Z.of_nat i], seen)
      | None =>
        match nth_error h r with
        | None => ([98], seen)
        | Some o =>
          let num := List.length seen in
          let res := fold_left (fun acc c => let sh := show k h n0 c (snd acc) in (fst acc ++ fst sh, snd sh))
                               (canon_items o) ([], seen ++ [r]) in
          ([3; Z.of_nat num; kind_code (o_kind o); Z.of_nat (List.length (o_items o))] ++ fst res, snd res)
        end
      end
    end
  end.

Definition show_fields (h : heap) (n0 : nat) (r : nat) (names : list name) : list Z :=
  fst (fold_left (fun acc n =>
         match getattr h r n with
         | Some v => let sh := show FUEL h n0 v (snd acc) in (fst acc ++ [-2; Z.of_nat n] ++ fst sh, snd sh)
         | None => (fst acc ++ [-2; Z.of_nat n; 97], snd acc)
         end) names ([], [])).
Definition show_values (h : heap) (n0 : nat) (vs : list value) : list Z :=
  fst (fold_left (fun acc v => let sh := show FUEL h n0 v (snd acc) in (fst acc ++ fst sh, snd sh)) vs ([], [])).

Fixpoint zlist_eqb (a b : list Z) : bool :=
  match a, b with [], [] => true | x :: a', y :: b' => Z.eqb x y && zlist_eqb a' b' | _, _ => false end.
Definition value_eqb (a b : value) : bool :=
  match a, b with VAtom x, VAtom y => Z.eqb x y | VRef x, VRef y => Nat.eqb x y | _, _ => false end.

(* mutable objects (not opted out of deep copying) reachable from the given values *)
Definition reach_mutable (h : heap) (vs : list value) : option (list nat) :=
  match reach_list (FUEL * FUEL)%nat h vs [] with
  | Some l => Some (filter (fun q => match nth_error h q with Some o => mutable_kind (o_kind o) | None => false end) l)
  | None => None
  end.

(* ---------------------------------------------------------------- script *)
Inductive op :=
| OCtor (c : nat) (pos : list value) (kw : list (name * value))
| OCopy (i : nat) (kw : list (name * value))
| ODeep (i : nat) (kw : list (name * value))
| OValidate (i : nat)
| OSetattr (i : nat) (n : name) (v : value)
| ODelattr (i : nat) (n : name)
| OAppend (i : nat) (n : name) (v : value)
| OCmp (o : cmpop) (i j : nat)
| OHash (i : nat).

Section Run.
  Variable E : env.
  Variable classes : list chain.
  Variable n0 : nat.
  Let P := Gen.Dataclass.dc_prog.
  Let chk := check_real E.

  Definition regs := list (option (nat * nat)).      (* (class index, address) of the instances made so far *)
  Definition reg (R : regs) (i : nat) : option (chain * nat) :=
    match nth_error R i with
    | Some (Some (c, r)) => match nth_error classes c with Some C => Some (C, r) | None => None end
    | _ => None
    end.

  (* CPython's binding of positional arguments to the generated __init__ *)
  Definition head_kw_only (C : chain) : bool :=
    match nearest_deco C with Some (L :: _) => eff_kw_only P L | _ => false end.
  Fixpoint zip_pos (fs : list field) (pos : list value) : option (list (name * value)) :=
    match pos, fs with
    | [], _ => Some []
    | v :: pos', f :: fs' => match zip_pos fs' pos' with Some t => Some ((f_name f, v) :: t) | None => None end
    | _ :: _, [] => None
    end.
  Definition bind_pos (C : chain) (pos : list value) (kw : list (name * value)) : option (list (name * value)) :=
    match pos with
    | [] => Some kw
    | _ =>
      if head_kw_only C then None else
      match zip_pos (filter f_init (dc_fields C)) pos with
      | Some b => if existsb (fun nv => mem (fst nv) (map fst b)) kw then None else Some (b ++ kw)
      | None => None
      end
    end.

  Definition journal_since (j0 : nat) (st : state) : list Z := map enc_event (skipn j0 (s_journal st)).

  (* observation of a freshly made instance *)
  Definition obs_instance (C : chain) (st : state) (r : nat) : list Z :=
    [match class_of (s_heap st) r with Some c => Z.of_nat c | None => -9 end]
    ++ show_fields (s_heap st) n0 r (field_names C).
  (* the specification's verdict for every field of object r *)
  Definition verdicts (C : chain) (h : heap) (r : nat) : list Z :=
    map (fun f => match getattr h r (f_name f) with Some v => verdict_code E h (f_ann f) v | None => 97 end) (dc_fields C).
  (* ... of the object the property text describes for this request (Spec.DataclassSpec.spec_final_value: the keyword /
     original / default value, overwritten by what the user-written __post_init__ hooks assign): independent
     of the decorator program, so that the oracle stays what it is when the program is a mutated one *)
  Definition cand_verdicts (C : chain) (p : path) (st : state) : list Z :=
    let '(orig, kw) := match p with ByCtor kw => (None, kw) | ByCopy r0 kw | ByDeep r0 kw => (Some r0, kw) end in
    if path_request_ok (dc_fields C) p (s_heap st) then
      map (fun f => match spec_final_value C (s_heap st) orig kw f with
                    | Some (h', v) => verdict_code E h' (f_ann f) v
                    | None => 97
                    end) (dc_fields C)
    else [96].

  (* identity of the copy's fields with the original's and with the keyword values; mutable sharing *)
  (* `others`: the instances made earlier in this run other than the receiver (history: a copy must not hand out
     objects that an earlier copy holds) *)
  Definition obs_copy (C : chain) (st0 st : state) (r0 r : nat) (kw : list (name * value)) (others : list nat) : list Z :=
    [-5] ++ map (fun n => match getattr (s_heap st) r n, getattr (s_heap st0) r0 n with
                          | Some a, Some b => if value_eqb a b then 1 else 0 | _, _ => 2 end) (field_names C)
    ++ [-5] ++ map (fun n => match getattr (s_heap st) r n, lookup kw n with
                             | Some a, Some b => if value_eqb a b then 1 else 0 | _, _ => 2 end) (field_names C)
    ++ [-5; let orig := reach_mutable (s_heap st) (match nth_error (s_heap st) r0 with Some o => children o | None => [] end) in
            let unrep := filter (fun n => negb (is_some (lookup kw n))) (map f_name (filter f_init (dc_fields C))) in
            let mine := reach_mutable (s_heap st)
                          (flat_map (fun n => match getattr (s_heap st) r n with Some v => [v] | None => [] end) unrep) in
            match orig, mine with
            | Some a, Some b => Z.of_nat (List.length (filter (fun q => existsb (Nat.eqb q) a) b))
            | _, _ => 99
            end;
        if zlist_eqb (show_fields (s_heap st0) n0 r0 (field_names C)) (show_fields (s_heap st) n0 r0 (field_names C)) then 1 else 0;
        let unrep := filter (fun n => negb (is_some (lookup kw n))) (map f_name (filter f_init (dc_fields C))) in
        let mine := reach_mutable (s_heap st)
                      (flat_map (fun n => match getattr (s_heap st) r n with Some v => [v] | None => [] end) unrep) in
        let theirs := reach_mutable (s_heap st)
                        (flat_map (fun q => match nth_error (s_heap st) q with Some o => children o | None => [] end) others) in
        match theirs, mine with
        | Some a, Some b => Z.of_nat (List.length (filter (fun q => existsb (Nat.eqb q) a) b))
        | _, _ => 99
        end].

  Definition other_regs (R : regs) (r0 : nat) : list nat :=
    flat_map (fun x => match x with Some (_, q) => if Nat.eqb q r0 then [] else [q] | None => [] end) R.

  Definition step (o : op) (R : regs) (st : state) : list Z * regs * state :=
    let j0 := List.length (s_journal st) in
    match o with
    | OCtor c pos kw =>
      match nth_error classes c with
      | None => ([98], R ++ [None], st)
      | Some C =>
        match bind_pos C pos kw with
        | None => ([enc_exn TypeErrorC], R ++ [None], st)
        | Some kw' =>
          match construct P chk VCtor C kw' st with
          | (st', Ok r) =>
            ([0] ++ journal_since j0 st' ++ [-6] ++ cand_verdicts C (ByCtor kw') st ++ [-3] ++ obs_instance C st' r,
             R ++ [Some (c, r)], st')
          | (st', Raise e) => ([enc_exn e] ++ journal_since j0 st' ++ [-6] ++ cand_verdicts C (ByCtor kw') st, R ++ [None], st')
          end
        end
      end
    | OCopy i kw | ODeep i kw =>
      match reg R i, nth_error R i with
      | Some (C, r0), Some (Some (c, _)) =>
        match (match o with OCopy _ _ => copy_with P chk C r0 kw st | _ => deep_copy_with P chk C r0 kw st end) with
        | (st', Ok r) =>
          ([0] ++ journal_since j0 st' ++ [-6]
           ++ cand_verdicts C (match o with OCopy _ _ => ByCopy r0 kw | _ => ByDeep r0 kw end) st
           ++ [-3] ++ obs_instance C st' r ++ obs_copy C st st' r0 r kw (other_regs R r0), R ++ [Some (c, r)], st')
        | (st', Raise e) =>
          ([enc_exn e] ++ journal_since j0 st' ++ [-6]
           ++ cand_verdicts C (match o with OCopy _ _ => ByCopy r0 kw | _ => ByDeep r0 kw end) st ++ [-3;
            if zlist_eqb (show_fields (s_heap st) n0 r0 (field_names C)) (show_fields (s_heap st') n0 r0 (field_names C)) then 1 else 0],
           R ++ [None], st')
        end
      | _, _ => ([98], R ++ [None], st)
      end
    | OValidate i =>
      match reg R i with
      | Some (C, r) =>
        match validate_types P chk true C r st with
        | (st', Ok _) => ([0] ++ journal_since j0 st' ++ [-6] ++ verdicts C (s_heap st) r, R, st')
        | (st', Raise e) => ([enc_exn e] ++ journal_since j0 st' ++ [-6] ++ verdicts C (s_heap st) r, R, st')
        end
      | None => ([98], R, st)
      end
    | OSetattr i n v =>
      match reg R i with
      | Some (C, r) =>
        match setattr P C r n v st with
        | (st', Ok _) => ([0], R, st')
        | (st', Raise e) =>
          ([enc_exn e; if zlist_eqb (show_fields (s_heap st) n0 r (field_names C)) (show_fields (s_heap st') n0 r (field_names C)) then 1 else 0], R, st')
        end
      | None => ([98], R, st)
      end
    | ODelattr i n =>
      match reg R i with
      | Some (C, r) =>
        match delattr P C r n st with
        | (st', Ok _) => ([0], R, st')
        | (st', Raise e) =>
          ([enc_exn e; if zlist_eqb (show_fields (s_heap st) n0 r (field_names C)) (show_fields (s_heap st') n0 r (field_names C)) then 1 else 0], R, st')
        end
      | None => ([98], R, st)
      end
    | OAppend i n v =>
      match reg R i with
      | Some (C, r) =>
        match getattr (s_heap st) r n with
        | Some (VRef q) =>
          match nth_error (s_heap st) q with
          | Some (mkObj KList _ _) =>
            ([0], R, mkSt (heap_upd (s_heap st) q (fun o => mkObj (o_kind o) (o_items o ++ [v]) (o_attrs o))) (s_journal st))
          | _ => ([98], R, st)
          end
        | _ => ([98], R, st)
        end
      | None => ([98], R, st)
      end
    | OCmp co i j =>
      match reg R i, reg R j with
      | Some (C, r1), Some (_, r2) =>
        match dc_cmp P (list value * list value) (fun _ _ a b => Ok (a, b)) co C (s_heap st) r1 r2 with
        | Ok (ViaTuple (a, b)) => ([1] ++ show_values (s_heap st) n0 a ++ [-3] ++ show_values (s_heap st) n0 b, R, st)
        | Ok NotImpl => ([0], R, st)
        | Raise e => ([2; enc_exn e], R, st)
        end
      | _, _ => ([98], R, st)
      end
    | OHash i =>
      match reg R i with
      | Some (C, r) =>
        match dc_hash P (list value) (fun _ a => Ok a) C (s_heap st) r with
        | Ok a => ([1] ++ show_values (s_heap st) n0 a, R, st)
        | Raise e => ([2; enc_exn e], R, st)
        end
      | None => ([98], R, st)
      end
    end.

  Fixpoint run_ops (ops : list op) (R : regs) (st : state) : list Z * regs * state :=
    match ops with
    | [] => ([], R, st)
    | o :: rest =>
      let '(out, R', st') := step o R st in
      let '(outs, R'', st'') := run_ops rest R' st' in ([-1] ++ out ++ outs, R'', st'')
    end.
End Run.

(* per operation: -1, observation.  The operations of `prefix` run in sequence; every list of `branches`
   then runs from the state (and the instances) the prefix left, independently of the other branches. *)
Definition eval_case (E : env) (classes : list chain) (h0 : heap) (prefix : list op) (branches : list (list op)) : list Z :=
  let '(out, R, st) := run_ops E classes (List.length h0) prefix [] (mkSt h0 []) in
  out ++ flat_map (fun b => fst (fst (run_ops E classes (List.length h0) b R st))) branches.
