(* C17 - the operating-system side of in_subprocess, as far as the protocol needs it.

   One-way pipe (multiprocess.Pipe(duplex=False)) with
     - per-process descriptor tables restricted to one pipe (`ends`: does the process hold the
       read end / the write end),
     - reader / writer reference counts computed from the tables of the *live* processes,
     - `fork_copy`: fork() hands the child a copy of the parent's table (the child holds
       every end the parent holds at that moment, also ends of *other* invocations' pipes),
     - `k_recv`: data available -> the message; no data and no writer left -> EOFError;
       a truncated message and no writer left -> OSError("got end of file during message");
       otherwise the caller blocks,
     - `k_readable`: what select()/poll()/loop.add_reader report (data or EOF),
     - child status and zombies (exited but not joined).

   The capacity of the pipe buffer enters through the two-step write of a *large* message: the
   first step fills the buffer, the second is enabled only while the reader drains the pipe
   (Model/Subproc.v, `parent_receiving`); a child can die in the middle of such a write.
   NOT modelled (C17 is claimed PARTIAL): thread/process scheduling by the OS, exact byte
   counts, pickling, the asyncio selector and its reader callbacks.  No proofs in this file.          *)
From Coq Require Import List Arith Bool.
From PV Require Import Base.Exn.
Import ListNotations.

(* OSError subclass raised by the repaired parent; numbering local to C17 (harness/c17.py
   maps classes by name, not through harness/excs.py) *)
Definition ChildProcessErrorC : exn := [0; 11; 0].
(* stands for whatever class unpickling the received message raises in the parent (TypeError from
   an exception class whose __init__ needs two arguments, anything a __reduce__ callable raises):
   an Exception that is neither EOFError nor OSError.  (An unpickling error that IS an OSError is
   indistinguishable, for the protocol, from a truncated message.) *)
Definition UnpickleErrC : exn := [0; 31].
(* asyncio.CancelledError: a BaseException that is not an Exception; numbering local to C17 *)
Definition CancelledErrorC : exn := [4].

(* ---- descriptor tables ------------------------------------------------------------ *)
Record ends := { e_rx : bool; e_tx : bool }.
Definition no_ends : ends := {| e_rx := false; e_tx := false |}.
Definition both_ends : ends := {| e_rx := true; e_tx := true |}.
Definition close_rx (t : ends) : ends := {| e_rx := false; e_tx := e_tx t |}.
Definition close_tx (t : ends) : ends := {| e_rx := e_rx t; e_tx := false |}.
Definition fork_copy (parent : ends) : ends := parent.
Definition holds_any (t : ends) : bool := e_rx t || e_tx t.

(* a process table entry for a *foreign* pipe: (pipe id, which ends) *)
Definition ftable := list (nat * ends).
Fixpoint ft_tx_count (t : ftable) (p : nat) : nat :=
  match t with
  | [] => 0
  | (q, e) :: t' => (if Nat.eqb q p && e_tx e then 1 else 0) + ft_tx_count t' p
  end.
Fixpoint ft_rx_count (t : ftable) (p : nat) : nat :=
  match t with
  | [] => 0
  | (q, e) :: t' => (if Nat.eqb q p && e_rx e then 1 else 0) + ft_rx_count t' p
  end.

Definition b2n (b : bool) : nat := if b then 1 else 0.

(* ---- messages ------------------------------------------------------------------- *)
(* The payload is opaque: what matters is *whose* object it is.  PlResult is the pickled
   return value of this invocation's callee, PlError the pickled SubprocessError wrapping the
   exception this invocation's callee raised. *)
Inductive payload := PlResult | PlError.
Inductive msg := MFull (p : payload) | MTrunc.

Definition k_send (data : list msg) (p : payload) : list msg := data ++ [MFull p].
Definition k_send_begin (data : list msg) : list msg := data ++ [MTrunc].
Fixpoint k_send_end (data : list msg) (p : payload) : list msg :=
  match data with
  | [] => [MFull p]
  | [MTrunc] => [MFull p]
  | m :: rest => m :: k_send_end rest p
  end.

Inductive recv_res :=
| RecvMsg (p : payload) (rest : list msg)
| RecvBlock
| RecvRaise (e : exn).

Definition k_recv (data : list msg) (nwriters : nat) : recv_res :=
  match data with
  | MFull p :: rest => RecvMsg p rest
  | MTrunc :: _ => if Nat.eqb nwriters 0 then RecvRaise OSErrorC else RecvBlock
  | [] => if Nat.eqb nwriters 0 then RecvRaise EOFErrorC else RecvBlock
  end.

Definition k_readable (data : list msg) (nwriters : nat) : bool :=
  match data with [] => Nat.eqb nwriters 0 | _ :: _ => true end.

(* ---- child processes -------------------------------------------------------------- *)
Inductive cstatus := CNotStarted | CRunning | CExited.
Definition cs_running (c : cstatus) : bool := match c with CRunning => true | _ => false end.
Definition cs_exited (c : cstatus) : bool := match c with CExited => true | _ => false end.
Definition zombie (c : cstatus) (joined : bool) : bool := cs_exited c && negb joined.

(* writer reference count of one pipe: the parent's own end, the own child's end while it
   lives, and the ends inherited by other live children (`env`) *)
Definition k_writers (parent : ends) (cs : cstatus) (child : ends) (env : nat) : nat :=
  b2n (e_tx parent) + b2n (cs_running cs && e_tx child) + env.
Definition k_readers (parent : ends) (cs : cstatus) (child : ends) (env : nat) : nat :=
  b2n (e_rx parent) + b2n (cs_running cs && e_rx child) + env.
