(* Semantics of the code family "counter loop with try-return / except-handler, then a
   final statement" to which pedantic/decorators/fn_deco_retry.py:retry_func belongs.
   The *parameters* of the family (initial counter, loop comparison, caught classes,
   handler statements, statement after the loop, how arguments are forwarded) are
   extracted from the current source by translator/t_retry.py into Gen/Retry.v on every
   run; this file gives every member of the family its meaning.  No proofs here.        *)
From Coq Require Import List ZArith Bool.
From PV Require Import Base.Exn.
Import ListNotations.
Open Scope Z_scope.

Inductive cmp := CLt | CLe | CGt | CGe | CEq | CNe.

Definition cmp_eval (c : cmp) (a b : Z) : bool :=
  match c with
  | CLt => a <? b | CLe => a <=? b | CGt => a >? b | CGe => a >=? b
  | CEq => a =? b | CNe => negb (a =? b)
  end.

(* what the handler of the try statement does, statement by statement *)
Inductive hstmt := HLog | HIncr (k : Z) | HSleep | HReraise | HPass | HBreak | HReturnNone.

Inductive catch_spec :=
| CatchParam              (* except exceptions:  the caller's specification *)
| CatchAll                (* bare except / except BaseException *)
| CatchCls (c : exn).     (* except <fixed class> *)

Inductive after_loop := AfterCall | AfterReturnNone.

(* how the callee is invoked *)
Inductive fwd := FwdSame      (* func( *args, **kwargs ) with the caller's objects *)
               | FwdOther.    (* anything else *)

Record retry_cfg := {
  rc_init : Z;
  rc_cmp : cmp;
  rc_catch : catch_spec;
  rc_handler : list hstmt;
  rc_after : after_loop;
  rc_try_fwd : fwd;
  rc_after_fwd : fwd;
}.

(* outcome of one invocation of the callee; objects are identified by the index of the
   invocation that produced them, so "the very same object" is equality of indices *)
Inductive oc := ORet | ORaise (e : exn).

Inductive event := ECall (f : fwd) | ESleep | ELog.

Inductive result :=
| RFrom (i : nat)     (* hands the caller exactly what invocation i returned / raised *)
| RNone               (* returns None without it coming from the callee *)
| RDiverge.           (* fuel exhausted: the loop of this configuration does not terminate *)

Section Sem.
  Variable cfg : retry_cfg.
  Variable attempts : Z.
  Variable listed : exn -> bool.      (* isinstance(e, exceptions) *)
  Variable outs : nat -> oc.          (* outcome of the i-th invocation *)

  Definition catches (e : exn) : bool :=
    match rc_catch cfg with
    | CatchParam => listed e
    | CatchAll => true
    | CatchCls c => derives e c
    end.

  Inductive hres := HFall (attempt : Z) | HRaised | HBroke (attempt : Z) | HRetNone.

  Fixpoint run_handler (h : list hstmt) (attempt : Z) (tr : list event) : hres * list event :=
    match h with
    | [] => (HFall attempt, tr)
    | HLog :: h' => run_handler h' attempt (tr ++ [ELog])
    | HIncr k :: h' => run_handler h' (attempt + k) tr
    | HSleep :: h' => run_handler h' attempt (tr ++ [ESleep])
    | HPass :: h' => run_handler h' attempt tr
    | HReraise :: _ => (HRaised, tr)
    | HBreak :: _ => (HBroke attempt, tr)
    | HReturnNone :: _ => (HRetNone, tr)
    end.

  Definition after (i : nat) (tr : list event) : result * list event :=
    match rc_after cfg with
    | AfterCall => (RFrom i, tr ++ [ECall (rc_after_fwd cfg)])
    | AfterReturnNone => (RNone, tr)
    end.

  Fixpoint loop (fuel : nat) (attempt : Z) (i : nat) (tr : list event) : result * list event :=
    match fuel with
    | O => (RDiverge, tr)
    | S fuel' =>
      if cmp_eval (rc_cmp cfg) attempt attempts then
        let tr1 := tr ++ [ECall (rc_try_fwd cfg)] in
        match outs i with
        | ORet => (RFrom i, tr1)
        | ORaise e =>
          if catches e then
            match run_handler (rc_handler cfg) attempt tr1 with
            | (HFall a', tr2) => loop fuel' a' (S i) tr2
            | (HRaised, tr2) => (RFrom i, tr2)
            | (HBroke a', tr2) => after (S i) tr2
            | (HRetNone, tr2) => (RNone, tr2)
            end
          else (RFrom i, tr1)
        end
      else after i tr
    end.

  (* enough for every terminating member of the family whose counter moves by >= 1 towards
     the bound; a non-terminating configuration yields RDiverge, never a normal-looking value *)
  Definition fuel_for : nat := Z.to_nat (Z.abs (attempts - rc_init cfg)) + 2.

  Definition retry_run : result * list event := loop fuel_for (rc_init cfg) 0%nat [].
End Sem.

Definition is_call (e : event) : bool := match e with ECall _ => true | _ => false end.
Definition is_sleep (e : event) : bool := match e with ESleep => true | _ => false end.
Definition n_calls (tr : list event) : nat := List.length (filter is_call tr).
Definition n_sleeps (tr : list event) : nat := List.length (filter is_sleep tr).
Definition not_log (e : event) : bool := match e with ELog => false | _ => true end.
