(* Executable model of pedantic/type_checking_logic/check_types.py:
   assert_value_matches_type / _check_type / _is_instance and the element-wise checkers.
   Exception precise.  Everything that is data in the source (registries, arity tables, bare
   sets, conversion chain, handler table, quantifiers and indices of the element-wise
   checkers) comes from a `checker_cfg` regenerated on every run.  No proofs here.            *)
From Coq Require Import List Arith Bool ZArith.
From PV Require Import Base.Exn Base.Values Base.Ann Model.CheckerCfg.
Import ListNotations.

(* what a TypeVar is bound to: the class of an earlier value, or an annotation (type argument
   of a generic instance Cls[X]) *)
Inductive tvbind := BCls (c : cls) | BAnn (a : ann).
Definition tvenv := list (nat * tvbind).

Fixpoint tv_lookup (tv : tvenv) (i : nat) : option tvbind :=
  match tv with
  | [] => None
  | (j, b) :: tv' => if Nat.eqb i j then Some b else tv_lookup tv' i
  end.
Fixpoint tv_set (tv : tvenv) (i : nat) (b : tvbind) : tvenv :=
  match tv with
  | [] => [(i, b)]
  | (j, b') :: tv' => if Nat.eqb i j then (j, b) :: tv' else (j, b') :: tv_set tv' i b
  end.

Definition res := (outcome bool * tvenv)%type.

Definition is_typevar (a : ann) : bool := match a with ATypeVar _ => true | _ => false end.
Definition is_none_cls (a : ann) : bool := match a with ACls CNoneType => true | _ => false end.

(* typing gives Union[X, None] (two members, one of them NoneType) the name 'Optional' *)
Definition is_optional (args : list ann) : bool :=
  match args with [a; b] => is_none_cls a || is_none_cls b | _ => false end.

(* _get_name as far as the tables can see it *)
Definition ann_name (a : ann) : option tname :=
  match a with
  | AGeneric SpTyping o _ => Some o
  | ATupleVar SpTyping _ | ATupleEmpty SpTyping => Some TTuple
  | ABare o => Some o
  | ACallable _ _ => Some TCallable
  | AUnion UTyping args => if is_optional args then Some TOptional else None
  | AAny => Some TAny
  | _ => None
  end.

(* len(get_type_arguments(cls)) *)
Definition n_type_args (a : ann) : nat :=
  match a with
  | AGeneric _ _ args => List.length args
  | ATupleVar _ _ => 2
  | ACallable _ _ => 2
  | AUnion _ args => List.length args
  | ALiteral vals => List.length vals
  | _ => 0
  end.

(* quantified evaluation with state threading and exception propagation, in iteration order:
   all(...) stops at the first False, any(...) at the first True (generator expressions) *)
Section Iter.
  Context {A : Type}.
  Variable f : A -> tvenv -> res.
  Fixpoint q_all (l : list A) (tv : tvenv) : res :=
    match l with
    | [] => (Ok true, tv)
    | x :: l' => match f x tv with
                 | (Ok true, tv') => q_all l' tv'
                 | r => r
                 end
    end.
  Fixpoint q_any (l : list A) (tv : tvenv) : res :=
    match l with
    | [] => (Ok false, tv)
    | x :: l' => match f x tv with
                 | (Ok false, tv') => q_any l' tv'
                 | r => r
                 end
    end.
  Definition q_run (q : quant) := match q with QAll => q_all | QAny => q_any end.
End Iter.

Section Checker.
  Variable cfg : checker_cfg.
  Variable ctx : nat -> option cls.                 (* names that forward references / strings resolve to *)
  Variable hook : ann -> value -> tvenv -> res.     (* check against an annotation a TypeVar is bound to *)

  Definition in_cls (c : cls) (l : list cls) : bool := existsb (cls_eqb c) l.

  Definition has_required_tables (a : ann) : bool :=
    match ann_name a with
    | Some n =>
        match req_exact cfg n with
        | Some k => Nat.eqb k (n_type_args a)
        | None => match req_min cfg n with Some k => Nat.leb k (n_type_args a) | None => true end
        end
    | None => true
    end.
  (* Tuple[()] (typing alias named Tuple with __args__ == ()) is complete when the source says so.
     A plain class: when the source answers True for it first (plain_class_complete) that is a fact about every class;
     otherwise its __name__ is looked up in the arity tables, and `ann_name (ACls _) = None` is the ASSUMPTION that no class in
     play is called like a key of those tables (a user class named List / Dict / Tuple ... would be "incomplete"). *)
  Definition has_required (a : ann) : bool :=
    match a with
    | ATupleEmpty SpTyping | AGeneric SpTyping TTuple [] => tuple_empty_ok cfg || has_required_tables a
    | ACls _ => plain_class_complete cfg || has_required_tables a
    | _ => has_required_tables a
    end.

  (* plain class at the end of _is_instance *)
  Definition inst_cls (c : cls) (v : value) : outcome bool :=
    if in_cls c (bare_builtins cfg) then Raise PTypeCheckC else Ok (isinstance v c).

  (* arity that typing itself enforces when convert_to_typing_types subscripts typing.X *)
  Definition typing_arity_ok (o : tname) (n : nat) : bool :=
    match o with
    | TList | TSet | TFrozenSet | TType => Nat.eqb n 1
    | TDict => Nat.eqb n 2
    | _ => true
    end.

  (* does convert_to_typing_types succeed on this builtin alias?  It recurses into builtin
     aliases only, rejects bare builtin classes as arguments and unknown origins *)
  Fixpoint conv_ok (a : ann) : outcome unit :=
    let fix go (l : list ann) : outcome unit :=
      match l with
      | [] => Ok tt
      | x :: l' => match conv_ok x with Ok _ => go l' | Raise e => Raise e end
      end in
    (* arguments of type[...]: classes are kept as they are *)
    let fix go_type (l : list ann) : outcome unit :=
      match l with
      | [] => Ok tt
      | ACls _ :: l' => go_type l'
      | x :: l' => match conv_ok x with Ok _ => go_type l' | Raise e => Raise e end
      end in
    match a with
    | ACls c => if in_cls c (conv_bare cfg) then Raise ValueErrorC else Ok tt
    | AGeneric SpBuiltin o args =>
        match (if tname_eqb o TType && conv_type_keeps_classes cfg then go_type args else go args) with
        | Raise e => Raise e
        | Ok _ => if existsb (tname_eqb o) (conv_origins cfg)
                  then (if typing_arity_ok o (List.length args) then Ok tt else Raise TypeErrorC)
                  else Raise RuntimeErrorC
        end
    | ATupleVar SpBuiltin e =>
        match conv_ok e with
        | Raise x => Raise x
        | Ok _ => if existsb (tname_eqb TTuple) (conv_origins cfg) then Ok tt else Raise RuntimeErrorC
        end
    | ATupleEmpty SpBuiltin => if existsb (tname_eqb TTuple) (conv_origins cfg) then Ok tt else Raise RuntimeErrorC
    (* collections.abc.X[...] / collections.deque[...]: the origin is not in the conversion chain *)
    | AGeneric SpAbc o args => match go args with Raise e => Raise e | Ok _ => Raise RuntimeErrorC end
    | ATupleVar SpAbc e => match conv_ok e with Raise x => Raise x | Ok _ => Raise RuntimeErrorC end
    | ATupleEmpty SpAbc => Raise RuntimeErrorC
    | _ => Ok tt
    end.

  (* _is_subtype(sub, super) where sub is a class: the annotation of a def function's
     parameter / result (a class; Any is object; inspect's empty marker) or a class object *)
  Definition ann_is_cls (c : cls) (a : ann) : bool := match a with ACls d => cls_eqb c d | _ => false end.
  Definition is_subtype_cls (sub : cls) (sup : ann) : outcome bool :=
    match sup with
    | AAny => Ok true
    | ACls c => Ok (subclass sub c)
    | AUnion _ args => Ok (existsb (ann_is_cls sub) args)
    | AGeneric SpTyping o _ | ABare o => Ok (abc_instance o sub)
    | ATupleVar SpTyping _ | ATupleEmpty SpTyping => Ok (abc_instance TTuple sub)
    | AFwdRef _ | AOther _ | ANone | AStr _ => Raise AttributeErrorC
    | _ => Ok false
    end.

  Definition sub_cls_of (a : option (option cls)) : cls :=
    match a with None => CInspectEmpty | Some None => CObject | Some (Some c) => c end.

  Fixpoint zip_subtype (ps : list (option (option cls) * bool)) (l : list ann) : outcome bool :=
    match ps, l with
    | p :: ps', a :: l' =>
        match is_subtype_cls (sub_cls_of (fst p)) a with
        | Ok true => zip_subtype ps' l'
        | r => r
        end
    | _, _ => Ok true
    end.

  Definition builtin_len_sig : fsig := {| fs_params := [(None, false)]; fs_ret := None; fs_coroutine := false |}.

  (* inspect.signature(<class>) for the classes of the universe (CPython 3.12; validated by the
     correspondence): None = "no signature found" (ValueError) *)
  Definition sig_of_params (ps : list (option (option cls) * bool)) : fsig :=
    {| fs_params := ps; fs_ret := None; fs_coroutine := false |}.
  Definition class_sig (c : cls) : option fsig :=
    match c with
    | CObject | CDictKeys | CDictValues | CDictItems | CListIterator | CBuiltinFn | CInspectEmpty | CUser _ => Some (sig_of_params [])
    | CFloat | CList | CTuple => Some (sig_of_params [(None, true)])
    | CFunction => Some (sig_of_params [(None, false); (None, false); (None, true); (None, true); (None, true)])
    | _ => None
    end.

  (* _instancecheck_callable *)
  Definition callable_fun (ps : option (list ann)) (r : ann) (s : fsig) : outcome bool :=
    let required := filter (fun p => negb (snd p)) (fs_params s) in
    let params_ok :=
      match ps with
      | None => Ok true
      | Some l => if negb (Nat.eqb (List.length l) (List.length required)) then Ok false
                  else zip_subtype (fs_params s) l
      end in
    match params_ok with
    | Ok true =>
        if fs_coroutine s then
          match r with
          | AGeneric SpTyping TAwaitable [x] => is_subtype_cls (sub_cls_of (fs_ret s)) x
          | AGeneric SpTyping TCoroutine [_; _; x] => is_subtype_cls (sub_cls_of (fs_ret s)) x
          | _ => Ok false
          end
        else is_subtype_cls (sub_cls_of (fs_ret s)) r
    | other => other
    end.

  Definition callable_check (ps : option (list ann)) (r : ann) (v : value) : outcome bool :=
    match v with
    | VNone => Ok false
    | VLambda => Ok true
    | VFun s => callable_fun ps r s
    | VBuiltinFn => callable_fun ps r builtin_len_sig
    | VClass c =>
        match class_sig c with
        | Some s => callable_fun ps r s
        | None => if existsb (derives ValueErrorC) (sig_catches cfg) then Ok false else Raise ValueErrorC
        end
    | _ => if existsb (derives TypeErrorC) (sig_catches cfg) then Ok false else Raise TypeErrorC   (* not callable *)
    end.

  (* the TypeVar branch of _is_instance *)
  Definition typevar_check (t : tvar) (v : value) (tv : tvenv) : res :=
    let c := class_of v in
    if negb (Nat.eqb (List.length (tv_constraints t)) 0) && negb (in_cls c (tv_constraints t)) then (Ok false, tv) else
    if match tv_bound t with Some b => negb (isinstance v b) | None => false end then (Ok false, tv) else
    match tv_lookup tv (tv_id t) with
    | None => (Ok true, tv_set tv (tv_id t) (BCls c))
    | Some other =>
        if tv_contravariant t then
          match other with
          | BCls oc => if subclass oc c then (Ok true, tv_set tv (tv_id t) (BCls c)) else (Raise PTypeVarMismatchC, tv)
          | BAnn _ => (Raise TypeErrorC, tv)
          end
        else
          match other with
          | BCls oc => if isinstance v oc then (Ok true, tv_set tv (tv_id t) (BCls c)) else (Raise PTypeVarMismatchC, tv)
          | BAnn a' =>
              match hook a' v tv with
              | (Ok true, tv') => (Ok true, tv_set tv' (tv_id t) (BCls c))
              | (Ok false, tv') => (Raise PTypeVarMismatchC, tv')
              | r => r
              end
          end
    end.

  (* the TypeVar part of _check_union, after the non-TypeVar members did not match.
     `tv0` is the environment at function entry (bounded/unbounded is decided there). *)
  Fixpoint union_bounded (l : list ann) (tv0 : tvenv) (v : value) (tv : tvenv) : option res * tvenv :=
    match l with
    | [] => (None, tv)
    | ATypeVar t :: l' =>
        match tv_lookup tv0 (tv_id t) with
        | None => union_bounded l' tv0 v tv
        | Some _ =>
            match typevar_check t v tv with
            | (Ok true, tv') => (Some (Ok true, tv'), tv')
            | (Ok false, tv') => if un_bound_uses_result cfg then union_bounded l' tv0 v tv' else (Some (Ok true, tv'), tv')
            | (Raise e, tv') => if is_pedantic e then union_bounded l' tv0 v tv' else (Some (Raise e, tv'), tv')
            end
        end
    | _ :: l' => union_bounded l' tv0 v tv
    end.
  Fixpoint union_unbounded (l : list ann) (tv0 : tvenv) : list tvar :=
    match l with
    | [] => []
    | ATypeVar t :: l' => match tv_lookup tv0 (tv_id t) with None => t :: union_unbounded l' tv0 | Some _ => union_unbounded l' tv0 end
    | _ :: l' => union_unbounded l' tv0
    end.
  Definition union_tail (args : list ann) (tv0 : tvenv) (v : value) (tv : tvenv) : res :=
    match union_bounded args tv0 v tv with
    | (Some r, _) => r
    | (None, tv') =>
        match union_unbounded args tv0 with
        | [] => (Ok false, tv')
        | [t] => typevar_check t v tv'
        | _ => (Ok true, tv')
        end
    end.

  Definition pair_check (f : ann -> value -> tvenv -> res) (ka va : ann) (kv : value * value) (tv : tvenv) : res :=
    match iv_conj cfg with
    | JAnd => match f ka (fst kv) tv with (Ok true, tv') => f va (snd kv) tv' | r => r end
    | JOr => match f ka (fst kv) tv with (Ok false, tv') => f va (snd kv) tv' | r => r end
    | JKeyOnly => f ka (fst kv) tv
    | JValOnly => f va (snd kv) tv
    end.

  (* the parts of _is_instance that call it recursively, parameterised by the recursive call `f`
     (a Section variable, so that the guard checker sees through them and so that lemmas about
     them are ordinary lemmas) *)
  Section Rec.
    Variable f : ann -> value -> tvenv -> res.

    (* any([...]) over the non-TypeVar members: a list comprehension, every member is evaluated *)
    Fixpoint members_f (v : value) (l : list ann) (tv : tvenv) (acc : bool) : res :=
      match l with
      | [] => (Ok acc, tv)
      | m :: l' =>
          if is_typevar m then members_f v l' tv acc else
          match f m v tv with
          | (Ok b, tv') => members_f v l' tv' (match un_quant cfg with QAny => acc || b | QAll => acc && b end)
          | r => r
          end
      end.

    Definition union_f (args : list ann) (v : value) (tv : tvenv) : res :=
      match members_f v args tv (match un_quant cfg with QAny => false | QAll => true end) with
      | (Ok true, tv') => (Ok true, tv')
      | (Ok false, tv') => union_tail args tv v tv'
      | r => r
      end.

    (* all(... for val, type_ in zip(tup, type_args)) *)
    Fixpoint zip_f (l : list ann) (vs : list value) (tv : tvenv) : res :=
      match l, vs with
      | a0 :: l', v0 :: vs' =>
          match f a0 v0 tv, tu_zip_quant cfg with
          | (Ok true, tv'), QAll => zip_f l' vs' tv'
          | (Ok false, tv'), QAny => zip_f l' vs' tv'
          | r, _ => r
          end
      | _, _ => (Ok (match tu_zip_quant cfg with QAll => true | QAny => false end), tv)
      end.

    Definition items_f (args : list ann) (kvs : list (value * value)) (tv : tvenv) : res :=
      match args with
      | [ka; va] => q_run (pair_check f ka va) (iv_quant cfg) kvs tv
      | _ => (Raise ValueErrorC, tv)
      end.

    (* a typing-spelled generic alias with origin o: isinstance test, then the registered checker *)
    Definition generic_f (o : tname) (args : list ann) (v : value) (tv : tvenv) : res :=
      if negb (has_required (AGeneric SpTyping o args)) then (Raise PTypeCheckC, tv) else
      if negb (abc_instance o (class_of v)) then (Ok false, tv) else
      match origin_checker cfg o with
      | None => (Raise AssertionErrorC, tv)
      | Some CkIterable =>
          match iter_values v with
          | None => (Raise TypeErrorC, tv)
          | Some l =>
              match it_index cfg, args with
              | 0, a0 :: _ => q_run (f a0) (it_quant cfg) l tv
              | 1, _ :: a1 :: _ => q_run (f a1) (it_quant cfg) l tv
              | _, _ => (Raise IndexErrorC, tv)
              end
          end
      | Some CkMapping =>
          if mp_via_items cfg then
            match items_of v with Some kvs => items_f args kvs tv | None => (Raise AttributeErrorC, tv) end
          else (Raise TypeErrorC, tv)
      | Some CkItemsView =>
          match pairs_of v with Some kvs => items_f args kvs tv | None => (Raise TypeErrorC, tv) end
      | Some CkTuple =>
          match v with
          | VTuple vs =>
              if tu_len_check cfg && negb (Nat.eqb (List.length vs) (List.length args)) then (Ok false, tv)
              else zip_f args vs tv
          | _ => (Raise TypeErrorC, tv)
          end
      | Some CkType =>
          match ty_index cfg, args with
          | 0, a0 :: _ =>
              match a0 with
              | AAny | ATypeVar _ => (Ok true, tv)
              | _ => match v with VClass d => (is_subtype_cls d a0, tv) | _ => (Ok false, tv) end
              end
          | _, _ => (Raise IndexErrorC, tv)
          end
      | Some CkGenerator => (Raise AssertionErrorC, tv)
      end.

    (* Tuple[X, ...] *)
    Definition tuple_var_f (e : ann) (v : value) (tv : tvenv) : res :=
      if negb (has_required (ATupleVar SpTyping e)) then (Raise PTypeCheckC, tv) else
      if negb (abc_instance TTuple (class_of v)) then (Ok false, tv) else
      match origin_checker cfg TTuple with
      | Some CkTuple =>
          match v with
          | VTuple vs =>
              match tu_ell_index cfg with
              | 0 => q_run (f e) (tu_ell_quant cfg) vs tv
              | _ => match vs with [] => (Ok (match tu_ell_quant cfg with QAll => true | QAny => false end), tv)
                                 | _ => (Raise AttributeErrorC, tv) end
              end
          | _ => (Raise TypeErrorC, tv)
          end
      | Some CkIterable =>
          match iter_values v, it_index cfg with
          | Some l, 0 => q_run (f e) (it_quant cfg) l tv
          | _, _ => (Raise TypeErrorC, tv)
          end
      | Some _ => (Raise ValueErrorC, tv)
      | None => (Raise AssertionErrorC, tv)
      end.
  End Rec.

  Fixpoint is_inst (a : ann) (v : value) (tv : tvenv) {struct a} : res :=
    if negb (has_required a) then (Raise PTypeCheckC, tv) else
    match a with
    | ANone => (Raise AttributeErrorC, tv)
    | ACls c => (inst_cls c v, tv)
    | AAny =>
        match special_checker cfg TAny with
        | Some SkAnyTrue => (Ok true, tv)
        | Some SkUnion | Some SkLiteral => (Ok false, tv)
        | Some SkCallable => (Raise ValueErrorC, tv)
        | None => (Raise TypeErrorC, tv)
        end
    | AUnion UTyping args =>
        match special_checker cfg (if is_optional args then TOptional else TUnion) with
        | Some SkUnion => union_f (fun m => is_inst m) args v tv
        | Some SkLiteral => (Ok false, tv)
        | Some SkAnyTrue => (Ok true, tv)
        | Some SkCallable => (Raise ValueErrorC, tv)
        | None => (Raise TypeErrorC, tv)
        end
    | AUnion UPipe args => union_f (fun m => is_inst m) args v tv
    | ALiteral vals =>
        match special_checker cfg TLiteral with
        | Some SkLiteral => (Ok (if lit_in cfg then py_in_scalar v vals else negb (py_in_scalar v vals)), tv)
        | Some SkAnyTrue => (Ok true, tv)
        | Some SkUnion => (Raise AttributeErrorC, tv)
        | Some SkCallable => (Raise ValueErrorC, tv)
        | None => (Raise TypeErrorC, tv)
        end
    | ANewType s =>
        match s with
        | ACls c => (Ok (isinstance v c), tv)
        | _ => if newtype_recurses cfg then is_inst s v tv else (Raise TypeErrorC, tv)
        end
    | AFwdRef n =>
        match ctx n with
        | Some c => (inst_cls c v, tv)
        | None => (Raise NameErrorC, tv)
        end
    | AStr _ => (Raise AttributeErrorC, tv)
    | AGeneric SpTyping o args => generic_f (fun x => is_inst x) o args v tv
    | AGeneric _ o args =>
        match conv_ok a with Raise e => (Raise e, tv) | Ok _ => generic_f (fun x => is_inst x) o args v tv end
    | ATupleVar SpTyping e => tuple_var_f (fun x => is_inst x) e v tv
    | ATupleVar _ e =>
        match conv_ok a with Raise x => (Raise x, tv) | Ok _ => tuple_var_f (fun x => is_inst x) e v tv end
    | ATupleEmpty SpTyping => generic_f (fun x => is_inst x) TTuple [] v tv
    | ATupleEmpty _ =>
        match conv_ok a with Raise x => (Raise x, tv) | Ok _ => generic_f (fun x => is_inst x) TTuple [] v tv end
    | ABare o =>
        match special_checker cfg o with
        | Some SkLiteral => (Ok false, tv)
        | Some SkAnyTrue => (Ok true, tv)
        | Some SkUnion => (Ok false, tv)
        | Some SkCallable => (Raise ValueErrorC, tv)
        | None => generic_f (fun x => is_inst x) o [] v tv
        end
    | ACallable ps r =>
        match special_checker cfg TCallable with
        | Some SkCallable => (callable_check ps r v, tv)
        | Some SkAnyTrue => (Ok true, tv)
        | Some _ => (Ok false, tv)
        | None => (Raise TypeErrorC, tv)
        end
    | ATypeVar t => typevar_check t v tv
    | AOther _ => (Raise TypeErrorC, tv)
    end.

  (* except clauses of _check_type *)
  Fixpoint handle (hs : list (list exn * haction)) (e : exn) : outcome bool :=
    match hs with
    | [] => Raise e
    | (cs, act) :: hs' =>
        if existsb (derives e) cs then
          match act with HRaise c => Raise c | HReturn b => Ok b | HReraiseSame => Raise e end
        else handle hs' e
    end.

  (* _check_type around an arbitrary inner checker: the None and str branches run outside the try *)
  Definition check_type_gen (inner : ann -> value -> tvenv -> res) (a : ann) (v : value) (tv : tvenv) : res :=
    match a with
    | ANone => (Ok (if none_by_eq cfg then match v with VNone => true | _ => false end else false), tv)
    | AStr n =>
        match ctx n with
        | Some c => (Ok (if str_walks_mro cfg then isinstance v c else cls_eqb (class_of v) c), tv)
        | None => (Ok false, tv)
        end
    | _ =>
        match inner a v tv with
        | (Ok b, tv') => (Ok b, tv')
        | (Raise e, tv') => (handle (handlers cfg) e, tv')
        end
    end.
  Definition check_type : ann -> value -> tvenv -> res := check_type_gen is_inst.

  Definition assert_gen (inner : ann -> value -> tvenv -> res) (a : ann) (v : value) (tv : tvenv) : outcome unit * tvenv :=
    match check_type_gen inner a v tv with
    | (Ok true, tv') => (Ok tt, tv')
    | (Ok false, tv') => (Raise (mismatch_raises cfg), tv')
    | (Raise e, tv') => (Raise e, tv')
    end.

  (* assert_value_matches_type *)
  Definition assert_matches : ann -> value -> tvenv -> outcome unit * tvenv := assert_gen is_inst.
End Checker.

(* two-level definition: an annotation a TypeVar is bound to (type argument of Cls[X]) is
   checked by the same procedure with no further bound-annotation hook *)
Definition no_hook : ann -> value -> tvenv -> res := fun _ _ tv => (Raise TypeErrorC, tv).
Definition is_inst0 cfg ctx := is_inst cfg ctx no_hook.
Definition is_inst1 cfg ctx := is_inst cfg ctx (is_inst0 cfg ctx).
Definition check_type1 cfg ctx := check_type cfg ctx (is_inst0 cfg ctx).
Definition assert_matches1 cfg ctx := assert_matches cfg ctx (is_inst0 cfg ctx).
