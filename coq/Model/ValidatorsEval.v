(* Evaluation entry points used by the correspondence check of C14 (harness/c14.py).
   Oracles are instantiated by finite tables measured on the real stdlib by the worker; a query that
   is missing from its table yields a distinguished outcome (exception path [99] / code point -7),
   never a plausible value.                                                                  *)
From Coq Require Import List ZArith Bool SpecFloat.
From PV Require Import Base.Exn Model.ValidatorsBase Model.ValidatorsRegex Gen.Validators Model.Validators
                       Spec.ValidatorsSpec.
Import ListNotations.
Open Scope Z_scope.

Record otables : Type := {
  t_str : list (value * str);
  t_lower : list (str * str);
  t_upper : list (str * str);
  t_int : list (str * outcome Z);
  t_intb : list (list Z * outcome Z);
  t_float : list (str * outcome spec_float);
  t_uuid : list (str * outcome value);
  t_iso : list (value * outcome value);
  t_epoch : list (spec_float * outcome value)
}.

Definition MissingC : exn := [99%nat].

Fixpoint assoc {K V} (eqb : K -> K -> bool) (k : K) (l : list (K * V)) (d : V) : V :=
  match l with
  | [] => d
  | (k0, v) :: l' => if eqb k0 k then v else assoc eqb k l' d
  end.

Definition oracles_of (T : otables) : oracles := {|
  o_str := fun v => assoc value_eqb v (t_str T) [-7];
  o_lower := fun s => assoc zlist_eqb s (t_lower T) [-7];
  o_upper := fun s => assoc zlist_eqb s (t_upper T) [-7];
  o_int_of_str := fun s => assoc zlist_eqb s (t_int T) (Raise MissingC);
  o_int_of_bytes := fun s => assoc zlist_eqb s (t_intb T) (Raise MissingC);
  o_float_of_str := fun s => assoc zlist_eqb s (t_float T) (Raise MissingC);
  o_uuid := fun s => assoc zlist_eqb s (t_uuid T) (Raise MissingC);
  o_fromiso := fun v => assoc value_eqb v (t_iso T) (Raise MissingC);
  o_epoch_plus := fun f => assoc sf_eqb f (t_epoch T) (Raise MissingC)
|}.

(* ---------- encodings (prefix codes; lengths first so that negative numbers are unambiguous) ------ *)
Definition enc_float (f : spec_float) : list Z :=
  match f with
  | S754_zero s => [0; if s then 1 else 0]
  | S754_infinity s => [1; if s then 1 else 0]
  | S754_nan => [2]
  | S754_finite s m e => [3; if s then 1 else 0; Z.pos m; e]
  end.

(* integers leave Coq as base-2^60 limbs (least significant first): printing a 4000-digit Z in decimal
   costs a minute, printing its 200 limbs nothing *)
Definition limb_mask : Z := 1152921504606846975.      (* 2^60 - 1 *)
Fixpoint limbs (fuel : nat) (a : Z) : list Z :=
  match fuel with
  | O => [-1]                                        (* out of fuel: never a valid limb *)
  | S f => if a =? 0 then [] else Z.land a limb_mask :: limbs f (Z.shiftr a 60)
  end.
Definition enc_Z (z : Z) : list Z :=
  let a := Z.abs z in
  let l := limbs (S (S (Z.to_nat (Z.log2 a / 60)))) a in
  (if z <? 0 then 1 else 0) :: zlen l :: l.

Fixpoint enc_value (v : value) : list Z :=
  let fix go (l : list value) : list Z :=
    match l with [] => [] | x :: l' => enc_value x ++ go l' end in
  match v with
  | VNone => [0]
  | VBool b => [1; if b then 1 else 0]
  | VInt z => 2 :: enc_Z z
  | VFloat f => 3 :: enc_float f
  | VStr s => 4 :: zlen s :: s
  | VBytes s => 5 :: zlen s :: s
  | VList l => 6 :: zlen l :: go l
  | VTuple l => 7 :: zlen l :: go l
  | VDict ks vs => 8 :: zlen ks :: go ks ++ go vs
  | VObj n => [9; Z.of_nat n]
  | VOpq k p => 10 :: k :: zlen p :: p
  end.

Definition enc_exn (e : exn) : list Z := zlen e :: map Z.of_nat e.

Definition enc_outcome (o : outcome value) : list Z :=
  match o with
  | Ok v => 0 :: enc_value v
  | Raise e => 1 :: enc_exn e
  end.

Definition enc_verdict (s : verdict) : list Z :=
  match s with
  | SOut => [0]
  | SReject => [1]
  | SAccept r => 2 :: enc_value r
  end.

Definition with_len (l : list Z) : list Z := zlen l :: l.

(* [model outcome] [spec verdict] [model outcome of validate_param], each with its length in front *)
Definition eval_validate (T : otables) (w : validator) (v : value) : list Z :=
  let O := oracles_of T in
  with_len (enc_outcome (validate gen_shapes O w v)) ++ with_len (enc_verdict (spec O w v))
  ++ with_len (enc_outcome (validate_param gen_shapes O w v)).

Definition eval_convert (T : otables) (v : value) (t : ttype) : list Z :=
  let O := oracles_of T in
  with_len (enc_outcome (convert_value gen_shapes O v t)) ++ with_len (enc_outcome (spec_convert O v t)).

(* primitives, compared one by one with CPython *)
Definition enc_opt_Z (o : option Z) : list Z := match o with Some z => [1; z] | None => [0] end.
Definition eval_show (z : Z) : list Z := match str_of_int z with Ok s => 0 :: s | Raise e => 1 :: enc_exn e end.
Definition eval_parse (s : str) : list Z := match parse_dec s with Some z => 1 :: enc_Z z | None => [0] end.
Definition eval_strip (s : str) : list Z := py_strip s.
Definition eval_float_of_int (z : Z) : list Z :=
  match float_of_Z z with Ok f => 0 :: enc_float f | Raise e => 1 :: enc_exn e end.
Definition eval_int_of_float (f : spec_float) : list Z :=
  match int_of_float f with Ok z => 0 :: enc_Z z | Raise e => 1 :: enc_exn e end.
Definition eval_cmp (a b : value) : list Z :=
  map (fun op => match py_cmp op a b with Ok true => 1 | Ok false => 0 | Raise _ => 2 end) [CLt; CLe; CGt; CGe; CEq; CNe].
Definition eval_ws : list Z := flat_map (fun r => [fst r; snd r]) ws_ranges.
Definition eval_num_ws : list Z := flat_map (fun r => [fst r; snd r]) num_ws_ranges.
Definition eval_int_str (s : str) : list Z :=
  match int_of_canonical s with Some (Ok z) => 1 :: enc_Z z | Some (Raise e) => 2 :: enc_exn e | None => [0] end.
Definition eval_regex (m : matchmode) (r : re) (s : str) : list Z := [if re_test m r s then 1 else 0].
Definition eval_email (s : str) : list Z :=
  [if re_test (s_email_mode gen_shapes) (s_regex_email gen_shapes) s then 1 else 0; if email_predb s then 1 else 0].
Definition eval_ascii_case (s : str) : list Z :=
  (if is_ascii s then 1 else 0) :: zlen s :: map lower_c s ++ map upper_c s.
