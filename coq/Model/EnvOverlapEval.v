(* Evaluation entry point of the stream `overlap` (harness/c09.py): model observations ++ [-1] ++ what the statement
   demands of the decorator results (Spec/EnvOverlapSpec.v: 1 the very object, 2 a new / modified object, 9 nothing). *)
From Coq Require Import List Bool String ZArith.
From PV Require Import Base.Exn Model.EnvSwitch Spec.EnvSpec Gen.Env Model.EnvEval Model.EnvOverlap Spec.EnvOverlapSpec.
Import ListNotations.
Open Scope Z_scope.

(* [10; d; ...] begin an overlapping decoration by class decorator d, [11] next hook, [12] end; everything else as in
   Model/EnvEval.v *)
Definition dec_xop (l : list Z) : xop :=
  match l with
  | 10 :: d :: _ => XBegin (dk d)
  | 11 :: _ => XNext
  | 12 :: _ => XEnd
  | _ => XOp (dec_op l)
  end.

Definition enc_demand (d : option bool) : Z :=
  match d with None => 9 | Some true => 1 | Some false => 2 end.

Definition eval_xcase (init : Z) (h : list (list Z)) : list Z :=
  let ops := map dec_xop h in
  map enc_obs (snd (xrun the_model (init_state (init_env init), []) ops))
  ++ [-1] ++ map enc_demand (xdemand (init_env init) [] ops).
