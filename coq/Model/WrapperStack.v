(* Decorating with the regenerated wrappers: the decorator of each name, stacks of decorators, and classes
   decorated through for_all_methods.  Definitions only, no proofs.                                       *)
From Coq Require Import List ZArith Bool String.
From PV Require Import Base.Exn Model.WrapperSem Spec.WrapperSpec Gen.Wrappers.
Import ListNotations.
Open Scope list_scope.

Definition deco_of (n : dname) : deco :=
  match n with
  | NTrace => d_trace | NTimer => d_timer | NCountCalls => d_count_calls | NDeprecated => d_deprecated
  | NTraceIfReturns => d_trace_if_returns | NDoesSame => d_does_same_as_function
  | NRenameKwargs => d_rename_kwargs | NOverrides => d_overrides | NRequireKwargs => d_require_kwargs
  | NMock => d_mock | NUnimplemented => d_unimplemented
  end.

Section Stack.
  Variable Sigma : Type.

  (* one level of decoration: which decorator, its decoration arguments (in the context), and - for the
     specification only - the behaviour of does_same_as_function's other function *)
  Definition level := (dname * ctx Sigma * base Sigma)%type.

  (* head = outermost decorator *)
  Fixpoint stack_callee (l : list level) (f : cdesc Sigma) : cdesc Sigma :=
    match l with
    | [] => f
    | (n, cx, _) :: l' => as_callee (deco_of n) (with_callee cx (stack_callee l' f))
    end.

  Fixpoint stack_spec (l : list level) (g : base Sigma) : base Sigma :=
    match l with
    | [] => g
    | (n, cx, go) :: l' => spec_apply n cx go (stack_spec l' g)
    end.

  (* a method bound to `pre` *)
  Definition prepend (pre : args) (fn : cdesc Sigma) : cdesc Sigma :=
    {| c_named := c_named fn; c_iscoro := c_iscoro fn; c_mode := c_mode fn; c_call := fun a k s => c_call fn (pre ++ a) k s;
       c_resume := c_resume fn |}.

  (* evaluating `recv.attr( *a, **k )` on the class decorated with for_all_methods(decorator n) *)
  Definition class_call (cfg : WrapperSem.forall_cfg) (n : dname) (cx : ctx Sigma) (fn : cdesc Sigma) (m : member) (acc : access)
             (self cls0 sub : val) : csem Sigma := fun a k s =>
    match deco_args cfg m acc self cls0 sub a with
    | Some (pre, given) =>
      match decorate_member cfg m with
      | NmUntouched => use_callee fn (pre ++ given) k s
      | _ => use_wrapped (deco_of n) (with_callee cx (prepend pre fn)) given k s
      end
    | None => (RUnmodelled, s)
    end.
End Stack.

Arguments stack_callee {Sigma} _ _.
Arguments stack_spec {Sigma} _ _.
Arguments prepend {Sigma} _ _.
Arguments class_call {Sigma} _ _ _ _ _ _ _ _ _ _ _ _.
