(* C20 - mixins.  Executable model, no proofs.

   Part 1  a small Python-like statement/expression language.  The bodies of
           get_generic_base, GenericMixin._get_types / type_var / type_vars,
           WithDecoratedMethods.get_decorated_functions and of the innermost function of
           create_decorator are translated into terms of this language on every run
           (translator/t_mixins.py -> Gen/Mixins.v); this file gives the terms their meaning.
   Part 2  the world the programs run in: classes with their own `__orig_bases__` and their
           MRO (attribute lookup `C.__orig_bases__` walks the MRO), one instance with an
           optional `__orig_class__`, and the attribute table of that instance as seen by
           dir()/getattr().
   Part 3  class creation for the decorated-methods part: what getattr(instance, name) shows
           after the body of the class has applied decorators made by create_decorator
           (through the translated program) to functions, classmethods, staticmethods,
           property getters.

   Type arguments, TypeVars and decorator values are opaque tokens `VTok n`: the programs only
   ever compare them for equality (dict keys), so the theorems are parametric in the
   vocabulary of type arguments - any vocabulary embeds by numbering its distinct objects.  *)
From Coq Require Import List ZArith Bool String Ascii.
From PV Require Import Base.Exn.
Import ListNotations.
Open Scope string_scope.
Open Scope list_scope.

(* exception classes used by the interpreter itself, next to Base.Exn *)
Definition UnboundLocalErrorC : exn := [0; 10; 0].
Definition DivergeC : exn := [9].   (* not a Python class: call depth of the interpreter exhausted *)
Definition StuckC : exn := [8].     (* not a Python class: ill-formed program (break outside a loop ...) *)

(* ------------------------------------------------------------------------------------------ *)
(* values                                                                                     *)

Inductive val :=
| VNone
| VBool (b : bool)
| VInt (z : Z)
| VStr (s : string)                          (* str; members of a StrEnum are strs *)
| VTok (t : nat)                             (* opaque object: a type argument, a TypeVar, a decorator value, a callable *)
| VGeneric                                   (* typing.Generic *)
| VCls (c : nat)                             (* class number c of the world *)
| VAlias (origin : val) (args : list val)    (* origin[args] : has __origin__ and __args__ *)
| VEnumCls (members : list string)           (* a DecoratorType subclass; iteration yields its members *)
| VInst (c : nat) (orig_class : option val)  (* the instance `self` of class c, with its __orig_class__ if set *)
| VObj (id : nat) (attrs : list (string * val))   (* what getattr(self, name) returned: identity + own attributes *)
| VTuple (l : list val)
| VList (l : list val)
| VDict (kvs : list (val * val))             (* insertion ordered *)
| VExn (e : exn).                            (* an exception instance *)

Fixpoint list_eqb {A} (f : A -> A -> bool) (a b : list A) : bool :=
  match a, b with
  | [], [] => true
  | x :: a', y :: b' => f x y && list_eqb f a' b'
  | _, _ => false
  end.

(* Python's == on the values the programs compare (dict keys, `== Generic`, `len(..) == 1`);
   objects compare by identity *)
Fixpoint val_eqb (a b : val) {struct a} : bool :=
  match a, b with
  | VNone, VNone => true
  | VBool x, VBool y => Bool.eqb x y
  | VInt x, VInt y => Z.eqb x y
  | VStr x, VStr y => String.eqb x y
  | VTok x, VTok y => Nat.eqb x y
  | VGeneric, VGeneric => true
  | VCls x, VCls y => Nat.eqb x y
  | VAlias o1 a1, VAlias o2 a2 =>
      val_eqb o1 o2 &&
      (fix leq (l1 l2 : list val) : bool :=
         match l1, l2 with
         | [], [] => true
         | x :: l1', y :: l2' => val_eqb x y && leq l1' l2'
         | _, _ => false
         end) a1 a2
  | VEnumCls m1, VEnumCls m2 => list_eqb String.eqb m1 m2
  | VInst c1 _, VInst c2 _ => Nat.eqb c1 c2
  | VObj i _, VObj j _ => Nat.eqb i j
  | VTuple l1, VTuple l2 | VList l1, VList l2 =>
      (fix leq (l1 l2 : list val) : bool :=
         match l1, l2 with
         | [], [] => true
         | x :: l1', y :: l2' => val_eqb x y && leq l1' l2'
         | _, _ => false
         end) l1 l2
  | VExn e1, VExn e2 => list_eqb Nat.eqb e1 e2
  | _, _ => false
  end.

Definition truthy (v : val) : bool :=
  match v with
  | VNone => false
  | VBool b => b
  | VInt z => negb (Z.eqb z 0)
  | VStr s => negb (String.eqb s "")
  | VTuple l | VList l => match l with [] => false | _ => true end
  | VDict d => match d with [] => false | _ => true end
  | _ => true
  end.

Fixpoint dict_get (k : val) (d : list (val * val)) : option val :=
  match d with
  | [] => None
  | (k', v) :: r => if val_eqb k' k then Some v else dict_get k r
  end.

(* d[k] = v : an existing key keeps its position (and the old key object) *)
Fixpoint dict_set (k v : val) (d : list (val * val)) : list (val * val) :=
  match d with
  | [] => [(k, v)]
  | (k', v') :: r => if val_eqb k' k then (k', v) :: r else (k', v') :: dict_set k v r
  end.

Fixpoint assoc {A} (k : string) (l : list (string * A)) : option A :=
  match l with
  | [] => None
  | (k', v) :: r => if String.eqb k' k then Some v else assoc k r
  end.

Fixpoint assoc_set {A} (k : string) (v : A) (l : list (string * A)) : list (string * A) :=
  match l with
  | [] => [(k, v)]
  | (k', v') :: r => if String.eqb k' k then (k', v) :: r else (k', v') :: assoc_set k v r
  end.

Definition iter_items (v : val) : outcome (list val) :=
  match v with
  | VTuple l | VList l => Ok l
  | VDict d => Ok (map fst d)
  | VEnumCls ms => Ok (map VStr ms)
  | _ => Raise TypeErrorC
  end.

Definition seq_index (l : list val) (i : Z) : outcome val :=
  let n := Z.of_nat (List.length l) in
  let j := if (i <? 0)%Z then (n + i)%Z else i in
  if (j <? 0)%Z then Raise IndexErrorC
  else match nth_error l (Z.to_nat j) with Some v => Ok v | None => Raise IndexErrorC end.

(* ------------------------------------------------------------------------------------------ *)
(* syntax                                                                                     *)

Inductive expr :=
| EVar (x : string)
| ENone
| EInt (z : Z)
| EStr (s : string)
| EGenericRef                                  (* the global name Generic *)
| EAttr (e : expr) (name : string)             (* e.name *)
| EGetAttr (e n : expr)                        (* getattr(e, n) *)
| EHasAttr (e n : expr)                        (* hasattr(e, n) *)
| ENot (e : expr)
| EAnd (a b : expr)
| EOr (a b : expr)
| EEq (a b : expr)
| EIsNone (e : expr)                           (* e is None *)
| ELen (e : expr)
| EIndex (e : expr) (i : Z)                    (* e[i], i an integer literal *)
| ECall (f : string) (a : expr)                (* call of a translated function / method with one argument *)
| ENewExn (c : exn)                            (* SomeError(<message>) *)
| EListComp (x : string) (it cond elt : expr)  (* [elt for x in it if cond] *)
| EDictComp (x : string) (y : option string) (it k v : expr)   (* {k: v for x[, y] in it} *)
| EZip (a b : expr)
| EDictNew                                     (* dict() *)
| EDictValues (e : expr)                       (* e.values() *)
| EListOf (e : expr)                           (* list(e) *)
| EDir (e : expr)                              (* dir(e) *)
| EStartsWith (e p : expr)                     (* e.startswith(p) *)
| EIsClass (e : expr)                          (* isinstance(e, type) *)
| EUsesMixin (e : expr)                        (* issubclass(e, GenericMixin) *)
| EClassAttrIsProperty (e n : expr)            (* isinstance(getattr(type(e), n, None), property) *)
| ETupleEmpty                                  (* () *)
| ETuple2 (a b : expr)                         (* a, b *)
| EGetAttrD (e : expr) (name : string) (d : expr)   (* getattr(e, 'name', d) *)
| EDictOf (e : expr)                           (* dict(e), e an iterable of pairs *)
| EDictGetD (d k dflt : expr)                  (* d.get(k, dflt) *)
| ETupleComp (x : string) (it elt : expr)      (* tuple(elt for x in it) *)
| ECall2 (f : string) (a b : expr).            (* call of a translated function with two arguments *)

Inductive stmt :=
| SSkip
| SSeq (a b : stmt)
| SAssign (x : string) (e : expr)
| SIf (c : expr) (t f : stmt)
| SFor (x : string) (it : expr) (body : stmt)        (* for x in it: body    (no else clause) *)
| SContinue
| SBreak
| SReturn (e : expr)
| SRaise (e : expr)
| SAssert (c : expr)                                 (* assert c[, msg] *)
| SSetAttr (o : string) (n v : expr)                 (* setattr(o, n, v), o a local *)
| SSetItem2 (d : string) (k1 k2 v : expr)            (* d[k1][k2] = v, d a local *)
| SAssign2 (x y : string) (e : expr)                 (* x, y = e *)
| SCallExt (x : string) (f : expr) (args : list expr).   (* x = f(args): f is a callable the model knows nothing about *)

Record fundef := {
  fd_params : list string;      (* parameters, then the closure variables the body reads *)
  fd_locals : list string;      (* every local the body assigns *)
  fd_property : bool;           (* defined under @property *)
  fd_body : stmt;
}.

(* ------------------------------------------------------------------------------------------ *)
(* world                                                                                      *)

Record cls_rec := {
  c_own_ob : option (list val);   (* `__orig_bases__` in the class's own namespace (set by the class statement iff a base is not a class) *)
  c_mro : list nat;               (* the MRO of the class, beginning with the class itself *)
  c_params : list val;            (* `__parameters__`: the type parameters typing computed for the class *)
}.

(* what getattr(self, name) does: a plain attribute / a descriptor that raises / a property (what its getter does) *)
Inductive aent := AVal (v : val) | ARaise (e : exn) | AProp (o : outcome val).

Record world := {
  w_classes : list (nat * cls_rec);
  w_attrs : list (string * aent);     (* dir(self) order *)
  w_mixin : nat;                      (* the class GenericMixin *)
}.

Fixpoint find_cls (c : nat) (l : list (nat * cls_rec)) : option cls_rec :=
  match l with
  | [] => None
  | (c', r) :: l' => if Nat.eqb c' c then Some r else find_cls c l'
  end.

Definition own_ob (w : world) (c : nat) : option (list val) :=
  match find_cls c (w_classes w) with Some r => c_own_ob r | None => None end.

Fixpoint first_ob (w : world) (mro : list nat) : option (list val) :=
  match mro with
  | [] => None
  | c :: r => match own_ob w c with Some l => Some l | None => first_ob w r end
  end.

(* issubclass(C, GenericMixin): the mixin is on the MRO of class c (a class the world does not list - list, dict,
   Generic - is not a subclass of it) *)
Definition uses_mixin (w : world) (c : nat) : bool :=
  match find_cls c (w_classes w) with Some r => existsb (Nat.eqb (w_mixin w)) (c_mro r) | None => false end.

(* C.__parameters__ (a class the world does not list has none: AttributeError) *)
Definition class_params (w : world) (c : nat) : option (list val) :=
  match find_cls c (w_classes w) with Some r => Some (c_params r) | None => None end.

(* the value of the attribute lookup C.__orig_bases__ (None: AttributeError) *)
Definition lookup_ob (w : world) (c : nat) : option (list val) :=
  match find_cls c (w_classes w) with Some r => first_ob w (c_mro r) | None => None end.

(* ------------------------------------------------------------------------------------------ *)
(* interpreter                                                                                *)

Definition env := list (string * option val).    (* None: a local that has not been assigned yet *)
Definition journal := list (val * list val).     (* calls of unknown callables: (callee, arguments) *)

Fixpoint env_get (x : string) (e : env) : option val :=
  match e with
  | [] => None
  | (y, v) :: r => if String.eqb y x then v else env_get x r
  end.

Fixpoint env_upd (x : string) (v : val) (e : env) : env :=
  match e with
  | [] => [(x, Some v)]
  | (y, v') :: r => if String.eqb y x then (y, Some v) :: r else (y, v') :: env_upd x v r
  end.

Inductive res :=
| RNormal (en : env) (j : journal)
| RBreak (en : env) (j : journal)
| RContinue (en : env) (j : journal)
| RReturn (v : val) (j : journal)
| RRaise (e : exn) (j : journal).

Section Iter.
  (* comprehension and loop iterators; the per-item functions are section variables so that the
     interpreter below stays structurally recursive *)
  Variables fc fe : val -> outcome val.
  Fixpoint comp_list (items : list val) : outcome (list val) :=
    match items with
    | [] => Ok []
    | i :: r =>
      bind (fc i) (fun c =>
        if truthy c then bind (fe i) (fun x => bind (comp_list r) (fun l => Ok (x :: l)))
        else comp_list r)
    end.

  Variable fkv : val -> outcome (val * val).
  Fixpoint comp_dict (items : list val) (acc : list (val * val)) : outcome (list (val * val)) :=
    match items with
    | [] => Ok acc
    | i :: r => bind (fkv i) (fun kv => comp_dict r (dict_set (fst kv) (snd kv) acc))
    end.

  Variable body : val -> env -> journal -> res.
  Fixpoint for_loop (items : list val) (en : env) (j : journal) : res :=
    match items with
    | [] => RNormal en j
    | i :: r =>
      match body i en j with
      | RNormal en' j' | RContinue en' j' => for_loop r en' j'
      | RBreak en' j' => RNormal en' j'
      | other => other
      end
    end.
End Iter.

Definition is_property (progs : list (string * fundef)) (name : string) : bool :=
  match assoc name progs with Some fd => fd_property fd | None => false end.

Definition of_opt (o : option val) : outcome val :=
  match o with Some v => Ok v | None => Raise AttributeErrorC end.

Section Interp.
  Variable progs : list (string * fundef).
  Variable w : world.
  Variable ext : val -> list val -> outcome val.     (* behaviour of unknown callables *)
  Variable call : string -> list val -> outcome val. (* translated functions, one level down *)

  Definition get_attr (v : val) (name : string) : outcome val :=
    match v with
    | VInst c oc =>
        if String.eqb name "__orig_class__" then of_opt oc
        else if String.eqb name "__orig_bases__" then
          of_opt (match lookup_ob w c with Some l => Some (VTuple l) | None => None end)
        else if is_property progs name then call name [v]
        else match assoc name (w_attrs w) with
             | Some (AVal x) => Ok x
             | Some (ARaise e) => Raise e
             | Some (AProp o) => o
             | None => Raise AttributeErrorC
             end
    | VCls c =>
        if String.eqb name "__orig_bases__" then
          of_opt (match lookup_ob w c with Some l => Some (VTuple l) | None => None end)
        else if String.eqb name "__parameters__" then
          of_opt (match class_params w c with Some l => Some (VTuple l) | None => None end)
        else Raise AttributeErrorC
    | VAlias o args =>
        if String.eqb name "__origin__" then Ok o
        else if String.eqb name "__args__" then Ok (VTuple args)
        else Raise AttributeErrorC
    | VObj _ attrs => of_opt (assoc name attrs)
    | _ => Raise AttributeErrorC
    end.

  (* hasattr: getattr that swallows AttributeError only *)
  Definition has_attr (v : val) (name : string) : outcome val :=
    match get_attr v name with
    | Ok _ => Ok (VBool true)
    | Raise e => if derives e AttributeErrorC then Ok (VBool false) else Raise e
    end.

  Definition as_name (v : val) (k : string -> outcome val) : outcome val :=
    match v with VStr s => k s | _ => Raise TypeErrorC end.

  Definition bind_targets (x : string) (y : option string) (item : val) (en : env) : outcome env :=
    match y with
    | None => Ok ((x, Some item) :: en)
    | Some y' => match item with
                 | VTuple [a; b] => Ok ((x, Some a) :: (y', Some b) :: en)
                 | _ => Raise TypeErrorC
                 end
    end.

  Fixpoint eval (e : expr) (en : env) {struct e} : outcome val :=
    match e with
    | EVar x => match env_get x en with
                | Some v => Ok v
                | None => Raise UnboundLocalErrorC
                end
    | ENone => Ok VNone
    | EInt z => Ok (VInt z)
    | EStr s => Ok (VStr s)
    | EGenericRef => Ok VGeneric
    | EAttr a name => bind (eval a en) (fun v => get_attr v name)
    | EGetAttr a n => bind (eval a en) (fun v => bind (eval n en) (fun nv => as_name nv (get_attr v)))
    | EHasAttr a n => bind (eval a en) (fun v => bind (eval n en) (fun nv => as_name nv (has_attr v)))
    | ENot a => bind (eval a en) (fun v => Ok (VBool (negb (truthy v))))
    | EAnd a b => bind (eval a en) (fun v => if truthy v then eval b en else Ok v)
    | EOr a b => bind (eval a en) (fun v => if truthy v then Ok v else eval b en)
    | EEq a b => bind (eval a en) (fun x => bind (eval b en) (fun y => Ok (VBool (val_eqb x y))))
    | EIsNone a => bind (eval a en) (fun v => Ok (VBool (match v with VNone => true | _ => false end)))
    | ELen a => bind (eval a en) (fun v =>
                  match v with
                  | VTuple l | VList l => Ok (VInt (Z.of_nat (List.length l)))
                  | VDict d => Ok (VInt (Z.of_nat (List.length d)))
                  | VStr s => Ok (VInt (Z.of_nat (String.length s)))
                  | _ => Raise TypeErrorC
                  end)
    | EIndex a i => bind (eval a en) (fun v =>
                  match v with
                  | VTuple l | VList l => seq_index l i
                  | _ => Raise TypeErrorC
                  end)
    | ECall f a => bind (eval a en) (fun v => call f [v])
    | ENewExn c => Ok (VExn c)
    | EListComp x it c el =>
        bind (eval it en) (fun iv => bind (iter_items iv) (fun items =>
          bind (comp_list (fun i => eval c ((x, Some i) :: en)) (fun i => eval el ((x, Some i) :: en)) items)
               (fun l => Ok (VList l))))
    | EDictComp x y it k v =>
        bind (eval it en) (fun iv => bind (iter_items iv) (fun items =>
          bind (comp_dict (fun i => bind (bind_targets x y i en) (fun en' =>
                             bind (eval k en') (fun kv => bind (eval v en') (fun vv => Ok (kv, vv)))))
                          items [])
               (fun d => Ok (VDict d))))
    | EZip a b =>
        bind (eval a en) (fun x => bind (iter_items x) (fun xs =>
          bind (eval b en) (fun y => bind (iter_items y) (fun ys =>
            Ok (VList (map (fun p => VTuple [fst p; snd p]) (combine xs ys)))))))
    | EDictNew => Ok (VDict [])
    | EDictValues a => bind (eval a en) (fun v =>
                  match v with VDict d => Ok (VList (map snd d)) | _ => Raise AttributeErrorC end)
    | EListOf a => bind (eval a en) (fun v => bind (iter_items v) (fun l => Ok (VList l)))
    | EDir a => bind (eval a en) (fun v =>
                  match v with
                  | VInst _ _ => Ok (VList (map (fun p => VStr (fst p)) (w_attrs w)))
                  | _ => Raise TypeErrorC
                  end)
    | EStartsWith a p => bind (eval a en) (fun v => bind (eval p en) (fun pv =>
                  match v, pv with
                  | VStr s, VStr pre => Ok (VBool (String.prefix pre s))
                  | VStr _, _ => Raise TypeErrorC
                  | _, _ => Raise AttributeErrorC
                  end))
    | EIsClass a => bind (eval a en) (fun v =>
                  Ok (VBool (match v with VCls _ | VGeneric | VEnumCls _ => true | _ => false end)))
    | EUsesMixin a => bind (eval a en) (fun v =>
                  match v with
                  | VCls c => Ok (VBool (uses_mixin w c))
                  | VGeneric | VEnumCls _ => Ok (VBool false)
                  | _ => Raise TypeErrorC          (* issubclass() arg 1 must be a class *)
                  end)
    | ETupleEmpty => Ok (VTuple [])
    | ETuple2 a b => bind (eval a en) (fun x => bind (eval b en) (fun y => Ok (VTuple [x; y])))
    | EGetAttrD a name d => bind (eval a en) (fun v =>
                  match get_attr v name with
                  | Ok x => Ok x
                  | Raise ex => if derives ex AttributeErrorC then eval d en else Raise ex
                  end)
    | EDictOf a => bind (eval a en) (fun v => bind (iter_items v) (fun items =>
                  bind (comp_dict (fun i => match i with VTuple [k; x] => Ok (k, x) | _ => Raise TypeErrorC end) items [])
                       (fun d => Ok (VDict d))))
    | EDictGetD d k dflt => bind (eval d en) (fun dv => bind (eval k en) (fun kv => bind (eval dflt en) (fun fv =>
                  match dv with
                  | VDict l => Ok (match dict_get kv l with Some x => x | None => fv end)
                  | _ => Raise AttributeErrorC
                  end)))
    | ETupleComp x it el =>
        bind (eval it en) (fun iv => bind (iter_items iv) (fun items =>
          bind (comp_list (fun _ => Ok (VBool true)) (fun i => eval el ((x, Some i) :: en)) items)
               (fun l => Ok (VTuple l))))
    | ECall2 f a b => bind (eval a en) (fun x => bind (eval b en) (fun y => call f [x; y]))
    | EClassAttrIsProperty a n => bind (eval a en) (fun v => bind (eval n en) (fun nv =>
                  match v, nv with
                  | VInst _ _, VStr name =>
                      Ok (VBool (is_property progs name ||
                                 match assoc name (w_attrs w) with Some (AProp _) => true | _ => false end))
                  | _, VStr _ => Ok (VBool false)
                  | _, _ => Raise TypeErrorC
                  end))
    end.

  Fixpoint eval_list (es : list expr) (en : env) : outcome (list val) :=
    match es with
    | [] => Ok []
    | e :: r => bind (eval e en) (fun v => bind (eval_list r en) (fun l => Ok (v :: l)))
    end.

  Fixpoint exec (s : stmt) (en : env) (j : journal) {struct s} : res :=
    match s with
    | SSkip => RNormal en j
    | SSeq a b => match exec a en j with RNormal en' j' => exec b en' j' | r => r end
    | SAssign x e => match eval e en with Ok v => RNormal (env_upd x v en) j | Raise ex => RRaise ex j end
    | SIf c t f => match eval c en with
                   | Ok v => if truthy v then exec t en j else exec f en j
                   | Raise ex => RRaise ex j
                   end
    | SFor x it body =>
        match bind (eval it en) iter_items with
        | Ok items => for_loop (fun i en' j' => exec body (env_upd x i en') j') items en j
        | Raise ex => RRaise ex j
        end
    | SContinue => RContinue en j
    | SBreak => RBreak en j
    | SReturn e => match eval e en with Ok v => RReturn v j | Raise ex => RRaise ex j end
    | SRaise e => match eval e en with
                  | Ok (VExn c) => RRaise c j
                  | Ok _ => RRaise TypeErrorC j
                  | Raise ex => RRaise ex j
                  end
    | SAssert c => match eval c en with
                   | Ok v => if truthy v then RNormal en j else RRaise AssertionErrorC j
                   | Raise ex => RRaise ex j
                   end
    | SSetAttr o n v =>
        match eval (EVar o) en with
        | Ok (VObj id attrs) =>
            match eval n en with
            | Ok (VStr s) =>
                match eval v en with
                | Ok x => RNormal (env_upd o (VObj id (assoc_set s x attrs)) en) j
                | Raise ex => RRaise ex j
                end
            | Ok _ => RRaise TypeErrorC j
            | Raise ex => RRaise ex j
            end
        | Ok _ => RRaise AttributeErrorC j
        | Raise ex => RRaise ex j
        end
    | SSetItem2 d k1 k2 v =>
        (* Python evaluates the right-hand side first, then d[k1], then k2, then stores *)
        match eval v en with
        | Raise ex => RRaise ex j
        | Ok x =>
          match eval (EVar d) en with
          | Raise ex => RRaise ex j
          | Ok (VDict outer) =>
            match eval k1 en with
            | Raise ex => RRaise ex j
            | Ok a =>
              match dict_get a outer with
              | None => RRaise KeyErrorC j
              | Some (VDict inner) =>
                match eval k2 en with
                | Raise ex => RRaise ex j
                | Ok b => RNormal (env_upd d (VDict (dict_set a (VDict (dict_set b x inner)) outer)) en) j
                end
              | Some _ => RRaise TypeErrorC j
              end
            end
          | Ok _ => RRaise TypeErrorC j
          end
        end
    | SAssign2 x y e =>
        match eval e en with
        | Ok (VTuple [a; b]) => RNormal (env_upd y b (env_upd x a en)) j
        | Ok _ => RRaise TypeErrorC j
        | Raise ex => RRaise ex j
        end
    | SCallExt x f args =>
        match eval f en with
        | Raise ex => RRaise ex j
        | Ok fv =>
          match eval_list args en with
          | Raise ex => RRaise ex j
          | Ok avs =>
            match ext fv avs with
            | Ok r => RNormal (env_upd x r en) (j ++ [(fv, avs)])
            | Raise ex => RRaise ex (j ++ [(fv, avs)])
            end
          end
        end
    end.

  Definition init_env (fd : fundef) (args : list val) : env :=
    map (fun p => (fst p, Some (snd p))) (combine (fd_params fd) args) ++ map (fun x => (x, None)) (fd_locals fd).

  Definition run_fundef (fd : fundef) (args : list val) : outcome val * journal :=
    if negb (Nat.eqb (List.length (fd_params fd)) (List.length args)) then (Raise TypeErrorC, [])
    else match exec (fd_body fd) (init_env fd args) [] with
         | RReturn v j => (Ok v, j)
         | RNormal _ j => (Ok VNone, j)
         | RRaise e j => (Raise e, j)
         | RBreak _ j | RContinue _ j => (Raise StuckC, j)
         end.
End Interp.

(* calls between translated functions: depth-bounded; an exhausted depth is the distinguished
   DivergeC, never a normal value *)
Fixpoint call_n (progs : list (string * fundef)) (w : world) (ext : val -> list val -> outcome val)
         (fuel : nat) (name : string) (args : list val) : outcome val :=
  match fuel with
  | O => Raise DivergeC
  | S k => match assoc name progs with
           | Some fd => fst (run_fundef progs w ext (call_n progs w ext k) fd args)
           | None => Raise NameErrorC
           end
  end.

Definition no_ext : val -> list val -> outcome val := fun _ _ => Raise StuckC.
Definition no_call : string -> list val -> outcome val := fun _ _ => Raise StuckC.
Definition FUEL : nat := 8.

(* ------------------------------------------------------------------------------------------ *)
(* class creation for the decorated-methods part                                              *)

(* how a custom transformation behaves: none given / hands back an object that still carries the
   attributes of the function (the function itself, a functools.wraps wrapper) / hands back an
   object without them / raises *)
Inductive trkind := TrNone | TrKeep | TrDrop | TrRaise.

Record deco := { d_type : string; d_val : val; d_tr : trkind }.

Inductive wrapk :=
| WPlain                 (* def m(self) *)
| WClassMethod           (* @classmethod *)
| WStaticMethod          (* @staticmethod *)
| WGetter (a : aent)     (* a non-function class attribute (a: its value / what reading it does) *)
| WProperty (o : outcome val).   (* @property (o: what the getter does) *)

Record mdef := {
  m_name : string;             (* the name dir() lists *)
  m_id : nat;                  (* identity of the object getattr(self, name) yields; aliases share it *)
  m_inner : list deco;         (* create_decorator decorators applied to the function, innermost first *)
  m_wrap : wrapk;
  m_outer : list deco;         (* decorators written above @classmethod/@staticmethod *)
}.

Definition tr_callee (k : trkind) : val :=
  match k with TrNone => VNone | TrKeep => VTok 1 | TrDrop => VTok 2 | TrRaise => VTok 3 end.

Definition ext_std (callee : val) (args : list val) : outcome val :=
  match callee, args with
  | VTok 1, f :: _ => Ok f
  | VTok 2, VObj id _ :: _ => Ok (VObj id [])
  | VTok 3, _ => Raise ValueErrorC
  | _, _ => Raise TypeErrorC
  end.

Definition empty_world : world := {| w_classes := []; w_attrs := []; w_mixin := 0 |}.

(* one application  @deco(value)  to the current object, through the translated program *)
Definition apply_deco (fd_fun : fundef) (cur : val) (d : deco) : outcome val :=
  fst (run_fundef [] empty_world ext_std no_call fd_fun [cur; VStr (d_type d); d_val d; tr_callee (d_tr d)]).

Fixpoint apply_decos (fd_fun : fundef) (cur : val) (ds : list deco) : outcome val :=
  match ds with
  | [] => Ok cur
  | d :: r => bind (apply_deco fd_fun cur d) (fun cur' => apply_decos fd_fun cur' r)
  end.

(* getattr(instance, name) after class creation.  A bound method / the function handed out by a
   staticmethod shows the attributes of the *function*; attributes set on the classmethod /
   staticmethod object itself are not visible through it. *)
Definition build_attr (fd_fun : fundef) (m : mdef) : outcome (string * aent) :=
  match m_wrap m with
  | WGetter a =>
      bind (apply_decos fd_fun (VObj (m_id m) []) (m_inner m)) (fun _ =>
      bind (apply_decos fd_fun (VTok 0) (m_outer m)) (fun _ => Ok (m_name m, a)))
  | WProperty o =>
      (* a decorator above @property does setattr on the property object (no __dict__): the program
         raises AttributeError while the class body runs; decorators below @property decorate the
         getter, which getattr(instance, name) never shows *)
      bind (apply_decos fd_fun (VObj (m_id m) []) (m_inner m)) (fun _ =>
      bind (apply_decos fd_fun (VTok 0) (m_outer m)) (fun _ => Ok (m_name m, AProp o)))
  | WPlain => bind (apply_decos fd_fun (VObj (m_id m) []) (m_inner m ++ m_outer m))
                   (fun o => Ok (m_name m, AVal o))
  | WClassMethod | WStaticMethod =>
      (* decorators above @classmethod/@staticmethod set the attribute on the descriptor object,
         where getattr(instance, name) does not look *)
      bind (apply_decos fd_fun (VObj (m_id m) []) (m_inner m)) (fun o =>
      bind (apply_decos fd_fun (VObj 0 []) (m_outer m)) (fun _ => Ok (m_name m, AVal o)))
  end.

Fixpoint build_table (fd_fun : fundef) (cd : list mdef) : outcome (list (string * aent)) :=
  match cd with
  | [] => Ok []
  | m :: r => bind (build_attr fd_fun m) (fun a => bind (build_table fd_fun r) (fun t => Ok (a :: t)))
  end.
