(* What translator/t_typevar.py extracts (fail-closed) from the code that decides how TypeVars are
   matched and where their binding table lives; regenerated into Gen/TypeVarShape.v on every run.
   `shape_modelled` = the shape Model/Checker.v (typevar_check) and Model/GenericInstance.v were written
   for; Props/C07.v proves it of the regenerated record.                                          *)
From Coq Require Import List Arith Bool.
Import ListNotations.

Inductive tv_test := ByExactClass | ByIsInstance | ByIsSubclass.
Inductive table_part := PartStored | PartGenerics | PartSelf.

Record tv_shape := {
  sh_constraints : tv_test;          (* `type(obj) not in constraints` *)
  sh_bound : tv_test;                (* `not isinstance(obj, type_.__bound__)` *)
  sh_bound_class : tv_test;          (* _matches_bound_type on a plain class: `isinstance(obj, bound_type)` *)
  sh_bound_any_excluded : bool;      (* `bound_type is not Any` in the class shortcut *)
  sh_contra : tv_test;               (* `_is_subtype(sub_type=other, super_type=obj.__class__)` *)
  sh_conflict_raises_mismatch : bool;(* both conflict branches raise PedanticTypeVarMismatchException *)
  sh_rebinds_latest : bool;          (* unconditional `type_vars[type_] = type(obj)` before `return True` *)
  sh_call_table_fresh : bool;        (* FunctionCall.__init__: `self._type_vars = dict()` *)
  sh_call_uses_instance_method : bool; (* type_vars: `if hasattr(self._instance, METHOD): self._get_type_vars = getattr(...)` *)
  sh_table_on_instance : bool;       (* getattr / setattr of the attribute on `self` (not on the class) *)
  sh_merge_order : list table_part;  (* the dict display of the generic branch *)
  sh_nongeneric_fresh : bool;        (* else branch: setattr(self, ATTR, t_vars) *)
  sh_orig_class_guard : bool;        (* `if not hasattr(instance, '__orig_class__'): return type_vars` *)
  sh_generics_positional : bool;     (* type_vars[type_var] = actual_types[i] over enumerate(type_variables) *)
  sh_generic_by_parameters : bool;
  sh_every_check_fetches_table : bool; (* every assert_value_matches_type call of FunctionCall (named, *args, **kwargs, result) passes
                                         `type_vars=self.type_vars` - the property, evaluated per checked value *)   (* is_instance_of_generic_class: `Generic in __bases__ or len(__parameters__) > 0` *)
}.

Definition tv_test_eqb (a b : tv_test) : bool :=
  match a, b with ByExactClass, ByExactClass | ByIsInstance, ByIsInstance | ByIsSubclass, ByIsSubclass => true | _, _ => false end.
Definition part_eqb (a b : table_part) : bool :=
  match a, b with PartStored, PartStored | PartGenerics, PartGenerics | PartSelf, PartSelf => true | _, _ => false end.
Fixpoint parts_eqb (a b : list table_part) : bool :=
  match a, b with
  | [], [] => true
  | x :: a', y :: b' => part_eqb x y && parts_eqb a' b'
  | _, _ => false
  end.

Definition shape_modelled (s : tv_shape) : bool :=
  tv_test_eqb (sh_constraints s) ByExactClass && tv_test_eqb (sh_bound s) ByIsInstance
  && tv_test_eqb (sh_bound_class s) ByIsInstance && sh_bound_any_excluded s
  && tv_test_eqb (sh_contra s) ByIsSubclass && sh_conflict_raises_mismatch s && sh_rebinds_latest s
  && sh_call_table_fresh s && sh_call_uses_instance_method s && sh_table_on_instance s
  && parts_eqb (sh_merge_order s) [PartStored; PartGenerics; PartSelf]
  && sh_nongeneric_fresh s && sh_orig_class_guard s && sh_generics_positional s && sh_generic_by_parameters s && sh_every_check_fetches_table s.
