(* The keyword-only test of @require_kwargs as the code computes it.  `cx_assert_kw` of Model/WrapperSem.v is
   instantiated with the REGENERATED call protocol of the C03 cone (Gen/Pedantic.v interpreted by Model/Pedantic.v:
   DecoratedFunction.should_have_kwargs, FunctionCall.args_without_self, assert_uses_kwargs), applied to what
   require_kwargs can see of the callable it decorates.  Definitions only, no proofs.                       *)
From Coq Require Import List Arith Bool String.
From PV Require Import Base.Exn Base.Values Base.PyCall Model.PedanticCfg Model.Pedantic.
From PV Require Model.WrapperSem.
Import ListNotations.
Open Scope list_scope.

(* what DecoratedFunction(func) reads: the name, getfullargspec(func).args[:1] == ['self'] (does not look through
   functools.wraps), and searches of the source text inspect.getsource(func) (which does look through it) *)
Record kw_shape := {
  ks_name : string;           (* func.__name__ *)
  ks_first_self : bool;       (* getfullargspec(func).args[:1] == ['self'] *)
  ks_star_args : bool;        (* '*args' in source *)
  ks_staticmethod : bool;     (* '@staticmethod' in source *)
  ks_setter : bool;           (* '@<name>.setter' in source *)
  ks_rk_text : bool;          (* '@pedantic' in source or '@require_kwargs' in source *)
  ks_n_at : nat;              (* number of '@' before the first 'def' *)
}.

Definition fn_of_shape (s : kw_shape) : fn :=
  {| f_name := ks_name s; f_dotted := false; f_params := []; f_bound := None;
     f_first_arg := if ks_first_self s then Some self_name else None;
     f_ret := None; f_coroutine := false; f_generator := false;
     f_text := {| t_star_args := ks_star_args s; t_staticmethod := ks_staticmethod s; t_setter := ks_setter s;
                  t_pedantic := ks_rk_text s; t_n_at := ks_n_at s |};
     f_setter := false; f_recv := false |}.

(* only the NUMBER of positional arguments the wrapper receives matters to the test *)
Definition call_of_arity (n : nat) : call :=
  {| c_recv := []; c_twin_recv := []; c_args := repeat Values.VNone n; c_kwargs := [] |}.

Definition kw_test_of (pc : pedantic_cfg) (s : kw_shape) : WrapperSem.args -> WrapperSem.kwargs -> option exn :=
  fun a _ => match assert_uses_kwargs pc (fn_of_shape s) (call_of_arity (List.length a)) with
             | Ok _ => None
             | Raise e => Some e
             end.

(* how many leading positional arguments the test does not count *)
Definition strip_of (pc : pedantic_cfg) (s : kw_shape) : nat :=
  if strips_first pc (fn_of_shape s) then pc_strip_from pc else 0.
