(* C04 - @pedantic is transparent for conforming keyword calls.

   Full statement (properties.jsonl): when every argument and the result conform and the call uses
   keyword arguments, a @pedantic function behaves exactly like the undecorated one: the body runs exactly
   once and receives the very same argument objects, the very same result object is returned, an exception
   of the body reaches the caller unchanged, checking does not consume the arguments, and it depends only on
   signature and annotations - not on words in the body, comments or docstring.

       forall f c bd, c04_call_ok f c -> c04_result_ok f (bd ..) -> run f c bd = twin f c bd        (FALSE)

   where `twin` is the undecorated callable applied to the same call (CPython's binding, the body's own
   outcome, journal = that one invocation).  False on the unchanged tree in several regions (`*_refuted`, each
   reproduced on the real code as a KNOWN-FINDING by bin/check C04); proved under the guards `kw_guards`
   that exclude exactly them (`C04_transparent_partial` and its corollaries) and under `no_iterator_consumed` /
   `result_intact`: no one-shot iterator, AT ANY DEPTH of a supplied value or of the returned value, is reached by the traversal
   of the checker (Model.Pedantic.drain / consumes_model; refuted otherwise for a top-level, a nested and a returned iterator).
   Positional-only parameters are inside the guards (since /repo b2616e5 also when their NAME is used as a keyword of the call:
   `C04_posonly_name_as_keyword_repaired`).  Relative to the checker:
   the Section hypothesis `checker_sound_complete` is discharged by the C01/C02 lemmas.              *)
From Coq Require Import List Arith Bool String ZArith Lia.
From PV Require Import Base.Exn Base.Values Base.Ann Base.PyCall Model.CheckerCfg Model.Checker Model.PedanticCfg
  Model.Pedantic Model.GenWrapper Model.PedanticEval Spec.Conforms Spec.PedanticSpec
  Proofs.PedanticBase Proofs.PyCallFacts Proofs.PedanticC03 Proofs.PedanticC04 Proofs.PedanticGen Proofs.PedanticChecker Proofs.PedanticWitness Proofs.PedanticMut Gen.Pedantic Gen.CheckerTables.
Import ListNotations.
Close Scope Z_scope.
Open Scope list_scope.

Theorem C04_cfg_good : pc_good Gen.Pedantic.pedantic_cfg = true.
Proof. vm_compute. reflexivity. Qed.
Print Assumptions C04_cfg_good.

(* ---------------- relative to any checker ---------------- *)
Theorem C04_transparent_relative : forall pc check consumes f c bd b r,
  pc_good pc = true ->
  kw_guards pc f c -> twin_binding f c = Ok b ->
  (forall oa v, In (oa, v) (supplied_of f c b) -> exists a, oa = Some a /\ accepts_intact check consumes a v) ->
  f_ret f = Some r -> (forall b' cons v, bd b' cons = Ok v -> accepts_intact check consumes r v) ->
  run pc check consumes f c bd = twin f c bd.
Proof. intros. eapply transparent; eassumption. Qed.
Print Assumptions C04_transparent_relative.

(* calling a generator function: under the same guards the caller gets a wrapper around exactly the generator the undecorated
   function would have returned - created on the binding CPython gives the undecorated function, nothing consumed, no part of
   the body has run yet - and its yield / send / return types are those of the return annotation.  Together with
   `C04_generator_transparent_partial` (every run of such a wrapper): the whole life of a @pedantic generator function. *)
Theorem C04_generator_call_transparent_partial : forall pc check consumes f c b a t,
  pc_good pc = true ->
  kw_guards pc f c -> twin_binding f c = Ok b ->
  (forall oa v, In (oa, v) (supplied_of f c b) -> exists a0, oa = Some a0 /\ accepts_intact check consumes a0 v) ->
  f_ret f = Some a -> gen_types pc a = Ok t ->
  run_gen pc check consumes f c = (Ok {| g_bind := b; g_cons := []; g_types := Some t |}, []).
Proof. intros. eapply gen_call_transparent; eassumption. Qed.
Print Assumptions C04_generator_call_transparent_partial.

(* generator functions: if everything the generator yields / returns and everything that is sent conforms (the checker
   accepts it), the caller of the GeneratorWrapper observes exactly the sequence of results the caller of the undecorated
   generator observes - for every generator body and every sequence of next / send / throw / close operations (induction on
   the sequence).  Guard `run_fine`: no next() / send() is made after the generator has finished (returned, raised, been closed:
   g_done) - or the return type accepts the None a finished generator answers with; the complement is the finding
   C04-exhausted-generator (`C04_exhausted_generator_refuted`).  Generators with a real return value are inside:
   `C04_generator_with_return_value_transparent`.  `op_ok` constrains only the values the caller sends; a next() needs nothing
   (since /repo a25625d: C04_generator_next_with_send_type_repaired). *)
Theorem C04_generator_transparent_partial : forall check yt st rt body ops w,
  (forall h y, body h = GYield y -> g_accepts check yt y) ->
  (forall h r, body h = GReturn r -> g_accepts check rt r) ->
  Forall (op_ok check st) ops ->
  run_fine check rt body (w_inner w) ops ->
  fst (w_run check yt st rt body w ops) = map res_of (fst (twin_run body (w_inner w) ops)).
Proof. intros. now apply gen_transparent. Qed.
Print Assumptions C04_generator_transparent_partial.

(* closed: the checker model over the regenerated tables (GeneratorWrapper passes no context), hypotheses in terms of conformance
   (C02 completeness via Proofs/PedanticChecker.checker1_accepts); the guard is the structural one alone: no next() / send() after
   the generator has finished *)
Definition conf (a : ann) (v : value) : Prop := supported noctx a = true /\ conforms noctx a v = Must.
Theorem C04_generator_transparent_closed_partial : forall yt st rt body ops,
  (forall h y, body h = GYield y -> conf yt y) ->
  (forall h r, body h = GReturn r -> conf rt r) ->
  Forall (fun o => match o with OpSend v => conf st v | _ => True end) ops ->
  live_run body gstate0 ops ->
  fst (w_run gen_check yt st rt body wstate0 ops) = map res_of (fst (twin_run body gstate0 ops)).
Proof.
  intros yt st rt body ops Hy Hr Hs Hl.
  assert (A : forall a v, conf a v -> g_accepts gen_check a v).
  { intros a v [H1 H2] tv. now apply checker1_accepts. }
  apply (gen_transparent gen_check yt st rt body (fun h y E => A _ _ (Hy h y E)) (fun h r E => A _ _ (Hr h r E)) ops wstate0).
  - eapply Forall_impl; [|exact Hs]. intros [|v|e|] H; simpl; auto.
  - apply live_run_fine. exact Hl.
Qed.
Print Assumptions C04_generator_transparent_closed_partial.

(* a generator with a real return value, Generator[int, None, int]: yield 1; return 5 driven by next(); next() *)
Example C04_generator_with_return_value_transparent :
  let body := script_body TPropagate [SYield (VInt 1%Z); SRet (VInt 5%Z)] in
  live_run body gstate0 [OpNext; OpNext]
  /\ fst (w_run gen_check AInt ANone AInt body wstate0 [OpNext; OpNext]) = [WValue (VInt 1%Z); WStop (VInt 5%Z)]
  /\ map res_of (fst (twin_run body gstate0 [OpNext; OpNext])) = [WValue (VInt 1%Z); WStop (VInt 5%Z)].
Proof. split; [simpl; repeat split; reflexivity|]. split; vm_compute; reflexivity. Qed.

(* the definition of the undecorated twin does not look at the text flags *)
Definition with_text (f : fn) (t : text_flags) : fn :=
  {| f_name := f_name f; f_dotted := f_dotted f; f_params := f_params f; f_bound := f_bound f; f_first_arg := f_first_arg f;
     f_ret := f_ret f; f_coroutine := f_coroutine f; f_generator := f_generator f; f_text := t; f_setter := f_setter f; f_recv := f_recv f |}.

Section Relative.
  Variable cfg : CheckerCfg.checker_cfg.
  Variable ctx : nat -> option cls.
  Let check := assert_matches1 cfg ctx.
  Let consumes := consumes_model cfg.

  (* to be discharged with the C01/C02 lemmas about the checker model *)
  Hypothesis checker_sound_complete : forall a v tv,
    supported ctx a = true -> conforms ctx a v = Must -> fst (check a v tv) = Ok tt.

  Lemma good_accepts : forall oa v, good ctx oa v = true -> exists a, oa = Some a /\ accepts check a v.
  Proof.
    intros [a|] v H; [|discriminate]. simpl in H. apply andb_true_iff in H as [Hs Hm].
    exists a. split; [reflexivity|]. intros tv. apply checker_sound_complete; [assumption|].
    destruct (conforms ctx a v); try discriminate; reflexivity.
  Qed.

  (* C04 under the guards: the decorated call IS the undecorated call: same outcome (the very object the
     body produced or raised), same journal (one invocation, the very same argument objects, nothing consumed) *)
  Theorem C04_transparent_partial : forall pc f c bd,
    pc_good pc = true -> kw_guards pc f c -> no_iterator_consumed cfg f c = true ->
    c04_call_ok ctx f c = true ->
    (forall b cons, c04_result_ok ctx f (bd b cons) = true) ->
    (forall b cons, result_intact cfg f (bd b cons) = true) ->
    run pc check consumes f c bd = twin f c bd.
  Proof.
    intros pc f c bd G g Hit H Hres Hri. unfold c04_call_ok, c04_args_ok in H. unfold no_iterator_consumed in Hit.
    destruct (twin_binding f c) as [b|] eqn:Eb; [|discriminate].
    apply andb_true_iff in H as [H Hret]. apply andb_true_iff in H as [H Hann]. apply andb_true_iff in H as [H _]. apply andb_true_iff in H as [_ Hgood].
    destruct (f_ret f) as [r|] eqn:Er; [|discriminate].
    eapply transparent; try eassumption.
    - intros oa v Hin. rewrite forallb_forall in Hgood. pose proof (Hgood (oa, v) Hin) as Hg. simpl in Hg.
      destruct (good_accepts _ _ Hg) as [a [E Ha]]. subst oa.
      exists a. split; [reflexivity|]. split; [assumption|]. rewrite forallb_forall in Hit. specialize (Hit _ (in_or_app _ _ _ (or_introl Hin))). simpl in Hit.
      now apply negb_true_iff in Hit.
    - intros b' cons v Ev. specialize (Hres b' cons). rewrite Ev in Hres. unfold c04_result_ok in Hres. rewrite Er in Hres.
      destruct (good_accepts _ _ Hres) as [a [E Ha]]. inversion E; subst. split; [assumption|].
      specialize (Hri b' cons). rewrite Ev in Hri. unfold result_intact in Hri. rewrite Er in Hri. now apply negb_true_iff in Hri.
  Qed.

  (* the body runs exactly once, on the binding CPython would have given the undecorated function *)
  Theorem C04_body_once_partial : forall pc f c bd b,
    pc_good pc = true -> kw_guards pc f c -> no_iterator_consumed cfg f c = true -> c04_call_ok ctx f c = true ->
    (forall b cons, c04_result_ok ctx f (bd b cons) = true) ->
    (forall b cons, result_intact cfg f (bd b cons) = true) ->
    twin_binding f c = Ok b ->
    snd (run pc check consumes f c bd) = [(b, [])].
  Proof.
    intros pc f c bd b G g Hit H Hres Hri Hb. rewrite (C04_transparent_partial pc f c bd G g Hit H Hres Hri).
    unfold twin. unfold twin_binding, full_params in Hb. now rewrite Hb.
  Qed.

  (* an exception of the body reaches the caller unchanged; a value is returned as the very same object *)
  Theorem C04_outcome_passthrough_partial : forall pc f c bd b,
    pc_good pc = true -> kw_guards pc f c -> no_iterator_consumed cfg f c = true -> c04_call_ok ctx f c = true ->
    (forall b cons, c04_result_ok ctx f (bd b cons) = true) ->
    (forall b cons, result_intact cfg f (bd b cons) = true) ->
    twin_binding f c = Ok b ->
    fst (run pc check consumes f c bd) = bd b [].
  Proof.
    intros pc f c bd b G g Hit H Hres Hri Hb. rewrite (C04_transparent_partial pc f c bd G g Hit H Hres Hri).
    unfold twin. unfold twin_binding, full_params in Hb. now rewrite Hb.
  Qed.

  (* independence from the text of the function - inside the guards *)
  Theorem C04_text_independent_partial : forall pc f t t' c bd,
    pc_good pc = true -> kw_guards pc (with_text f t) c -> kw_guards pc (with_text f t') c ->
    no_iterator_consumed cfg f c = true -> c04_call_ok ctx f c = true ->
    (forall b cons, c04_result_ok ctx f (bd b cons) = true) ->
    (forall b cons, result_intact cfg f (bd b cons) = true) ->
    run pc check consumes (with_text f t) c bd = run pc check consumes (with_text f t') c bd.
  Proof.
    intros pc f t t' c bd G g g' Hit H Hres Hri.
    rewrite (C04_transparent_partial pc (with_text f t) c bd G g Hit H Hres Hri).
    rewrite (C04_transparent_partial pc (with_text f t') c bd G g' Hit H Hres Hri). reflexivity.
  Qed.
End Relative.
Print Assumptions C04_transparent_partial.
Print Assumptions C04_body_once_partial.
Print Assumptions C04_outcome_passthrough_partial.
Print Assumptions C04_text_independent_partial.

(* ---------------- closed: the model of the whole library ---------------- *)
(* hypothesis discharged by the C02 completeness theorem (Proofs/CheckerTop.v via Proofs/PedanticChecker.v) *)
Theorem C04_transparent_closed_partial : forall ctx f c bd,
  kw_guards Gen.Pedantic.pedantic_cfg f c -> no_iterator_consumed gcfg f c = true ->
  c04_call_ok ctx f c = true ->
  (forall b cons, c04_result_ok ctx f (bd b cons) = true) ->
  (forall b cons, result_intact gcfg f (bd b cons) = true) ->
  run1 ctx f c bd = twin f c bd.
Proof.
  intros ctx f c bd g Hit H Hres Hri. unfold run1.
  exact (C04_transparent_partial gcfg ctx (checker1_accepts ctx) _ f c bd C04_cfg_good g Hit H Hres Hri).
Qed.
Print Assumptions C04_transparent_closed_partial.

(* the same with the guards stated over the ground truth only (Proofs/PedanticC04.v: truth_guards): a module-level function or
   an instance method whose receiver is called `self`, not hidden behind another decorator, no "@staticmethod" in its text,
   called by keyword on the receiver the undecorated method would get, no one-shot iterator reached by the checker *)
Theorem C04_transparent_ground_truth_partial : forall ctx f c bd,
  truth_guards f c -> no_iterator_consumed gcfg f c = true ->
  c04_call_ok ctx f c = true ->
  (forall b cons, c04_result_ok ctx f (bd b cons) = true) ->
  (forall b cons, result_intact gcfg f (bd b cons) = true) ->
  run1 ctx f c bd = twin f c bd.
Proof.
  intros ctx f c bd t Hit H Hres Hri. apply C04_transparent_closed_partial; try assumption.
  now apply (truth_kw_guards _ C04_cfg_good).
Qed.
Print Assumptions C04_transparent_ground_truth_partial.

Ltac guards :=
  constructor; try reflexivity; try discriminate; try (intros; exact I);
  try (simpl; lia);
  try (let p := fresh "p" in let Hp := fresh "Hp" in intros p Hp; simpl in Hp; intuition (subst; discriminate));
  try (let i := fresh "inst" in let Hi := fresh "Hi" in intros i Hi; vm_compute in Hi; inversion Hi; reflexivity);
  try (let Hn := fresh "Hn" in intro Hn; exfalso; apply Hn; reflexivity).


(* ---------------- refutations of the full statement (known findings) ---------------- *)
Definition differs (f : fn) (c : call) (bd : body) : Prop := run1 ctx0 f c bd <> twin f c bd.
Definition one : value := VInt 1%Z.

(* K2: the verdict depends on words in the docstring: f(a=1) with '@staticmethod' in the text raises IndexError *)
Theorem C04_text_independent_refuted : exists f t t' c bd,
  c04_call_ok ctx0 f c = true /\ c04_result_ok ctx0 f (bd [] []) = true
  /\ run1 ctx0 (with_text f t) c bd <> run1 ctx0 (with_text f t') c bd.
Proof.
  exists f_plain, plain_text, (tflags false true false true 1), (kwcall [] [(a_, one)]), (returns one).
  repeat split; try reflexivity. vm_compute. discriminate.
Qed.
Print Assumptions C04_text_independent_refuted.

(* K1: a one-shot iterator under Iterable[int] is exhausted by the check before the body sees it *)
Theorem C04_iterator_consumed_refuted : exists f c bd,
  c04_call_ok ctx0 f c = true /\ c04_result_ok ctx0 f (bd [] []) = true /\ no_iterator_consumed gcfg f c = false
  /\ snd (run1 ctx0 f c bd) = [([(9, BOne (SKw 9))], [SKw 9])] /\ differs f c bd.
Proof.
  exists f_iterable, (kwcall [] [(9, VIter [one; VInt 2%Z])]), (returns one).
  repeat split; try reflexivity. unfold differs. vm_compute. discriminate.
Qed.
Print Assumptions C04_iterator_consumed_refuted.

(* ... at any depth the traversal of the checker reaches: Optional[Iterable[int]], List[Iterable[int]], Dict[str, Iterable[int]] *)
Definition AIterInt := AGeneric SpTyping TIterable [AInt].
Theorem C04_nested_iterator_consumed_refuted : forall a v,
  In (a, v) [(AUnion UTyping [AIterInt; ACls CNoneType], VIter [one; VInt 2%Z]);
             (AGeneric SpTyping TList [AIterInt], VList [VIter [one]]);
             (AGeneric SpTyping TDict [AStrC; AIterInt], VDict [(vx, VIter [one])]);
             (AGeneric SpTyping TTuple [AInt; AIterInt], VTuple [one; VIter [one]])] ->
  let f := func "f" [par 9 PosOrKw a None] plain_text in
  let c := kwcall [] [(9, v)] in
  c04_call_ok ctx0 f c = true /\ no_iterator_consumed gcfg f c = false
  /\ snd (run1 ctx0 f c (returns one)) = [([(9, BOne (SKw 9))], [SKw 9])] /\ differs f c (returns one).
Proof.
  intros a v H. simpl in H. unfold differs.
  destruct H as [E|[E|[E|[E|[]]]]]; inversion E; subst; (repeat split; try reflexivity); vm_compute; discriminate.
Qed.
Print Assumptions C04_nested_iterator_consumed_refuted.

(* the RESULT: def f() -> Iterable[int]: return iter([1, 2]) - the caller of the decorated function gets the very iterator the body
   returned, exhausted by the check of the return value: list(f()) == [] *)
Definition f_returns_iterable : fn :=
  {| f_name := "f"; f_dotted := false; f_params := []; f_bound := None; f_first_arg := None; f_ret := Some AIterInt;
     f_coroutine := false; f_generator := false; f_text := plain_text; f_setter := false; f_recv := false |}.
Theorem C04_result_iterator_consumed_refuted : exists f c bd,
  c04_call_ok ctx0 f c = true /\ c04_result_ok ctx0 f (bd [] []) = true /\ no_iterator_consumed gcfg f c = true
  /\ result_intact gcfg f (bd [] []) = false
  /\ fst (run1 ctx0 f c bd) = Ok (VIter []) /\ fst (twin f c bd) = Ok (VIter [one; VInt 2%Z]) /\ snd (run1 ctx0 f c bd) = snd (twin f c bd).
Proof.
  exists f_returns_iterable, (kwcall [] []), (returns (VIter [one; VInt 2%Z])). repeat split; reflexivity.
Qed.
Print Assumptions C04_result_iterator_consumed_refuted.

(* ... also nested in the result: -> Optional[List[Iterable[int]]] *)
Example C04_result_nested_iterator_consumed :
  let f := {| f_name := "f"; f_dotted := false; f_params := []; f_bound := None; f_first_arg := None;
              f_ret := Some (AUnion UTyping [AGeneric SpTyping TList [AIterInt]; ACls CNoneType]);
              f_coroutine := false; f_generator := false; f_text := plain_text; f_setter := false; f_recv := false |} in
  fst (run1 ctx0 f (kwcall [] []) (returns (VList [VIter [one]; VIter []]))) = Ok (VList [VIter []; VIter []]).
Proof. reflexivity. Qed.

(* K7: a class method of a @pedantic_class called through a subclass sees the decorated class as cls *)
Theorem C04_classmethod_via_subclass_refuted : exists f c bd,
  c04_call_ok ctx0 f c = true /\ c04_result_ok ctx0 f (bd [] []) = true
  /\ snd (run1 ctx0 f c bd) = [([(cls_, BOne (SObj K_cls)); (a_, BOne (SKw a_))], [])]
  /\ snd (twin f c bd) = [([(cls_, BOne (SObj Sub_cls)); (a_, BOne (SKw a_))], [])].
Proof.
  exists c_bound, {| c_recv := []; c_twin_recv := [Sub_cls]; c_args := []; c_kwargs := [(a_, one)] |}, (returns one).
  repeat split; reflexivity.
Qed.
Print Assumptions C04_classmethod_via_subclass_refuted.

(* K10: K.m(self=k, a=1) *)
Theorem C04_self_by_keyword_refuted : exists f c bd,
  c04_call_ok ctx0 f c = true /\ c04_result_ok ctx0 f (bd [] []) = true
  /\ run1 ctx0 f c bd = (Raise IndexErrorC, []) /\ fst (twin f c bd) = Ok one.
Proof.
  exists m_self, {| c_recv := []; c_twin_recv := []; c_args := []; c_kwargs := [(self_name, k_inst); (a_, one)] |}, (returns one).
  repeat split; reflexivity.
Qed.
Print Assumptions C04_self_by_keyword_refuted.

(* the receiver is recognised by its name: k.m(a=1) on `def m(this, a: int)` *)
Theorem C04_receiver_name_refuted : exists f c bd,
  c04_call_ok ctx0 f c = true /\ c04_result_ok ctx0 f (bd [] []) = true
  /\ run1 ctx0 f c bd = (Raise PCallWithArgsC, []) /\ fst (twin f c bd) = Ok one.
Proof.
  exists m_this, (kwcall [k_inst] [(a_, one)]), (returns one). repeat split; reflexivity.
Qed.
Print Assumptions C04_receiver_name_refuted.

(* @classmethod above @pedantic: `cls` is asked for a type hint *)
Theorem C04_classmethod_direct_refuted : exists f c bd,
  c04_call_ok ctx0 f c = true /\ c04_result_ok ctx0 f (bd [] []) = true
  /\ run1 ctx0 f c bd = (Raise PTypeCheckC, []) /\ fst (twin f c bd) = Ok one.
Proof.
  exists c_direct, (kwcall [K_cls] [(a_, one)]), (returns one). repeat split; reflexivity.
Qed.
Print Assumptions C04_classmethod_direct_refuted.

(* a static (or class) method with *args of a @pedantic_class called through an instance: the instance the wrapper receives
   is not counted by the first pass and is checked against the annotation of *args: k.s() raises
   (for instance methods this was repaired by /repo 9c0ddc8: Example C04_method_with_varargs_transparent) *)
Theorem C04_receiver_under_varargs_refuted : exists f c bd,
  c04_call_ok ctx0 f c = true /\ c04_result_ok ctx0 f (bd [] []) = true
  /\ run1 ctx0 f c bd = (Raise PTypeCheckC, []) /\ fst (twin f c bd) = Ok one.
Proof.
  exists s_varargs, {| c_recv := [k_inst]; c_twin_recv := []; c_args := []; c_kwargs := [] |}, (returns one). repeat split; reflexivity.
Qed.
Print Assumptions C04_receiver_under_varargs_refuted.

(* K2: "@require_kwargs" / "@pedantic" in the text of a class method of a @pedantic_class, called through an instance *)
Theorem C04_pedantic_text_refuted : exists f c bd,
  c04_call_ok ctx0 f c = true /\ c04_result_ok ctx0 f (bd [] []) = true
  /\ run1 ctx0 f c bd = (Raise PCallWithArgsC, []) /\ fst (twin f c bd) = Ok one.
Proof.
  exists c_bound_ped_text, {| c_recv := [k_inst]; c_twin_recv := [K_cls]; c_args := []; c_kwargs := [(a_, one)] |}, (returns one).
  repeat split; reflexivity.
Qed.
Print Assumptions C04_pedantic_text_refuted.

(* K2: a var-positional parameter that is not spelled *args: def f( *xs: int); f(1) is rejected by the keyword test *)
Theorem C04_varpos_spelling_refuted : exists f c bd,
  c04_call_ok ctx0 f c = true /\ c04_result_ok ctx0 f (bd [] []) = true
  /\ run1 ctx0 f c bd = (Raise PCallWithArgsC, []) /\ fst (twin f c bd) = Ok one.
Proof.
  exists f_varpos_xs, (poscall [] [one] []), (returns one). repeat split; reflexivity.
Qed.
Print Assumptions C04_varpos_spelling_refuted.

(* static / class methods are called with the keyword arguments only: the values for *args never reach the body *)
Theorem C04_star_elements_dropped_refuted : exists f c bd,
  c04_call_ok ctx0 f c = true /\ c04_result_ok ctx0 f (bd [] []) = true
  /\ snd (run1 ctx0 f c bd) = [([(args_, BStar [])], [])] /\ snd (twin f c bd) = [([(args_, BStar [SArg 0])], [])].
Proof.
  exists s_varargs, (poscall [] [one] []), (returns one). repeat split; reflexivity.
Qed.
Print Assumptions C04_star_elements_dropped_refuted.

(* generators: after the generator has returned, next() on the wrapper raises PedanticTypeCheckException (the None of the
   new StopIteration is checked against the return type int); the undecorated generator raises StopIteration *)
Theorem C04_exhausted_generator_refuted : exists body ops rs w',
  w_run gen_check AInt ANone AInt body wstate0 ops = (rs, w')
  /\ rs = [WValue one; WStop (VInt 5%Z); WRaise PTypeCheckC]
  /\ fst (inner_send body {| g_hist := [RSend VNone; RSend VNone]; g_started := true; g_done := true |} VNone) = IStop VNone.
Proof.
  exists (script_body TPropagate [SYield one; SRet (VInt 5%Z)]), [OpNext; OpNext; OpNext].
  eexists. eexists. split; [vm_compute; reflexivity|]. split; reflexivity.
Qed.
Print Assumptions C04_exhausted_generator_refuted.

(* repaired by /repo a25625d: next() on the wrapper sends nothing, so nothing is checked against the SEND type: with
   Generator[int, int, None] the second next() yields 2 like the undecorated generator; a sent 'x' is still rejected *)
Example C04_generator_next_with_send_type_repaired :
  let body := script_body TPropagate [SYield one; SYield (VInt 2%Z); SRet VNone] in
  fst (w_run gen_check AInt AInt ANone body wstate0 [OpNext; OpNext]) = map res_of (fst (twin_run body gstate0 [OpNext; OpNext]))
  /\ fst (w_run gen_check AInt AInt ANone body wstate0 [OpNext; OpNext]) = [WValue one; WValue (VInt 2%Z)]
  /\ fst (w_run gen_check AInt AInt ANone body wstate0 [OpNext; OpSend vx]) = [WValue one; WRaise PTypeCheckC].
Proof. repeat split; vm_compute; reflexivity. Qed.

(* repaired by /repo b2616e5: a positional-only parameter whose NAME is used as a keyword of the call (legal when the function has
   **kwargs: the keyword goes there): def f(a: int = 0, /, **kw: str); f(a='x') is the undecorated call (a = 0, kw = {'a': 'x'}) *)
Example C04_posonly_name_as_keyword_repaired :
  let f := func "f" [par a_ PosOnly AInt (Some (VInt 0%Z)); par 8 VarKw AStrC None] plain_text in
  let c := kwcall [] [(a_, vx)] in
  kw_guards Gen.Pedantic.pedantic_cfg f c /\ c04_call_ok ctx0 f c = true /\ run1 ctx0 f c (returns one) = twin f c (returns one).
Proof. split; [|split; reflexivity]. guards. Qed.

(* repaired by /repo 9c0ddc8 (only the values collected by *args are checked against its annotation): a method with *args
   called on an instance, and a positional value for the parameter declared before *args *)
Example C04_method_with_varargs_transparent :
  c04_call_ok ctx0 m_varargs (kwcall [k_inst] []) = true
  /\ run1 ctx0 m_varargs (kwcall [k_inst] []) (returns one) = twin m_varargs (kwcall [k_inst] []) (returns one)
  /\ run1 ctx0 m_varargs (poscall [k_inst] [one; one] []) (returns one) = twin m_varargs (poscall [k_inst] [one; one] []) (returns one).
Proof. repeat split; reflexivity. Qed.

Example C04_leading_positional_transparent :
  let f := func "f" [par a_ PosOrKw AInt None; par args_ VarPos AStrC None] (tflags true false false true 1) in
  let c := poscall [] [one; vx] [] in
  c04_call_ok ctx0 f c = true /\ run1 ctx0 f c (returns one) = twin f c (returns one).
Proof. split; reflexivity. Qed.

(* repaired by /repo f0d33a4: a DEFAULTED parameter before *args that is passed positionally takes its positional value:
   def f(a: int = 0, *args: str); f(1, 'x') is the undecorated call *)
Example C04_defaulted_leading_positional_repaired :
  let f := func "f" [par a_ PosOrKw AInt (Some (VInt 0%Z)); par args_ VarPos AStrC None] (tflags true false false true 1) in
  let c := poscall [] [one; vx] [] in
  c04_call_ok ctx0 f c = true /\ run1 ctx0 f c (returns one) = twin f c (returns one).
Proof. split; reflexivity. Qed.

(* ... while positional values that all land in *args are in the domain and pass *)
Example C04_star_elements_transparent :
  let f := func "f" [par args_ VarPos AStrC None; par 11 KwOnly AInt None] (tflags true false false true 1) in
  let c := poscall [] [vx; vx] [(11, one)] in
  c04_call_ok ctx0 f c = true /\ run1 ctx0 f c (returns one) = twin f c (returns one).
Proof. split; reflexivity. Qed.

(* an iterator that the check does not iterate (here: under Any) is inside the guards *)
Example C04_iterator_under_any_transparent :
  let f := func "f" [par 9 PosOrKw AAny None] plain_text in
  let c := kwcall [] [(9, VIter [one])] in
  no_iterator_consumed gcfg f c = true /\ c04_call_ok ctx0 f c = true /\ run1 ctx0 f c (returns one) = twin f c (returns one).
Proof. repeat split; reflexivity. Qed.

(* ---------------- the guards are satisfiable ---------------- *)
Example C04_guards_function : kw_guards Gen.Pedantic.pedantic_cfg f_plain (kwcall [] [(a_, one)])
  /\ c04_call_ok ctx0 f_plain (kwcall [] [(a_, one)]) = true
  /\ run1 ctx0 f_plain (kwcall [] [(a_, one)]) (returns one) = twin f_plain (kwcall [] [(a_, one)]) (returns one).
Proof. split; [guards|split; reflexivity]. Qed.

Example C04_guards_method : kw_guards Gen.Pedantic.pedantic_cfg m_self (kwcall [k_inst] [(a_, one)])
  /\ c04_call_ok ctx0 m_self (kwcall [k_inst] [(a_, one)]) = true
  /\ run1 ctx0 m_self (kwcall [k_inst] [(a_, one)]) (returns one) = twin m_self (kwcall [k_inst] [(a_, one)]) (returns one).
Proof.
  split; [|split; reflexivity]. guards.
  exists (bound_param self_name), [par a_ PosOrKw AInt None], k_inst. repeat split; reflexivity.
Qed.

Example C04_guards_classmethod :
  let c := {| c_recv := []; c_twin_recv := [K_cls]; c_args := []; c_kwargs := [(a_, one)] |} in
  kw_guards Gen.Pedantic.pedantic_cfg c_bound c /\ c04_call_ok ctx0 c_bound c = true
  /\ run1 ctx0 c_bound c (returns one) = twin c_bound c (returns one).
Proof.
  split; [|split; reflexivity]. guards.
  exists (bound_param cls_), [par a_ PosOrKw AInt None], K_cls. repeat split; reflexivity.
Qed.

(* ---------------- the NAME of a parameter is not an input of the verdict ---------------- *)
(* def f(<n>: int) -> int called f(<n>=1): for EVERY name n other than self (context, func, call, value, key ... included: the
   keyword travels through the **kwargs of every layer of the decorator) and every body with a conforming product the decorated
   call is the undecorated call *)
Theorem C04_parameter_name_irrelevant_closed : forall n bd,
  n <> self_name ->
  (forall b cons, c04_result_ok ctx0 (func "f" [par n PosOrKw AInt None] plain_text) (bd b cons) = true) ->
  let f := func "f" [par n PosOrKw AInt None] plain_text in
  let c := kwcall [] [(n, one)] in
  run1 ctx0 f c bd = twin f c bd.
Proof.
  intros n bd Hn Hres f c.
  destruct n as [|m]; [exfalso; apply Hn; reflexivity|].
  apply C04_transparent_closed_partial.
  - subst f c. guards.
  - subst f c. unfold no_iterator_consumed, twin_binding, py_bind. cbn. rewrite ?Nat.eqb_refl. cbn. rewrite ?Nat.eqb_refl. reflexivity.
  - subst f c. unfold c04_call_ok, c04_args_ok, twin_binding, py_bind. cbn. rewrite ?Nat.eqb_refl. cbn. rewrite ?Nat.eqb_refl. reflexivity.
  - exact Hres.
  - intros b cons. unfold result_intact. subst f. simpl f_ret. destruct (bd b cons) as [v|e]; [|reflexivity].
    unfold consumes_model, drains. simpl drain. now rewrite Nat.ltb_irrefl.
Qed.
Print Assumptions C04_parameter_name_irrelevant_closed.

(* ---------------- the body changes an argument in place and hands that very object back ---------------- *)
(* def f(a: List[int]) -> List[int]: a.append(2); return a - called f(a=[1]): inside the guards of C04_transparent_closed_partial
   (bodies are functions of the binding); the body runs once on the caller's object, the caller gets the changed object *)
Example C04_changed_argument_transparent :
  let c := kwcall [] [(a_, VList [one])] in
  let bd := returns_changed f_list_to_list c a_ (append_to (VInt 2%Z)) in
  kw_guards Gen.Pedantic.pedantic_cfg f_list_to_list c /\ c04_call_ok ctx0 f_list_to_list c = true
  /\ run1 ctx0 f_list_to_list c bd = twin f_list_to_list c bd
  /\ run1 ctx0 f_list_to_list c bd = (Ok (VList [one; VInt 2%Z]), [([(a_, BOne (SKw a_))], [])]).
Proof. split; [guards|repeat split; reflexivity]. Qed.
