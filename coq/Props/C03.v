(* C03 - @pedantic guards the body: bad arguments never reach it, bad results never leave.

   Full statement (properties.jsonl): if a call supplies any argument - explicit keyword,
   omitted-but-defaulted, *args element, **kwargs value - that does not conform to its annotation,
   PedanticTypeCheckException is raised before the body runs; if the value produced by the body (return
   value, awaited result, value yielded by / sent into / returned from a generator function) does not
   conform to the return annotation, the caller receives PedanticTypeCheckException instead.

   The theorems are stated RELATIVE TO THE CHECKER (C01/C02): `run` takes the checker as a parameter;
   the semantic readings use the Section hypotheses `checker_sound_complete` / `checker_raises_ptc_only`
   about `assert_matches1 cfg ctx` and become closed statements about the model of the whole library by one
   application to the C01/C02 lemmas.
     * "the body does not run and the call raises" (`C03_args_guard_partial`) is proved for EVERY value of the call - explicit
       keyword, omitted-but-defaulted, *args element, **kwargs value, and a positional value bound to a named parameter whether or
       not it has a default ("whichever parameter position": `c03_values_bad`) - for every signature CPython can build, positional-
       only parameters included (`sig_ok`), in which no parameter other than the receiver is called `self` (`no_self_param`, an
       explicit hypothesis: FunctionCall drops every parameter of that name from the ones it checks -
       `C03_parameter_named_self_refuted`), since /repo f0d33a4 / b2616e5 (FunctionCall._check_type_param walks the parameters in
       lock-step with CPython's binding: Proofs/PedanticPos.v `lockstep`).  Guards: the receiver is described over ground-truth
       fields (`recv_fine`: the wrapper gets exactly the receiver the undecorated callable gets - a method with its receiver, a
       function / static method, a bound class method - or, for static and class methods reached through an instance, the keyword
       discipline applies; outside `recv_fine` the receiver the wrapper gets is not counted by the first pass and is taken for the
       first positional value: `C03_hidden_method_receiver_refuted`, `C03_static_through_instance_refuted`), and the call is
       outside the K4 region (`not_stripped`: a single positional value stripped as if it were
       the receiver; refuted inside: `C03_first_positional_stripped_refuted`).  On the K10 call `self=...` the description does
       not apply, the conclusion holds there all the same: `C03_self_by_keyword_refuted` shows (Raise IndexError, []).
     * "what is raised is PedanticTypeCheckException" is FALSE in five regions where another exception
       escapes first - IndexError (self by keyword, '@staticmethod' in the text) or PedanticCallWithArgsException
       (a variadic parameter not spelled "star args", receiver not called self, '@pedantic' in the text of a class method) - and a
       value yielded in answer to throw() is not checked at all (`*_refuted`, each reproduced on the real code as a KNOWN-FINDING);
       proved outside them (`C03_args_guard_exact_partial`, `C03_generator_results_guard_partial`).
   `run` is the model of coq/Model/Pedantic.v, tied to the source by translator/t_pedantic.py
   (Gen/Pedantic.v: `C03_cfg_good`; AST locks of the hand-modelled functions: obligation locks:hand-modelled-functions of bin/check) and the correspondence of bin/check C03.   *)
From Coq Require Import List Arith Bool String ZArith Lia.
From PV Require Import Base.Exn Base.Values Base.Ann Base.PyCall Model.CheckerCfg Model.Checker Model.PedanticCfg
  Model.Pedantic Model.PedanticEval Spec.Conforms Spec.PedanticSpec
  Model.GenWrapper Proofs.PedanticBase Proofs.PyCallFacts Proofs.PedanticC03 Proofs.PedanticPos Proofs.PedanticGen Proofs.PedanticChecker Proofs.PedanticWitness Proofs.PedanticMut Gen.Pedantic Gen.CheckerTables.
Import ListNotations.
Close Scope Z_scope.
Open Scope list_scope.

(* ---------------- translation obligations ---------------- *)
Theorem C03_cfg_good : pc_good Gen.Pedantic.pedantic_cfg = true.
Proof. vm_compute. reflexivity. Qed.
Print Assumptions C03_cfg_good.

(* ---------------- relative to any checker, no hypothesis ---------------- *)
(* if the checker rejects a value of the call (whatever TypeVar bindings it is given), the call raises and the
   journal of the body is empty.  `all_values f c b` = supplied_of ++ positional_values, read off CPython's own binding b. *)
Theorem C03_args_guard_relative_partial : forall pc check consumes f c bd b a v,
  pc_good pc = true -> sig_ok f = true -> no_self_param f = true -> recv_fine pc f c -> twin_binding f c = Ok b -> not_stripped pc f c ->
  In (Some a, v) (all_values f c b) -> rejected check a v ->
  snd (run pc check consumes f c bd) = [] /\ exists e, fst (run pc check consumes f c bd) = Raise e.
Proof. intros. eapply guard; try eassumption. now apply sig_full_of. Qed.
Print Assumptions C03_args_guard_relative_partial.

(* `model_binding pc f c` is the binding with which run invokes the body: the hypothesis only speaks about what the body does
   on THAT binding *)
Theorem C03_result_guard_relative : forall pc check consumes f c bd a,
  pc_good pc = true -> f_ret f = Some a ->
  (forall b cons v, model_binding pc f c = Ok b -> bd b cons = Ok v -> rejected check a v) ->
  exists e, fst (run pc check consumes f c bd) = Raise e.
Proof. intros. eapply result_guard; eassumption. Qed.
Print Assumptions C03_result_guard_relative.

(* ---------------- generator functions ---------------- *)
(* calling the generator function: a rejected supplied value => no generator object, nothing ran *)
Theorem C03_generator_call_guard_relative_partial : forall pc check consumes f c b a v,
  pc_good pc = true -> sig_ok f = true -> no_self_param f = true -> recv_fine pc f c -> twin_binding f c = Ok b -> not_stripped pc f c ->
  In (Some a, v) (all_values f c b) -> rejected check a v ->
  snd (run_gen pc check consumes f c) = [] /\ exists e, fst (run_gen pc check consumes f c) = Raise e.
Proof. intros. eapply guard_gen; try eassumption. now apply sig_full_of. Qed.
Print Assumptions C03_generator_call_guard_relative_partial.

(* iterating: for EVERY generator body, every yield / send / return type and every sequence of next / send / close
   operations (any length; induction on the sequence): whatever next() / send() hands to the caller, and the
   value of the final StopIteration, has been accepted by the checker.  Guard: no throw() (finding below). *)
Theorem C03_generator_results_guard_partial : forall check yt st rt body ops w rs w',
  forallb no_throw ops = true ->
  w_run check yt st rt body w ops = (rs, w') -> Forall (res_ok check yt rt) rs.
Proof. intros. eapply gen_results_guard; eassumption. Qed.
Print Assumptions C03_generator_results_guard_partial.

(* ... and a sent value reaches the generator only if the checker accepted it (or it is the None of next());
   this half holds for ALL operation sequences, throw and close included *)
Theorem C03_generator_sends_guard : forall check yt st rt body ops rs w',
  w_run check yt st rt body wstate0 ops = (rs, w') -> Forall (resume_ok check st) (g_hist (w_inner w')).
Proof. intros. eapply gen_sends_guard; [apply winv0|eassumption]. Qed.
Print Assumptions C03_generator_sends_guard.

(* GeneratorWrapper.throw delegates without checking: the value the generator yields (or returns) in response to
   throw() reaches the caller unchecked *)
Theorem C03_generator_throw_refuted : exists body ops rs w' v,
  w_run gen_check AInt ANone ANone body wstate0 ops = (rs, w') /\ In (WValue v) rs
  /\ rejected gen_check AInt v.
Proof.
  exists (script_body (TYield vx) [SYield (VInt 1%Z); SRet VNone]), [OpNext; OpThrow ValueErrorC].
  eexists. eexists. exists vx. split; [vm_compute; reflexivity|]. split; [right; now left|].
  intros tv. exists PTypeCheckC. reflexivity.
Qed.
Print Assumptions C03_generator_throw_refuted.

Section Relative.
  Variable cfg : CheckerCfg.checker_cfg.
  Variable ctx : nat -> option cls.
  Let check := assert_matches1 cfg ctx.

  (* to be discharged with the C01/C02 lemmas about the checker model *)
  Hypothesis checker_sound_complete : forall a v tv,
    supported ctx a = true -> conforms ctx a v = MustNot -> fst (check a v tv) = Raise PTypeCheckC.
  (* and with the C08 lemma *)
  Hypothesis checker_raises_ptc_only : forall a v tv e,
    supported ctx a = true -> fst (check a v tv) = Raise e -> e = PTypeCheckC.

  Lemma bad_rejected : forall oa v, bad ctx oa v = true -> exists a, oa = Some a /\ supported ctx a = true /\ rejected check a v.
  Proof.
    intros [a|] v H; [|discriminate]. simpl in H. apply andb_true_iff in H as [Hs Hm].
    exists a. split; [reflexivity|]. split; [assumption|]. intros tv. exists PTypeCheckC.
    apply checker_sound_complete; [assumption|]. destruct (conforms ctx a v); try discriminate; reflexivity.
  Qed.

  Lemma values_bad_in : forall f c, c03_values_bad ctx f c = true ->
    exists b a v, twin_binding f c = Ok b /\ In (Some a, v) (all_values f c b) /\ supported ctx a = true /\ rejected check a v.
  Proof.
    intros f c H. unfold c03_values_bad, c03_supplied_bad, c03_positional_bad in H.
    destruct (twin_binding f c) as [b|] eqn:Eb; [|discriminate]. exists b.
    assert (Hex : existsb (fun av => bad ctx (fst av) (snd av)) (all_values f c b) = true).
    { unfold all_values. rewrite existsb_app. exact H. }
    apply existsb_exists in Hex as [[oa v] [Hin Hbad]]. simpl in Hbad.
    destruct (bad_rejected _ _ Hbad) as [a [-> [Hs Hrej]]]. exists a, v. repeat split; assumption.
  Qed.

  (* C03, first sentence: for every callable whose signature CPython can build (sig_ok), every call, every
     body: a non-conforming value => the call raises, the body has not run *)
  Theorem C03_args_guard_partial : forall pc consumes f c bd,
    pc_good pc = true -> sig_ok f = true -> no_self_param f = true -> recv_fine pc f c -> not_stripped pc f c ->
    c03_values_bad ctx f c = true ->
    snd (run pc check consumes f c bd) = [] /\ exists e, fst (run pc check consumes f c bd) = Raise e.
  Proof.
    intros pc consumes f c bd G Hsig Hnself Hrf Hns H.
    destruct (values_bad_in f c H) as [b [a [v [Eb [Hin [_ Hrej]]]]]].
    eapply guard; try eassumption. now apply sig_full_of.
  Qed.

  (* ... and the exception is PedanticTypeCheckException, provided the call obeys the keyword discipline
     (C05 decides the other calls), all parameter annotations are in the vocabulary, and none of the
     three escapes is taken: `self` passed by keyword (K10), '@staticmethod' in the text of a module-level
     function (K2); (a var-positional parameter not spelled *args makes the discipline test fail: K2) *)
  Theorem C03_args_guard_exact_partial : forall pc consumes f c bd,
    pc_good pc = true -> sig_ok f = true -> no_self_param f = true -> recv_fine pc f c -> not_stripped pc f c ->
    c03_values_bad ctx f c = true ->
    assert_uses_kwargs pc f c = Ok tt ->
    (is_instance_method f = true -> wargs c <> []) ->
    (forall inst, instance_of f c = Ok inst -> clazz_probe f c inst = Ok tt) ->
    forallb (fun p => match p_ann p with Some a => supported ctx a | None => true end) (f_params f) = true ->
    run pc check consumes f c bd = (Raise PTypeCheckC, []).
  Proof.
    intros pc consumes f c bd G Hsig Hnself Hrf Hns H Hauk Hinst Hprobe Hsup.
    destruct (values_bad_in f c H) as [b [a [v [Eb [Hin [_ Hrej]]]]]].
    eapply guard_exact; try eassumption; [now apply sig_full_of|].
    intros p a0 Hp Ha v0 tv e He. eapply checker_raises_ptc_only; [|exact He].
    rewrite forallb_forall in Hsup. specialize (Hsup p Hp). now rewrite Ha in Hsup.
  Qed.

  (* property setters: obj.p = x hands x to the setter positionally; it is checked all the same.  Guards: the text flag
     says what the class definition says (K2), the receiver is called `self` *)
  Theorem C03_setter_guard_partial : forall pc consumes f c bd p r,
    pc_good pc = true ->
    setter_value_bad ctx f c = true ->
    t_setter (f_text f) = true -> is_instance_method f = true ->
    declared f = [p] -> params_without_self f = declared f -> takes_positional p = true ->
    c_recv c = [r] -> kw_get (p_name p) (c_kwargs c) = None ->
    snd (run pc check consumes f c bd) = [] /\ exists e, fst (run pc check consumes f c bd) = Raise e.
  Proof.
    intros pc consumes f c bd p r G H Hts Him Hd Hpw Htp Hr Hk. unfold setter_value_bad in H. rewrite Hd in H.
    apply andb_true_iff in H as [_ H]. destruct (c_args c) as [|x [|y l]] eqn:Ex; try discriminate.
    destruct (bad_rejected _ _ H) as [a [Ha [_ Hrej]]].
    eapply setter_guard; try eassumption. congruence.
  Qed.

  (* C03, second sentence: a non-conforming produced value never reaches the caller (the hypothesis speaks about the binding the
     body is actually invoked with) *)
  Theorem C03_result_guard : forall pc consumes f c bd,
    pc_good pc = true ->
    (forall b cons v, model_binding pc f c = Ok b -> bd b cons = Ok v -> c03_result_bad ctx f v = true) ->
    exists e, fst (run pc check consumes f c bd) = Raise e.
  Proof.
    intros pc consumes f c bd G Hbd.
    destruct (f_ret f) as [a|] eqn:Er.
    - eapply result_guard; [assumption|exact Er|]. intros b cons v Eb Ev. specialize (Hbd b cons v Eb Ev).
      unfold c03_result_bad in Hbd. rewrite Er in Hbd. destruct (bad_rejected _ _ Hbd) as [a' [E [_ Hrej]]]. now inversion E; subst.
    - (* no return annotation: nothing conforms or not; the call raises anyway *)
      rewrite (run_is_ref pc check consumes G). unfold run_ref.
      destruct (instance_of f c) as [inst|e]; [|simpl; eauto].
      destruct (assert_uses_kwargs pc f c) as [u|e]; [|simpl; eauto].
      destruct (args_phase pc check consumes f c inst astate0) as [st|e]; [|simpl; eauto].
      destruct (invoke f (call_pos pc f c) c bd (a_cons st)) as [[v|e] j]; [|simpl; eauto].
      simpl. unfold ret_value. rewrite Er. eauto.
  Qed.

  (* ... exactly: if the body ran, it ran once on that binding; an exception of the body reaches the caller, a non-conforming
     value is replaced by PedanticTypeCheckException.  Guard: '@staticmethod' in the text of a module-level function (K2). *)
  Theorem C03_result_guard_exact_partial : forall pc consumes f c bd a b,
    pc_good pc = true -> f_ret f = Some a -> supported ctx a = true -> model_binding pc f c = Ok b ->
    (forall cons v, bd b cons = Ok v -> conforms ctx a v = MustNot) ->
    (forall inst, instance_of f c = Ok inst -> clazz_probe f c inst = Ok tt) ->
    snd (run pc check consumes f c bd) <> [] ->
    exists cons, snd (run pc check consumes f c bd) = [(b, cons)] /\
      match bd b cons with
      | Ok _ => fst (run pc check consumes f c bd) = Raise PTypeCheckC
      | Raise e => fst (run pc check consumes f c bd) = Raise e
      end.
  Proof.
    intros pc consumes f c bd a b G Hret Hsup Hb Hbd Hprobe. eapply result_guard_exact; try eassumption.
    - intros cons v Ev tv. exists PTypeCheckC. apply checker_sound_complete; [assumption|]. eapply Hbd; eassumption.
    - intros v tv e. now apply checker_raises_ptc_only.
  Qed.
End Relative.
Print Assumptions C03_args_guard_partial.
Print Assumptions C03_args_guard_exact_partial.
Print Assumptions C03_setter_guard_partial.
Print Assumptions C03_result_guard.
Print Assumptions C03_result_guard_exact_partial.

(* ---------------- closed: the model of the whole library ---------------- *)
(* the hypotheses discharged by the C01 / C02 theorems (Proofs/CheckerTop.v via Proofs/PedanticChecker.v): `run1` is the
   call protocol over the REGENERATED pedantic_cfg with the checker model over the REGENERATED checker tables *)
Theorem C03_args_guard_closed_partial : forall ctx f c bd,
  sig_ok f = true -> no_self_param f = true -> recv_fine Gen.Pedantic.pedantic_cfg f c -> not_stripped Gen.Pedantic.pedantic_cfg f c ->
  c03_values_bad ctx f c = true ->
  snd (run1 ctx f c bd) = [] /\ exists e, fst (run1 ctx f c bd) = Raise e.
Proof.
  intros ctx f c bd Hs Hself Ho Hn H. unfold run1.
  exact (C03_args_guard_partial gcfg ctx (checker1_rejects ctx) _ _ f c bd C03_cfg_good Hs Hself Ho Hn H).
Qed.
Print Assumptions C03_args_guard_closed_partial.

Theorem C03_args_guard_exact_closed_partial : forall ctx f c bd,
  sig_ok f = true -> no_self_param f = true -> recv_fine Gen.Pedantic.pedantic_cfg f c -> not_stripped Gen.Pedantic.pedantic_cfg f c ->
  c03_values_bad ctx f c = true ->
  assert_uses_kwargs Gen.Pedantic.pedantic_cfg f c = Ok tt ->
  (is_instance_method f = true -> wargs c <> []) ->
  (forall inst, instance_of f c = Ok inst -> clazz_probe f c inst = Ok tt) ->
  forallb (fun p => match p_ann p with Some a => supported ctx a | None => true end) (f_params f) = true ->
  run1 ctx f c bd = (Raise PTypeCheckC, []).
Proof.
  intros ctx f c bd Hs Hself Ho Hn H Ha Hi Hp Hsup. unfold run1.
  exact (C03_args_guard_exact_partial gcfg ctx (checker1_rejects ctx) (checker1_raises_ptc_only ctx) _ _ f c bd C03_cfg_good Hs Hself Ho Hn H Ha Hi Hp Hsup).
Qed.
Print Assumptions C03_args_guard_exact_closed_partial.

Theorem C03_result_guard_closed : forall ctx f c bd,
  (forall b cons v, model_binding Gen.Pedantic.pedantic_cfg f c = Ok b -> bd b cons = Ok v -> c03_result_bad ctx f v = true) ->
  exists e, fst (run1 ctx f c bd) = Raise e.
Proof.
  intros ctx f c bd H. unfold run1. exact (C03_result_guard gcfg ctx (checker1_rejects ctx) _ _ f c bd C03_cfg_good H).
Qed.
Print Assumptions C03_result_guard_closed.

Theorem C03_result_guard_exact_closed_partial : forall ctx f c bd a b,
  f_ret f = Some a -> supported ctx a = true -> model_binding Gen.Pedantic.pedantic_cfg f c = Ok b ->
  (forall cons v, bd b cons = Ok v -> conforms ctx a v = MustNot) ->
  (forall inst, instance_of f c = Ok inst -> clazz_probe f c inst = Ok tt) ->
  snd (run1 ctx f c bd) <> [] ->
  exists cons, snd (run1 ctx f c bd) = [(b, cons)] /\
    match bd b cons with
    | Ok _ => fst (run1 ctx f c bd) = Raise PTypeCheckC
    | Raise e => fst (run1 ctx f c bd) = Raise e
    end.
Proof.
  intros ctx f c bd a b Hr Hs Hb Hbd Hp. unfold run1.
  exact (C03_result_guard_exact_partial gcfg ctx (checker1_rejects ctx) (checker1_raises_ptc_only ctx) _ _ f c bd a b C03_cfg_good Hr Hs Hb Hbd Hp).
Qed.
Print Assumptions C03_result_guard_exact_closed_partial.

Theorem C03_setter_guard_closed_partial : forall ctx f c bd p r,
  setter_value_bad ctx f c = true ->
  t_setter (f_text f) = true -> is_instance_method f = true ->
  declared f = [p] -> params_without_self f = declared f -> takes_positional p = true ->
  c_recv c = [r] -> kw_get (p_name p) (c_kwargs c) = None ->
  snd (run1 ctx f c bd) = [] /\ exists e, fst (run1 ctx f c bd) = Raise e.
Proof.
  intros ctx f c bd p r H. unfold run1.
  exact (C03_setter_guard_partial gcfg ctx (checker1_rejects ctx) _ _ f c bd p r C03_cfg_good H).
Qed.
Print Assumptions C03_setter_guard_closed_partial.

(* ---------------- generator functions, closed ---------------- *)
(* what the call of a generator function returns: a wrapper whose yield / send / return types are read off the return annotation
   (typing.Generator[Y, S, R] or typing.Iterator[Y] / Iterable[Y] with S = R = None); these are the (yt, st, rt) of `w_run` *)
Theorem C03_generator_types : forall pc check consumes f c g j,
  pc_good pc = true -> run_gen pc check consumes f c = (Ok g, j) ->
  j = [] /\ exists a y s r, f_ret f = Some a /\ g_types g = Some (y, s, r) /\
    exists o, In o [TGenerator; TIterable; TIterator] /\
      ((a = AGeneric SpTyping o [y] /\ s = ANone /\ r = ANone) \/ a = AGeneric SpTyping o [y; s; r]).
Proof.
  intros pc check consumes f c g j G H. destruct (run_gen_types pc check consumes G f c g j H) as [Hj [a [[[y s] r] [Hr [Ht Hg]]]]].
  split; [assumption|]. exists a, y, s, r. repeat split; try assumption. exact (gen_types_shape pc G a y s r Ht).
Qed.
Print Assumptions C03_generator_types.

(* a yielded value that does not conform to the yield type: next() / send() raise PedanticTypeCheckException instead of handing it
   to the caller (GeneratorWrapper passes no context: conformance without forward references) *)
Theorem C03_generator_bad_yield_closed : forall yt st rt body w v y g',
  supported noctx yt = true -> conforms noctx yt y = MustNot ->
  inner_send body (w_inner w) v = (IYield y, g') ->
  (w_init w = true -> exists tv', gen_check st v (w_tv w) = (Ok tt, tv')) ->
  fst (w_send gen_check yt st rt body w v) = WRaise PTypeCheckC.
Proof.
  intros yt st rt body w v y g' Hs Hm Hi Hpre. eapply w_send_bad_yield; [exact Hi|exact Hpre|].
  intros tv. exact (checker1_rejects noctx yt y tv Hs Hm).
Qed.
Print Assumptions C03_generator_bad_yield_closed.

(* a sent value that does not conform to the send type (the wrapper has been advanced before): send() raises
   PedanticTypeCheckException, the generator is not resumed, the state of the wrapper is unchanged *)
Theorem C03_generator_bad_send_closed : forall yt st rt body w v,
  w_init w = true -> supported noctx st = true -> conforms noctx st v = MustNot ->
  w_send gen_check yt st rt body w v = (WRaise PTypeCheckC, w).
Proof.
  intros yt st rt body w v Hi Hs Hm. apply w_send_bad_send; [assumption|]. exact (checker1_rejects noctx st v (w_tv w) Hs Hm).
Qed.
Print Assumptions C03_generator_bad_send_closed.

(* the generator returns a value that does not conform to the return type: PedanticTypeCheckException instead of
   StopIteration(value) *)
Theorem C03_generator_bad_return_closed : forall yt st rt body w v r g',
  supported noctx rt = true -> conforms noctx rt r = MustNot ->
  inner_send body (w_inner w) v = (IStop r, g') ->
  (w_init w = true -> exists tv', gen_check st v (w_tv w) = (Ok tt, tv')) ->
  fst (w_send gen_check yt st rt body w v) = WRaise PTypeCheckC.
Proof.
  intros yt st rt body w v r g' Hs Hm Hi Hpre. eapply w_send_bad_return; [exact Hi|exact Hpre|].
  intros tv. exact (checker1_rejects noctx rt r tv Hs Hm).
Qed.
Print Assumptions C03_generator_bad_return_closed.

(* the results guard against the conformance relation: whatever next() / send() hand to the caller is not a non-conforming value *)
Definition res_conforms (yt rt : ann) (r : wres) : Prop :=
  match r with
  | WValue y => supported noctx yt = true -> conforms noctx yt y <> MustNot
  | WStop v => supported noctx rt = true -> conforms noctx rt v <> MustNot
  | _ => True
  end.
Theorem C03_generator_results_guard_closed_partial : forall yt st rt body ops w rs w',
  forallb no_throw ops = true ->
  w_run gen_check yt st rt body w ops = (rs, w') -> Forall (res_conforms yt rt) rs.
Proof.
  intros yt st rt body ops w rs w' Hn H.
  eapply Forall_impl; [|eapply gen_results_guard; eassumption].
  intros [y|v|e|] Hr; simpl in *; try exact I; intros Hs; destruct Hr as [tv [tv' E]]; eapply checker1_sound; eassumption.
Qed.
Print Assumptions C03_generator_results_guard_closed_partial.

Definition resume_conforms (st : ann) (r : resume) : Prop :=
  match r with RSend v => (supported noctx st = true -> conforms noctx st v <> MustNot) \/ v = VNone | RThrow _ => True end.
Theorem C03_generator_sends_guard_closed : forall yt st rt body ops rs w',
  w_run gen_check yt st rt body wstate0 ops = (rs, w') -> Forall (resume_conforms st) (g_hist (w_inner w')).
Proof.
  intros yt st rt body ops rs w' H.
  eapply Forall_impl; [|eapply gen_sends_guard; [apply winv0|eassumption]].
  intros [v|e] Hr; simpl in *; [|exact I]. destruct Hr as [[tv [tv' E]]|Hn]; [left|now right].
  intros Hs. eapply checker1_sound; eassumption.
Qed.
Print Assumptions C03_generator_sends_guard_closed.

(* ---------------- refutations of "the exception is PedanticTypeCheckException" (known findings) ---------------- *)
(* K10: K.m(self=k, a='x'): IndexError (self.args[0]) - the body does not run, but no Pedantic exception *)
Theorem C03_self_by_keyword_refuted : exists f c bd,
  sig_ok f = true /\ c03_args_bad ctx0 f c = true /\ run1 ctx0 f c bd = (Raise IndexErrorC, []).
Proof.
  exists m_self, {| c_recv := []; c_twin_recv := []; c_args := []; c_kwargs := [(self_name, k_inst); (a_, vx)] |}, (returns (VInt 1%Z)).
  repeat split; reflexivity.
Qed.
Print Assumptions C03_self_by_keyword_refuted.

(* K2: '@staticmethod' in the docstring of a module-level function: f(a='x') -> IndexError (full_name.split('.')[-2]) *)
Theorem C03_staticmethod_text_refuted : exists f c bd,
  sig_ok f = true /\ c03_args_bad ctx0 f c = true /\ run1 ctx0 f c bd = (Raise IndexErrorC, []).
Proof.
  exists f_static_text, (kwcall [] [(a_, vx)]), (returns (VInt 1%Z)). repeat split; reflexivity.
Qed.
Print Assumptions C03_staticmethod_text_refuted.

(* K2: def f( *xs: int): f('x') is rejected by the keyword test (PedanticCallWithArgsException): the element is never type-checked *)
Theorem C03_varpos_spelling_refuted : exists f c bd,
  sig_ok f = true /\ c03_args_bad ctx0 f c = true /\ run1 ctx0 f c bd = (Raise PCallWithArgsC, []).
Proof.
  exists f_varpos_xs, (poscall [] [vx] []), (returns (VInt 1%Z)). repeat split; reflexivity.
Qed.
Print Assumptions C03_varpos_spelling_refuted.

(* K2: the receiver is recognised by the name `self` / by counting "@": k.m(a='x') is rejected by the keyword
   test although nothing is positional *)
Theorem C03_receiver_name_refuted : exists f c bd,
  sig_ok f = true /\ c03_args_bad ctx0 f c = true /\ c_args c = [] /\ run1 ctx0 f c bd = (Raise PCallWithArgsC, []).
Proof.
  exists m_this, (kwcall [k_inst] [(a_, vx)]), (returns (VInt 1%Z)). repeat split; reflexivity.
Qed.
Print Assumptions C03_receiver_name_refuted.

Theorem C03_pedantic_text_refuted : exists f c bd,
  sig_ok f = true /\ c03_args_bad ctx0 f c = true /\ c_args c = [] /\ run1 ctx0 f c bd = (Raise PCallWithArgsC, []).
Proof.
  exists c_bound_ped_text, {| c_recv := [k_inst]; c_twin_recv := [K_cls]; c_args := []; c_kwargs := [(a_, vx)] |}, (returns (VInt 1%Z)).
  repeat split; reflexivity.
Qed.
Print Assumptions C03_pedantic_text_refuted.

(* K4: the single positional value of a call is stripped as if it were the receiver (@pedantic above a second decorator,
   '@staticmethod' in the text, static methods of a @pedantic_class ...): the keyword test passes, the first pass checks the
   DEFAULT, the body runs with the value: st('x') on def st(a: int = 0) - why the theorems assume `not_stripped` *)
Theorem C03_first_positional_stripped_refuted : exists f c bd,
  sig_ok f = true /\ recv_consistent f c /\ c03_values_bad ctx0 f c = true
  /\ fst (run1 ctx0 f c bd) = Ok (VInt 1%Z) /\ snd (run1 ctx0 f c bd) <> [].
Proof.
  exists f_stacked, (poscall [] [vx] []), (returns (VInt 1%Z)).
  split; [reflexivity|]. split; [right; left; repeat split; reflexivity|]. repeat split; try reflexivity. vm_compute. discriminate.
Qed.
Print Assumptions C03_first_positional_stripped_refuted.

(* ---------------- repaired in /repo (fixed findings; the witnesses are now inside the theorems) ---------------- *)
(* b2616e5: a positional-only parameter whose NAME is used as a key of **kwargs: the keyword belongs to **kwargs, the default
   CPython really binds is checked: def f(a: int = 'x', /, **kw); f(a=1) is rejected *)
Example C03_posonly_name_as_keyword_repaired :
  let f := func "f" [par a_ PosOnly AInt (Some vx); par 8 VarKw AAny None] plain_text in
  let c := kwcall [] [(a_, VInt 1%Z)] in
  sig_ok f = true /\ recv_consistent f c /\ c03_values_bad ctx0 f c = true /\ run1 ctx0 f c (returns (VInt 1%Z)) = (Raise PTypeCheckC, []).
Proof. split; [reflexivity|]. split; [right; left; repeat split; reflexivity|]. split; reflexivity. Qed.

(* f0d33a4: a DEFAULTED parameter filled positionally is checked like any other: def f(a: int = 0, *args: str);
   f('bad', 'x') is rejected, f(1, 'x') runs the body; K()('x') on __call__(self, x: int = 0) is rejected *)
Example C03_defaulted_positional_repaired :
  let f := func "f" [par a_ PosOrKw AInt (Some (VInt 0%Z)); par args_ VarPos AStrC None] (tflags true false false true 1) in
  let k := method "__call__" self_name [par b_ PosOrKw AInt (Some (VInt 0%Z))] (tflags false false false false 0) in
  sig_ok f = true /\ c03_values_bad ctx0 f (poscall [] [vx; vx] []) = true
  /\ run1 ctx0 f (poscall [] [vx; vx] []) (returns (VInt 1%Z)) = (Raise PTypeCheckC, [])
  /\ run1 ctx0 f (poscall [] [VInt 1%Z; vx] []) (returns (VInt 1%Z)) = twin f (poscall [] [VInt 1%Z; vx] []) (returns (VInt 1%Z))
  /\ c03_values_bad ctx0 k (poscall [k_inst] [vx] []) = true
  /\ run1 ctx0 k (poscall [k_inst] [vx] []) (returns (VInt 1%Z)) = (Raise PTypeCheckC, []).
Proof. repeat split; reflexivity. Qed.

(* ---------------- outside `recv_fine`: the first pass counts only a receiver called self ---------------- *)
Definition AK := ACls (CUser [5]).                      (* the class of the receiver k_inst *)
(* a static method of a @pedantic_class that may be called positionally ("*args" in its text), reached through an instance: the
   wrapper receives the instance, the first pass takes it for the value of the first parameter, the (bad) default CPython really
   binds is never checked: @staticmethod def s(a: K = 5, *args: int); k.s() runs the body with a = 5 *)
Definition s_through_instance : fn :=
  {| f_name := "s"; f_dotted := true; f_params := [par a_ PosOrKw AK (Some (VInt 5%Z)); par args_ VarPos AInt None];
     f_bound := None; f_first_arg := Some a_; f_ret := Some AInt; f_coroutine := false; f_generator := false;
     f_text := tflags true true false false 1; f_setter := false; f_recv := false |}.
Theorem C03_static_through_instance_refuted : exists f c bd,
  sig_ok f = true /\ no_self_param f = true /\ recv_known f c /\ not_stripped Gen.Pedantic.pedantic_cfg f c
  /\ c03_values_bad ctx0 f c = true /\ fst (run1 ctx0 f c bd) = Ok (VInt 1%Z) /\ snd (run1 ctx0 f c bd) <> [].
Proof.
  exists s_through_instance, {| c_recv := [k_inst]; c_twin_recv := []; c_args := []; c_kwargs := [] |}, (returns (VInt 1%Z)).
  split; [reflexivity|]. split; [reflexivity|]. split; [right; left; repeat split; try reflexivity; intros; discriminate|].
  split; [intros E; vm_compute in E; discriminate|]. repeat split; try reflexivity. vm_compute. discriminate.
Qed.
Print Assumptions C03_static_through_instance_refuted.

(* an instance method hidden behind another decorator (@pedantic @deco def m(self, a: K, *args: str)): getfullargspec of the
   wrapper shows no `self`, the first pass starts at the receiver and takes IT for a: k.m('x') runs the body with a = 'x' *)
Definition m_hidden : fn :=
  {| f_name := "m"; f_dotted := true;
     f_params := [bound_param self_name; par a_ PosOrKw AK None; par args_ VarPos AStrC None];
     f_bound := None; f_first_arg := None; f_ret := Some AInt; f_coroutine := false; f_generator := false;
     f_text := tflags true false false true 2; f_setter := false; f_recv := true |}.
Theorem C03_hidden_method_receiver_refuted : exists f c bd,
  sig_ok f = true /\ no_self_param f = true /\ not_stripped Gen.Pedantic.pedantic_cfg f c
  /\ c03_values_bad ctx0 f c = true /\ fst (run1 ctx0 f c bd) = Ok (VInt 1%Z) /\ snd (run1 ctx0 f c bd) <> [].
Proof.
  exists m_hidden, (poscall [k_inst] [vx] []), (returns (VInt 1%Z)).
  split; [reflexivity|]. split; [reflexivity|]. split; [intros E; vm_compute in E; discriminate|].
  repeat split; try reflexivity. vm_compute. discriminate.
Qed.
Print Assumptions C03_hidden_method_receiver_refuted.

(* ---------------- without `no_self_param` ---------------- *)
(* @pedantic def f(a: int, self: str): FunctionCall removes every parameter called "self" from the parameters it checks
   (params_without_self filters by NAME): f(a=1, self=5) runs the body *)
Theorem C03_parameter_named_self_refuted : exists f c bd,
  sig_ok f = true /\ no_self_param f = false /\ recv_consistent f c /\ not_stripped Gen.Pedantic.pedantic_cfg f c
  /\ c03_values_bad ctx0 f c = true /\ fst (run1 ctx0 f c bd) = Ok (VInt 1%Z) /\ snd (run1 ctx0 f c bd) <> [].
Proof.
  exists (func "f" [par a_ PosOrKw AInt None; par self_name PosOrKw AStrC None] plain_text),
         (kwcall [] [(a_, VInt 1%Z); (self_name, VInt 5%Z)]), (returns (VInt 1%Z)).
  split; [reflexivity|]. split; [reflexivity|]. split; [right; left; repeat split; reflexivity|].
  split; [intros _ E; elim E; reflexivity|]. repeat split; try reflexivity. vm_compute. discriminate.
Qed.
Print Assumptions C03_parameter_named_self_refuted.

(* ---------------- the hypotheses are satisfiable / the model really rejects ---------------- *)
Example C03_guards_satisfiable :
  sig_ok f_plain = true /\ no_self_param f_plain = true /\ recv_consistent f_plain (kwcall [] [(a_, vx)]) /\ c03_values_bad ctx0 f_plain (kwcall [] [(a_, vx)]) = true
  /\ assert_uses_kwargs Gen.Pedantic.pedantic_cfg f_plain (kwcall [] [(a_, vx)]) = Ok tt
  /\ run1 ctx0 f_plain (kwcall [] [(a_, vx)]) (returns (VInt 1%Z)) = (Raise PTypeCheckC, []).
Proof. split; [reflexivity|]. split; [reflexivity|]. split; [right; left; repeat split; reflexivity|]. repeat split; reflexivity. Qed.

Example C03_default_checked :
  c03_args_bad ctx0 (func "f" [par a_ PosOrKw AInt (Some vx)] plain_text) (kwcall [] []) = true
  /\ run1 ctx0 (func "f" [par a_ PosOrKw AInt (Some vx)] plain_text) (kwcall [] []) (returns (VInt 1%Z)) = (Raise PTypeCheckC, []).
Proof. split; reflexivity. Qed.

(* since 9c0ddc8 only the values collected by *args are checked against its annotation: a bad element behind a leading
   positional value and behind the receiver of a method is still caught *)
Example C03_star_behind_leading_positional_checked :
  let f := func "f" [par a_ PosOrKw AStrC None; par args_ VarPos AInt None] (tflags true false false true 1) in
  let m := method "m" self_name [par args_ VarPos AInt None] (tflags true false false false 0) in
  c03_args_bad ctx0 f (poscall [] [vx; VInt 1%Z; vx] []) = true
  /\ run1 ctx0 f (poscall [] [vx; VInt 1%Z; vx] []) (returns (VInt 1%Z)) = (Raise PTypeCheckC, [])
  /\ run1 ctx0 m (poscall [k_inst] [VInt 1%Z; vx] []) (returns (VInt 1%Z)) = (Raise PTypeCheckC, [])
  /\ run1 ctx0 m (poscall [k_inst] [VInt 1%Z; VInt 2%Z] []) (returns (VInt 1%Z)) = twin m (poscall [k_inst] [VInt 1%Z; VInt 2%Z] []) (returns (VInt 1%Z)).
Proof. repeat split; reflexivity. Qed.

Example C03_star_and_kwargs_checked :
  let f := func "f" [par args_ VarPos AInt None; par 8 VarKw AStrC None] (tflags true false false true 1) in
  c03_args_bad ctx0 f (poscall [] [VInt 1%Z; vx] []) = true
  /\ run1 ctx0 f (poscall [] [VInt 1%Z; vx] []) (returns (VInt 1%Z)) = (Raise PTypeCheckC, [])
  /\ c03_args_bad ctx0 f (kwcall [] [(x_, VInt 1%Z)]) = true
  /\ run1 ctx0 f (kwcall [] [(x_, VInt 1%Z)]) (returns (VInt 1%Z)) = (Raise PTypeCheckC, []).
Proof. repeat split; reflexivity. Qed.

Definition p_setter : fn :=
  {| f_name := "p"%string; f_dotted := true; f_params := [{| p_name := self_name; p_kind := PosOrKw; p_ann := None; p_default := None |}; par 18 PosOrKw AInt None];
     f_bound := None; f_first_arg := Some self_name; f_ret := Some (ACls CNoneType); f_coroutine := false; f_generator := false;
     f_text := tflags false false true false 1; f_setter := true; f_recv := true |}.
Example C03_setter_checked :
  setter_value_bad ctx0 p_setter (poscall [k_inst] [vx] []) = true
  /\ run1 ctx0 p_setter (poscall [k_inst] [vx] []) (returns VNone) = (Raise PTypeCheckC, []).
Proof. split; reflexivity. Qed.

Example C03_result_checked :
  c03_result_bad ctx0 f_plain vx = true
  /\ fst (run1 ctx0 f_plain (kwcall [] [(a_, VInt 1%Z)]) (returns vx)) = Raise PTypeCheckC
  /\ snd (run1 ctx0 f_plain (kwcall [] [(a_, VInt 1%Z)]) (returns vx)) <> [].
Proof. repeat split; try reflexivity. vm_compute. discriminate. Qed.

(* ---------------- the body changes an argument in place and hands that very object back ---------------- *)
(* The verdict on what the body produces owes nothing to the verdict on what the caller supplied: a body that applies `change` to
   the object bound to parameter n and returns it (Proofs/PedanticMut.v: returns_changed - for the caller and for the result
   check the product is the object AS IT IS AFTER the change) is judged on that product, also when the object conformed to the
   very same annotation when it came in. *)
Theorem C03_changed_argument_guard_closed : forall ctx f c n change,
  (forall b v, model_binding Gen.Pedantic.pedantic_cfg f c = Ok b -> arg_value f c b n = Some v -> c03_result_bad ctx f (change v) = true) ->
  (forall b, model_binding Gen.Pedantic.pedantic_cfg f c = Ok b -> arg_value f c b n = None -> c03_result_bad ctx f VNone = true) ->
  exists e, fst (run1 ctx f c (returns_changed f c n change)) = Raise e.
Proof.
  intros ctx f c n change Hv Hn. apply C03_result_guard_closed.
  intros b cons v Hb Hbd. unfold returns_changed in Hbd.
  destruct (arg_value f c b n) as [w|] eqn:E; inversion Hbd; subst; [eapply Hv|eapply Hn]; eassumption.
Qed.
Print Assumptions C03_changed_argument_guard_closed.

(* def f(a: List[int]) -> List[int]: a.append('x'); return a - called f(a=[1]): the argument conforms (to the same annotation),
   the body runs once on the caller's object, the caller gets PedanticTypeCheckException *)
Example C03_changed_argument_checked :
  let c := kwcall [] [(a_, VList [VInt 1%Z])] in
  c04_args_ok ctx0 f_list_to_list c = true
  /\ good ctx0 (f_ret f_list_to_list) (VList [VInt 1%Z]) = true
  /\ run1 ctx0 f_list_to_list c (returns_changed f_list_to_list c a_ (append_to vx))
     = (Raise PTypeCheckC, [([(a_, BOne (SKw a_))], [])]).
Proof. repeat split; vm_compute; reflexivity. Qed.

(* ---------------- the NAME of a parameter is not an input of the verdict ---------------- *)
(* def f(<n>: int) -> int called f(<n>='x'), for EVERY name n other than self (context, func, call, value, key ... included:
   the keyword travels through the **kwargs of every layer of the decorator) *)
Theorem C03_parameter_name_irrelevant_closed : forall n bd,
  n <> self_name ->
  run1 ctx0 (func "f" [par n PosOrKw AInt None] plain_text) (kwcall [] [(n, vx)]) bd = (Raise PTypeCheckC, []).
Proof.
  intros n bd Hn. destruct n as [|m]; [exfalso; apply Hn; reflexivity|].
  apply C03_args_guard_exact_closed_partial; try reflexivity.
  - left. right; left. repeat split; reflexivity.
  - intros _ H. exfalso. apply H. reflexivity.
  - unfold c03_values_bad, c03_supplied_bad, twin_binding, py_bind. cbn. rewrite ?Nat.eqb_refl. cbn. rewrite ?Nat.eqb_refl. reflexivity.
  - intros; discriminate.
  - intros inst Hi. vm_compute in Hi. inversion Hi. reflexivity.
Qed.
Print Assumptions C03_parameter_name_irrelevant_closed.
