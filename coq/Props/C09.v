(* C09 - ENABLE_PEDANTIC switch: disabled decorators are identity; the switch is read at
   decoration only.  Property theorems only.  `the_model` is assembled from Gen/Env.v, which
   translator/t_env.py regenerates from /repo on every run: the name of the variable, the body of
   is_enabled, the literals assigned by enable_pedantic/disable_pedantic, which of the seven
   decorators starts with the guard `if not is_enabled(): return <argument>`, what lies behind the
   guards, and the list of EVERY reference to is_enabled / os.environ / ENVIRONMENT_VARIABLE_NAME /
   getenv / the seven decorators themselves in the package.

   Statement (properties.jsonl): "With ENABLE_PEDANTIC=0 (or after disable_pedantic()) at decoration
   time, pedantic, pedantic_require_docstring, pedantic_class, pedantic_class_require_docstring,
   trace_class, timer_class and for_all_methods return the very object they were given, unmodified,
   and impose no checks; with the variable unset or set to 1 (or after enable_pedantic()) they check.
   The switch is read only when a decorator is applied: toggling it afterwards never changes the
   behaviour of already decorated callables."                                                      *)
From Coq Require Import List Bool String Arith.
From PV Require Import Base.Exn Model.EnvSwitch Spec.EnvSpec Proofs.EnvProofs Model.EnvEval Gen.Env.
Import ListNotations.
Open Scope list_scope.

Definition M := the_model.

(* translation obligation: the regenerated switch logic, guards, enabled paths and cross reference are
   the ones the lemmas are proved for (finite, decided by computation) *)
Theorem C09_model_good : good M = true.
Proof. vm_compute. reflexivity. Qed.
Print Assumptions C09_model_good.

(* the regenerated env_var_logic.py: the variable is ENABLE_PEDANTIC; is_enabled never raises, whatever the
   value; it answers True for unset and "1", False for "0"; enable/disable assign "1"/"0" *)
Theorem C09_switch_logic :
  Gen.Env.env_var_name = "ENABLE_PEDANTIC"%string /\
  (forall e, exists b, is_enabled M e = Ok b) /\
  is_enabled M Unset = Ok true /\ is_enabled M (Val "1") = Ok true /\ is_enabled M (Val "0") = Ok false /\
  (forall e, run_assign (sm_enable M) e = Val "1") /\ (forall e, run_assign (sm_disable M) e = Val "0").
Proof.
  split; [vm_compute; reflexivity|]. split; [intros [|v]; vm_compute; eauto|].
  repeat split; vm_compute; reflexivity.
Qed.
Print Assumptions C09_switch_logic.

(* the seven decorators of the statement, and each of them reaches a first-statement guard *)
Theorem C09_seven_decorators :
  map dname all_dkinds = ["pedantic"; "pedantic_require_docstring"; "pedantic_class"; "pedantic_class_require_docstring";
                          "trace_class"; "timer_class"; "for_all_methods"]%string /\
  (forall d, In d all_dkinds) /\ (forall d, honours M d = true) /\ (forall d, wraps M d = true).
Proof.
  destruct (good_parts M C09_model_good) as (_ & _ & _ & HON & _ & W & _).
  split; [reflexivity|]. split; [intros []; simpl; auto 10|]. split; assumption.
Qed.
Print Assumptions C09_seven_decorators.

(* cross-reference obligation, stated on the regenerated list: every reference to the switch in
   the package is inside env_var_logic.py, an import of the names, a read of another
   (caller-named) variable, a use of a decorator inside one of the exact-shape shortcuts, or one of
   exactly two guards, which are the first statement of pedantic.decorator and of
   for_all_methods.decorate; hence no wrapper reads the switch when it is called and no
   factory (pedantic(...), for_all_methods(...)) reads it when the decorator object is created *)
Theorem C09_cross_reference :
  forallb ref_allowed Gen.Env.env_refs = true /\
  map (fun r => (er_scope r, er_phase r)) (filter is_guard_ref Gen.Env.env_refs) =
    [("for_all_methods.decorate", PhDecoration SiteForAll); ("pedantic.decorator", PhDecoration SitePedantic)]%string /\
  filter (fun r => reads_switch (er_kind r) && negb (is_guard_ref r) &&
                   match er_phase r with PhEnvLogic => false | _ => true end &&
                   match er_kind r with RDecoUse => negb (er_guard r) | _ => true end) Gen.Env.env_refs = [] /\
  (forall d, call_reads M d = false) /\ (forall d, create_reads M d = false).
Proof.
  split; [vm_compute; reflexivity|]. split; [vm_compute; reflexivity|]. split; [vm_compute; reflexivity|].
  split; [exact (no_call_reads M C09_model_good)|exact (no_create_reads M C09_model_good)].
Qed.
Print Assumptions C09_cross_reference.

(* for env in {unset,"0","1"}: all seven decorators return the very object iff the switch is "0",
   and the object they return behaves accordingly (no checks / checks) under every later environment *)
Theorem C09_identity_iff_disabled : forall d x s, in_domain (env s) = true ->
  let (s', o) := step M s (ODecorate d x) in
  (o = ODeco true <-> env s = Val "0"%string) /\
  (o = ODeco false <-> (env s = Unset \/ env s = Val "1"%string)) /\
  (env s = Val "0"%string -> nth_error (objs s') (List.length (objs s)) = Some (Identity x) /\
                    forall e, call_behaviour M (Identity x) e = Plain) /\
  (env s = Unset \/ env s = Val "1"%string -> nth_error (objs s') (List.length (objs s)) = Some (Wrapped d x) /\
                    forall e, call_behaviour M (Wrapped d x) e = Checked).
Proof.
  intros d x s Hd. rewrite (decorate_obs M C09_model_good s d x Hd).
  assert (Hn : forall o, nth_error (objs s ++ [o]) (List.length (objs s)) = Some o) by (intro o; apply nth_last).
  apply in_domain_cases in Hd. destruct Hd as [H|[H|[H|[]]]]; rewrite <- H;
    cbn [spec_enabled String.eqb Ascii.eqb Bool.eqb add_obj objs env];
    repeat split; intros;
    try match goal with D : _ \/ _ |- _ => destruct D end;
    try discriminate; try reflexivity; auto; try apply Hn;
    apply (wrapped_checked M C09_model_good).
Qed.
Print Assumptions C09_identity_iff_disabled.

(* the same after enable_pedantic() / disable_pedantic(), from ANY previous value of the variable *)
Theorem C09_identity_after_toggle : forall d x s,
  snd (step M (fst (step M s ODisable)) (ODecorate d x)) = ODeco true /\
  snd (step M (fst (step M s OEnable)) (ODecorate d x)) = ODeco false.
Proof.
  intros d x s. destruct (good_parts M C09_model_good) as (_ & EN & DI & _).
  split.
  - rewrite (decorate_obs M C09_model_good) by (simpl; try rewrite DI; reflexivity). simpl; try rewrite DI; reflexivity.
  - rewrite (decorate_obs M C09_model_good) by (simpl; try rewrite EN; reflexivity). simpl; try rewrite EN; reflexivity.
Qed.
Print Assumptions C09_identity_after_toggle.

(* the switch is read only at decoration: whatever finite history of setenv (ANY value) / unsetenv /
   enable / disable / further decorations / calls follows, calling an already decorated object
   behaves the same; s is ANY state (any value of the variable, any earlier history) *)
Theorem C09_read_only_at_decoration : forall s d x h1 h2,
  let s0 := fst (step M s (ODecorate d x)) in
  let i := List.length (objs s) in
  snd (step M (fst (run_ops M s0 h1)) (OCall i)) = snd (step M (fst (run_ops M s0 h2)) (OCall i)).
Proof.
  intros s d x h1 h2 s0 i.
  (* the decoration cannot have raised: the regenerated is_enabled never raises *)
  destruct (decorate_appends M (proj1 (proj2 C09_switch_logic)) s d x) as [o E].
  exact (read_only_at_decoration M C09_model_good s0 i o h1 h2 E).
Qed.
Print Assumptions C09_read_only_at_decoration.

(* both halves in one statement: decorate (any of the seven) in ANY state whose variable is unset/"0"/"1", let ANY finite
   history follow (setenv to arbitrary values included), then call the decorated object: it is checked iff the switch was
   unset or "1" when the decorator was applied, plain iff it was "0" *)
Theorem C09_behaviour_fixed_at_decoration : forall s d x h, in_domain (env s) = true ->
  snd (step M (fst (run_ops M (fst (step M s (ODecorate d x))) h)) (OCall (List.length (objs s)))) =
  OCalled (if spec_enabled (env s) then Checked else Plain).
Proof. exact (behaviour_fixed M C09_model_good). Qed.
Print Assumptions C09_behaviour_fixed_at_decoration.

(* "read only when a decorator is APPLIED": obtain a decorator object (for_all_methods(inner), pedantic(),
   pedantic_require_docstring(), or a reference to a class decorator) in ANY state, let ANY finite history pass (toggles to
   arbitrary values, other creations, decorations, calls), apply it to a fresh target while the variable is unset/"0"/"1":
   the result is the very object iff the variable is "0" at the moment of APPLICATION, whatever it was at creation, and
   under ANY further history the decorated object is checked iff the variable was unset/"1" at application *)
Theorem C09_read_at_application_not_creation : forall s d h x h',
  let s1 := fst (step M s (OCreate d)) in
  let k := List.length (decos s) in
  let s2 := fst (run_ops M s1 h) in
  in_domain (env s2) = true ->
  snd (step M s2 (OApply k x)) = ODeco (negb (spec_enabled (env s2))) /\
  snd (step M (fst (run_ops M (fst (step M s2 (OApply k x))) h')) (OCall (List.length (objs s2)))) =
    OCalled (if spec_enabled (env s2) then Checked else Plain).
Proof. exact (read_at_application M C09_model_good). Qed.
Print Assumptions C09_read_at_application_not_creation.

(* all observations of every in-domain history (create/apply included) are the ones the statement demands *)
Theorem C09_model_refines_spec : forall e h, in_domain e = true -> forallb op_in_domain h = true ->
  snd (run_ops M {| env := e; objs := []; decos := [] |} h) = snd (spec_run {| s_env := e; s_objs := []; s_decos := 0 |} h).
Proof.
  intros e h He Hh. apply (run_refines M C09_model_good); [|exact Hh]. repeat split; auto.
Qed.
Print Assumptions C09_model_refines_spec.

Theorem C09_enable_disable_roundtrip : forall e,
  let en := run_assign (sm_enable M) in let di := run_assign (sm_disable M) in
  is_enabled M (en e) = Ok true /\ is_enabled M (di e) = Ok false /\
  en (di e) = en e /\ di (en e) = di e /\ en (en e) = en e /\ di (di e) = di e /\
  in_domain (en e) = true /\ in_domain (di e) = true /\
  (in_domain e = true -> is_enabled M e = Ok (spec_enabled e)).
Proof.
  intro e. repeat split; try (intro H; exact (proj1 (good_parts M C09_model_good) e H)); vm_compute; reflexivity.
Qed.
Print Assumptions C09_enable_disable_roundtrip.

(* non-vacuity: a concrete in-domain history; the object decorated while disabled stays unchecked
   after enable_pedantic(), the one decorated while enabled stays checked after disable_pedantic() *)
Example C09_example :
  let h := [ODisable; ODecorate DPedantic 0; OEnable; OCall 0; ODecorate DTraceClass 1; ODisable; OCall 1; OCall 0] in
  forallb op_in_domain h = true /\
  snd (run_ops M {| env := Unset; objs := []; decos := [] |} h) =
    [ONone; ODeco true; ONone; OCalled Plain; ODeco false; ONone; OCalled Checked; OCalled Plain].
Proof. split; vm_compute; reflexivity. Qed.

(* created while enabled, applied while disabled: the very object; created while disabled, applied while enabled: checked *)
Example C09_example_create_apply :
  let h := [OEnable; OCreate DForAllMethods; ODisable; OCreate DPedantic; OApply 0 0; OCall 0; OEnable; OApply 1 1; OApply 0 2;
            ODisable; OCall 1; OCall 2; OCall 0; OApply 7 0] in
  forallb op_in_domain h = true /\
  snd (run_ops M {| env := Unset; objs := []; decos := [] |} h) =
    [ONone; ONone; ONone; ONone; ODeco true; OCalled Plain; ONone; ODeco false; ODeco false;
     ONone; OCalled Checked; OCalled Checked; OCalled Plain; ONone].
Proof. split; vm_compute; reflexivity. Qed.

(* the hypotheses in_domain / op_in_domain are satisfiable by every value of the stated domain and by every operation
   that stays in it; other values are outside the statement (nothing is demanded of them here) *)
Example C09_domain :
  map in_domain [Unset; Val "0"; Val "1"; Val "true"; Val ""]%string = [true; true; true; false; false] /\
  map op_in_domain [OSetenv "0"; OSetenv "1"; OUnsetenv; OEnable; ODisable; ODecorate DForAllMethods 0; OCall 3; OCreate DTimerClass; OApply 0 0; OSetenv "2"]%string
    = [true; true; true; true; true; true; true; true; true; false].
Proof. split; vm_compute; reflexivity. Qed.
