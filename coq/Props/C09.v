(* C09 - ENABLE_PEDANTIC switch: disabled decorators are identity; the switch is read at
   decoration only.  Property theorems only.  `the_model` is assembled from Gen/EnvSwitch.v,
   which translator/t_wrappers.py regenerates from /repo on every run: the body of is_enabled,
   the literals assigned by enable_pedantic/disable_pedantic, which of the seven decorators
   starts with the guard `if not is_enabled(): return <argument>`, and the list of EVERY
   reference to is_enabled / os.environ / ENVIRONMENT_VARIABLE_NAME / getenv in the package.  *)
From Coq Require Import List Bool String Arith.
From PV Require Import Base.Exn Model.EnvSwitch Spec.EnvSpec Proofs.EnvProofs Model.EnvEval Gen.EnvSwitch.
Import ListNotations.
Open Scope list_scope.

Definition M := the_model.

(* translation obligation: the regenerated switch logic, guards and cross reference are the ones
   the lemmas are proved for (finite, decided by computation) *)
Theorem C09_model_good : good M = true.
Proof. vm_compute. reflexivity. Qed.
Print Assumptions C09_model_good.

(* cross-reference obligation, stated on the regenerated list: every reference to the switch in
   the package is inside env_var_logic.py, an import of the names, a read of another
   (caller-named) variable, or one of exactly two guards, which are the first statement of
   pedantic.decorator and of for_all_methods.decorate *)
Theorem C09_cross_reference :
  forallb ref_allowed Gen.EnvSwitch.env_refs = true /\
  map (fun r => (er_scope r, er_phase r)) (filter is_guard_ref Gen.EnvSwitch.env_refs) =
    [("for_all_methods.decorate", PhDecoration SiteForAll); ("pedantic.decorator", PhDecoration SitePedantic)]%string /\
  forall d, call_reads M d = false.
Proof. split; [vm_compute; reflexivity|]. split; [vm_compute; reflexivity|]. exact (no_call_reads M C09_model_good). Qed.
Print Assumptions C09_cross_reference.

(* for env in {unset,"0","1"}: all seven decorators return the very object iff the switch is "0",
   and the object they return behaves accordingly (no checks / checks) *)
Theorem C09_identity_iff_disabled : forall d x s, in_domain (env s) = true ->
  let (s', o) := step M s (ODecorate d x) in
  (o = ODeco true <-> env s = Val "0"%string) /\
  (o = ODeco false <-> (env s = Unset \/ env s = Val "1"%string)) /\
  (env s = Val "0"%string -> nth_error (objs s') (List.length (objs s)) = Some (Identity x) /\
                    forall e, call_behaviour M (Identity x) e = Plain) /\
  (env s = Unset \/ env s = Val "1"%string -> nth_error (objs s') (List.length (objs s)) = Some (Wrapped d x) /\
                    forall e, call_behaviour M (Wrapped d x) e = Checked).
Proof.
  intros d x s Hd. rewrite (decorate_obs M C09_model_good s d x Hd).
  assert (Hn : forall o, nth_error (objs s ++ [o]) (List.length (objs s)) = Some o).
  { intro o. rewrite nth_error_app2, Nat.sub_diag by auto. reflexivity. }
  apply in_domain_cases in Hd. destruct Hd as [H|[H|[H|[]]]]; rewrite <- H; simpl;
    repeat split; intros;
    try match goal with D : _ \/ _ |- _ => destruct D end;
    try discriminate; try reflexivity; auto; try apply Hn;
    simpl; now rewrite (no_call_reads M C09_model_good).
Qed.
Print Assumptions C09_identity_iff_disabled.

(* the same after enable_pedantic() / disable_pedantic(), from ANY previous value of the variable *)
Theorem C09_identity_after_toggle : forall d x s,
  snd (step M (fst (step M s ODisable)) (ODecorate d x)) = ODeco true /\
  snd (step M (fst (step M s OEnable)) (ODecorate d x)) = ODeco false.
Proof.
  intros d x s. destruct (good_parts M C09_model_good) as (_ & EN & DI & _).
  split.
  - rewrite (decorate_obs M C09_model_good) by (simpl; try rewrite DI; reflexivity). simpl; try rewrite DI; reflexivity.
  - rewrite (decorate_obs M C09_model_good) by (simpl; try rewrite EN; reflexivity). simpl; try rewrite EN; reflexivity.
Qed.
Print Assumptions C09_identity_after_toggle.

(* the switch is read only at decoration: whatever finite history of setenv (ANY value) / unsetenv /
   enable / disable / further decorations / calls follows, calling an already decorated object
   behaves the same *)
Theorem C09_read_only_at_decoration : forall s d x h1 h2,
  let s0 := fst (step M s (ODecorate d x)) in
  let i := List.length (objs s) in
  snd (step M (fst (run_ops M s0 h1)) (OCall i)) = snd (step M (fst (run_ops M s0 h2)) (OCall i)).
Proof.
  intros s d x h1 h2 s0 i.
  destruct (nth_error (objs s0) i) as [o|] eqn:E.
  - exact (read_only_at_decoration M C09_model_good s0 i o h1 h2 E).
  - (* the decoration itself raised: impossible for the regenerated is_enabled, which never raises *)
    exfalso. subst s0 i. simpl in E. destruct (good_parts M C09_model_good) as (_ & _ & _ & HON & _).
    rewrite HON in E.
    assert (T : forall e, exists b, is_enabled M e = Ok b).
    { intros [|v]; vm_compute; eauto. }
    destruct (T (env s)) as [b Hb]. rewrite Hb in E.
    destruct b; simpl in E; rewrite nth_error_app2, Nat.sub_diag in E by auto; discriminate.
Qed.
Print Assumptions C09_read_only_at_decoration.

(* all observations of every in-domain history are the ones the statement demands *)
Theorem C09_model_refines_spec : forall e h, in_domain e = true -> forallb op_in_domain h = true ->
  snd (run_ops M {| env := e; objs := [] |} h) = snd (spec_run {| s_env := e; s_objs := [] |} h).
Proof.
  intros e h He Hh. apply (run_refines M C09_model_good); [|exact Hh]. repeat split; auto.
Qed.
Print Assumptions C09_model_refines_spec.

Theorem C09_enable_disable_roundtrip : forall e,
  let en := run_assign (sm_enable M) in let di := run_assign (sm_disable M) in
  is_enabled M (en e) = Ok true /\ is_enabled M (di e) = Ok false /\
  en (di e) = en e /\ di (en e) = di e /\ en (en e) = en e /\ di (di e) = di e /\
  in_domain (en e) = true /\ in_domain (di e) = true /\
  (in_domain e = true -> is_enabled M e = Ok (spec_enabled e)).
Proof.
  intro e. repeat split; try (vm_compute; reflexivity).
  intro H. exact (proj1 (good_parts M C09_model_good) e H).
Qed.
Print Assumptions C09_enable_disable_roundtrip.

(* non-vacuity: a concrete in-domain history; the object decorated while disabled stays unchecked
   after enable_pedantic(), the one decorated while enabled stays checked after disable_pedantic() *)
Example C09_example :
  let h := [ODisable; ODecorate DPedantic 0; OEnable; OCall 0; ODecorate DTraceClass 1; ODisable; OCall 1; OCall 0] in
  forallb op_in_domain h = true /\
  snd (run_ops M {| env := Unset; objs := [] |} h) =
    [ONone; ODeco true; ONone; OCalled Plain; ODeco false; ONone; OCalled Checked; OCalled Plain].
Proof. split; vm_compute; reflexivity. Qed.
