(* C09 - ENABLE_PEDANTIC switch: disabled decorators are identity; the switch is read at
   decoration only.  Property theorems only.  `the_model` is assembled from Gen/Env.v, which
   translator/t_env.py regenerates from /repo on every run: the name of the variable, the body of
   is_enabled, the literals assigned by enable_pedantic/disable_pedantic, which of the seven
   decorators starts with the guard `if not is_enabled(): return <argument>`, what lies behind the
   guards, and the list of EVERY reference to is_enabled / os.environ / ENVIRONMENT_VARIABLE_NAME /
   getenv / the seven decorators themselves in the package.

   Statement (properties.jsonl): "With ENABLE_PEDANTIC=0 (or after disable_pedantic()) at decoration
   time, pedantic, pedantic_require_docstring, pedantic_class, pedantic_class_require_docstring,
   trace_class, timer_class and for_all_methods return the very object they were given, unmodified,
   and impose no checks; with the variable unset or set to 1 (or after enable_pedantic()) they check.
   The switch is read only when a decorator is applied: toggling it afterwards never changes the
   behaviour of already decorated callables."

   Objects live in a heap (Model/EnvSwitch.v): the object handed to a decorator may be fresh, an object that went
   through a decorator earlier in the history (ORedecorate) or a new subclass of such a class (OSubDecorate).
   `wf s`: every object of s refers to cells that exist - true of the initial state and kept by every operation
   (C09_reachable_wf).  `redeco_only_disabled e h`: every re-decoration in h happens while the variable is "0"
   (the value followed through h from e); an ENABLED re-decoration of a class changes that class in place, which is
   the one thing after which an object decorated while the switch was off need not be plain any more.            *)
From Coq Require Import List Bool String Arith.
From PV Require Import Base.Exn Model.EnvSwitch Spec.EnvSpec Proofs.EnvProofs Model.EnvEval Gen.Env.
From PV Require Import Model.EnvOverlap Spec.EnvOverlapSpec Proofs.EnvOverlapProofs.
Import ListNotations.
Open Scope list_scope.

Definition M := the_model.

(* translation obligation: the regenerated switch logic, guards, enabled paths and cross reference are
   the ones the lemmas are proved for (finite, decided by computation) *)
Theorem C09_model_good : good M = true.
Proof. vm_compute. reflexivity. Qed.
Print Assumptions C09_model_good.

(* the regenerated env_var_logic.py: the variable is ENABLE_PEDANTIC; is_enabled never raises, whatever the
   value; it answers True for unset and "1", False for "0"; enable/disable assign "1"/"0" *)
Theorem C09_switch_logic :
  Gen.Env.env_var_name = "ENABLE_PEDANTIC"%string /\
  (forall e, exists b, is_enabled M e = Ok b) /\
  is_enabled M Unset = Ok true /\ is_enabled M (Val "1") = Ok true /\ is_enabled M (Val "0") = Ok false /\
  (forall e, run_assign (sm_enable M) e = Val "1") /\ (forall e, run_assign (sm_disable M) e = Val "0").
Proof.
  split; [vm_compute; reflexivity|]. split; [intros [|v]; vm_compute; eauto|].
  repeat split; vm_compute; reflexivity.
Qed.
Print Assumptions C09_switch_logic.

(* the seven decorators of the statement, and each of them reaches a first-statement guard *)
Theorem C09_seven_decorators :
  map dname all_dkinds = ["pedantic"; "pedantic_require_docstring"; "pedantic_class"; "pedantic_class_require_docstring";
                          "trace_class"; "timer_class"; "for_all_methods"]%string /\
  (forall d, In d all_dkinds) /\ (forall d, honours M d = true) /\ (forall d, wraps M d = true).
Proof.
  destruct (good_parts M C09_model_good) as (_ & _ & _ & HON & _ & W & _).
  split; [reflexivity|]. split; [intros []; simpl; auto 10|]. split; assumption.
Qed.
Print Assumptions C09_seven_decorators.

(* cross-reference obligation, stated on the regenerated list: every reference to the switch in
   the package is inside env_var_logic.py, an import of the names, a read of another
   (caller-named) variable, a use of a decorator inside one of the exact-shape shortcuts, or one of
   exactly two guards, which are the first statement of pedantic.decorator and of
   for_all_methods.decorate; hence no wrapper reads the switch when it is called and no
   factory (pedantic(...), for_all_methods(...)) reads it when the decorator object is created *)
Theorem C09_cross_reference :
  forallb ref_allowed Gen.Env.env_refs = true /\
  map (fun r => (er_scope r, er_phase r)) (filter is_guard_ref Gen.Env.env_refs) =
    [("for_all_methods.decorate", PhDecoration SiteForAll); ("pedantic.decorator", PhDecoration SitePedantic)]%string /\
  filter (fun r => reads_switch (er_kind r) && negb (is_guard_ref r) &&
                   match er_phase r with PhEnvLogic => false | _ => true end &&
                   match er_kind r with RDecoUse => negb (er_guard r) | _ => true end) Gen.Env.env_refs = [] /\
  (forall d, call_reads M d = false) /\ (forall d, create_reads M d = false).
Proof.
  split; [vm_compute; reflexivity|]. split; [vm_compute; reflexivity|]. split; [vm_compute; reflexivity|].
  split; [exact (no_call_reads M C09_model_good)|exact (no_create_reads M C09_model_good)].
Qed.
Print Assumptions C09_cross_reference.

(* every state that can be reached from the initial one is well formed (the hypothesis `wf` below) *)
Theorem C09_reachable_wf : forall e h, wf (fst (run_ops M (init_state e) h)).
Proof. intros e h. apply run_wf. apply wf_init. Qed.
Print Assumptions C09_reachable_wf.

(* for env in {unset,"0","1"}: all seven decorators, applied to a fresh function / class, return the very object iff the
   switch is "0", and the object they return behaves accordingly (no checks / checks) under every value of the variable *)
Theorem C09_identity_iff_disabled : forall d s, in_domain (env s) = true -> wf s ->
  let r := step M s (ODecorate d) in
  (snd r = ODeco true <-> env s = Val "0"%string) /\
  (snd r = ODeco false <-> (env s = Unset \/ env s = Val "1"%string)) /\
  exists o, nth_error (objs (fst r)) (List.length (objs s)) = Some o /\
    (env s = Val "0"%string -> o_res o = o_given o /\ forall e, call_behaviour M (fst r) o e = Plain) /\
    (env s = Unset \/ env s = Val "1"%string -> forall e, call_behaviour M (fst r) o e = Checked).
Proof.
  intros d s Hd W r.
  destruct (decorate_fresh_result M C09_model_good s d None Hd W) as (O & _ & _ & _ & o & Ho & _ & _ & _ & Hc & Hi).
  change (decorate_fresh M s d None (env s)) with r in *.
  assert (CB : forall e, call_behaviour M (fst r) o e = if spec_enabled (env s) then Checked else Plain).
  { intro e. unfold call_behaviour. now rewrite (cell_behaviour_checked_at M C09_model_good), Hc. }
  rewrite O. apply in_domain_cases in Hd. destruct Hd as [H|[H|[H|[]]]]; rewrite <- H in *;
    cbn [spec_enabled String.eqb Ascii.eqb Bool.eqb negb] in *;
    (split; [split; intros; try discriminate; reflexivity|]);
    (split; [split; intros; try match goal with D : _ \/ _ |- _ => destruct D end; try discriminate; auto|]);
    exists o; (split; [exact Ho|]); split; intros;
    try match goal with D : _ \/ _ |- _ => destruct D end; try discriminate; auto.
Qed.
Print Assumptions C09_identity_iff_disabled.

(* the same after enable_pedantic() / disable_pedantic(), from ANY previous value of the variable *)
Theorem C09_identity_after_toggle : forall d s,
  snd (step M (fst (step M s ODisable)) (ODecorate d)) = ODeco true /\
  snd (step M (fst (step M s OEnable)) (ODecorate d)) = ODeco false.
Proof.
  intros d s. destruct (good_parts M C09_model_good) as (_ & EN & DI & _).
  split; cbn [step fst with_env env]; [rewrite DI|rewrite EN]; cbn [run_assign];
    now rewrite (decorate_fresh_obs M C09_model_good).
Qed.
Print Assumptions C09_identity_after_toggle.

(* the switch is read only at decoration: whatever finite history of setenv (ANY value) / unsetenv / enable / disable /
   further decorations / creation and application of decorator objects / calls / decorations of subclasses /
   re-decorations made while the variable is "0" follows, calling an already decorated object behaves the same;
   s is ANY reachable state (any value of the variable, any earlier history) *)
Theorem C09_read_only_at_decoration : forall s d h1 h2, wf s ->
  redeco_only_disabled (env s) h1 = true -> redeco_only_disabled (env s) h2 = true ->
  let s0 := fst (step M s (ODecorate d)) in
  let i := List.length (objs s) in
  snd (step M (fst (run_ops M s0 h1)) (OCall i)) = snd (step M (fst (run_ops M s0 h2)) (OCall i)).
Proof. exact (read_only_at_decoration M C09_model_good (proj1 (proj2 C09_switch_logic))). Qed.
Print Assumptions C09_read_only_at_decoration.

(* the same for EVERY object of a state, however it was made (fresh, re-decorated, subclass) *)
Theorem C09_inert_history : forall s i o h, wf s -> nth_error (objs s) i = Some o ->
  redeco_only_disabled (env s) h = true ->
  snd (step M (fst (run_ops M s h)) (OCall i)) = snd (step M s (OCall i)).
Proof. exact (inert_call M C09_model_good). Qed.
Print Assumptions C09_inert_history.

(* and without any condition on the history (re-decorations while enabled included): what checks keeps checking *)
Theorem C09_checked_stays_checked : forall s i o h, wf s -> nth_error (objs s) i = Some o ->
  snd (step M s (OCall i)) = OCalled Checked -> snd (step M (fst (run_ops M s h)) (OCall i)) = OCalled Checked.
Proof. exact (checked_stays M C09_model_good). Qed.
Print Assumptions C09_checked_stays_checked.

(* both halves in one statement: decorate (any of the seven) in ANY state whose variable is unset/"0"/"1", let a finite
   history follow (setenv to arbitrary values included), then call the decorated object: it is checked iff the switch was
   unset or "1" when the decorator was applied (after ANY history), plain iff it was "0" *)
Theorem C09_behaviour_fixed_at_decoration : forall s d h, in_domain (env s) = true -> wf s ->
  (spec_enabled (env s) = true \/ redeco_only_disabled (env s) h = true) ->
  snd (step M (fst (run_ops M (fst (step M s (ODecorate d))) h)) (OCall (List.length (objs s)))) =
  OCalled (if spec_enabled (env s) then Checked else Plain).
Proof. exact (behaviour_fixed M C09_model_good). Qed.
Print Assumptions C09_behaviour_fixed_at_decoration.

(* "read only when a decorator is APPLIED": obtain a decorator object (for_all_methods(inner), pedantic(),
   pedantic_require_docstring(), or a reference to a class decorator) in ANY state, let ANY finite history pass (toggles to
   arbitrary values, other creations, decorations, calls), apply it to a fresh target while the variable is unset/"0"/"1":
   the result is the very object iff the variable is "0" at the moment of APPLICATION, whatever it was at creation, and
   under further histories the decorated object is checked iff the variable was unset/"1" at application *)
Theorem C09_read_at_application_not_creation : forall s d h h', wf s ->
  let s1 := fst (step M s (OCreate d)) in
  let k := List.length (decos s) in
  let s2 := fst (run_ops M s1 h) in
  in_domain (env s2) = true ->
  (spec_enabled (env s2) = true \/ redeco_only_disabled (env s2) h' = true) ->
  snd (step M s2 (OApply k)) = ODeco (negb (spec_enabled (env s2))) /\
  snd (step M (fst (run_ops M (fst (step M s2 (OApply k))) h')) (OCall (List.length (objs s2)))) =
    OCalled (if spec_enabled (env s2) then Checked else Plain).
Proof. exact (read_at_application M C09_model_good). Qed.
Print Assumptions C09_read_at_application_not_creation.

(* a decorator (written directly or a kept decorator object) is applied AGAIN to an object that went through a decorator
   earlier - the object that was given then (again = false) or the one that came back (again = true), decorated at
   whatever state of the switch: while the variable is "0" the result is the very object, NO cell of the heap changes, and
   under later histories it does what the given object did; otherwise the result checks, for ever *)
Theorem C09_redecoration_identity_iff_disabled : forall s src i (again : bool) o d e, in_domain (env s) = true -> wf s ->
  nth_error (objs s) i = Some o -> resolve M s src = Some (d, e) -> fam d = o_fam o ->
  let a := if again then o_res o else o_given o in
  let r := step M s (ORedecorate src i again) in
  let n := List.length (objs s) in
  snd r = ODeco (negb (spec_enabled (env s))) /\
  (spec_enabled (env s) = false ->
     heap (fst r) = heap s /\ nth_error (objs (fst r)) n = Some {| o_fam := fam d; o_given := a; o_res := a |}) /\
  (forall h, spec_enabled (env s) = true -> snd (step M (fst (run_ops M (fst r) h)) (OCall n)) = OCalled Checked) /\
  (forall h, spec_enabled (env s) = false -> redeco_only_disabled (env s) h = true ->
     snd (step M (fst (run_ops M (fst r) h)) (OCall n)) = OCalled (cell_behaviour M s a (env s))).
Proof. exact (redecoration M C09_model_good). Qed.
Print Assumptions C09_redecoration_identity_iff_disabled.

(* class hierarchies: a fresh subclass of a class that went through a decorator (at whatever state of the switch) is
   decorated: very object iff "0"; NO existing cell changes (the base class in particular) in either case; what the
   subclass inherits behaves as the base class does; what it defines itself is checked iff the switch was on *)
Theorem C09_subclass_decoration : forall s src i o d e, in_domain (env s) = true -> wf s ->
  nth_error (objs s) i = Some o -> o_fam o = FCls -> resolve M s src = Some (d, e) -> fam d = FCls ->
  let r := step M s (OSubDecorate src i) in
  let n := List.length (objs s) in
  snd r = ODeco (negb (spec_enabled (env s))) /\
  (forall a, a < List.length (heap s) -> nth_error (heap (fst r)) a = nth_error (heap s) a) /\
  (exists o', nth_error (objs (fst r)) n = Some o' /\ base_at (heap (fst r)) (o_given o') = Some (o_res o) /\
              (spec_enabled (env s) = false -> o_res o' = o_given o') /\
              forall e', inherited_behaviour M (fst r) (o_given o') e' = Some (cell_behaviour M s (o_res o) e')) /\
  (forall h, spec_enabled (env s) = true \/ redeco_only_disabled (env s) h = true ->
     snd (step M (fst (run_ops M (fst r) h)) (OCall n)) = OCalled (if spec_enabled (env s) then Checked else Plain)).
Proof. exact (subclass_decoration M C09_model_good). Qed.
Print Assumptions C09_subclass_decoration.

(* all observations of every in-domain history (create/apply, re-decoration, subclasses included) meet what the
   statement demands (obs_meets: equal, or nothing is demanded) *)
Theorem C09_model_refines_spec : forall e h, in_domain e = true -> forallb op_in_domain h = true ->
  Forall2 obs_meets (snd (run_ops M (init_state e) h)) (snd (spec_run (init_sstate e) h)).
Proof.
  intros e h He Hh. apply (run_refines M C09_model_good); [|exact Hh]. now apply rel_init.
Qed.
Print Assumptions C09_model_refines_spec.

Theorem C09_enable_disable_roundtrip : forall e,
  let en := run_assign (sm_enable M) in let di := run_assign (sm_disable M) in
  is_enabled M (en e) = Ok true /\ is_enabled M (di e) = Ok false /\
  en (di e) = en e /\ di (en e) = di e /\ en (en e) = en e /\ di (di e) = di e /\
  in_domain (en e) = true /\ in_domain (di e) = true /\
  (in_domain e = true -> is_enabled M e = Ok (spec_enabled e)).
Proof.
  intro e. repeat split; try (intro H; exact (proj1 (good_parts M C09_model_good) e H)); vm_compute; reflexivity.
Qed.
Print Assumptions C09_enable_disable_roundtrip.

(* non-vacuity: a concrete in-domain history; the object decorated while disabled stays unchecked
   after enable_pedantic(), the one decorated while enabled stays checked after disable_pedantic() *)
Example C09_example :
  let h := [ODisable; ODecorate DPedantic; OEnable; OCall 0; ODecorate DTraceClass; ODisable; OCall 1; OCall 0] in
  forallb op_in_domain h = true /\ redeco_only_disabled Unset h = true /\
  snd (run_ops M (init_state Unset) h) =
    [ONone; ODeco true; ONone; OCalled Plain; ODeco false; ONone; OCalled Checked; OCalled Plain].
Proof. repeat split; vm_compute; reflexivity. Qed.

(* created while enabled, applied while disabled: the very object; created while disabled, applied while enabled: checked *)
Example C09_example_create_apply :
  let h := [OEnable; OCreate DForAllMethods; ODisable; OCreate DPedantic; OApply 0; OCall 0; OEnable; OApply 1; OApply 0;
            ODisable; OCall 1; OCall 2; OCall 0; OApply 7] in
  forallb op_in_domain h = true /\
  snd (run_ops M (init_state Unset) h) =
    [ONone; ONone; ONone; ONone; ODeco true; OCalled Plain; ONone; ODeco false; ODeco false;
     ONone; OCalled Checked; OCalled Checked; OCalled Plain; ONone].
Proof. split; vm_compute; reflexivity. Qed.

(* a function decorated while the switch is on; switch off; the SAME function (what was given / what came back) is
   decorated again: the very object both times, the first still plain, the second still checking.  A class decorated
   while on; switch off; a subclass is decorated: the very object, plain; the base class keeps checking.  The
   specification demands the same, except that it leaves open what the function given to the enabled decorator does. *)
Example C09_example_redecoration :
  let h := [ODecorate DPedantic; ODisable; ORedecorate (Direct DPedantic) 0 false; ORedecorate (Direct DPedanticReqDoc) 0 true;
            OCall 1; OCall 2; OEnable; ODecorate DPedanticClass; ODisable; OSubDecorate (Direct DTraceClass) 3; OCall 4;
            OCall 3; OCreate DForAllMethods; ORedecorate (Kept 0) 4 true; OCall 5; OEnable; ORedecorate (Direct DTimerClass) 4 true;
            OCall 4; OCall 5; OCall 3; ORedecorate (Direct DPedantic) 3 true; OSubDecorate (Direct DPedantic) 0] in
  forallb op_in_domain h = true /\ redeco_only_disabled Unset h = false /\
  snd (run_ops M (init_state Unset) h) =
    [ODeco false; ONone; ODeco true; ODeco true; OCalled Plain; OCalled Checked; ONone; ODeco false; ONone; ODeco true;
     OCalled Plain; OCalled Checked; ONone; ODeco true; OCalled Plain; ONone; ODeco false; OCalled Checked; OCalled Checked;
     OCalled Checked; ONone; ONone] /\
  snd (spec_run (init_sstate Unset) h) =
    [ODeco false; ONone; ODeco true; ODeco true; OUnspec; OCalled Checked; ONone; ODeco false; ONone; ODeco true;
     OCalled Plain; OCalled Checked; ONone; ODeco true; OCalled Plain; ONone; ODeco false; OUnspec; OUnspec;
     OCalled Checked; ONone; ONone].
Proof. repeat split; vm_compute; reflexivity. Qed.

(* the hypotheses of C09_redecoration_identity_iff_disabled / C09_subclass_decoration are satisfiable *)
Example C09_example_hypotheses :
  let s := fst (run_ops M (init_state Unset) [ODecorate DPedanticClass; OCreate DTimerClass; ODisable]) in
  in_domain (env s) = true /\ nth_error (objs s) 0 = Some {| o_fam := FCls; o_given := 0; o_res := 0 |} /\
  resolve M s (Kept 0) = Some (DTimerClass, env s) /\ resolve M s (Direct DTraceClass) = Some (DTraceClass, env s) /\
  fam DTimerClass = FCls /\ spec_enabled (env s) = false /\
  redeco_only_disabled (env s) [ORedecorate (Kept 0) 0 true; OEnable; OCall 0; ODisable; ORedecorate (Direct DTraceClass) 0 false] = true.
Proof. repeat split; vm_compute; reflexivity. Qed.

(* the hypotheses in_domain / op_in_domain are satisfiable by every value of the stated domain and by every operation
   that stays in it; other values are outside the statement (nothing is demanded of them here) *)
Example C09_domain :
  map in_domain [Unset; Val "0"; Val "1"; Val "true"; Val ""]%string = [true; true; true; false; false] /\
  map op_in_domain [OSetenv "0"; OSetenv "1"; OUnsetenv; OEnable; ODisable; ODecorate DForAllMethods; OCall 3; OCreate DTimerClass;
                    OApply 0; ORedecorate (Direct DPedantic) 0 true; OSubDecorate (Kept 1) 2; OSetenv "2"]%string
    = [true; true; true; true; true; true; true; true; true; true; true; false].
Proof. split; vm_compute; reflexivity. Qed.


(* ---- overlapping decorations (Model/EnvOverlap.v) -------------------------------------------------------------------
   A class decorator is at work for a while (guard first, then the namespace of the class is walked: descriptors are
   read, the method decorator handed to for_all_methods is called).  What runs in between - in the same thread or in
   another one - toggles the switch, decorates other objects, starts further class decorations.  xs = (s, st): st the
   stack of decorations in progress, each with the value of the variable its guard saw.                              *)

(* a decorator applied WHILE other decorations are in progress - whatever their guards saw -: the very object iff the
   variable is "0" now *)
Theorem C09_overlap_meanwhile_governed_by_switch_now : forall d s st, in_domain (env s) = true ->
  (snd (xstep M (s, st) (XOp (ODecorate d))) = ODeco true <-> env s = Val "0"%string) /\
  (snd (xstep M (s, st) (XOp (ODecorate d))) = ODeco false <-> (env s = Unset \/ env s = Val "1"%string)).
Proof.
  intros d s st Hd. rewrite (meanwhile_obs M C09_model_good (s, st) d Hd). cbn [fst].
  apply in_domain_cases in Hd. destruct Hd as [H|[H|[H|[]]]]; rewrite <- H;
    cbn [spec_enabled String.eqb Ascii.eqb Bool.eqb negb];
    (split; split; intros; try match goal with D : _ \/ _ |- _ => destruct D end; try discriminate; auto).
Qed.
Print Assumptions C09_overlap_meanwhile_governed_by_switch_now.

(* the decoration in progress, when it completes: the very object iff the variable was "0" when it was STARTED - whatever
   the variable is now, whatever was decorated meanwhile *)
Theorem C09_overlap_completion_governed_by_switch_at_start : forall s p st, in_domain (p_env p) = true ->
  (snd (xstep M (s, p :: st) XEnd) = ODeco true <-> p_env p = Val "0"%string) /\
  (snd (xstep M (s, p :: st) XEnd) = ODeco false <-> (p_env p = Unset \/ p_env p = Val "1"%string)).
Proof.
  intros s p st Hd. rewrite (end_obs M C09_model_good s p st Hd).
  apply in_domain_cases in Hd. destruct Hd as [H|[H|[H|[]]]]; rewrite <- H;
    cbn [spec_enabled String.eqb Ascii.eqb Bool.eqb negb];
    (split; split; intros; try match goal with D : _ \/ _ |- _ => destruct D end; try discriminate; auto).
Qed.
Print Assumptions C09_overlap_completion_governed_by_switch_at_start.

(* ALL finite histories with overlapping decorations, nested to any depth, from every in-domain start value: every
   decorator result is the one the statement demands (Spec/EnvOverlapSpec.v: the value of the variable at the moment the
   decorator is applied; for an overlapping decoration the moment it is started) *)
Theorem C09_overlap_history : forall e h, in_domain e = true -> forallb xop_in_domain h = true ->
  Forall2 deco_meets (snd (xrun M (init_state e, []) h)) (xdemand e [] h).
Proof.
  intros e h He Hh. apply (xrun_meets M C09_model_good h (init_state e, [])); [|exact Hh].
  split; [exact He|constructor].
Qed.
Print Assumptions C09_overlap_history.

(* non-vacuity: started enabled; meanwhile disable_pedantic() and @pedantic -> the very object; the switch is still
   off when the class decoration completes -> it checks all the same.  And the mirror image *)
Example C09_overlap_witness :
  let h1 := [XBegin DForAllMethods; XOp ODisable; XOp (ODecorate DPedantic); XEnd; XOp (OCall 0); XOp (OCall 1)] in
  let h2 := [XBegin DPedanticClass; XOp OEnable; XOp (ODecorate DPedantic); XNext; XOp (ODecorate DTraceClass); XEnd;
             XOp (OCall 0); XOp (OCall 2)] in
  snd (xrun M (init_state Unset, []) h1) = [ONone; ONone; ODeco true; ODeco false; OCalled Plain; OCalled Checked] /\
  xdemand Unset [] h1 = [None; None; Some true; Some false; None; None] /\
  snd (xrun M (init_state (Val "0"), []) h2) = [ONone; ONone; ODeco false; ONone; ODeco false; ODeco true; OCalled Checked; OCalled Plain] /\
  xdemand (Val "0") [] h2 = [None; None; Some false; None; Some false; Some true; None; None].
Proof. repeat split; vm_compute; reflexivity. Qed.
