(* C07 - TypeVars bind consistently within a call and per generic instance, never across.
   Property theorems only.  `cfg` = Gen.CheckerTables.checker_cfg is regenerated from
   pedantic/type_checking_logic/check_types.py on every run; Model/Checker.v interprets it,
   Model/GenericInstance.v models how a call obtains its TypeVar table (plain call / non-generic
   @pedantic_class / generic @pedantic_class), Spec/TypeVarSpec.v is the reading of the property text.

   Per call (plain functions, methods of undecorated classes):
     C07_call_decomposition, C07_same_class_ok(_conforms), C07_unrelated_rejected, C07_unrelated_mismatch,
     C07_constraints, C07_bound, C07_accepted_classes_form_a_chain
   Per instance Cls[X] and histories:
     C07_instance_iff (any history before and after the creation), C07_instance_position_conforms,
     C07_instance_position_denotation, C07_no_leak_plain, C07_no_leak_plain_method, C07_instances_independent
   Open findings mirrored here (the full statements stay visible in the comments):
     C07_same_call_refuted_nongeneric_pedantic_class / C07_nongeneric_pedantic_class_positionwise   (K5b)
     C07_no_leak_refuted_method_level_typevar / C07_instance_iff is the partial form                 (K5c)   *)
From Coq Require Import List Arith Bool ZArith Lia.
From PV Require Import Base.Exn Base.Values Base.Ann Model.CheckerCfg Model.Checker Model.GenericInstance
  Model.TypeVarShapeCfg Spec.Conforms Spec.TypeVarSpec Gen.CheckerTables Gen.TypeVarShape
  Proofs.CheckerGood Proofs.CheckerRefine Proofs.CheckerSpec Proofs.CheckerTop
  Proofs.TypeVarFrame Proofs.TypeVarTC Proofs.TypeVarCall Proofs.TypeVarHistory Proofs.TypeVarSpecLink Proofs.TypeVarUnion Proofs.TypeVarInst Proofs.TypeVarSpecInst.
Import ListNotations.

Definition cfg := Gen.CheckerTables.checker_cfg.

(* translation obligation: the regenerated configuration is one the proofs accept *)
Theorem C07_generated_config_good :
  cfg_good cfg = true /\ un_bound_uses_result cfg = true /\ mismatch_handled cfg = true.
Proof. vm_compute. auto. Qed.
Print Assumptions C07_generated_config_good.

(* translation obligation: the TypeVar branch of _is_instance, _matches_bound_type, FunctionCall's table
   of a call and the instance table of @pedantic_class have the shape the models were written for
   (translator/t_typevar.py, fail-closed; Model/TypeVarShapeCfg.v) *)
Theorem C07_shape_is_modelled : shape_modelled Gen.TypeVarShape.tv_shape_gen = true.
Proof. vm_compute. reflexivity. Qed.
Print Assumptions C07_shape_is_modelled.

Lemma good : good_facts cfg.
Proof. apply cfg_good_facts. exact (proj1 C07_generated_config_good). Qed.
Lemma Hub : un_bound_uses_result cfg = true.
Proof. exact (proj1 (proj2 C07_generated_config_good)). Qed.
Lemma Hmh : mismatch_handled cfg = true.
Proof. exact (proj2 (proj2 C07_generated_config_good)). Qed.

Definition hook0 ctx := is_inst0 cfg ctx.
(* a plain call: one fresh table for all parameters and the result *)
Definition call ctx := plain_call cfg ctx.
(* positions (parameters, then the result) and the values matched against TypeVars, in checking order *)
Definition positions (sg : msig) := sig_positions sg.
Definition matches (sg : msig) (args : list value) (ret : value) : list mpos := traces (positions sg) (args ++ [ret]).
(* the TypeVar-free part of every position accepts its value *)
Definition structure_ok ctx (sg : msig) (args : list value) (ret : value) : Prop :=
  all_struct cfg ctx (hook0 ctx) (positions sg) (args ++ [ret]).

(* ===================================== within one call ============================================= *)

(* a call is accepted iff its TypeVar-free structure is accepted and the TypeVar checks at the matched
   positions (nested to any depth) succeed one after the other on one table *)
Theorem C07_call_decomposition : forall ctx sg args ret, well_formed_call sg args ->
  call ctx sg args ret = Ok tt <->
  (structure_ok ctx sg args ret /\ exists tv', run_tc (hook0 ctx) (matches sg args ret) [] = (Ok true, tv')).
Proof. intros. now apply plain_call_accepted_iff; [exact good|exact Hub|]. Qed.
Print Assumptions C07_call_decomposition.

(* values of one identical runtime class per TypeVar (P i = that class), constraints and bounds
   respected: accepted.  All signatures of the vocabulary, all argument tuples. *)
Theorem C07_same_class_ok : forall ctx sg args ret P, well_formed_call sg args ->
  structure_ok ctx sg args ret -> homogeneous P (matches sg args ret) ->
  call ctx sg args ret = Ok tt.
Proof. intros ctx sg args ret P. exact (same_class_ok cfg good Hub ctx sg args ret P). Qed.
Print Assumptions C07_same_class_ok.

(* the structural premise follows from the specification of C01/C02 *)
Theorem C07_structure_from_conforms : forall ctx a v,
  supported ctx (erase a) = true -> conforms ctx (erase a) v = Must -> pos_struct cfg ctx (hook0 ctx) a v.
Proof.
  intros ctx a v Hs Hc. unfold pos_struct.
  rewrite (check_type_pure cfg good ctx (hook0 ctx) (erase a) Hs v []). cbn [fst].
  destruct (chk_agrees_top cfg good ctx (erase a) Hs v) as [Hm _]. now rewrite (Hm Hc).
Qed.
Print Assumptions C07_structure_from_conforms.

(* two values of unrelated classes matched against the same TypeVar: the call is never accepted *)
Theorem C07_unrelated_rejected : forall ctx sg args ret p q, well_formed_call sg args ->
  In p (matches sg args ret) -> In q (matches sg args ret) ->
  same_tvar (tv_id (mp_tv p)) (mp_tv p) (matches sg args ret) -> mp_tv q = mp_tv p ->
  related (class_of (mp_val p)) (class_of (mp_val q)) = false ->
  call ctx sg args ret <> Ok tt.
Proof. intros ctx sg args ret p q. exact (unrelated_rejected cfg good Hub ctx sg args ret p q). Qed.
Print Assumptions C07_unrelated_rejected.

(* ... and it is rejected with PedanticTypeVarMismatchException where nothing else is wrong
   (structure accepted, constraints / bounds hold, no position under a Union: inside a Union a failed
   TypeVar member means "no member matches", i.e. PedanticTypeCheckException) *)
Theorem C07_unrelated_mismatch : forall ctx sg args ret p q, well_formed_call sg args ->
  structure_ok ctx sg args ret ->
  (forall r, In r (matches sg args ret) -> mp_union r = false /\ tv_admits (mp_tv r) (mp_val r) = true) ->
  In p (matches sg args ret) -> In q (matches sg args ret) ->
  same_tvar (tv_id (mp_tv p)) (mp_tv p) (matches sg args ret) -> mp_tv q = mp_tv p ->
  related (class_of (mp_val p)) (class_of (mp_val q)) = false ->
  exists e, call ctx sg args ret = Raise e /\ derives e PTypeVarMismatchC = true.
Proof.
  intros ctx sg args ret p q Hw Hs Hall Hp Hq Hsame Hpq Hun.
  apply (rejection_is_mismatch cfg good Hub ctx sg args ret Hmh Hw Hs Hall).
  exact (unrelated_rejected cfg good Hub ctx sg args ret p q Hw Hp Hq Hsame Hpq Hun).
Qed.
Print Assumptions C07_unrelated_mismatch.

(* what IS accepted besides identical classes: exactly the chains (each class a subclass of the
   previous one; superclass for contravariant TypeVars) - the "subclass-related: unspecified" region *)
Theorem C07_accepted_classes_form_a_chain : forall ctx sg args ret i t, well_formed_call sg args ->
  call ctx sg args ret = Ok tt -> same_tvar i t (matches sg args ret) ->
  chain (tv_contravariant t) None (map (fun p => class_of (mp_val p)) (mine i (matches sg args ret))) = true.
Proof.
  intros ctx sg args ret i t Hw Hacc Hsame.
  apply (plain_call_accepted_iff cfg good Hub ctx sg args ret Hw) in Hacc as [_ [tv' Hr]].
  exact (proj1 (accepted_is_chain (hook0 ctx) i t _ [] tv' (cls_env_nil) Hsame Hr)).
Qed.
Print Assumptions C07_accepted_classes_form_a_chain.

(* constraints: the exact class of every accepted value is one of the constraints *)
Theorem C07_constraints : forall ctx sg args ret p, well_formed_call sg args ->
  call ctx sg args ret = Ok tt -> In p (matches sg args ret) -> tv_constraints (mp_tv p) <> [] ->
  existsb (cls_eqb (class_of (mp_val p))) (tv_constraints (mp_tv p)) = true.
Proof.
  intros ctx sg args ret p Hw Hacc Hp Hne.
  pose proof (accepted_admitted cfg good Hub ctx sg args ret Hw Hacc p Hp) as Ha.
  unfold tv_admits in Ha. apply andb_true_iff in Ha as [Ha _].
  destruct (tv_constraints (mp_tv p)); [now elim Hne|exact Ha].
Qed.
Print Assumptions C07_constraints.

(* bound: every accepted value is an instance of the bound *)
Theorem C07_bound : forall ctx sg args ret p b, well_formed_call sg args ->
  call ctx sg args ret = Ok tt -> In p (matches sg args ret) -> tv_bound (mp_tv p) = Some b ->
  isinstance (mp_val p) b = true.
Proof.
  intros ctx sg args ret p b Hw Hacc Hp Hb.
  pose proof (accepted_admitted cfg good Hub ctx sg args ret Hw Hacc p Hp) as Ha.
  unfold tv_admits in Ha. apply andb_true_iff in Ha as [_ Ha]. now rewrite Hb in Ha.
Qed.
Print Assumptions C07_bound.

(* Optional[...] / Union[...] of plain classes around one other alternative g (Optional[List[T]],
   Union[Dict[str, T], int]): when no plain class takes the value the Union does exactly what g does - same
   verdict, same exception, and the bindings g makes stay in the table of the call (so a later unrelated
   value for the same TypeVar is rejected by the theorems above).  This is the part of the wider oracle
   vocabulary tv_vocab_x that is proved; the remaining cases of that shape (a plain class also takes the
   value, or g rejects the value structurally after some TypeVar checks) have no oracle (union_clear). *)
Theorem C07_union_generic_member : forall ctx hook sp pre g post v tv,
  is_typevar g = false -> plain_none v pre -> plain_none v post ->
  is_inst cfg ctx hook (AUnion sp (pre ++ g :: post)) v tv = is_inst cfg ctx hook g v tv.
Proof. intros ctx hook. exact (union_generic_member cfg good ctx hook). Qed.
Print Assumptions C07_union_generic_member.

Theorem C07_union_generic_member_matches : forall ctx hook sp pre g post v tv,
  is_typevar g = false -> tv_vocab g = true -> plain_none v pre -> plain_none v post ->
  EI cfg ctx hook g v = Ok true ->
  is_inst cfg ctx hook (AUnion sp (pre ++ g :: post)) v tv = run_tc hook (matched false g v) tv.
Proof. intros ctx hook. exact (union_generic_member_run cfg good Hub ctx hook). Qed.
Print Assumptions C07_union_generic_member_matches.

(* ---- against the executable specification the harness evaluates (Spec/TypeVarSpec.v) -----------------
   positions whose TypeVar-free part is in the vocabulary of C01/C02; one TypeVar object per id *)
Theorem C07_spec_must_accepted : forall ctx sg args ret, well_formed_call sg args -> erased_supported ctx sg ->
  tvars_by_id (ms_of sg args ret) ->
  call_spec ctx xenv_none (sig_positions sg) (args ++ [ret]) = Must -> call ctx sg args ret = Ok tt.
Proof. intros ctx sg args ret. exact (spec_must_accepted cfg good Hub ctx sg args ret). Qed.
Print Assumptions C07_spec_must_accepted.

Theorem C07_spec_mustnot_rejected : forall ctx sg args ret, well_formed_call sg args -> erased_supported ctx sg ->
  tvars_by_id (ms_of sg args ret) ->
  call_spec ctx xenv_none (sig_positions sg) (args ++ [ret]) = MustNot -> call ctx sg args ret <> Ok tt.
Proof. intros ctx sg args ret. exact (spec_mustnot_rejected cfg good Hub ctx sg args ret). Qed.
Print Assumptions C07_spec_mustnot_rejected.

Theorem C07_spec_mismatch_kind : forall ctx sg args ret, well_formed_call sg args -> erased_supported ctx sg ->
  tvars_by_id (ms_of sg args ret) ->
  must_be_mismatch ctx xenv_none (sig_positions sg) (args ++ [ret]) = true ->
  exists e, call ctx sg args ret = Raise e /\ derives e PTypeVarMismatchC = true.
Proof. intros ctx sg args ret. exact (spec_mismatch_kind cfg good Hub Hmh ctx sg args ret). Qed.
Print Assumptions C07_spec_mismatch_kind.

(* ===================================== instances Cls[X] and histories ================================= *)

(* For ALL histories h1, h2 (calls on this and on other instances, creations, plain calls):
   a call on the instance created as Cls[xs](...) yields `call_outcome` - a function of the call and of
   xs alone (position by position: Definition position_outcome).  Guard (the narrowest the model
   admits, see C07_no_leak_refuted_method_level_typevar): every TypeVar of the method is a type parameter
   of the class and occurs as a whole-position annotation; the other positions are TypeVar-free.
   Full statement without the guard ("every method call ... accepts ... iff it conforms to X;
   bindings never influence a later call"): false, K5c. *)
Theorem C07_instance_iff : forall ctx w h1 h2 slot c xs iargs cd ids m sg args ret,
  nth_error (w_classes w) c = Some cd -> cd_kind cd = KGeneric ids ->
  nth_error (cd_methods cd) m = Some sg ->
  well_formed_inst ids xs -> inst_method ids sg = true ->
  fst (run_step cfg ctx w (snd (run_from cfg ctx w [] h1)) (SNew slot c xs iargs)) = ROk ->
  forallb (fun s => negb (is_new_on slot s)) h2 = true ->
  last (run_history cfg ctx w (h1 ++ SNew slot c xs iargs :: h2 ++ [SCall slot m args ret])) RAbsent
  = to_sres (call_outcome cfg ctx ids xs sg args ret).
Proof. intros ctx w. exact (instance_call_any_history cfg ctx w). Qed.
Print Assumptions C07_instance_iff.

(* ... and the T-annotated position accepts v iff the checker accepts v for X: Must => accepted,
   MustNot => PedanticTypeVarMismatchException (X in the vocabulary of C01/C02, T unconstrained) *)
Theorem C07_instance_position_conforms : forall ctx t x v, plain_tv t = true -> supported_in ctx x = true ->
  (conforms ctx x v = Must -> fst (amatch cfg ctx (ATypeVar t) v [(tv_id t, bind_of x)]) = Ok tt) /\
  (conforms ctx x v = MustNot -> exists e, fst (amatch cfg ctx (ATypeVar t) v [(tv_id t, bind_of x)]) = Raise e
                                           /\ derives e PTypeVarMismatchC = true).
Proof. intros ctx t x v. exact (position_conforms cfg good Hmh ctx t x v). Qed.
Print Assumptions C07_instance_position_conforms.

Theorem C07_instance_position_denotation : forall ctx t x v, plain_tv t = true -> supported_in ctx x = true ->
  exists e, derives e PTypeVarMismatchC = true /\
  fst (amatch cfg ctx (ATypeVar t) v [(tv_id t, bind_of x)]) = if chk cfg ctx x v then Ok tt else Raise e.
Proof. intros ctx t x v. exact (position_denotation cfg good Hmh ctx t x v). Qed.
Print Assumptions C07_instance_position_denotation.

(* ---- NESTED positions of the class's type variables (List[T], Dict[str, T], Optional[T], Tuple[T, T] ... to any
   depth; constrained / bound class TypeVars included).  Guard nested_method: every position is in tv_vocab and
   mentions only type parameters of the class (no method-level TypeVar: K5c). *)

(* for ALL histories: the call is accepted iff it is accepted on a freshly created instance of Cls[xs] *)
Theorem C07_instance_nested_iff : forall ctx w h1 h2 slot c xs iargs cd ids m sg args ret,
  nth_error (w_classes w) c = Some cd -> cd_kind cd = KGeneric ids ->
  nth_error (cd_methods cd) m = Some sg ->
  well_formed_inst ids xs -> nested_method ids sg = true ->
  fst (run_step cfg ctx w (snd (run_from cfg ctx w [] h1)) (SNew slot c xs iargs)) = ROk ->
  forallb (fun s => negb (is_new_on slot s)) h2 = true ->
  (last (run_history cfg ctx w (h1 ++ SNew slot c xs iargs :: h2 ++ [SCall slot m args ret])) RAbsent = ROk
   <-> fst (run_call cfg ctx (refresh_of (KGeneric ids) (Some xs)) sg args ret []) = Ok tt).
Proof. intros ctx w. exact (instance_nested_any_history cfg good Hub ctx w). Qed.
Print Assumptions C07_instance_nested_iff.

(* one position, any two stored tables: same acceptance; same outcome (exception class included) when the
   TypeVar-free structure of the position accepts the value *)
Theorem C07_instance_nested_position_indep : forall ctx ids xs a v tb1 tb2, well_formed_inst ids xs -> nested_ok ids a = true ->
  (fst (amatch cfg ctx a v (refresh_of (KGeneric ids) (Some xs) tb1)) = Ok tt ->
   fst (amatch cfg ctx a v (refresh_of (KGeneric ids) (Some xs) tb2)) = Ok tt)
  /\ (pos_struct cfg ctx (hook0 ctx) a v ->
      fst (amatch cfg ctx a v (refresh_of (KGeneric ids) (Some xs) tb1)) = fst (amatch cfg ctx a v (refresh_of (KGeneric ids) (Some xs) tb2))).
Proof. intros ctx ids xs a v tb1 tb2. exact (inst_position_indep cfg good Hub ctx ids xs a v tb1 tb2). Qed.
Print Assumptions C07_instance_nested_position_indep.

(* X a plain class c: whatever an accepted position matched against T (at any depth) is an instance of c,
   i.e. conforms to X.  (Guard "X is a plain class" = the negation of the K5d matcher.) *)
Theorem C07_instance_nested_sound : forall ctx ids xs a v tb i c, well_formed_inst ids xs -> nested_ok ids a = true ->
  fst (amatch cfg ctx a v (refresh_of (KGeneric ids) (Some xs) tb)) = Ok tt -> x_of ids xs i = Some (ACls c) ->
  (forall p, In p (matched true a v) -> tv_id (mp_tv p) = i -> tv_contravariant (mp_tv p) = false) ->
  forall p, In p (matched true a v) -> tv_id (mp_tv p) = i -> conforms ctx (ACls c) (mp_val p) = Must.
Proof.
  intros ctx ids xs a v tb i c Hw Hn Hacc Hx Hcov p Hp Hi. cbn [conforms].
  now rewrite (inst_position_sound cfg good Hub ctx ids xs a v tb i c Hw Hn Hacc Hx Hcov p Hp Hi).
Qed.
Print Assumptions C07_instance_nested_sound.

(* every matched value conforms to its X (vocabulary of C01/C02), identical classes per TypeVar, constraints / bounds
   of T respected, structure accepted: accepted - for every stored table, hence after every history *)
Theorem C07_instance_nested_complete : forall ctx ids xs a v tb (P : nat -> cls), well_formed_inst ids xs -> nested_ok ids a = true ->
  pos_struct cfg ctx (hook0 ctx) a v ->
  (forall p, In p (matched true a v) ->
     tv_admits (mp_tv p) (mp_val p) = true /\ tv_contravariant (mp_tv p) = false /\ class_of (mp_val p) = P (tv_id (mp_tv p))
     /\ forall x, x_of ids xs (tv_id (mp_tv p)) = Some x -> supported_in ctx x = true /\ conforms ctx x (mp_val p) = Must) ->
  fst (amatch cfg ctx a v (refresh_of (KGeneric ids) (Some xs) tb)) = Ok tt.
Proof.
  intros ctx ids xs a v tb P Hw Hn Hst Hall.
  apply (inst_position_complete cfg good Hub ctx ids xs a v tb P Hw Hn Hst).
  intros p Hp. destruct (Hall p Hp) as [Ha [Hc [Hcl Hx]]]. repeat split; try assumption.
  intros x Ex. destruct (Hx x Ex) as [Hs Hm]. unfold x_accepts.
  destruct (chk_agrees cfg good ctx x Hs (mp_val p)) as [Ht _]. specialize (Ht Hm).
  destruct x; try discriminate Hs;
    try (cbn [bind_of]; unfold is_inst0; rewrite (is_inst_refines cfg good ctx no_hook _ Hs (mp_val p) []); cbn [fst]; now rewrite Ht).
  cbn [bind_of]. exact Ht.
Qed.
Print Assumptions C07_instance_nested_complete.

(* ---- whole calls on Cls[xs] against the executable specification call_spec ctx (xenv_of ids xs), for ALL histories
   h1 before and h2 after the creation.  Guards: nested_method (every TypeVar of the method is a type parameter of
   the class: K5c), positions whose TypeVar-free part is in the vocabulary of C01/C02, one TypeVar object per id,
   covariant class TypeVars, xs in the vocabulary of C01/C02; for MustNot additionally every X a plain class
   (K5d: C07_instance_nested_refuted_annotation_argument is the witness that this guard is needed). *)
Theorem C07_spec_instance_must_accepted : forall ctx w h1 h2 slot c xs iargs cd ids m sg args ret,
  nth_error (w_classes w) c = Some cd -> cd_kind cd = KGeneric ids -> nth_error (cd_methods cd) m = Some sg ->
  well_formed_inst ids xs -> nested_method ids sg = true -> List.length (ms_params sg) = List.length args ->
  erased_supported ctx sg -> tvars_by_id (ms_of sg args ret) ->
  (forall p, In p (ms_of sg args ret) -> tv_contravariant (mp_tv p) = false) ->
  forallb (supported_in ctx) xs = true ->
  fst (run_step cfg ctx w (snd (run_from cfg ctx w [] h1)) (SNew slot c xs iargs)) = ROk ->
  forallb (fun s => negb (is_new_on slot s)) h2 = true ->
  call_spec ctx (xenv_of ids xs) (sig_positions sg) (args ++ [ret]) = Must ->
  last (run_history cfg ctx w (h1 ++ SNew slot c xs iargs :: h2 ++ [SCall slot m args ret])) RAbsent = ROk.
Proof.
  intros ctx w h1 h2 slot c xs iargs cd ids m sg args ret Hc Hk Hm Hw Hn Hl Hsup Hid Hcov Hxs Hnew Hh2 Hspec.
  destruct (instance_last_step cfg ctx w h1 h2 slot c xs iargs cd ids m sg args ret Hc Hk Hm Hnew Hh2) as [tb ->].
  assert (Ha : fst (run_call cfg ctx (refresh_of (KGeneric ids) (Some xs)) sg args ret tb) = Ok tt)
    by (apply (spec_instance_must_accepted cfg good Hub ctx ids xs sg args ret); assumption).
  now rewrite Ha.
Qed.
Print Assumptions C07_spec_instance_must_accepted.

Theorem C07_spec_instance_mustnot_rejected : forall ctx w h1 h2 slot c xs iargs cd ids m sg args ret,
  nth_error (w_classes w) c = Some cd -> cd_kind cd = KGeneric ids -> nth_error (cd_methods cd) m = Some sg ->
  well_formed_inst ids xs -> nested_method ids sg = true -> List.length (ms_params sg) = List.length args ->
  erased_supported ctx sg -> tvars_by_id (ms_of sg args ret) ->
  (forall p, In p (ms_of sg args ret) -> tv_contravariant (mp_tv p) = false) ->
  (forall x, In x xs -> exists k, x = ACls k) ->
  fst (run_step cfg ctx w (snd (run_from cfg ctx w [] h1)) (SNew slot c xs iargs)) = ROk ->
  forallb (fun s => negb (is_new_on slot s)) h2 = true ->
  call_spec ctx (xenv_of ids xs) (sig_positions sg) (args ++ [ret]) = MustNot ->
  last (run_history cfg ctx w (h1 ++ SNew slot c xs iargs :: h2 ++ [SCall slot m args ret])) RAbsent <> ROk.
Proof.
  intros ctx w h1 h2 slot c xs iargs cd ids m sg args ret Hc Hk Hm Hw Hn Hl Hsup Hid Hcov Hcls Hnew Hh2 Hspec.
  destruct (instance_last_step cfg ctx w h1 h2 slot c xs iargs cd ids m sg args ret Hc Hk Hm Hnew Hh2) as [tb ->].
  intro H. apply (spec_instance_mustnot_rejected cfg good Hub ctx ids xs sg args ret) with (tb := tb); try assumption.
  destruct (fst (run_call cfg ctx (refresh_of (KGeneric ids) (Some xs)) sg args ret tb)) as [[]|e]; [reflexivity|discriminate H].
Qed.
Print Assumptions C07_spec_instance_mustnot_rejected.

(* plain functions: the verdict after any history is the verdict of the call alone *)
Theorem C07_no_leak_plain : forall ctx w h f args ret,
  last (run_history cfg ctx w (h ++ [SFun f args ret])) RAbsent = last (run_history cfg ctx w [SFun f args ret]) RAbsent.
Proof. intros ctx w. exact (no_leak_fun cfg ctx w). Qed.
Print Assumptions C07_no_leak_plain.

(* methods of an undecorated class decorated one by one: in every state, the verdict of the call alone *)
Theorem C07_no_leak_plain_method : forall ctx w st slot i cd m sg args ret,
  st_get st slot = Some i -> nth_error (w_classes w) (i_cls i) = Some cd -> cd_kind cd = KPlain ->
  nth_error (cd_methods cd) m = Some sg ->
  fst (run_step cfg ctx w st (SCall slot m args ret)) = to_sres (call ctx sg args ret).
Proof. intros ctx w. exact (no_leak_plain_method cfg ctx w). Qed.
Print Assumptions C07_no_leak_plain_method.

(* the outcomes of the steps on one instance are those of the sub-history addressing it *)
Theorem C07_instances_independent : forall ctx w slot h,
  outcomes_on slot h (run_history cfg ctx w h) = run_history cfg ctx w (filter (touches slot) h).
Proof. intros ctx w slot h. exact (instances_independent cfg ctx w slot h [] [] eq_refl). Qed.
Print Assumptions C07_instances_independent.

(* ===================================== open findings ================================================ *)
Definition no_ctx : nat -> option cls := fun _ => None.
Definition tvS : tvar := {| tv_id := 10; tv_constraints := []; tv_bound := None; tv_contravariant := false |}.
Definition two_sig : msig := {| ms_params := [ATypeVar tvS; ATypeVar tvS]; ms_ret := ANone |}.

(* K5b.  Full statement: "values of unrelated classes [matched against one TypeVar within one call]
   raise PedanticTypeVarMismatchException" - false for methods of a NON-generic @pedantic_class:
   m(a=1, b='b') with a: T, b: T is accepted although the specification demands the mismatch. *)
Definition w_k5b : world :=
  {| w_classes := [{| cd_kind := KPedantic; cd_tparams := []; cd_init := None; cd_methods := [two_sig] |}]; w_funs := [] |}.
Theorem C07_same_call_refuted_nongeneric_pedantic_class :
  exists w h, run_history cfg no_ctx w h = [ROk; ROk] /\
              call_spec no_ctx xenv_none (sig_positions two_sig) [VInt 1; VStr [98]; VNone] = MustNot /\
              must_be_mismatch no_ctx xenv_none (sig_positions two_sig) [VInt 1; VStr [98]; VNone] = true /\
              h = [SNew 0 0 [] []; SCall 0 0 [VInt 1; VStr [98]] VNone].
Proof. exists w_k5b. eexists. repeat split; vm_compute; reflexivity. Qed.
Print Assumptions C07_same_call_refuted_nongeneric_pedantic_class.

(* partial form: on such an instance every position is checked on a fresh table, i.e. consistency
   holds inside one position (Tuple[T, T], List[T] ...) and nowhere else *)
Theorem C07_nongeneric_pedantic_class_positionwise : forall ctx ps vs tb,
  fst (check_seq cfg ctx (refresh_of KPedantic None) ps vs tb) =
  fst (check_seq cfg ctx (refresh_of KPedantic None) ps vs []).
Proof.
  intros ctx ps. destruct ps as [|a ps]; intros [|v vs] tb; reflexivity.
Qed.
Print Assumptions C07_nongeneric_pedantic_class_positionwise.

(* partial form of the per-call rule for methods: it holds for methods of classes that are not
   @pedantic_class-decorated (guard: cd_kind = KPlain, the negation of the K5b matcher on the model side) *)
Theorem C07_same_call_partial : forall ctx w st slot i cd m sg args ret p q,
  st_get st slot = Some i -> nth_error (w_classes w) (i_cls i) = Some cd -> cd_kind cd = KPlain ->
  nth_error (cd_methods cd) m = Some sg -> well_formed_call sg args ->
  In p (matches sg args ret) -> In q (matches sg args ret) ->
  same_tvar (tv_id (mp_tv p)) (mp_tv p) (matches sg args ret) -> mp_tv q = mp_tv p ->
  related (class_of (mp_val p)) (class_of (mp_val q)) = false ->
  fst (run_step cfg ctx w st (SCall slot m args ret)) <> ROk.
Proof.
  intros ctx w st slot i cd m sg args ret p q Hg Hc Hk Hm Hw Hp Hq Hs Hpq Hun.
  rewrite (C07_no_leak_plain_method ctx w st slot i cd m sg args ret Hg Hc Hk Hm).
  pose proof (C07_unrelated_rejected ctx sg args ret p q Hw Hp Hq Hs Hpq Hun) as Hr.
  destruct (call ctx sg args ret) as [[]|e]; [now elim Hr|discriminate].
Qed.
Print Assumptions C07_same_call_partial.

(* K5c.  Full statement: "bindings made during one call never influence a later call of a ... method"
   - false on instances of generic classes for a TypeVar that is not a type parameter of the class:
   two(a='x', b='y') then two(a=1, b=2) raises, although the second call alone is accepted. *)
Definition w_k5c : world :=
  {| w_classes := [{| cd_kind := KGeneric [0]; cd_tparams := [0]; cd_init := None; cd_methods := [two_sig] |}]; w_funs := [] |}.
Theorem C07_no_leak_refuted_method_level_typevar :
  exists w create earlier c,
    last (run_history cfg no_ctx w (create ++ [c])) RAbsent = ROk /\
    last (run_history cfg no_ctx w (create ++ earlier ++ [c])) RAbsent = RExn PTypeVarMismatchC /\
    call_spec no_ctx (xenv_of [0] [ACls CInt]) (sig_positions two_sig) [VInt 1; VInt 2; VNone] = Must.
Proof.
  exists w_k5c, [SNew 0 0 [ACls CInt] []], [SCall 0 0 [VStr [120]; VStr [121]] VNone], (SCall 0 0 [VInt 1; VInt 2] VNone).
  repeat split; vm_compute; reflexivity.
Qed.
Print Assumptions C07_no_leak_refuted_method_level_typevar.

(* K5d.  Full statement: "every method call ... accepts a value for a T-annotated parameter iff it conforms to X",
   nested positions included - false when X is not a plain class: on Cls[List[int]] the position a: Tuple[T, T]
   accepts ([1], ['x']); only the first matched value is checked against X, then the binding is its runtime class.
   Partial forms: C07_instance_nested_sound (X a plain class), C07_instance_nested_complete, C07_instance_nested_iff. *)
Definition tv0 : tvar := {| tv_id := 0; tv_constraints := []; tv_bound := None; tv_contravariant := false |}.
Definition pair_sig : msig := {| ms_params := [AGeneric SpTyping TTuple [ATypeVar tv0; ATypeVar tv0]]; ms_ret := ANone |}.
Definition w_k5d : world :=
  {| w_classes := [{| cd_kind := KGeneric [0]; cd_tparams := [0]; cd_init := None; cd_methods := [pair_sig] |}]; w_funs := [] |}.
Theorem C07_instance_nested_refuted_annotation_argument :
  exists w h x v,
    run_history cfg no_ctx w h = [ROk; ROk] /\
    h = [SNew 0 0 [x] []; SCall 0 0 [v] VNone] /\
    x = AGeneric SpTyping TList [ACls CInt] /\ v = VTuple [VList [VInt 1]; VList [VStr [120]]] /\
    call_spec no_ctx (xenv_of [0] [x]) (sig_positions pair_sig) [v; VNone] = MustNot.
Proof.
  exists w_k5d. eexists. exists (AGeneric SpTyping TList [ACls CInt]), (VTuple [VList [VInt 1]; VList [VStr [120]]]).
  repeat split; vm_compute; reflexivity.
Qed.
Print Assumptions C07_instance_nested_refuted_annotation_argument.

(* partial form of "no leak" on generic instances (guard inst_method: every TypeVar of the method is a type
   parameter of the class - the negation of the K5c matcher): whatever happened between the creation and
   the call, and whatever happened before the creation, the outcome is the same *)
Theorem C07_no_leak_partial : forall ctx w h1 h1' h2 h2' slot c xs iargs iargs' cd ids m sg args ret,
  nth_error (w_classes w) c = Some cd -> cd_kind cd = KGeneric ids ->
  nth_error (cd_methods cd) m = Some sg ->
  well_formed_inst ids xs -> inst_method ids sg = true ->
  fst (run_step cfg ctx w (snd (run_from cfg ctx w [] h1)) (SNew slot c xs iargs)) = ROk ->
  fst (run_step cfg ctx w (snd (run_from cfg ctx w [] h1')) (SNew slot c xs iargs')) = ROk ->
  forallb (fun s => negb (is_new_on slot s)) h2 = true -> forallb (fun s => negb (is_new_on slot s)) h2' = true ->
  last (run_history cfg ctx w (h1 ++ SNew slot c xs iargs :: h2 ++ [SCall slot m args ret])) RAbsent
  = last (run_history cfg ctx w (h1' ++ SNew slot c xs iargs' :: h2' ++ [SCall slot m args ret])) RAbsent.
Proof.
  intros ctx w h1 h1' h2 h2' slot c xs iargs iargs' cd ids m sg args ret Hc Hk Hm Hw Him Hn Hn' Hh Hh'.
  rewrite (C07_instance_iff ctx w h1 h2 slot c xs iargs cd ids m sg args ret Hc Hk Hm Hw Him Hn Hh).
  now rewrite (C07_instance_iff ctx w h1' h2' slot c xs iargs' cd ids m sg args ret Hc Hk Hm Hw Him Hn' Hh').
Qed.
Print Assumptions C07_no_leak_partial.

(* ===================================== the hypotheses are satisfiable =============================== *)
Definition tvT : tvar := {| tv_id := 11; tv_constraints := [CInt; CStr]; tv_bound := None; tv_contravariant := false |}.
(* def f(a: T, b: List[T], c: Dict[str, S]) -> Optional[T] *)
Definition ex_sig : msig :=
  {| ms_params := [ATypeVar tvT; AGeneric SpTyping TList [ATypeVar tvT]; AGeneric SpBuiltin TDict [ACls CStr; ATypeVar tvS]];
     ms_ret := AUnion UTyping [ATypeVar tvT; ACls CNoneType] |}.
Definition ex_args : list value := [VInt 1; VList [VInt 2; VInt 3]; VDict [(VStr [97], VFloat 3)]].

Example ex_well_formed : well_formed_call ex_sig ex_args.
Proof. split; reflexivity. Qed.
Example ex_structure : structure_ok no_ctx ex_sig ex_args (VInt 4).
Proof. vm_compute. auto. Qed.
Example ex_homogeneous : homogeneous (fun i => if Nat.eqb i 11 then CInt else CFloat) (matches ex_sig ex_args (VInt 4)).
Proof. intros p Hp. vm_compute in Hp. repeat (destruct Hp as [<-|Hp]; [split; reflexivity|]). destruct Hp. Qed.
Example ex_accepted : call no_ctx ex_sig ex_args (VInt 4) = Ok tt.
Proof. exact (C07_same_class_ok no_ctx ex_sig ex_args (VInt 4) _ ex_well_formed ex_structure ex_homogeneous). Qed.
Example ex_mismatch : exists e, call no_ctx ex_sig [VInt 1; VList [VInt 2; VStr [120]]; VDict []] VNone = Raise e
                                /\ derives e PTypeVarMismatchC = true.
Proof. vm_compute. eauto. Qed.
(* def optional_nested(a: Optional[List[T]], b: T): a=[1], b='x' *)
Example ex_optional_nested :
  call_spec no_ctx xenv_none [AUnion UTyping [AGeneric SpTyping TList [ATypeVar tvS]; ACls CNoneType]; ATypeVar tvS; ANone]
            [VList [VInt 1]; VStr [120]; VNone] = MustNot
  /\ exists e, call no_ctx {| ms_params := [AUnion UTyping [AGeneric SpTyping TList [ATypeVar tvS]; ACls CNoneType]; ATypeVar tvS]; ms_ret := ANone |}
                     [VList [VInt 1]; VStr [120]] VNone = Raise e /\ derives e PTypeVarMismatchC = true.
Proof. split; [vm_compute; reflexivity|vm_compute; eauto]. Qed.
Example ex_nested_ok : nested_method [0; 1] {| ms_params := [AGeneric SpTyping TList [ATypeVar tv0]; AUnion UTyping [ATypeVar tv0; ACls CNoneType]];
                                               ms_ret := AGeneric SpBuiltin TDict [ACls CStr; ATypeVar tv0] |} = true.
Proof. reflexivity. Qed.
Example ex_instance : well_formed_inst [0; 1] [ACls CInt; AGeneric SpTyping TList [ACls CStr]]
                      /\ inst_method [0; 1] {| ms_params := [ATypeVar {| tv_id := 1; tv_constraints := []; tv_bound := None; tv_contravariant := false |}; ACls CInt];
                                               ms_ret := ATypeVar {| tv_id := 0; tv_constraints := []; tv_bound := None; tv_contravariant := false |} |} = true.
Proof. repeat split; try reflexivity. repeat constructor; simpl; intuition discriminate. Qed.

(* round 6: the two input dimensions added to the streams are inside the model and the specification.
   (a) typing.AnyStr is a TypeVar constrained to bytes / str (the harness renders descriptor 20 as the object of the typing
       module): same class accepted (Must), str next to bytes = PedanticTypeVarMismatchException (MustNot, mismatch demanded),
       a class outside the constraints = PedanticTypeCheckException (MustNot);
   (b) a parameter left out of a call takes part with its DEFAULT: after a call that is consistent with the default
       ('x', default 'n/a') the call (1, default 'n/a') is still a mismatch - whatever happened before (C07_no_leak_plain).
   Triples per step: model outcome, verdict of the specification (1 Must / 2 MustNot), mismatch demanded. *)
From PV Require Model.TypeVarEval.
Example ex_anystr_history :
  PV.Model.TypeVarEval.eval_history [(0%nat, (CUser [0%nat])); (1%nat, (CUser [1%nat])); (2%nat, (CUser [2%nat]))] ({| w_classes := []; w_funs := [{| ms_params := [(ATypeVar {| tv_id := 20%nat; tv_constraints := [CBytes; CStr]; tv_bound := None; tv_contravariant := false |}); (ATypeVar {| tv_id := 20%nat; tv_constraints := [CBytes; CStr]; tv_bound := None; tv_contravariant := false |})]; ms_ret := (ATypeVar {| tv_id := 20%nat; tv_constraints := [CBytes; CStr]; tv_bound := None; tv_contravariant := false |}) |}] |}) [SFun 0%nat [(VStr [97%nat]); (VStr [98%nat])] (VStr [97%nat; 98%nat]); SFun 0%nat [(VStr [97%nat]); (VBytes [98%nat])] (VStr [97%nat]); SFun 0%nat [(VBytes [97%nat]); (VStr [98%nat])] (VBytes [97%nat]); SFun 0%nat [(VInt 1%Z); (VInt 2%Z)] (VInt 1%Z)]
  = [0; 1; 0;  2; 2; 1;  2; 2; 1;  1; 2; 0]%Z.
Proof. vm_compute. reflexivity. Qed.
Example ex_default_history :
  PV.Model.TypeVarEval.eval_history [(0%nat, (CUser [0%nat])); (1%nat, (CUser [1%nat])); (2%nat, (CUser [2%nat]))] ({| w_classes := []; w_funs := [{| ms_params := [(ATypeVar {| tv_id := 10%nat; tv_constraints := []; tv_bound := None; tv_contravariant := false |}); (ATypeVar {| tv_id := 10%nat; tv_constraints := []; tv_bound := None; tv_contravariant := false |})]; ms_ret := (ATypeVar {| tv_id := 10%nat; tv_constraints := []; tv_bound := None; tv_contravariant := false |}) |}] |}) [SFun 0%nat [(VStr [120%nat]); (VStr [110%nat; 47%nat; 97%nat])] (VStr [120%nat]); SFun 0%nat [(VInt 1%Z); (VStr [110%nat; 47%nat; 97%nat])] (VInt 1%Z); SFun 0%nat [(VInt 1%Z); (VInt 2%Z)] (VInt 1%Z)]
  = [0; 1; 0;  2; 2; 1;  0; 1; 0]%Z.
Proof. vm_compute. reflexivity. Qed.
