(* C08 - only PedanticException leaves assert_value_matches_type, WHATEVER _is_instance does:
   the theorem quantifies over an arbitrary inner checker whose only assumed property is that
   what it raises derives from Exception; it therefore does not depend on the fidelity of the
   model of _is_instance.  The handler table of _check_type and the class raised on a False
   verdict are regenerated from the source on every run.                                     *)
From Coq Require Import List Arith Bool ZArith String.
From PV Require Import Base.Exn Base.Values Base.Ann Model.CheckerCfg Model.Checker Spec.Conforms
  Gen.CheckerTables Proofs.CheckerGood Proofs.CheckerRefine Proofs.CheckerSpec Proofs.CheckerTop Proofs.CheckerRaises
  Base.PyCall Model.PedanticCfg Model.Pedantic Gen.Pedantic Proofs.PedanticBase Proofs.PedanticWitness Proofs.PedanticC08 Model.GenWrapper Proofs.PedanticC08Gen.
Import ListNotations.

Definition cfg := Gen.CheckerTables.checker_cfg.

Theorem C08_generated_config_good : cfg_good cfg = true.
Proof. vm_compute. reflexivity. Qed.
Print Assumptions C08_generated_config_good.

Lemma good : CheckerGood.good_facts cfg.
Proof. apply cfg_good_facts. exact C08_generated_config_good. Qed.

Theorem C08_check_type_contains : forall ctx (inner : ann -> value -> tvenv -> res),
  (forall a v tv e tv', inner a v tv = (Raise e, tv') -> is_exception e = true) ->
  forall a v tv, match fst (assert_gen cfg ctx inner a v tv) with
                 | Ok _ => True
                 | Raise r => is_pedantic r = true
                 end.
Proof. intros ctx inner. exact (check_contains cfg good ctx inner). Qed.
Print Assumptions C08_check_type_contains.

(* every exception class the model of _is_instance can raise is turned into PedanticTypeCheckException *)
Theorem C08_model_exceptions_become_type_check : forall e, In e model_exns ->
  exists r, handle (handlers cfg) e = Raise r /\ derives r PTypeCheckC = true.
Proof. intros e. exact (handled cfg good e). Qed.
Print Assumptions C08_model_exceptions_become_type_check.

(* the instance for the MODEL of _is_instance itself (validated against the implementation by the correspondence
   of every run): every exception the model raises derives from Exception - for every annotation, supported or
   not, TypeVars and annotation-bound TypeVars included - hence the modelled assert_value_matches_type returns or
   raises a PedanticException on its whole domain *)
Theorem C08_model_total : forall ctx a v tv,
  match fst (assert_matches1 cfg ctx a v tv) with Ok _ => True | Raise r => is_pedantic r = true end.
Proof. intros ctx a v tv. exact (assert_matches1_contained cfg ctx good a v tv). Qed.
Print Assumptions C08_model_total.

(* ---- the wrapper half ------------------------------------------------------------------------------------------
   over the call protocol regenerated from function_call.py / fn_deco_pedantic.py: for every call that Python itself
   accepts for the undecorated function (`twin_accepts`), whatever leaves the call of the @pedantic function is a
   PedanticException or an exception the body itself raised - for every signature, call, body and every checker
   raising only PedanticExceptions.
   FULL STATEMENT (without `machinery_ok` and `same_positionals`) is false on the current tree: the two _refuted
   theorems below (known findings of the source-text heuristic family: FunctionCall indexes args[0] when the
   receiver arrives by keyword; a method whose text mentions @staticmethod is called without its receiver). *)
Theorem C08_generated_protocol_good : pc_good Gen.Pedantic.pedantic_cfg = true.
Proof. vm_compute. reflexivity. Qed.
Print Assumptions C08_generated_protocol_good.

Theorem C08_wrapper_adds_nothing_partial : forall check consumes,
  (forall a v tv e tv', check a v tv = (Raise e, tv') -> is_pedantic e = true) ->
  forall f c bd, machinery_ok f c -> same_positionals Gen.Pedantic.pedantic_cfg f c -> twin_accepts f c ->
  allowed bd (fst (run Gen.Pedantic.pedantic_cfg check consumes f c bd)).
Proof. intros check consumes Hc. exact (wrapper_adds_nothing _ check consumes C08_generated_protocol_good Hc). Qed.
Print Assumptions C08_wrapper_adds_nothing_partial.

(* the two guards in terms of the call: plain functions and instance methods called the ordinary way *)
Theorem C08_guards_hold_for_ordinary_calls : forall f c,
  drops_args Gen.Pedantic.pedantic_cfg f = false -> f_bound f = None -> c_recv c = c_twin_recv c ->
  same_positionals Gen.Pedantic.pedantic_cfg f c.
Proof. exact (same_positionals_plain Gen.Pedantic.pedantic_cfg). Qed.
Print Assumptions C08_guards_hold_for_ordinary_calls.

(* with the modelled assert_value_matches_type as the checker the hypothesis on `check` is C08_model_total *)
Theorem C08_wrapper_with_model_checker_partial : forall ctx consumes f c bd,
  machinery_ok f c -> same_positionals Gen.Pedantic.pedantic_cfg f c -> twin_accepts f c ->
  allowed bd (fst (run Gen.Pedantic.pedantic_cfg (assert_matches1 cfg ctx) consumes f c bd)).
Proof.
  intros ctx consumes f c bd. apply C08_wrapper_adds_nothing_partial.
  intros a v tv e tv' H. pose proof (C08_model_total ctx a v tv) as Ht. rewrite H in Ht. exact Ht.
Qed.
Print Assumptions C08_wrapper_with_model_checker_partial.

(* ---- generator functions: the call that creates the wrapper, and every operation on it -------------------------------
   the call gives the wrapper object or a PedanticException (the body does not run at the call); next / send / throw /
   close on the GeneratorWrapper raise a PedanticException or EXACTLY the exception the same operation on the undecorated
   generator raises - for every checker that raises only PedanticExceptions, all yield / send / return types, every
   generator body, every wrapper state and every operation sequence *)
Theorem C08_generator_call_adds_nothing_partial : forall check consumes,
  (forall a v tv e tv', check a v tv = (Raise e, tv') -> is_pedantic e = true) ->
  forall f c, machinery_ok f c -> same_positionals Gen.Pedantic.pedantic_cfg f c -> twin_accepts f c ->
  ped_out (fst (run_gen Gen.Pedantic.pedantic_cfg check consumes f c)).
Proof. intros check consumes Hc. exact (gen_call_adds_nothing _ check consumes C08_generated_protocol_good Hc). Qed.
Print Assumptions C08_generator_call_adds_nothing_partial.

Theorem C08_generator_wrapper_adds_nothing : forall check,
  (forall a v tv e tv', check a v tv = (Raise e, tv') -> is_pedantic e = true) ->
  forall yt st rt body ops w rs w', w_run check yt st rt body w ops = (rs, w') ->
  forall i e, nth_error rs i = Some (WRaise e) ->
  is_pedantic e = true \/
  exists rs0 wi o g', w_run check yt st rt body w (firstn i ops) = (rs0, wi) /\ nth_error ops i = Some o /\
                      inner_op body (w_inner wi) o = (IRaise e, g').
Proof. intros check Hc yt st rt body. exact (gen_run_adds_nothing check Hc yt st rt body). Qed.
Print Assumptions C08_generator_wrapper_adds_nothing.

(* excluded region 1 (not machinery_ok): K.plain(self=k, x=1) - the receiver passed by keyword: IndexError *)
Theorem C08_wrapper_index_error_refuted : exists f c bd,
  twin_accepts f c /\
  fst (run Gen.Pedantic.pedantic_cfg (assert_matches1 cfg (fun _ => None)) (fun _ _ => false) f c bd) = Raise IndexErrorC
  /\ ~ allowed bd (Raise IndexErrorC).
Proof.
  exists (method "plain"%string self_name [par x_ PosOrKw (ACls CInt) None] plain_text),
         (kwcall [] [(self_name, k_inst); (x_, VInt 1%Z)]), (returns VNone).
  split; [eexists; vm_compute; reflexivity|]. split; [vm_compute; reflexivity|].
  intros [H | [b [cons H]]]; vm_compute in H; discriminate H.
Qed.
Print Assumptions C08_wrapper_index_error_refuted.

(* excluded region 2 (machinery_ok but not same_positionals): a method of a @pedantic_class whose source text mentions
   @staticmethod, called k.m(a=1): the wrapper calls the function WITHOUT the receiver: Python's TypeError
   "missing 1 required positional argument: 'self'" although the undecorated call is fine *)
Theorem C08_wrapper_receiver_dropped_refuted : exists f c bd,
  machinery_ok f c /\ twin_accepts f c /\
  fst (run Gen.Pedantic.pedantic_cfg (assert_matches1 cfg (fun _ => None)) (fun _ _ => false) f c bd) = Raise TypeErrorC
  /\ ~ allowed bd (Raise TypeErrorC).
Proof.
  exists (method "m"%string self_name [par a_ PosOrKw (ACls CInt) None] (tflags false true false true 1)),
         (kwcall [k_inst] [(a_, VInt 1%Z)]), (returns (VInt 1%Z)).
  split; [split; [intros _; discriminate | intros _ _ H; discriminate H]|].
  split; [eexists; vm_compute; reflexivity|]. split; [vm_compute; reflexivity|].
  intros [H | [b [cons H]]]; vm_compute in H; discriminate H.
Qed.
Print Assumptions C08_wrapper_receiver_dropped_refuted.

(* excluded region 1b (the second conjunct of machinery_ok): a plain function whose source text mentions @staticmethod,
   called with keywords only: FunctionCall indexes full_name.split('.')[-2] of a dot-less name: IndexError
   (known finding K-C08-staticmethod-text) *)
Theorem C08_wrapper_staticmethod_text_refuted : exists f c bd,
  ~ machinery_ok f c /\ twin_accepts f c /\
  fst (run Gen.Pedantic.pedantic_cfg (assert_matches1 cfg (fun _ => None)) (fun _ _ => false) f c bd) = Raise IndexErrorC
  /\ ~ allowed bd (Raise IndexErrorC).
Proof.
  exists f_static_text, (kwcall [] [(a_, VInt 1%Z)]), (returns (VInt 1%Z)).
  split; [intros [_ H]; specialize (H eq_refl eq_refl eq_refl); discriminate H|].
  split; [eexists; vm_compute; reflexivity|]. split; [vm_compute; reflexivity|].
  intros [H | [b [cons H]]]; vm_compute in H; discriminate H.
Qed.
Print Assumptions C08_wrapper_staticmethod_text_refuted.

(* non-vacuity: an inner checker that raises AttributeError / IndexError / RecursionError-like classes *)
Example ex_inner_raises :
  fst (assert_gen cfg (fun _ => None) (fun _ _ tv => (Raise IndexErrorC, tv)) (AOther 0) VNone []) = Raise PTypeCheckC.
Proof. vm_compute. reflexivity. Qed.
Example ex_hypothesis_satisfiable : is_exception IndexErrorC = true /\ is_exception AttributeErrorC = true.
Proof. split; reflexivity. Qed.
