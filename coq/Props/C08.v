(* C08 - only PedanticException leaves assert_value_matches_type, WHATEVER _is_instance does:
   the theorem quantifies over an arbitrary inner checker whose only assumed property is that
   what it raises derives from Exception; it therefore does not depend on the fidelity of the
   model of _is_instance.  The handler table of _check_type and the class raised on a False
   verdict are regenerated from the source on every run.                                     *)
From Coq Require Import List Arith Bool ZArith String.
From PV Require Import Base.Exn Base.Values Base.Ann Model.CheckerCfg Model.Checker Spec.Conforms
  Gen.CheckerTables Proofs.CheckerGood Proofs.CheckerRefine Proofs.CheckerSpec Proofs.CheckerTop Proofs.CheckerRaises
  Base.PyCall Model.PedanticCfg Model.Pedantic Gen.Pedantic Proofs.PedanticBase Proofs.PedanticWitness Proofs.PedanticC08.
Import ListNotations.

Definition cfg := Gen.CheckerTables.checker_cfg.

Theorem C08_generated_config_good : cfg_good cfg = true.
Proof. vm_compute. reflexivity. Qed.
Print Assumptions C08_generated_config_good.

Lemma good : CheckerGood.good_facts cfg.
Proof. apply cfg_good_facts. exact C08_generated_config_good. Qed.

Theorem C08_check_type_contains : forall ctx (inner : ann -> value -> tvenv -> res),
  (forall a v tv e tv', inner a v tv = (Raise e, tv') -> is_exception e = true) ->
  forall a v tv, match fst (assert_gen cfg ctx inner a v tv) with
                 | Ok _ => True
                 | Raise r => is_pedantic r = true
                 end.
Proof. intros ctx inner. exact (check_contains cfg good ctx inner). Qed.
Print Assumptions C08_check_type_contains.

(* every exception class the model of _is_instance can raise is turned into PedanticTypeCheckException *)
Theorem C08_model_exceptions_become_type_check : forall e, In e model_exns ->
  exists r, handle (handlers cfg) e = Raise r /\ derives r PTypeCheckC = true.
Proof. intros e. exact (handled cfg good e). Qed.
Print Assumptions C08_model_exceptions_become_type_check.

(* the instance for the MODEL of _is_instance itself (validated against the implementation by the correspondence
   of every run): every exception the model raises derives from Exception - for every annotation, supported or
   not, TypeVars and annotation-bound TypeVars included - hence the modelled assert_value_matches_type returns or
   raises a PedanticException on its whole domain *)
Theorem C08_model_total : forall ctx a v tv,
  match fst (assert_matches1 cfg ctx a v tv) with Ok _ => True | Raise r => is_pedantic r = true end.
Proof. intros ctx a v tv. exact (assert_matches1_contained cfg ctx good a v tv). Qed.
Print Assumptions C08_model_total.

(* ---- the wrapper half ------------------------------------------------------------------------------------------
   over the call protocol regenerated from function_call.py / fn_deco_pedantic.py: whatever leaves a call of a
   @pedantic function is a PedanticException, an exception of the body, or Python's own TypeError for a call the
   signature does not accept - for every signature, call, body and every checker raising only PedanticExceptions.
   FULL STATEMENT (without `machinery_ok`) is false on the current tree: see the _refuted theorem below
   (known finding of the source-text heuristic family: FunctionCall indexes args[0] / full_name.split('.')[-2]). *)
Theorem C08_generated_protocol_good : pc_good Gen.Pedantic.pedantic_cfg = true.
Proof. vm_compute. reflexivity. Qed.
Print Assumptions C08_generated_protocol_good.

Theorem C08_wrapper_adds_nothing_partial : forall check consumes,
  (forall a v tv e tv', check a v tv = (Raise e, tv') -> is_pedantic e = true) ->
  forall f c bd, machinery_ok f c ->
  allowed f c bd (fst (run Gen.Pedantic.pedantic_cfg check consumes f c bd)).
Proof. intros check consumes Hc. exact (wrapper_adds_nothing _ check consumes C08_generated_protocol_good Hc). Qed.
Print Assumptions C08_wrapper_adds_nothing_partial.

(* with the modelled assert_value_matches_type as the checker the hypothesis on `check` is C08_model_total *)
Theorem C08_wrapper_with_model_checker_partial : forall ctx consumes f c bd, machinery_ok f c ->
  allowed f c bd (fst (run Gen.Pedantic.pedantic_cfg (assert_matches1 cfg ctx) consumes f c bd)).
Proof.
  intros ctx consumes f c bd. apply C08_wrapper_adds_nothing_partial.
  intros a v tv e tv' H. pose proof (C08_model_total ctx a v tv) as Ht. rewrite H in Ht. exact Ht.
Qed.
Print Assumptions C08_wrapper_with_model_checker_partial.

(* the excluded region really violates the full statement: K.plain(self=k, x=1) - the receiver passed by keyword *)
Theorem C08_wrapper_index_error_refuted : exists f c bd,
  fst (run Gen.Pedantic.pedantic_cfg (assert_matches1 cfg (fun _ => None)) (fun _ _ => false) f c bd) = Raise IndexErrorC
  /\ ~ allowed f c bd (Raise IndexErrorC).
Proof.
  exists (method "plain"%string self_name [par x_ PosOrKw (ACls CInt) None] plain_text),
         (kwcall [] [(self_name, k_inst); (x_, VInt 1%Z)]), (returns VNone).
  split; [vm_compute; reflexivity|].
  intros [H | [[b [cons H]] | [pos H]]].
  - vm_compute in H. discriminate H.
  - vm_compute in H. discriminate H.
  - apply py_bind_type_error in H. discriminate H.
Qed.
Print Assumptions C08_wrapper_index_error_refuted.

(* non-vacuity: an inner checker that raises AttributeError / IndexError / RecursionError-like classes *)
Example ex_inner_raises :
  fst (assert_gen cfg (fun _ => None) (fun _ _ tv => (Raise IndexErrorC, tv)) (AOther 0) VNone []) = Raise PTypeCheckC.
Proof. vm_compute. reflexivity. Qed.
Example ex_hypothesis_satisfiable : is_exception IndexErrorC = true /\ is_exception AttributeErrorC = true.
Proof. split; reflexivity. Qed.
