(* C06 - incomplete annotations are rejected independent of the value (checker part: a generic
   without type arguments, in typing or builtin spelling).  The parameter / return part (missing
   annotations in a signature) lives with the model of the @pedantic wrapper.                  *)
From Coq Require Import List Arith Bool ZArith.
From PV Require Import Base.Exn Base.Values Base.Ann Model.CheckerCfg Model.Checker Spec.Conforms
  Gen.CheckerTables Proofs.CheckerGood Proofs.CheckerRefine Proofs.CheckerSpec Proofs.CheckerTop.
Import ListNotations.

Definition cfg := Gen.CheckerTables.checker_cfg.

Theorem C06_generated_config_good : cfg_good cfg = true.
Proof. vm_compute. reflexivity. Qed.
Print Assumptions C06_generated_config_good.

Lemma good : good_facts cfg.
Proof. apply cfg_good_facts. exact C06_generated_config_good. Qed.

(* list, dict, set, frozenset, tuple, type and typing.List, Dict, Set, FrozenSet, Tuple, Type, Callable,
   Iterable, Sequence without arguments: PedanticTypeCheckException for EVERY value (no value-dependent
   shortcut), every context, every TypeVar table *)
Theorem C06_bare_rejected_for_all_values : forall ctx hook a, bare a = true -> forall v tv,
  exists r, assert_matches cfg ctx hook a v tv = (Raise r, tv) /\ derives r PTypeCheckC = true.
Proof. intros ctx hook a. exact (bare_rejected_for_all_values cfg good ctx hook a). Qed.
Print Assumptions C06_bare_rejected_for_all_values.

(* the fifteen forms of the statement are exactly the `bare` annotations *)
Theorem C06_bare_forms : forallb bare
  ([ACls CList; ACls CDict; ACls CSet; ACls CFrozenSet; ACls CTuple; ACls CType] ++
   map ABare [TList; TDict; TSet; TFrozenSet; TTuple; TType; TCallable; TIterable; TSequence]) = true.
Proof. reflexivity. Qed.
Print Assumptions C06_bare_forms.

Example ex_empty_list_still_rejected :
  fst (assert_matches1 cfg (fun _ => None) (ACls CList) (VList []) []) = Raise PTypeCheckC
  /\ fst (assert_matches1 cfg (fun _ => None) (ABare TType) (VClass CInt) []) = Raise PTypeCheckC
  /\ fst (assert_matches1 cfg (fun _ => None) (ABare TCallable) VNone []) = Raise PTypeCheckC.
Proof. repeat split; vm_compute; reflexivity. Qed.
