(* C06 - incomplete annotations are rejected independent of the value (checker part: a generic
   without type arguments, in typing or builtin spelling).  The parameter / return part (missing
   annotations in a signature) lives with the model of the @pedantic wrapper.                  *)
From Coq Require Import List Arith Bool ZArith String.
From PV Require Import Base.Exn Base.Values Base.Ann Model.CheckerCfg Model.Checker Spec.Conforms
  Gen.CheckerTables Proofs.CheckerGood Proofs.CheckerRefine Proofs.CheckerSpec Proofs.CheckerTop
  Base.PyCall Model.PedanticCfg Model.Pedantic Gen.Pedantic Proofs.PedanticBase Proofs.PedanticWitness Proofs.PedanticC06 Proofs.PedanticC08 Proofs.PedanticC06Exact.
Import ListNotations.

Definition cfg := Gen.CheckerTables.checker_cfg.

Theorem C06_generated_config_good : cfg_good cfg = true.
Proof. vm_compute. reflexivity. Qed.
Print Assumptions C06_generated_config_good.

Lemma good : CheckerGood.good_facts cfg.
Proof. apply cfg_good_facts. exact C06_generated_config_good. Qed.

(* list, dict, set, frozenset, tuple, type and typing.List, Dict, Set, FrozenSet, Tuple, Type, Callable,
   Iterable, Sequence without arguments: PedanticTypeCheckException for EVERY value (no value-dependent
   shortcut), every context, every TypeVar table *)
Theorem C06_bare_rejected_for_all_values : forall ctx hook a, bare a = true -> forall v tv,
  exists r, assert_matches cfg ctx hook a v tv = (Raise r, tv) /\ derives r PTypeCheckC = true.
Proof. intros ctx hook a. exact (bare_rejected_for_all_values cfg good ctx hook a). Qed.
Print Assumptions C06_bare_rejected_for_all_values.

(* the fifteen forms of the statement are exactly the `bare` annotations *)
Theorem C06_bare_forms : forallb bare
  ([ACls CList; ACls CDict; ACls CSet; ACls CFrozenSet; ACls CTuple; ACls CType] ++
   map ABare [TList; TDict; TSet; TFrozenSet; TTuple; TType; TCallable; TIterable; TSequence]) = true.
Proof. reflexivity. Qed.
Print Assumptions C06_bare_forms.

(* ---- the wrapper half: missing annotations in the signature of a @pedantic function ---------------------------
   over the call protocol regenerated from function_call.py / fn_deco_pedantic.py (Gen/Pedantic.v), for EVERY
   checker, every signature, every call (keyword or positional, any values) and every body *)
Theorem C06_generated_protocol_good : pc_good Gen.Pedantic.pedantic_cfg = true.
Proof. vm_compute. reflexivity. Qed.
Print Assumptions C06_generated_protocol_good.

(* a named, *args or **kwargs parameter without annotation: the call raises and the body does not run *)
Theorem C06_missing_param_annotation : forall check consumes f c bd,
  missing_named f \/ missing_varpos f \/ missing_varkw f ->
  never_ok (fst (run Gen.Pedantic.pedantic_cfg check consumes f c bd))
  /\ snd (run Gen.Pedantic.pedantic_cfg check consumes f c bd) = [].
Proof. intros check consumes. exact (missing_param_annotation _ check consumes C06_generated_protocol_good). Qed.
Print Assumptions C06_missing_param_annotation.

(* no return annotation: no value is handed back (the body may have run) *)
Theorem C06_missing_return_annotation : forall check consumes f c bd, f_ret f = None ->
  never_ok (fst (run Gen.Pedantic.pedantic_cfg check consumes f c bd)).
Proof. intros check consumes. exact (missing_return_annotation _ check consumes C06_generated_protocol_good). Qed.
Print Assumptions C06_missing_return_annotation.

(* a NAMED parameter / the return annotation is a generic without type arguments, with the modelled
   assert_value_matches_type as the checker: the call never hands a value back, and for a parameter the body
   does not run - for every signature, every call (any values, any call style), every body.  (What is raised is a
   PedanticException by C08; it is PedanticTypeCheckException itself unless an earlier parameter fails first.) *)
Lemma bare_always_rejects : forall ctx hook a, bare a = true -> always_rejects (assert_matches cfg ctx hook) a.
Proof.
  intros ctx hook a Hb v tv. destruct (C06_bare_rejected_for_all_values ctx hook a Hb v tv) as [r [H _]]. eauto.
Qed.

Theorem C06_bare_param_annotation : forall ctx hook consumes f c bd,
  (exists p a, In p (filter (fun p => negb (is_star p)) (params_without_self f)) /\ p_ann p = Some a /\ bare a = true) ->
  never_ok (fst (run Gen.Pedantic.pedantic_cfg (assert_matches cfg ctx hook) consumes f c bd))
  /\ snd (run Gen.Pedantic.pedantic_cfg (assert_matches cfg ctx hook) consumes f c bd) = [].
Proof.
  intros ctx hook consumes f c bd [p [a [Hin [Hp Hb]]]].
  apply (rejecting_param_annotation _ _ consumes C06_generated_protocol_good).
  exists p, a. repeat split; try assumption. now apply bare_always_rejects.
Qed.
Print Assumptions C06_bare_param_annotation.

Theorem C06_bare_return_annotation : forall ctx hook consumes f c bd a, f_ret f = Some a -> bare a = true ->
  never_ok (fst (run Gen.Pedantic.pedantic_cfg (assert_matches cfg ctx hook) consumes f c bd)).
Proof.
  intros ctx hook consumes f c bd a Hr Hb.
  apply (rejecting_return_annotation _ _ consumes C06_generated_protocol_good f c bd a Hr). now apply bare_always_rejects.
Qed.
Print Assumptions C06_bare_return_annotation.

(* ---- ... with the CLASS of the exception, as the statement words it ("raises PedanticTypeCheckException") -------
   guards, each the domain of another property or an open finding: the call does not trip the receiver / source-text
   indexing (machinery_ok: K-C08-* findings), it is a keyword call the wrapper lets through (assert_uses_kwargs: otherwise
   PedanticCallWithArgsException, C05), every OTHER annotation of the signature is in the supported vocabulary or bare (so
   that an earlier parameter can only fail with PedanticTypeCheckException, not with a TypeVar mismatch); for the return
   side also that Python binds the call (same_positionals, twin_accepts: C08).  Then: a missing or bare PARAMETER
   annotation ends in an exception derived from PedanticTypeCheckException and the body has not run; a missing or bare
   RETURN annotation ends in such an exception or in the exception the body itself raised. *)
Definition okann (ctx : nat -> option cls) (a : ann) : Prop := supported ctx a = true \/ bare a = true.

Lemma model_rejects_with_type_check : forall ctx hook a, okann ctx a -> forall v tv e tv',
  assert_matches cfg ctx hook a v tv = (Raise e, tv') -> derives e PTypeCheckC = true.
Proof.
  intros ctx hook a [Hs | Hb] v tv e tv' H.
  - rewrite (assert_pure cfg good ctx hook a Hs v tv) in H. destruct (CheckerGood.chk cfg ctx a v); inversion H. apply (gf_mismatch cfg good).
  - destruct (C06_bare_rejected_for_all_values ctx hook a Hb v tv) as [r [Hr Hd]]. rewrite Hr in H. inversion H; subst. exact Hd.
Qed.

Theorem C06_missing_param_annotation_exact_partial : forall ctx hook consumes f c bd,
  machinery_ok f c -> assert_uses_kwargs Gen.Pedantic.pedantic_cfg f c = Ok tt -> anns_ok (okann ctx) f ->
  missing_named f \/ missing_varpos f \/ missing_varkw f ->
  raises_tc (fst (run Gen.Pedantic.pedantic_cfg (assert_matches cfg ctx hook) consumes f c bd))
  /\ snd (run Gen.Pedantic.pedantic_cfg (assert_matches cfg ctx hook) consumes f c bd) = [].
Proof.
  intros ctx hook consumes.
  exact (missing_param_annotation_exact _ _ consumes C06_generated_protocol_good (okann ctx) (model_rejects_with_type_check ctx hook)).
Qed.
Print Assumptions C06_missing_param_annotation_exact_partial.

Theorem C06_bare_param_annotation_exact_partial : forall ctx hook consumes f c bd,
  machinery_ok f c -> assert_uses_kwargs Gen.Pedantic.pedantic_cfg f c = Ok tt -> anns_ok (okann ctx) f ->
  (exists p a, In p (filter (fun p => negb (is_star p)) (params_without_self f)) /\ p_ann p = Some a /\ bare a = true) ->
  raises_tc (fst (run Gen.Pedantic.pedantic_cfg (assert_matches cfg ctx hook) consumes f c bd))
  /\ snd (run Gen.Pedantic.pedantic_cfg (assert_matches cfg ctx hook) consumes f c bd) = [].
Proof.
  intros ctx hook consumes f c bd Hm Hkw Hok [p [a [Hin [Hp Hb]]]].
  apply (rejecting_param_annotation_exact _ _ consumes C06_generated_protocol_good (okann ctx) (model_rejects_with_type_check ctx hook)); try assumption.
  exists p, a. repeat split; try assumption. now apply bare_always_rejects.
Qed.
Print Assumptions C06_bare_param_annotation_exact_partial.

Theorem C06_missing_return_annotation_exact_partial : forall ctx hook consumes f c bd,
  machinery_ok f c -> assert_uses_kwargs Gen.Pedantic.pedantic_cfg f c = Ok tt -> anns_ok (okann ctx) f ->
  same_positionals Gen.Pedantic.pedantic_cfg f c -> twin_accepts f c -> f_ret f = None ->
  raises_tc_or_body bd (fst (run Gen.Pedantic.pedantic_cfg (assert_matches cfg ctx hook) consumes f c bd)).
Proof.
  intros ctx hook consumes.
  exact (missing_return_annotation_exact _ _ consumes C06_generated_protocol_good (okann ctx) (model_rejects_with_type_check ctx hook)).
Qed.
Print Assumptions C06_missing_return_annotation_exact_partial.

Theorem C06_bare_return_annotation_exact_partial : forall ctx hook consumes f c bd a,
  machinery_ok f c -> assert_uses_kwargs Gen.Pedantic.pedantic_cfg f c = Ok tt -> anns_ok (okann ctx) f ->
  same_positionals Gen.Pedantic.pedantic_cfg f c -> twin_accepts f c -> f_ret f = Some a -> bare a = true ->
  raises_tc_or_body bd (fst (run Gen.Pedantic.pedantic_cfg (assert_matches cfg ctx hook) consumes f c bd)).
Proof.
  intros ctx hook consumes f c bd a Hm Hkw Hok Hs Ht Hr Hb.
  apply (rejecting_return_annotation_exact _ _ consumes C06_generated_protocol_good (okann ctx) (model_rejects_with_type_check ctx hook) f c bd a);
    try assumption. now apply bare_always_rejects.
Qed.
Print Assumptions C06_bare_return_annotation_exact_partial.

(* KNOWN FINDING K-C06-variadic (open): the statement is FALSE for a bare generic on a variadic parameter when no
   extra value is supplied - the annotation is never looked at: def f( *args: list) -> None; f() runs the body *)
Theorem C06_bare_variadic_refuted : exists f c bd,
  (exists p, In p (params_without_self f) /\ is_varpos p = true /\ p_ann p = Some (ACls CList)) /\ bare (ACls CList) = true /\
  run Gen.Pedantic.pedantic_cfg (assert_matches1 cfg (fun _ => None)) (fun _ _ => false) f c bd = (Ok VNone, [([(args_, BStar [])], [])]).
Proof.
  exists {| f_name := "f"%string; f_dotted := false; f_params := [par args_ VarPos (ACls CList) None];
            f_bound := None; f_first_arg := None; f_ret := Some ANone; f_coroutine := false; f_generator := false;
            f_text := tflags true false false true 1; f_setter := false; f_recv := false |},
         (kwcall [] []), (returns VNone).
  split; [eexists; split; [left; reflexivity | split; reflexivity]|]. split; [reflexivity|]. vm_compute. reflexivity.
Qed.
Print Assumptions C06_bare_variadic_refuted.

(* non-vacuity: def f(a, b: int) -> None, first parameter without annotation *)
Definition ex_text : text_flags := {| t_star_args := false; t_staticmethod := false; t_setter := false; t_pedantic := true; t_n_at := 1 |}.
Definition ex_f : fn := {| f_name := "f"%string; f_dotted := false;
  f_params := [{| p_name := 1; p_kind := PosOrKw; p_ann := None; p_default := None |};
               {| p_name := 2; p_kind := PosOrKw; p_ann := Some (ACls CInt); p_default := None |}];
  f_bound := None; f_first_arg := Some 1; f_ret := Some ANone; f_coroutine := false; f_generator := false;
  f_text := ex_text; f_setter := false; f_recv := false |}.
Example ex_missing_named : missing_named ex_f.
Proof. exists {| p_name := 1; p_kind := PosOrKw; p_ann := None; p_default := None |}. split; [cbn; tauto | reflexivity]. Qed.

Example ex_empty_list_still_rejected :
  fst (assert_matches1 cfg (fun _ => None) (ACls CList) (VList []) []) = Raise PTypeCheckC
  /\ fst (assert_matches1 cfg (fun _ => None) (ABare TType) (VClass CInt) []) = Raise PTypeCheckC
  /\ fst (assert_matches1 cfg (fun _ => None) (ABare TCallable) VNone []) = Raise PTypeCheckC.
Proof. repeat split; vm_compute; reflexivity. Qed.
