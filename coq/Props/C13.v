(* C13 - @validate binds by name: call style, declaration order, return_as mode and sources are interchangeable.

   Property theorems about the configuration regenerated from fn_deco_validate.py on every run (Gen/Validate.v),
   for every value universe, every signature WITHOUT a var-positional parameter (any number of parameters,
   keyword-only parameters, **kwargs, defaults, with / without self), every list of Parameters with validator
   chains of any length, strict on / off, sync / async.

   `final_equiv f f'`: both runs reach the body and it observes the same value under every name, or neither
   reaches the body.  Which exception leaves may depend on the order of arrival (the first rejection wins, C12).

   Guard: self_guard (the name `self` arrives only as the implicit first positional argument and is no Parameter
   name - outside it the statements are FALSE on the current source: C13_self_by_keyword_refuted,
   C13_external_supplies_self_refuted; open finding C13-K3).  C13_return_as_without_none additionally needs names_fit
   (every name that reaches the function is one of its parameters, or it takes **kwargs) - outside it FALSE:
   C13_return_as_without_none_refuted, open finding C13-K2 (a surplus keyword whose value is None is omitted with
   the other None values: KWARGS_WITHOUT_NONE runs the body where ARGS and KWARGS_WITH_NONE end in TypeError).
   The relational theorems are completed by C13_binding_is_specified (= C12_run_meets_spec): the binding is not
   only the same for all styles / orders / modes, it is the one the specification demands.
   History: until /repo commit d10af45 `_as_args` fell back to arrival order when a name outside the signature
   reached a function without **kwargs (finding C13-K1 = C12-K1); the former refutations are now the Examples
   C13_K1_witness_fixed.
   History independence: the model is a pure function of (signature, declaration, call); that the implementation has
   no memory either (e.g. nothing cached on Parameter objects shared by several decorated functions) is checked by
   the correspondence stream `validate-shared` (harness/v_common.py gen_shared): sequences of calls of functions
   decorated with the SAME Parameter objects, every call compared with the model of that call alone.
   Functions with *args keep arrival order on purpose (repository test
   test_return_as_args_advanced_different_order); the property text excludes them and so does the model.   *)
From Coq Require Import List Arith Bool Permutation.
From PV Require Import Base.Exn Model.ValidateSem Spec.ValidateSpec Proofs.ValidateDict Proofs.ValidateRef
  Proofs.ValidateBind Proofs.ValidateGate Proofs.ValidateByName Proofs.ValidateSpecLink Gen.Validate
  Model.ValidateSources Spec.ValidateSourcesSpec Proofs.ValidateSources Gen.ValidateSources.
Import ListNotations.

Definition vrun {value : Type} (is_none : value -> bool) :=
  run value is_none Gen.Validate.cfg Gen.Validate.is_required_rule.

Theorem C13_cfg_is_reference :
  Gen.Validate.cfg = reference_cfg /\ Gen.Validate.is_required_rule = reference_req_rule.
Proof. split; reflexivity. Qed.
Print Assumptions C13_cfg_is_reference.

Lemma vrun_ref : forall value is_none, @vrun value is_none = run value is_none reference_cfg reference_req_rule.
Proof. intros. unfold vrun. destruct C13_cfg_is_reference as [-> ->]. reflexivity. Qed.

(* THE BINDING IS THE SPECIFIED ONE (see C12_run_meets_spec): well-formed declaration and call - the run ends as
   Spec/ValidateSpec.v spec_outcome demands, which is a function of the named assignment only *)
Theorem C13_binding_is_specified : forall value is_none sg env dc c is_async,
  s_varpos sg = false ->
  decl_wellformed value sg dc = true -> call_wellformed value sg c = true ->
  declared value dc self_name = false ->
  (forall p, In p (d_params dc) -> derives (p_exc p) ParameterExceptionC = true) ->
  snd (flask_m value env dc) = WOk tt ->
  match spec_outcome value is_none sg dc c with
  | DRaise rs => exists e pn, snd (vrun is_none sg env dc is_async c) = FRaise e pn /\ raise_allowed e pn rs
  | DPythonRejects => snd (vrun is_none sg env dc is_async c) = FRaise TypeErrorC None
  | DBody b => names_fit value sg dc c = true ->
               exists b', snd (vrun is_none sg env dc is_async c) = FBody b' /\ deq b' b
  end.
Proof. intros. rewrite vrun_ref in *. now apply run_meets_spec. Qed.
Print Assumptions C13_binding_is_specified.

(* CALL STYLE.  named_assignment c = which name is given which value (keywords, and positionals under the names
   of the parameters they bind to).  Two calls Python accepts with the same named assignment - any split into a
   positional prefix and keywords, the keywords in any order - end the same way. *)
Theorem C13_call_style_invariant : forall value is_none sg env dc is_async c c',
  s_varpos sg = false ->
  d_ignore_input dc = false ->
  List.length (c_args c) <= List.length (pos_params value sg) ->
  List.length (c_args c') <= List.length (pos_params value sg) ->
  Permutation (named_assignment value sg c) (named_assignment value sg c') ->
  NoDup (keys (named_assignment value sg c)) ->
  self_guard value sg dc c = true -> self_guard value sg dc c' = true ->
  final_equiv value (snd (vrun is_none sg env dc is_async c)) (snd (vrun is_none sg env dc is_async c')).
Proof. intros. rewrite vrun_ref in *. eapply call_style_invariant'; eauto. Qed.
Print Assumptions C13_call_style_invariant.

(* DECLARATION ORDER.  Any permutation of the Parameter list (names pairwise distinct) *)
Theorem C13_declaration_order_invariant : forall value is_none sg env dc dc' is_async c,
  s_varpos sg = false ->
  same_but_params value dc dc' -> NoDup (map (@p_name value) (d_params dc)) ->
  self_guard value sg dc c = true -> self_guard value sg dc' c = true ->
  final_equiv value (snd (vrun is_none sg env dc is_async c)) (snd (vrun is_none sg env dc' is_async c)).
Proof. intros. rewrite vrun_ref in *. eapply declaration_order_invariant; eauto. Qed.
Print Assumptions C13_declaration_order_invariant.

(* RETURN_AS.  ARGS and KWARGS_WITH_NONE end identically (same binding in the same order, same exception) ... *)
Theorem C13_return_as_invariant : forall value is_none sg env dc is_async c,
  s_varpos sg = false ->
  self_guard value sg dc c = true ->
  snd (vrun is_none sg env (with_mode value dc ARGS) is_async c) =
  snd (vrun is_none sg env (with_mode value dc KWARGS_WITH_NONE) is_async c).
Proof. intros. rewrite vrun_ref in *. eapply args_equals_kwargs; eauto. Qed.
Print Assumptions C13_return_as_invariant.

(* ... and KWARGS_WITHOUT_NONE differs from them exactly by omitting None values, so that signature defaults
   apply: same exception if _wrapper_content raised; same values under all names whose value is not None; the
   signature default where the value is None; Python's TypeError if such a parameter has no default *)
Theorem C13_return_as_without_none : forall value is_none sg env dc is_async c,
  s_varpos sg = false ->
  self_guard value sg dc c = true -> names_fit value sg dc c = true ->
  without_none_relation value is_none sg
    (snd (vrun is_none sg env (with_mode value dc KWARGS_WITH_NONE) is_async c))
    (snd (vrun is_none sg env (with_mode value dc KWARGS_WITHOUT_NONE) is_async c)).
Proof. intros. rewrite vrun_ref in *. eapply kwargs_without_none; eauto. Qed.
Print Assumptions C13_return_as_without_none.

(* EXTERNAL SOURCES.  If the caller passes a value for a declared name, the external source of that name is never
   consulted: replacing it by any other source (absent, present, raising) changes nothing, journal included ... *)
Theorem C13_external_only_when_absent : forall value is_none sg env dc n e is_async c w,
  s_varpos sg = false ->
  caller_gives value sg dc c n w -> declared value dc n = true ->
  vrun is_none sg env (replace_ext value dc n e) is_async c = vrun is_none sg env dc is_async c.
Proof. intros. rewrite vrun_ref in *. eapply external_unused_when_supplied; eassumption. Qed.
Print Assumptions C13_external_only_when_absent.

(* ... and if the caller passes none, the body sees the chain output of the external value *)
Theorem C13_external_supplies_when_absent : forall value is_none sg env dc is_async c j b p w v,
  s_varpos sg = false ->
  self_guard value sg dc c = true ->
  NoDup (map (@p_name value) (d_params dc)) ->
  vrun is_none sg env dc is_async c = (j, FBody b) ->
  In p (d_params dc) -> (forall w', ~ caller_gives value sg dc c (p_name p) w') ->
  external_gives value p w -> spec_param value is_none p w = VPass v ->
  (d_mode dc <> KWARGS_WITHOUT_NONE \/ is_none v = false) ->
  dget (p_name p) b = Some v.
Proof. intros. rewrite vrun_ref in *. eapply external_supplies_when_absent; eauto. Qed.
Print Assumptions C13_external_supplies_when_absent.

(* SEVERAL PARAMETERS FOR ONE NAME (two sources for one argument: a current and a legacy environment variable, the JSON
   body and the query string ...).  No hypothesis on the Parameter list: C13_external_only_when_absent above replaces the
   source of EVERY Parameter declared under the name, and a value the caller passes reaches the body through the chain of
   a Parameter of that name (the one parameter_dict keeps, the last declared) - never a value of one of the sources *)
Theorem C13_passed_value_beats_every_source : forall value is_none sg env dc is_async c j b n w,
  s_varpos sg = false ->
  d_ignore_input dc = false -> List.length (c_args c) <= List.length (pos_params value sg) ->
  NoDup (keys (named_assignment value sg c)) -> self_guard value sg dc c = true ->
  vrun is_none sg env dc is_async c = (j, FBody b) -> In (n, w) (named_assignment value sg c) ->
  match lookup_param value dc n with
  | Some p => In p (d_params dc) /\ p_name p = n /\
              (forall v, spec_param value is_none p w = VPass v ->
                         (d_mode dc <> KWARGS_WITHOUT_NONE \/ is_none v = false) -> dget n b = Some v)
  | None => declared value dc n = false
  end.
Proof.
  intros value is_none sg env dc is_async c j b n w NV Ig L ND G H I. rewrite vrun_ref in *.
  assert (S := supplied_reaches_body value is_none sg env NV dc is_async c j b n w Ig L ND G H I).
  rewrite (lookup_param_declared value dc n).
  destruct (lookup_param value dc n) as [p|] eqn:Lk; [|reflexivity].
  split; [eapply lookup_param_In; eassumption|]. split; [eapply lookup_param_name; eassumption | exact S].
Qed.
Print Assumptions C13_passed_value_beats_every_source.

(* ignore_input=True: the caller's input is ignored *)
Theorem C13_ignore_input : forall value is_none sg env dc is_async c,
  s_varpos sg = false ->
  d_ignore_input dc = true ->
  vrun is_none sg env dc is_async c = vrun is_none sg env dc is_async (Build_call value [] []).
Proof. intros. rewrite vrun_ref in *. eapply ignore_input_ignores; eauto. Qed.
Print Assumptions C13_ignore_input.

(* ---- THE CONCRETE SOURCES: environment variable, Flask JSON / form / query / header value, deserializer.
   Gen/ValidateSources.v is regenerated on every run from environment_variable_parameter.py and flask_parameters.py
   (has_value, load_value, get_dict of every class, resolved along the class hierarchy); Model/ValidateSources.v
   interprets the descriptions over a world (request: JSON body, form and query MultiDicts, headers; environment);
   Spec/ValidateSourcesSpec.v says, per kind of source, when the key is present and which value the source holds. ---- *)
Theorem C13_sources_are_reference :
  flask_json_parameter = ref_flask_json /\ flask_form_parameter = ref_flask_form /\ flask_get_parameter = ref_flask_get /\
  flask_header_parameter = ref_flask_header /\ generic_flask_deserializer = ref_deserializer /\
  environment_variable_parameter = ref_environment /\ env_var_rule = ref_env_var_rule /\
  flask_path_parameter_is_external = false /\ derives InvalidHeaderC ParameterExceptionC = true.
Proof. repeat split. Qed.
Print Assumptions C13_sources_are_reference.

Definition gen_class (k : source_kind) : source_class :=
  match k with
  | KJson => flask_json_parameter | KForm => flask_form_parameter | KQuery => flask_get_parameter
  | KHeader => flask_header_parameter | KEnv => environment_variable_parameter
  end.
(* a source object: its class, its key (self.name; for KEnv the variable env_var_rule chose), value_type == list *)
Definition gen_source (k : source_kind) (key : name) (as_list catch : bool) : source :=
  {| s_cls := gen_class k; s_key := key; s_list := as_list; s_catch := catch |}.

Lemma gen_source_ref : forall k key l c, gen_source k key l c = source_of k key l c.
Proof. intros [] key l c; reflexivity. Qed.

(* has_value() is exactly "the key is present in the source" (inside a request context for the Flask sources; outside
   one every access to `request` raises RuntimeError) *)
Theorem C13_source_has_value_iff_present : forall value hkey kind (w : world value) key l c,
  (in_context value kind w = true -> src_has value hkey (gen_source kind key l c) w = Ok (present value hkey kind w key)) /\
  (in_context value kind w = false -> src_has value hkey (gen_source kind key l c) w = Raise RuntimeErrorC).
Proof.
  intros. rewrite gen_source_ref. split; intro H; [now apply has_value_is_present | now apply has_value_outside_context].
Qed.
Print Assumptions C13_source_has_value_iff_present.

(* load_value() returns the value the source holds: the JSON member, the first value of the form field, the first value of
   the query key - all its values as a list when value_type is list -, the header looked up by its WSGI key, the
   environment variable without surrounding white space; and a source in which the key is present holds one *)
Theorem C13_source_load_value : forall value hkey strip of_list from_json kind (w : world value) key l c,
  (forall v, source_value value hkey strip of_list kind l w key = Some v ->
             src_load value hkey strip of_list from_json (gen_source kind key l c) w = WOk v) /\
  (present value hkey kind w key = true -> world_ok value w = true ->
   exists v, source_value value hkey strip of_list kind l w key = Some v).
Proof.
  intros. rewrite gen_source_ref. split.
  - intros v H. now apply load_value_is_source_value.
  - intros P O. now apply present_source_has_a_value.
Qed.
Print Assumptions C13_source_load_value.

(* GenericFlaskDeserializer: has_value() = the request is a JSON request; load_value() = cls.from_json(request.json),
   a ValidatorException becoming a ParameterException without parameter name, any other Exception a ParameterException
   carrying the name when catch_exception is set *)
Theorem C13_deserializer_source : forall value hkey strip of_list from_json (w : world value) rq key l c,
  wd_request w = Some rq ->
  let s := {| s_cls := generic_flask_deserializer; s_key := key; s_list := l; s_catch := c |} in
  src_has value hkey s w = Ok (is_some (fr_json rq)) /\
  (forall body, fr_json rq = Some body ->
    src_load value hkey strip of_list from_json s w =
    match from_json body with
    | Ok v => WOk v
    | Raise e =>
        if derives e ValidatorExceptionC then WRaise ParameterExceptionC None
        else if derives e ExceptionC then (if c then WRaise ParameterExceptionC (Some key) else WRaise e None)
        else WRaise e None
    end) /\
  (fr_json rq = None ->      (* load_value() without has_value(): request.json raises inside the try block *)
    src_load value hkey strip of_list from_json s w = if c then WRaise ParameterExceptionC (Some key) else WRaise ExceptionC None).
Proof.
  intros value hkey strip of_list from_json w rq key l c Hr s. split; [|split].
  - assert (H := deserializer_has_value value hkey w key l c). rewrite Hr in H. exact H.
  - intros body Hj. exact (deserializer_load_value value hkey strip of_list from_json w rq body key l c Hr Hj).
  - intro Hj. exact (deserializer_load_not_json value hkey strip of_list from_json w rq key l c Hr Hj).
Qed.
Print Assumptions C13_deserializer_source.

(* C13_external_only_when_absent over the concrete sources: the declaration binds Parameters to source objects
   (bind_sources evaluates has_value / load_value in the world); the caller passes a value for n: whatever the request
   and the environment hold for the sources of the Parameter(s) named n - two worlds in which all other sources look
   the same - the run is the same, journal included *)
Theorem C13_sources_only_when_absent :
  forall value is_none hkey strip of_list from_json sg env n (w w' : world value) sps ps ps' m strict ignore is_async c v,
  s_varpos sg = false ->
  bind_sources value hkey strip of_list from_json w sps = Ok ps ->
  bind_sources value hkey strip of_list from_json w' sps = Ok ps' ->
  agree_outside value hkey strip of_list from_json n w w' sps ->
  caller_gives value sg (deco_of value ps m strict ignore) c n v ->
  vrun is_none sg env (deco_of value ps' m strict ignore) is_async c = vrun is_none sg env (deco_of value ps m strict ignore) is_async c.
Proof. intros. rewrite vrun_ref in *. eapply sources_only_when_absent; eassumption. Qed.
Print Assumptions C13_sources_only_when_absent.

(* ... and a Parameter bound to a source in which its key is present is given the value of the source
   (external_gives: the hypothesis of C13_external_supplies_when_absent) *)
Theorem C13_source_gives_its_value : forall value hkey strip of_list from_json kind (w : world value) key l c p0 p,
  in_context value kind w = true -> world_ok value w = true -> present value hkey kind w key = true ->
  with_source value hkey strip of_list from_json w (p0, Some (gen_source kind key l c)) = Ok p ->
  exists v, source_value value hkey strip of_list kind l w key = Some v /\ external_gives value p v /\ p_name p = p_name p0.
Proof.
  intros value hkey strip of_list from_json kind w key l c p0 p Ctx O P W. rewrite gen_source_ref in W.
  destruct (ext_of_source_spec value hkey strip of_list from_json kind w key l c Ctx O) as [x [X [Hh Hl]]].
  unfold with_source in W. cbn [snd fst] in W. rewrite X in W. injection W as <-.
  destruct (Hl P) as [v [Sv Lv]]. exists v. split; [assumption|]. split; [|reflexivity].
  exists x. cbn [p_ext]. repeat split; [now rewrite Hh | assumption].
Qed.
Print Assumptions C13_source_gives_its_value.

(* ---- witnesses over a small universe: values are numbers, 0 plays None ---- *)
Definition nnone (v : nat) : bool := Nat.eqb v 0.
Definition at_most (k : nat) : vfun nat := fun v => if Nat.leb v k then Ok v else Raise ValidatorExceptionC.
Definition plus_one : vfun nat := fun v => Ok (S v).
Definition to_none : vfun nat := fun _ => Ok 0.
Definition mkparam (n : name) (chain : list (vfun nat)) (required : bool) (default : option nat) (x : option (ext nat)) : param nat :=
  {| p_name := n; p_convert := None; p_chain := chain; p_required := required; p_default := default;
     p_exc := ParameterExceptionC; p_ext := x; p_flask_json := false |}.
Definition mksig (ps : list (name * option nat)) (varkw : bool) : signature nat :=
  {| s_params := map (fun nd => {| sp_name := fst nd; sp_kwonly := false; sp_default := snd nd |}) ps; s_varkw := varkw; s_varpos := false |}.
Definition no_env : wenv := {| w_flask_installed := false; w_request := None |}.

(* former finding C13-K1 (fixed by d10af45): def f(b=5, a=0), Parameter a, strict=False: f(a=1, c=2) and f(c=2, a=1)
   used to bind differently under ARGS (arrival order) and differently from the KWARGS modes; now every mode and
   either keyword order ends in Python's TypeError for the unexpected keyword *)
Example C13_K1_witness_fixed :
  let sg := mksig [(2, Some 5); (1, Some 0)] false in
  let dc := {| d_params := [mkparam 1 [] true None None]; d_mode := ARGS; d_strict := false; d_ignore_input := false |} in
  let c := {| c_args := []; c_kwargs := [(1, 1); (3, 2)] |} in
  let c' := {| c_args := []; c_kwargs := [(3, 2); (1, 1)] |} in
  names_fit nat sg dc c = false /\
  snd (vrun nnone sg no_env dc false c) = FRaise TypeErrorC None /\
  snd (vrun nnone sg no_env dc false c') = FRaise TypeErrorC None /\
  snd (vrun nnone sg no_env (with_mode nat dc KWARGS_WITH_NONE) false c) = FRaise TypeErrorC None /\
  snd (vrun nnone sg no_env (with_mode nat dc KWARGS_WITHOUT_NONE) false c) = FRaise TypeErrorC None.
Proof. repeat split. Qed.

(* outside names_fit (open finding C13-K2): def f(a), Parameter a, strict=False; f(a=1, z=None): ARGS and
   KWARGS_WITH_NONE end in Python's TypeError for the unexpected keyword z, KWARGS_WITHOUT_NONE omits z together with
   the other None values and runs the body (names: a=1, z=7; 0 plays None) *)
Theorem C13_return_as_without_none_refuted : exists sg env dc is_async c,
  self_guard nat sg dc c = true /\ names_fit nat sg dc c = false /\
  ~ without_none_relation nat nnone sg
      (snd (vrun nnone sg env (with_mode nat dc KWARGS_WITH_NONE) is_async c))
      (snd (vrun nnone sg env (with_mode nat dc KWARGS_WITHOUT_NONE) is_async c)) /\
  snd (vrun nnone sg env (with_mode nat dc ARGS) is_async c) = FRaise TypeErrorC None /\
  snd (vrun nnone sg env (with_mode nat dc KWARGS_WITH_NONE) is_async c) = FRaise TypeErrorC None /\
  snd (vrun nnone sg env (with_mode nat dc KWARGS_WITHOUT_NONE) is_async c) = FBody [(1, 1)].
Proof.
  exists (mksig [(1, None)] false), no_env,
    {| d_params := [mkparam 1 [] true None None]; d_mode := ARGS; d_strict := false; d_ignore_input := false |},
    false, {| c_args := []; c_kwargs := [(1, 1); (7, 0)] |}.
  repeat split. intro H. vm_compute in H. discriminate H.
Qed.
Print Assumptions C13_return_as_without_none_refuted.

(* outside self_guard the call-style statement is false on the current source *)
(* (b) the name self by keyword: def f(self, a), Parameter a, strict: f(x, a=1) runs, f(self=x, a=1) raises *)
Theorem C13_self_by_keyword_refuted : exists sg env dc is_async c c',
  Permutation (named_assignment nat sg c) (named_assignment nat sg c') /\
  self_guard nat sg dc c = true /\ self_guard nat sg dc c' = false /\
  ~ final_equiv nat (snd (vrun nnone sg env dc is_async c)) (snd (vrun nnone sg env dc is_async c')).
Proof.
  exists (mksig [(0, None); (1, None)] false), no_env,
    {| d_params := [mkparam 1 [] true None None]; d_mode := KWARGS_WITH_NONE; d_strict := true; d_ignore_input := false |},
    false, {| c_args := [7]; c_kwargs := [(1, 1)] |}, {| c_args := []; c_kwargs := [(0, 7); (1, 1)] |}.
  repeat split.
  - apply perm_swap.
  - intro H. vm_compute in H. exact H.
Qed.
Print Assumptions C13_self_by_keyword_refuted.

(* outside self_guard, an external source declared under the name self: its value is bound to the first parameter
   and never arrives under its own name *)
Theorem C13_external_supplies_self_refuted : exists sg env dc is_async c j b p w v,
  self_guard nat sg dc c = false /\ NoDup (map (@p_name nat) (d_params dc)) /\
  vrun nnone sg env dc is_async c = (j, FBody b) /\ In p (d_params dc) /\
  (forall w', ~ caller_gives nat sg dc c (p_name p) w') /\ external_gives nat p w /\
  spec_param nat nnone p w = VPass v /\ d_mode dc <> KWARGS_WITHOUT_NONE /\ dget (p_name p) b <> Some v.
Proof.
  pose (x := Some {| e_has := true; e_load := Ok 8 |}).
  exists {| s_params := [{| sp_name := 1; sp_kwonly := false; sp_default := Some 1 |}]; s_varkw := true; s_varpos := false |}, no_env,
    {| d_params := [mkparam 0 [] true None x]; d_mode := KWARGS_WITH_NONE; d_strict := true; d_ignore_input := false |},
    false, {| c_args := []; c_kwargs := [] |}, [], [(1, 8)], (mkparam 0 [] true None x), 8, 8.
  repeat split; try reflexivity; try discriminate.
  - repeat constructor. cbn. tauto.
  - now left.
  - intros w' [_ G]. destruct G.
  - eexists. repeat split.
Qed.
Print Assumptions C13_external_supplies_self_refuted.

(* ---- non-vacuity: def f(a, b, c=9), Parameters declared as (c, a, b) ---- *)
Definition ex_sig := mksig [(1, None); (2, None); (3, Some 9)] false.
Definition pa := mkparam 1 [at_most 5; plus_one] true None None.
Definition pb := mkparam 2 [plus_one] true None None.
Definition pc := mkparam 3 [] false (Some 4) None.
Definition ex_deco (ps : list (param nat)) (m : return_as) : deco nat :=
  {| d_params := ps; d_mode := m; d_strict := true; d_ignore_input := false |}.

Example C13_call_style_hypotheses_satisfiable :
  let dc := ex_deco [pc; pa; pb] ARGS in
  let c1 := {| c_args := [3; 4; 6]; c_kwargs := [] |} in
  let c2 := {| c_args := [3]; c_kwargs := [(3, 6); (2, 4)] |} in
  let c3 := {| c_args := []; c_kwargs := [(2, 4); (3, 6); (1, 3)] |} in
  Permutation (named_assignment nat ex_sig c1) (named_assignment nat ex_sig c2) /\
  Permutation (named_assignment nat ex_sig c1) (named_assignment nat ex_sig c3) /\
  NoDup (keys (named_assignment nat ex_sig c1)) /\
  self_guard nat ex_sig dc c2 = true /\ self_guard nat ex_sig dc c3 = true /\
  snd (vrun nnone ex_sig no_env dc false c1) = FBody [(1, 4); (2, 5); (3, 6)] /\
  snd (vrun nnone ex_sig no_env dc false c2) = FBody [(1, 4); (2, 5); (3, 6)] /\
  snd (vrun nnone ex_sig no_env dc false c3) = FBody [(1, 4); (2, 5); (3, 6)].
Proof.
  cbv zeta. repeat split.
  - apply (Permutation_cons_app [(3, 6); (2, 4)] []). apply perm_swap.
  - apply (Permutation_cons_app [(2, 4); (3, 6)] []). apply Permutation_refl.
  - repeat constructor; cbn; intuition discriminate.
Qed.

(* ignore_input=True with a Parameter that has no source of its own (a plain Parameter, or FlaskPathParameter - a plain Parameter
   subclass without any override): def listing(tenant=9, limit=9), Parameter tenant default 7, limit default 4 (a default reaches the body as it is); whatever the
   caller passes and however (by position, by keyword, mixed, nothing), the body sees the defaults (names: tenant=1, limit=2) *)
Example C13_ignore_input_hypotheses_satisfiable :
  let sg := mksig [(1, Some 9); (2, Some 9)] false in
  let dc := {| d_params := [mkparam 1 [at_most 8] false (Some 7) None; mkparam 2 [plus_one] false (Some 4) None];
               d_mode := KWARGS_WITH_NONE; d_strict := true; d_ignore_input := true |} in
  snd (vrun nnone sg no_env dc false {| c_args := []; c_kwargs := [] |}) = FBody [(1, 7); (2, 4)] /\
  snd (vrun nnone sg no_env dc false {| c_args := [3; 6]; c_kwargs := [] |}) = FBody [(1, 7); (2, 4)] /\
  snd (vrun nnone sg no_env dc false {| c_args := []; c_kwargs := [(1, 3)] |}) = FBody [(1, 7); (2, 4)] /\
  snd (vrun nnone sg no_env dc false {| c_args := [3]; c_kwargs := [(2, 6)] |}) = FBody [(1, 7); (2, 4)].
Proof. repeat split. Qed.

Example C13_declaration_order_hypotheses_satisfiable :
  same_but_params nat (ex_deco [pc; pa; pb] ARGS) (ex_deco [pb; pc; pa] ARGS) /\
  NoDup (map (@p_name nat) (d_params (ex_deco [pc; pa; pb] ARGS))) /\
  snd (vrun nnone ex_sig no_env (ex_deco [pb; pc; pa] ARGS) false {| c_args := [3]; c_kwargs := [(2, 4)] |})
  = FBody [(1, 4); (2, 5); (3, 4)].
Proof.
  repeat split.
  - cbn. apply (Permutation_cons_app [pb] [pa]). apply (Permutation_cons_app [pb] []). apply Permutation_refl.
  - repeat constructor; cbn; intuition discriminate.
Qed.

(* a validator that returns None: KWARGS_WITHOUT_NONE lets the signature default of c apply *)
Example C13_return_as_hypotheses_satisfiable :
  let dc := ex_deco [pa; pb; mkparam 3 [to_none] false None None] ARGS in
  let c := {| c_args := [3; 4; 6]; c_kwargs := [] |} in
  self_guard nat ex_sig dc c = true /\ names_fit nat ex_sig dc c = true /\
  snd (vrun nnone ex_sig no_env (with_mode nat dc ARGS) false c) = FBody [(1, 4); (2, 5); (3, 0)] /\
  snd (vrun nnone ex_sig no_env (with_mode nat dc KWARGS_WITHOUT_NONE) false c) = FBody [(1, 4); (2, 5); (3, 9)].
Proof. repeat split. Qed.

Example C13_external_hypotheses_satisfiable :
  let x := Some {| e_has := true; e_load := Ok 2 |} in
  let dc := ex_deco [pa; mkparam 2 [plus_one] true None x; pc] KWARGS_WITH_NONE in
  (* the caller passes b: the source is not consulted *)
  snd (vrun nnone ex_sig no_env dc false {| c_args := [3; 4]; c_kwargs := [] |}) = FBody [(1, 4); (2, 5); (3, 4)] /\
  caller_gives nat ex_sig dc {| c_args := [3; 4]; c_kwargs := [] |} 2 4 /\
  (* the caller does not: the body sees plus_one 2 *)
  snd (vrun nnone ex_sig no_env dc false {| c_args := [3]; c_kwargs := [] |}) = FBody [(1, 4); (2, 3); (3, 4)] /\
  external_gives nat (mkparam 2 [plus_one] true None x) 2.
Proof.
  cbv zeta. repeat split.
  - right. now left.
  - eexists. repeat split.
Qed.

(* several Parameters for ONE name: def f(a, b, c=9); a current and a legacy source for b, both holding a value, and a
   plain Parameter b declared last.  The caller passes b: the body sees the chain output of the caller's value, none
   of the sources is consulted (journal: only the chain of the last declaration runs, once) *)
Example C13_duplicate_names_hypotheses_satisfiable :
  let cur := Some {| e_has := true; e_load := Ok 7 |} in
  let legacy := Some {| e_has := true; e_load := Ok 8 |} in
  let dc := ex_deco [mkparam 2 [] false None cur; pa; mkparam 2 [] false None legacy; mkparam 2 [plus_one] true None None; pc] ARGS in
  let c := {| c_args := [3]; c_kwargs := [(2, 4)] |} in
  NoDup (keys (named_assignment nat ex_sig c)) /\ self_guard nat ex_sig dc c = true /\
  caller_gives nat ex_sig dc c 2 4 /\
  lookup_param nat dc 2 = Some (mkparam 2 [plus_one] true None None) /\
  vrun nnone ex_sig no_env dc false c = ([(2, 0, 4); (1, 0, 3); (1, 1, 3)], FBody [(1, 4); (2, 5); (3, 4)]) /\
  (* another world: the current source is gone, the legacy one broken - nothing changes *)
  vrun nnone ex_sig no_env (replace_ext nat dc 2 (Some {| e_has := true; e_load := Raise KeyErrorC |})) false c
  = vrun nnone ex_sig no_env dc false c.
Proof.
  cbv zeta. repeat split.
  - repeat constructor; cbn; intuition discriminate.
  - now left.
Qed.

(* the concrete sources: two EnvironmentVariableParameters for the name 2 reading the variables 20 (current) and 21 (legacy),
   a query parameter for the name 3; the caller passes 2: the environment may hold anything under 20 and 21 *)
Definition ex_hkey (k : name) : name := k.
Definition ex_strip (v : nat) : nat := v.
Definition ex_of_list (l : list nat) : nat := List.length l.
Definition ex_from_json (b : json_body nat) : outcome nat := Ok 1.
Definition ex_request (args : mdict nat) : frequest nat := {| fr_json := None; fr_form := []; fr_args := args; fr_headers := [] |}.
Definition ex_sps : list (sparam nat) :=
  [ (pa, None);
    (mkparam 2 [plus_one] false None None, Some (gen_source KEnv 20 false true));
    (mkparam 2 [plus_one] false None None, Some (gen_source KEnv 21 false true));
    (mkparam 3 [] false None None, Some (gen_source KQuery 3 false true)) ].

Example C13_concrete_sources_hypotheses_satisfiable :
  let w := {| wd_request := Some (ex_request [(3, [6; 7])]); wd_environ := [(20, 5)] |} in
  let w' := {| wd_request := Some (ex_request [(3, [6; 7])]); wd_environ := [(21, 8); (20, 2)] |} in
  let c := {| c_args := [3; 4]; c_kwargs := [] |} in
  exists ps ps',
    bind_sources nat ex_hkey ex_strip ex_of_list ex_from_json w ex_sps = Ok ps /\
    bind_sources nat ex_hkey ex_strip ex_of_list ex_from_json w' ex_sps = Ok ps' /\
    agree_outside nat ex_hkey ex_strip ex_of_list ex_from_json 2 w w' ex_sps /\
    caller_gives nat ex_sig (deco_of nat ps KWARGS_WITH_NONE true false) c 2 4 /\
    (* the caller passes a and b, the query string supplies c (first of its two values) *)
    snd (vrun nnone ex_sig no_env (deco_of nat ps KWARGS_WITH_NONE true false) false c) = FBody [(1, 4); (2, 5); (3, 6)] /\
    snd (vrun nnone ex_sig no_env (deco_of nat ps' KWARGS_WITH_NONE true false) false c) = FBody [(1, 4); (2, 5); (3, 6)] /\
    (* the caller passes a only: the variables supply b (here the last declared one that has a value) *)
    snd (vrun nnone ex_sig no_env (deco_of nat ps' KWARGS_WITH_NONE true false) false {| c_args := [3]; c_kwargs := [] |})
    = FBody [(1, 4); (2, 9); (3, 6)] /\
    present nat ex_hkey KQuery w 3 = true /\ source_value nat ex_hkey ex_strip ex_of_list KQuery false w 3 = Some 6 /\
    source_value nat ex_hkey ex_strip ex_of_list KQuery true w 3 = Some 2 /\
    present nat ex_hkey KEnv w 21 = false /\ world_ok nat w = true.
Proof.
  cbv zeta. eexists. eexists. split; [reflexivity|]. split; [reflexivity|]. repeat split.
  - intros sp s I E N. cbn [ex_sps In] in I.
    destruct I as [<-|[<-|[<-|[<-|[]]]]]; cbn [snd fst] in *; try discriminate E; try (exfalso; apply N; reflexivity).
    injection E as <-. reflexivity.
  - right. now left.
Qed.
