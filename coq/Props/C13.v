(* C13 - @validate binds by name: call style, declaration order, return_as mode and sources are interchangeable.

   Property theorems about the configuration regenerated from fn_deco_validate.py on every run (Gen/Validate.v),
   for every value universe, every signature WITHOUT a var-positional parameter (any number of parameters,
   keyword-only parameters, **kwargs, defaults, with / without self), every list of Parameters with validator
   chains of any length, strict on / off, sync / async.

   `final_equiv f f'`: both runs reach the body and it observes the same value under every name, or neither
   reaches the body.  Which exception leaves may depend on the order of arrival (the first rejection wins, C12).

   Guard: self_guard (the name `self` arrives only as the implicit first positional argument and is no Parameter
   name - outside it the statements are FALSE on the current source: C13_self_by_keyword_refuted,
   C13_external_supplies_self_refuted; open finding C13-K3).  C13_return_as_without_none additionally needs names_fit
   (every name that reaches the function is one of its parameters, or it takes **kwargs) - outside it FALSE:
   C13_return_as_without_none_refuted, open finding C13-K2 (a surplus keyword whose value is None is omitted with
   the other None values: KWARGS_WITHOUT_NONE runs the body where ARGS and KWARGS_WITH_NONE end in TypeError).
   The relational theorems are completed by C13_binding_is_specified (= C12_run_meets_spec): the binding is not
   only the same for all styles / orders / modes, it is the one the specification demands.
   History: until /repo commit d10af45 `_as_args` fell back to arrival order when a name outside the signature
   reached a function without **kwargs (finding C13-K1 = C12-K1); the former refutations are now the Examples
   C13_K1_witness_fixed.
   History independence: the model is a pure function of (signature, declaration, call); that the implementation has
   no memory either (e.g. nothing cached on Parameter objects shared by several decorated functions) is checked by
   the correspondence stream `validate-shared` (harness/v_common.py gen_shared): sequences of calls of functions
   decorated with the SAME Parameter objects, every call compared with the model of that call alone.
   Functions with *args keep arrival order on purpose (repository test
   test_return_as_args_advanced_different_order); the property text excludes them and so does the model.   *)
From Coq Require Import List Arith Bool Permutation.
From PV Require Import Base.Exn Model.ValidateSem Spec.ValidateSpec Proofs.ValidateDict Proofs.ValidateRef
  Proofs.ValidateBind Proofs.ValidateGate Proofs.ValidateByName Proofs.ValidateSpecLink Gen.Validate.
Import ListNotations.

Definition vrun {value : Type} (is_none : value -> bool) :=
  run value is_none Gen.Validate.cfg Gen.Validate.is_required_rule.

Theorem C13_cfg_is_reference :
  Gen.Validate.cfg = reference_cfg /\ Gen.Validate.is_required_rule = reference_req_rule.
Proof. split; reflexivity. Qed.
Print Assumptions C13_cfg_is_reference.

Lemma vrun_ref : forall value is_none, @vrun value is_none = run value is_none reference_cfg reference_req_rule.
Proof. intros. unfold vrun. destruct C13_cfg_is_reference as [-> ->]. reflexivity. Qed.

(* THE BINDING IS THE SPECIFIED ONE (see C12_run_meets_spec): well-formed declaration and call - the run ends as
   Spec/ValidateSpec.v spec_outcome demands, which is a function of the named assignment only *)
Theorem C13_binding_is_specified : forall value is_none sg env dc c is_async,
  s_varpos sg = false ->
  decl_wellformed value sg dc = true -> call_wellformed value sg c = true ->
  declared value dc self_name = false ->
  (forall p, In p (d_params dc) -> derives (p_exc p) ParameterExceptionC = true) ->
  snd (flask_m value env dc) = WOk tt ->
  match spec_outcome value is_none sg dc c with
  | DRaise rs => exists e pn, snd (vrun is_none sg env dc is_async c) = FRaise e pn /\ raise_allowed e pn rs
  | DPythonRejects => snd (vrun is_none sg env dc is_async c) = FRaise TypeErrorC None
  | DBody b => names_fit value sg dc c = true ->
               exists b', snd (vrun is_none sg env dc is_async c) = FBody b' /\ deq b' b
  end.
Proof. intros. rewrite vrun_ref in *. now apply run_meets_spec. Qed.
Print Assumptions C13_binding_is_specified.

(* CALL STYLE.  named_assignment c = which name is given which value (keywords, and positionals under the names
   of the parameters they bind to).  Two calls Python accepts with the same named assignment - any split into a
   positional prefix and keywords, the keywords in any order - end the same way. *)
Theorem C13_call_style_invariant : forall value is_none sg env dc is_async c c',
  s_varpos sg = false ->
  d_ignore_input dc = false ->
  List.length (c_args c) <= List.length (pos_params value sg) ->
  List.length (c_args c') <= List.length (pos_params value sg) ->
  Permutation (named_assignment value sg c) (named_assignment value sg c') ->
  NoDup (keys (named_assignment value sg c)) ->
  self_guard value sg dc c = true -> self_guard value sg dc c' = true ->
  final_equiv value (snd (vrun is_none sg env dc is_async c)) (snd (vrun is_none sg env dc is_async c')).
Proof. intros. rewrite vrun_ref in *. eapply call_style_invariant'; eauto. Qed.
Print Assumptions C13_call_style_invariant.

(* DECLARATION ORDER.  Any permutation of the Parameter list (names pairwise distinct) *)
Theorem C13_declaration_order_invariant : forall value is_none sg env dc dc' is_async c,
  s_varpos sg = false ->
  same_but_params value dc dc' -> NoDup (map (@p_name value) (d_params dc)) ->
  self_guard value sg dc c = true -> self_guard value sg dc' c = true ->
  final_equiv value (snd (vrun is_none sg env dc is_async c)) (snd (vrun is_none sg env dc' is_async c)).
Proof. intros. rewrite vrun_ref in *. eapply declaration_order_invariant; eauto. Qed.
Print Assumptions C13_declaration_order_invariant.

(* RETURN_AS.  ARGS and KWARGS_WITH_NONE end identically (same binding in the same order, same exception) ... *)
Theorem C13_return_as_invariant : forall value is_none sg env dc is_async c,
  s_varpos sg = false ->
  self_guard value sg dc c = true ->
  snd (vrun is_none sg env (with_mode value dc ARGS) is_async c) =
  snd (vrun is_none sg env (with_mode value dc KWARGS_WITH_NONE) is_async c).
Proof. intros. rewrite vrun_ref in *. eapply args_equals_kwargs; eauto. Qed.
Print Assumptions C13_return_as_invariant.

(* ... and KWARGS_WITHOUT_NONE differs from them exactly by omitting None values, so that signature defaults
   apply: same exception if _wrapper_content raised; same values under all names whose value is not None; the
   signature default where the value is None; Python's TypeError if such a parameter has no default *)
Theorem C13_return_as_without_none : forall value is_none sg env dc is_async c,
  s_varpos sg = false ->
  self_guard value sg dc c = true -> names_fit value sg dc c = true ->
  without_none_relation value is_none sg
    (snd (vrun is_none sg env (with_mode value dc KWARGS_WITH_NONE) is_async c))
    (snd (vrun is_none sg env (with_mode value dc KWARGS_WITHOUT_NONE) is_async c)).
Proof. intros. rewrite vrun_ref in *. eapply kwargs_without_none; eauto. Qed.
Print Assumptions C13_return_as_without_none.

(* EXTERNAL SOURCES.  If the caller passes a value for a declared name, the external source of that name is never
   consulted: replacing it by any other source (absent, present, raising) changes nothing, journal included ... *)
Theorem C13_external_only_when_absent : forall value is_none sg env dc n e is_async c w,
  s_varpos sg = false ->
  caller_gives value sg dc c n w -> declared value dc n = true ->
  vrun is_none sg env (replace_ext value dc n e) is_async c = vrun is_none sg env dc is_async c.
Proof. intros. rewrite vrun_ref in *. eapply external_unused_when_supplied; eassumption. Qed.
Print Assumptions C13_external_only_when_absent.

(* ... and if the caller passes none, the body sees the chain output of the external value *)
Theorem C13_external_supplies_when_absent : forall value is_none sg env dc is_async c j b p w v,
  s_varpos sg = false ->
  self_guard value sg dc c = true ->
  NoDup (map (@p_name value) (d_params dc)) ->
  vrun is_none sg env dc is_async c = (j, FBody b) ->
  In p (d_params dc) -> (forall w', ~ caller_gives value sg dc c (p_name p) w') ->
  external_gives value p w -> spec_param value is_none p w = VPass v ->
  (d_mode dc <> KWARGS_WITHOUT_NONE \/ is_none v = false) ->
  dget (p_name p) b = Some v.
Proof. intros. rewrite vrun_ref in *. eapply external_supplies_when_absent; eauto. Qed.
Print Assumptions C13_external_supplies_when_absent.

(* ignore_input=True: the caller's input is ignored *)
Theorem C13_ignore_input : forall value is_none sg env dc is_async c,
  s_varpos sg = false ->
  d_ignore_input dc = true ->
  vrun is_none sg env dc is_async c = vrun is_none sg env dc is_async (Build_call value [] []).
Proof. intros. rewrite vrun_ref in *. eapply ignore_input_ignores; eauto. Qed.
Print Assumptions C13_ignore_input.

(* ---- witnesses over a small universe: values are numbers, 0 plays None ---- *)
Definition nnone (v : nat) : bool := Nat.eqb v 0.
Definition at_most (k : nat) : vfun nat := fun v => if Nat.leb v k then Ok v else Raise ValidatorExceptionC.
Definition plus_one : vfun nat := fun v => Ok (S v).
Definition to_none : vfun nat := fun _ => Ok 0.
Definition mkparam (n : name) (chain : list (vfun nat)) (required : bool) (default : option nat) (x : option (ext nat)) : param nat :=
  {| p_name := n; p_convert := None; p_chain := chain; p_required := required; p_default := default;
     p_exc := ParameterExceptionC; p_ext := x; p_flask_json := false |}.
Definition mksig (ps : list (name * option nat)) (varkw : bool) : signature nat :=
  {| s_params := map (fun nd => {| sp_name := fst nd; sp_kwonly := false; sp_default := snd nd |}) ps; s_varkw := varkw; s_varpos := false |}.
Definition no_env : wenv := {| w_flask_installed := false; w_request := None |}.

(* former finding C13-K1 (fixed by d10af45): def f(b=5, a=0), Parameter a, strict=False: f(a=1, c=2) and f(c=2, a=1)
   used to bind differently under ARGS (arrival order) and differently from the KWARGS modes; now every mode and
   either keyword order ends in Python's TypeError for the unexpected keyword *)
Example C13_K1_witness_fixed :
  let sg := mksig [(2, Some 5); (1, Some 0)] false in
  let dc := {| d_params := [mkparam 1 [] true None None]; d_mode := ARGS; d_strict := false; d_ignore_input := false |} in
  let c := {| c_args := []; c_kwargs := [(1, 1); (3, 2)] |} in
  let c' := {| c_args := []; c_kwargs := [(3, 2); (1, 1)] |} in
  names_fit nat sg dc c = false /\
  snd (vrun nnone sg no_env dc false c) = FRaise TypeErrorC None /\
  snd (vrun nnone sg no_env dc false c') = FRaise TypeErrorC None /\
  snd (vrun nnone sg no_env (with_mode nat dc KWARGS_WITH_NONE) false c) = FRaise TypeErrorC None /\
  snd (vrun nnone sg no_env (with_mode nat dc KWARGS_WITHOUT_NONE) false c) = FRaise TypeErrorC None.
Proof. repeat split. Qed.

(* outside names_fit (open finding C13-K2): def f(a), Parameter a, strict=False; f(a=1, z=None): ARGS and
   KWARGS_WITH_NONE end in Python's TypeError for the unexpected keyword z, KWARGS_WITHOUT_NONE omits z together with
   the other None values and runs the body (names: a=1, z=7; 0 plays None) *)
Theorem C13_return_as_without_none_refuted : exists sg env dc is_async c,
  self_guard nat sg dc c = true /\ names_fit nat sg dc c = false /\
  ~ without_none_relation nat nnone sg
      (snd (vrun nnone sg env (with_mode nat dc KWARGS_WITH_NONE) is_async c))
      (snd (vrun nnone sg env (with_mode nat dc KWARGS_WITHOUT_NONE) is_async c)) /\
  snd (vrun nnone sg env (with_mode nat dc ARGS) is_async c) = FRaise TypeErrorC None /\
  snd (vrun nnone sg env (with_mode nat dc KWARGS_WITH_NONE) is_async c) = FRaise TypeErrorC None /\
  snd (vrun nnone sg env (with_mode nat dc KWARGS_WITHOUT_NONE) is_async c) = FBody [(1, 1)].
Proof.
  exists (mksig [(1, None)] false), no_env,
    {| d_params := [mkparam 1 [] true None None]; d_mode := ARGS; d_strict := false; d_ignore_input := false |},
    false, {| c_args := []; c_kwargs := [(1, 1); (7, 0)] |}.
  repeat split. intro H. vm_compute in H. discriminate H.
Qed.
Print Assumptions C13_return_as_without_none_refuted.

(* outside self_guard the call-style statement is false on the current source *)
(* (b) the name self by keyword: def f(self, a), Parameter a, strict: f(x, a=1) runs, f(self=x, a=1) raises *)
Theorem C13_self_by_keyword_refuted : exists sg env dc is_async c c',
  Permutation (named_assignment nat sg c) (named_assignment nat sg c') /\
  self_guard nat sg dc c = true /\ self_guard nat sg dc c' = false /\
  ~ final_equiv nat (snd (vrun nnone sg env dc is_async c)) (snd (vrun nnone sg env dc is_async c')).
Proof.
  exists (mksig [(0, None); (1, None)] false), no_env,
    {| d_params := [mkparam 1 [] true None None]; d_mode := KWARGS_WITH_NONE; d_strict := true; d_ignore_input := false |},
    false, {| c_args := [7]; c_kwargs := [(1, 1)] |}, {| c_args := []; c_kwargs := [(0, 7); (1, 1)] |}.
  repeat split.
  - apply perm_swap.
  - intro H. vm_compute in H. exact H.
Qed.
Print Assumptions C13_self_by_keyword_refuted.

(* outside self_guard, an external source declared under the name self: its value is bound to the first parameter
   and never arrives under its own name *)
Theorem C13_external_supplies_self_refuted : exists sg env dc is_async c j b p w v,
  self_guard nat sg dc c = false /\ NoDup (map (@p_name nat) (d_params dc)) /\
  vrun nnone sg env dc is_async c = (j, FBody b) /\ In p (d_params dc) /\
  (forall w', ~ caller_gives nat sg dc c (p_name p) w') /\ external_gives nat p w /\
  spec_param nat nnone p w = VPass v /\ d_mode dc <> KWARGS_WITHOUT_NONE /\ dget (p_name p) b <> Some v.
Proof.
  pose (x := Some {| e_has := true; e_load := Ok 8 |}).
  exists {| s_params := [{| sp_name := 1; sp_kwonly := false; sp_default := Some 1 |}]; s_varkw := true; s_varpos := false |}, no_env,
    {| d_params := [mkparam 0 [] true None x]; d_mode := KWARGS_WITH_NONE; d_strict := true; d_ignore_input := false |},
    false, {| c_args := []; c_kwargs := [] |}, [], [(1, 8)], (mkparam 0 [] true None x), 8, 8.
  repeat split; try reflexivity; try discriminate.
  - repeat constructor. cbn. tauto.
  - now left.
  - intros w' [_ G]. destruct G.
  - eexists. repeat split.
Qed.
Print Assumptions C13_external_supplies_self_refuted.

(* ---- non-vacuity: def f(a, b, c=9), Parameters declared as (c, a, b) ---- *)
Definition ex_sig := mksig [(1, None); (2, None); (3, Some 9)] false.
Definition pa := mkparam 1 [at_most 5; plus_one] true None None.
Definition pb := mkparam 2 [plus_one] true None None.
Definition pc := mkparam 3 [] false (Some 4) None.
Definition ex_deco (ps : list (param nat)) (m : return_as) : deco nat :=
  {| d_params := ps; d_mode := m; d_strict := true; d_ignore_input := false |}.

Example C13_call_style_hypotheses_satisfiable :
  let dc := ex_deco [pc; pa; pb] ARGS in
  let c1 := {| c_args := [3; 4; 6]; c_kwargs := [] |} in
  let c2 := {| c_args := [3]; c_kwargs := [(3, 6); (2, 4)] |} in
  let c3 := {| c_args := []; c_kwargs := [(2, 4); (3, 6); (1, 3)] |} in
  Permutation (named_assignment nat ex_sig c1) (named_assignment nat ex_sig c2) /\
  Permutation (named_assignment nat ex_sig c1) (named_assignment nat ex_sig c3) /\
  NoDup (keys (named_assignment nat ex_sig c1)) /\
  self_guard nat ex_sig dc c2 = true /\ self_guard nat ex_sig dc c3 = true /\
  snd (vrun nnone ex_sig no_env dc false c1) = FBody [(1, 4); (2, 5); (3, 6)] /\
  snd (vrun nnone ex_sig no_env dc false c2) = FBody [(1, 4); (2, 5); (3, 6)] /\
  snd (vrun nnone ex_sig no_env dc false c3) = FBody [(1, 4); (2, 5); (3, 6)].
Proof.
  cbv zeta. repeat split.
  - apply (Permutation_cons_app [(3, 6); (2, 4)] []). apply perm_swap.
  - apply (Permutation_cons_app [(2, 4); (3, 6)] []). apply Permutation_refl.
  - repeat constructor; cbn; intuition discriminate.
Qed.

Example C13_declaration_order_hypotheses_satisfiable :
  same_but_params nat (ex_deco [pc; pa; pb] ARGS) (ex_deco [pb; pc; pa] ARGS) /\
  NoDup (map (@p_name nat) (d_params (ex_deco [pc; pa; pb] ARGS))) /\
  snd (vrun nnone ex_sig no_env (ex_deco [pb; pc; pa] ARGS) false {| c_args := [3]; c_kwargs := [(2, 4)] |})
  = FBody [(1, 4); (2, 5); (3, 4)].
Proof.
  repeat split.
  - cbn. apply (Permutation_cons_app [pb] [pa]). apply (Permutation_cons_app [pb] []). apply Permutation_refl.
  - repeat constructor; cbn; intuition discriminate.
Qed.

(* a validator that returns None: KWARGS_WITHOUT_NONE lets the signature default of c apply *)
Example C13_return_as_hypotheses_satisfiable :
  let dc := ex_deco [pa; pb; mkparam 3 [to_none] false None None] ARGS in
  let c := {| c_args := [3; 4; 6]; c_kwargs := [] |} in
  self_guard nat ex_sig dc c = true /\ names_fit nat ex_sig dc c = true /\
  snd (vrun nnone ex_sig no_env (with_mode nat dc ARGS) false c) = FBody [(1, 4); (2, 5); (3, 0)] /\
  snd (vrun nnone ex_sig no_env (with_mode nat dc KWARGS_WITHOUT_NONE) false c) = FBody [(1, 4); (2, 5); (3, 9)].
Proof. repeat split. Qed.

Example C13_external_hypotheses_satisfiable :
  let x := Some {| e_has := true; e_load := Ok 2 |} in
  let dc := ex_deco [pa; mkparam 2 [plus_one] true None x; pc] KWARGS_WITH_NONE in
  (* the caller passes b: the source is not consulted *)
  snd (vrun nnone ex_sig no_env dc false {| c_args := [3; 4]; c_kwargs := [] |}) = FBody [(1, 4); (2, 5); (3, 4)] /\
  caller_gives nat ex_sig dc {| c_args := [3; 4]; c_kwargs := [] |} 2 4 /\
  (* the caller does not: the body sees plus_one 2 *)
  snd (vrun nnone ex_sig no_env dc false {| c_args := [3]; c_kwargs := [] |}) = FBody [(1, 4); (2, 3); (3, 4)] /\
  external_gives nat (mkparam 2 [plus_one] true None x) 2.
Proof.
  cbv zeta. repeat split.
  - right. now left.
  - eexists. repeat split.
Qed.
