(* C20 - mixins: GenericMixin.type_vars / type_var and WithDecoratedMethods.get_decorated_functions return
   exactly the documented mapping / set.  Property theorems only.

   `Gen.Mixins.progs` / `prog_decorator_fun` are the bodies of get_generic_base, _get_types, type_var,
   type_vars, get_decorated_functions and of the innermost function of create_decorator, regenerated from
   pedantic/mixins/*.py on every run; Model/Mixins.v interprets them.  Every theorem below is about these
   regenerated terms, for every fuel `k` of the call-depth bound (the harness evaluates k = 4 / 3); a chain of
   forwarding classes of length S f0 needs f0 more levels: the statements say `f0 + k`, so fuel exhaustion (the
   distinguished DivergeC) is excluded by the statement.

   World: classes with their own __orig_bases__ and MRO; `lookup_ob w c` is the attribute lookup
   C.__orig_bases__.  Type arguments, TypeVars, decorator values are arbitrary values of the model.   *)
From Coq Require Import List ZArith Bool String Lia.
From PV Require Import Base.Exn Model.Mixins Spec.MixinsSpec Gen.Mixins Model.MixinsEval
  Proofs.MixinsExec Proofs.MixinsProofs Proofs.MixinsDeco.
Import ListNotations.
Open Scope nat_scope.
Open Scope string_scope.
Open Scope list_scope.

(* the entry points evaluated by the correspondence check are instances of the ones the theorems speak about *)
Theorem C20_entry_points : forall w c oc,
  call_n progs w no_ext FUEL "type_vars" [VInst c oc] = type_vars_at w 4 c oc /\
  call_n progs w no_ext FUEL "type_var" [VInst c oc] = type_var_at w 4 c oc /\
  call_n progs w no_ext FUEL "get_decorated_functions" [VInst c oc] = gdf_at w 3 c oc.
Proof. intros. repeat split; reflexivity. Qed.
Print Assumptions C20_entry_points.

(* translation obligations: WithDecoratedMethods(ABC, Generic[E], GenericMixin) declares one parameter;
   create_decorator is decorator(value) -> fun(f); DecoratorType is a StrEnum *)
Theorem C20_translation_facts :
  declares_generic Gen.Mixins.wdm_own_bases [VTok 0] /\
  Gen.Mixins.create_decorator_nesting_ok = true /\ Gen.Mixins.decorator_type_is_strenum = true.
Proof.
  split; [|split; reflexivity]. exists [VCls 900], [VCls 901]. repeat split; reflexivity.
Qed.
Print Assumptions C20_translation_facts.

(* ---------------------------------------------------------------------------------------------------- *)
(* type_vars: the three supported shapes, any number n of type parameters, any arguments                   *)

(* shape 1: class C(<bases>, Generic[T1..Tn], <bases>) - Generic[..] at any position, the other bases
   classes or aliases - instantiated as C[X1..Xn]():  exactly {Ti: Xi}, in declaration order.
   shapes 2 and 3, full statement: class S(<extra bases>, D[Z..], <further bases>), D[..] the first parametrised base
   that uses the mixin, the extra bases in front of it classes or parametrised bases that have nothing to do with the
   mixin (List[int]; P[int] with a generic P that does not use GenericMixin - fix c1eb572), D either declaring
   Generic[T1..Tn] itself or having got its parameters through a chain of forwarding / partially binding classes of
   any length S f0 (class Half(A[int, U]); class Full(Half[str]) - fix 645b1a0): the mapping of the declaring class's
   TypeVars to the arguments resolved along the chain (Spec `resolve`), all of them bound, however the instance was
   made (also inside __init__). *)
Theorem C20_type_vars_exact : forall w f0 k c ts xs,
  (direct_generic w c ts -> forall o, type_vars_at w k c (Some (VAlias o xs)) = Ok (VDict (combine ts xs))) /\
  (chain_binding w (S f0) c ts xs -> forall oc, type_vars_at w (f0 + k) c oc = Ok (VDict (combine ts xs))).
Proof.
  intros. split; intros H ?; [now apply tv_direct|now apply tv_chain].
Qed.
Print Assumptions C20_type_vars_exact.

(* the case of a binding base that declares Generic[..] itself (chain of length 1), without reference to `resolve`;
   "binds all parameters": no argument is a TypeVar of the world (is_param) *)
Theorem C20_type_vars_exact_declaring_base : forall w k c ts xs,
  binding_subclass w c ts xs -> forallb (fun x => negb (is_param w x)) xs = true ->
  chain_binding w 1 c ts xs /\ forall oc, type_vars_at w k c oc = Ok (VDict (combine ts xs)).
Proof.
  intros w k c ts xs H Hc. split; [now apply binding_is_chain|intro; now apply tv_binding].
Qed.
Print Assumptions C20_type_vars_exact_declaring_base.

(* the witnesses of the repaired findings K-C20-builtin-alias-first and K-C20-foreign-generic-first now meet the statement:
     class D(Generic[T], GenericMixin); class P(Generic[U])            (classes 10 and 11; the mixin is class 1)
     class S1(List[int], D[str])  ->  {T: str}     (was: AttributeError; list: class 50, no __orig_bases__)
     class S3(P[int], D[str])     ->  {T: str}     (was: {U: int}) *)
Definition fb_world : world :=
  {| w_classes := [(10, {| c_own_ob := Some [VAlias VGeneric [VTok 0]; VCls 1]; c_mro := [10; 2; 1; 0]; c_params := [] |});
                   (11, {| c_own_ob := Some [VAlias VGeneric [VTok 1]]; c_mro := [11; 2; 0]; c_params := [] |});
                   (12, {| c_own_ob := Some [VAlias (VCls 50) [VTok 20]; VAlias (VCls 10) [VTok 21]]; c_mro := [12; 50; 10; 2; 1; 0]; c_params := [] |});
                   (13, {| c_own_ob := Some [VAlias (VCls 11) [VTok 20]; VAlias (VCls 10) [VTok 21]]; c_mro := [13; 11; 10; 2; 1; 0]; c_params := [] |})];
     w_attrs := []; w_mixin := 1 |}.

Example C20_example_foreign_bases :
  binding_subclass fb_world 12 [VTok 0] [VTok 21] /\ binding_subclass fb_world 13 [VTok 0] [VTok 21] /\
  (forall k oc, type_vars_at fb_world k 12 oc = Ok (VDict [(VTok 0, VTok 21)])) /\
  (forall k oc, type_vars_at fb_world k 13 oc = Ok (VDict [(VTok 0, VTok 21)])).
Proof.
  assert (H12 : binding_subclass fb_world 12 [VTok 0] [VTok 21]) by (apply binding_subclass_b_sound; vm_compute; reflexivity).
  assert (H13 : binding_subclass fb_world 13 [VTok 0] [VTok 21]) by (apply binding_subclass_b_sound; vm_compute; reflexivity).
  split; [exact H12|]. split; [exact H13|]. split; intros k oc; [exact (tv_binding _ k _ oc _ _ H12)|exact (tv_binding _ k _ oc _ _ H13)].
Qed.

(* the witnesses of the repaired findings K-C20-forwarding-chain and K-C20-partially-binding-chain now meet the
   statement (the mixin is class 1, TypeVars are the tokens below 20):
     class A(Generic[T0], GenericMixin) = 10;  class Mid(A[T0]) = 11;  class C(Mid[X21]) = 12          -> {T0: X21}
     class A2(Generic[T0, T1], GenericMixin) = 20;  class Half(A2[X22, T1]) = 21;  class Full(Half[X23]) = 22
                                                                                      -> {T0: X22, T1: X23}
     class D(Generic[T2], GenericMixin) = 30;  class E(Mid[X21], D[X24]) = 31          -> {T0: X21} *)
Definition fw_world : world :=
  {| w_classes := [(10, {| c_own_ob := Some [VAlias VGeneric [VTok 0]; VCls 1]; c_mro := [10; 2; 1; 0]; c_params := [] |});
                   (11, {| c_own_ob := Some [VAlias (VCls 10) [VTok 0]]; c_mro := [11; 10; 2; 1; 0]; c_params := [VTok 0] |});
                   (12, {| c_own_ob := Some [VAlias (VCls 11) [VTok 21]]; c_mro := [12; 11; 10; 2; 1; 0]; c_params := [] |});
                   (20, {| c_own_ob := Some [VAlias VGeneric [VTok 0; VTok 1]; VCls 1]; c_mro := [20; 2; 1; 0]; c_params := [] |});
                   (21, {| c_own_ob := Some [VAlias (VCls 20) [VTok 22; VTok 1]]; c_mro := [21; 20; 2; 1; 0]; c_params := [VTok 1] |});
                   (22, {| c_own_ob := Some [VAlias (VCls 21) [VTok 23]]; c_mro := [22; 21; 20; 2; 1; 0]; c_params := [] |});
                   (30, {| c_own_ob := Some [VAlias VGeneric [VTok 2]; VCls 1]; c_mro := [30; 2; 1; 0]; c_params := [] |});
                   (31, {| c_own_ob := Some [VAlias (VCls 11) [VTok 21]; VAlias (VCls 30) [VTok 24]]; c_mro := [31; 11; 10; 30; 2; 1; 0]; c_params := [] |})];
     w_attrs := []; w_mixin := 1 |}.

Example C20_example_forwarding_chains :
  chain_binding fw_world 2 12 [VTok 0] [VTok 21] /\
  chain_binding fw_world 2 22 [VTok 0; VTok 1] [VTok 22; VTok 23] /\
  chain_binding fw_world 2 31 [VTok 0] [VTok 21] /\
  (forall k oc, type_vars_at fw_world (1 + k) 12 oc = Ok (VDict [(VTok 0, VTok 21)])) /\
  (forall k oc, type_vars_at fw_world (1 + k) 22 oc = Ok (VDict [(VTok 0, VTok 22); (VTok 1, VTok 23)])) /\
  (forall k oc, type_vars_at fw_world (1 + k) 31 oc = Ok (VDict [(VTok 0, VTok 21)])) /\
  (forall oc, type_vars_at fw_world 0 12 oc = Raise DivergeC).
Proof.
  assert (H12 : chain_binding fw_world 2 12 [VTok 0] [VTok 21]) by (apply chain_binding_b_sound; vm_compute; reflexivity).
  assert (H22 : chain_binding fw_world 2 22 [VTok 0; VTok 1] [VTok 22; VTok 23]) by (apply chain_binding_b_sound; vm_compute; reflexivity).
  assert (H31 : chain_binding fw_world 2 31 [VTok 0] [VTok 21]) by (apply chain_binding_b_sound; vm_compute; reflexivity).
  split; [exact H12|]. split; [exact H22|]. split; [exact H31|].
  split; [intros k oc; exact (tv_chain _ 1 k _ oc _ _ H12)|].
  split; [intros k oc; exact (tv_chain _ 1 k _ oc _ _ H22)|].
  split; [intros k oc; exact (tv_chain _ 1 k _ oc _ _ H31)|].
  intro oc. reflexivity.
Qed.

(* with as many arguments as parameters the dict has the TypeVars as keys and the arguments as values, in order *)
Theorem C20_type_vars_order : forall (ts xs : list val),
  List.length ts = List.length xs -> map fst (combine ts xs) = ts /\ map snd (combine ts xs) = xs.
Proof.
  induction ts as [|t ts IH]; intros [|x xs] H; try discriminate H; [split; reflexivity|].
  cbn in H. injection H as H. destruct (IH xs H) as [H1 H2]. cbn. now rewrite H1, H2.
Qed.
Print Assumptions C20_type_vars_order.

(* plain sub-subclasses and extra non-generic bases (mixins) in front on the MRO.
   Full statement (FALSE on the pinned tree, see C20_type_vars_mro_refuted):
     forall w f0 k c ts xs oc, mro_chain_binding_b w (S f0) c ts xs = true -> type_vars_at w (f0 + k) c oc = Ok (VDict (combine ts xs))
   - in front of the class s whose class statement binds the parameters the MRO may hold classes without
   __orig_bases__ and classes all of whose __orig_bases__ are classes / parametrised bases that have nothing to do
   with the mixin (class Extra(List[int])).  What is proved (narrowest guard: the first class on the MRO that has
   __orig_bases__ at all is s): *)
Theorem C20_type_vars_inherited : forall w f0 k c s before after bases ts xs oc,
  inherits_bases_of w c s before after -> own_ob w s = Some bases -> lookup_ob w s = Some bases ->
  chain_binding w (S f0) s ts xs ->
  lookup_ob w c = Some bases /\ type_vars_at w (f0 + k) c oc = Ok (VDict (combine ts xs)).
Proof.
  intros w f0 k c s before after bases ts xs oc Hi Ho Hs Hc. split; [now apply lookup_inherits with s before after|].
  apply tv_chain. now apply chain_inherited with s before after bases.
Qed.
Print Assumptions C20_type_vars_inherited.

(* non-generic class, unparametrised instance (also: still inside __init__): AssertionError, never a dict *)
Theorem C20_non_generic_or_unparametrised_asserts : forall w k c,
  (lookup_ob w c = None -> forall oc,
     type_vars_at w k c oc = Raise AssertionErrorC /\ type_var_at w k c oc = Raise AssertionErrorC) /\
  (forall ts, direct_generic w c ts ->
     type_vars_at w k c None = Raise AssertionErrorC /\ type_var_at w k c None = Raise AssertionErrorC).
Proof.
  intros. split.
  - intros H oc. split; [now apply tv_non_generic|now apply tvar_non_generic].
  - intros ts H. split; [now apply tv_unparam with ts|now apply tvar_unparam with ts].
Qed.
Print Assumptions C20_non_generic_or_unparametrised_asserts.

(* Full statements of the two AssertionError clauses, FALSE on the pinned tree:
     non-generic class:   forall w k c oc, non_generic_b w c = true -> type_vars_at w k c oc = Raise AssertionErrorC
     unparametrised:      forall w k c, has_params_b w c = true -> type_vars_at w k c None = Raise AssertionErrorC
   (a class is non-generic when neither Generic[..] nor a parametrised base that uses the mixin is among the
   __orig_bases__ found; an instance is unparametrised when its class has type parameters and it has no
   __orig_class__).  Proved above: no __orig_bases__ at all / the class declares Generic[..] itself.  Witnesses
   (the mixin is class 1, list is class 50):
     class N1(List[X20], GenericMixin) = 60         N1().type_vars raises AttributeError   (K-C20-nongeneric-foreign-base)
     class A(Generic[T0], GenericMixin) = 10; class Mid(A[T0]) = 11
                                                    Mid().type_vars == {T0: T0}            (K-C20-unparametrised-forwarding)
     class D = 30; class Extra(List[X20]) = 61; class S(D[X24]) = 62; class S2(Extra, S) = 63
                                                    S2().type_vars raises AttributeError   (K-C20-foreign-subclass-first-on-mro) *)
Definition na_world : world :=
  {| w_classes := [(10, {| c_own_ob := Some [VAlias VGeneric [VTok 0]; VCls 1]; c_mro := [10; 2; 1; 0]; c_params := [VTok 0] |});
                   (11, {| c_own_ob := Some [VAlias (VCls 10) [VTok 0]]; c_mro := [11; 10; 2; 1; 0]; c_params := [VTok 0] |});
                   (30, {| c_own_ob := Some [VAlias VGeneric [VTok 2]; VCls 1]; c_mro := [30; 2; 1; 0]; c_params := [VTok 2] |});
                   (60, {| c_own_ob := Some [VAlias (VCls 50) [VTok 20]; VCls 1]; c_mro := [60; 50; 1; 0]; c_params := [] |});
                   (61, {| c_own_ob := Some [VAlias (VCls 50) [VTok 20]]; c_mro := [61; 50; 0]; c_params := [] |});
                   (62, {| c_own_ob := Some [VAlias (VCls 30) [VTok 24]]; c_mro := [62; 30; 2; 1; 0]; c_params := [] |});
                   (63, {| c_own_ob := None; c_mro := [63; 61; 50; 62; 30; 2; 1; 0]; c_params := [] |})];
     w_attrs := []; w_mixin := 1 |}.

Theorem C20_asserts_refuted :
  (exists w c, non_generic_b w c = true /\ forall k oc, type_vars_at w k c oc = Raise AttributeErrorC) /\
  (exists w c, has_params_b w c = true /\ is_param w (VTok 0) = true /\
               forall k, type_vars_at w k c None = Ok (VDict [(VTok 0, VTok 0)])).
Proof.
  split.
  - exists na_world, 60. split; [reflexivity|intros; reflexivity].
  - exists na_world, 11. split; [reflexivity|]. split; [reflexivity|intros; reflexivity].
Qed.
Print Assumptions C20_asserts_refuted.

Theorem C20_type_vars_mro_refuted : exists w c ts xs,
  mro_chain_binding_b w 1 c ts xs = true /\ combine ts xs = [(VTok 2, VTok 24)] /\
  (forall k oc, type_vars_at w k c oc = Raise AttributeErrorC) /\
  (forall k oc, type_vars_at w k 62 oc = Ok (VDict [(VTok 2, VTok 24)])).
Proof.
  exists na_world, 63, [VTok 2], [VTok 24]. split; [vm_compute; reflexivity|]. split; [reflexivity|].
  split; intros; reflexivity.
Qed.
Print Assumptions C20_type_vars_mro_refuted.

(* type_var: the single argument when n = 1; AssertionError when n <> 1 *)
Theorem C20_type_var_single : forall w f0 k c t x,
  (direct_generic w c [t] -> forall o, type_var_at w k c (Some (VAlias o [x])) = Ok x) /\
  (chain_binding w (S f0) c [t] [x] -> forall oc, type_var_at w (f0 + k) c oc = Ok x).
Proof.
  intros. split; intros H ?.
  - now rewrite (tvar_direct w k c _ [x] [t] H).
  - now rewrite (tvar_chain w f0 k c _ [t] [x] H).
Qed.
Print Assumptions C20_type_var_single.

Theorem C20_type_var_several_asserts : forall w f0 k c ts xs,
  List.length ts = List.length xs -> List.length ts <> 1%nat ->
  (direct_generic w c ts -> forall o, type_var_at w k c (Some (VAlias o xs)) = Raise AssertionErrorC) /\
  (chain_binding w (S f0) c ts xs -> forall oc, type_var_at w (f0 + k) c oc = Raise AssertionErrorC).
Proof.
  intros w f0 k c ts xs Hl Hn. split; intros H ?.
  - rewrite (tvar_direct w k c _ xs ts H). now apply type_var_of_many.
  - rewrite (tvar_chain w f0 k c _ ts xs H). now apply type_var_of_many.
Qed.
Print Assumptions C20_type_var_several_asserts.

(* the executable oracle of the correspondence check: whenever the layout read back from CPython passes the
   boolean shape test, the model meets the specification written from the property text *)
Theorem C20_type_vars_oracle : forall w k c oc s,
  shape_holds_b w c oc s = true -> shape_vals_ok s = true ->
  meets (type_vars_at w k c oc) (spec_type_vars s) = true /\ meets1 (type_var_at w k c oc) (spec_type_var s) = true.
Proof.
  intros w k c oc s H Hv. apply shape_holds_b_sound in H. split; [now apply tv_meets_spec|now apply tvar_meets_spec].
Qed.
Print Assumptions C20_type_vars_oracle.

(* the same for the layouts with a chain of forwarding / partially binding classes (the driver passes the TypeVars of
   the declaring class and the arguments it resolved itself; `chain_binding_b` recomputes them with Spec `resolve`) *)
Theorem C20_type_vars_chain_oracle : forall w f0 k c oc ts xs,
  chain_binding_b w (S f0) c ts xs = true -> forallb self_eq ts = true -> forallb self_eq xs = true ->
  meets (type_vars_at w (f0 + k) c oc) (ExpDict (combine ts xs)) = true.
Proof.
  intros w f0 k c oc ts xs H Hs Hx. apply chain_binding_b_sound in H.
  rewrite (tv_chain w f0 k c oc ts xs H). cbn [meets].
  destruct H as (_ & _ & _ & _ & _ & _ & _ & _ & _ & _ & Hd & _). now apply same_dict_zip.
Qed.
Print Assumptions C20_type_vars_chain_oracle.

(* ---------------------------------------------------------------------------------------------------- *)
(* create_decorator                                                                                         *)

(* for every behaviour `ext` of the transformation and every function object: the attribute is set; without a
   transformation the function itself comes back and nothing is called; a transformation is called exactly once,
   with (function - carrying the attribute -, type, value), and what it returns or raises is the outcome *)
Theorem C20_transformation_args : forall ext call id attrs t v tr,
  let f' := VObj id (assoc_set t v attrs) in
  run_fundef [] empty_world ext call Gen.Mixins.prog_decorator_fun [VObj id attrs; VStr t; v; VNone] = (Ok f', []) /\
  (tr <> VNone ->
   run_fundef [] empty_world ext call Gen.Mixins.prog_decorator_fun [VObj id attrs; VStr t; v; tr] =
   (ext tr [f'; VStr t; v], [(tr, [f'; VStr t; v])])).
Proof.
  intros. split; [apply deco_fun_run|]. intro H. rewrite deco_fun_run. destruct tr; try reflexivity. now contradiction H.
Qed.
Print Assumptions C20_transformation_args.

(* the class body of a claimed class definition never raises, and getattr(instance, name) yields for a method
   an object whose attributes are exactly its decorations *)
Theorem C20_class_body : forall cd, claimed cd = true ->
  build_table Gen.Mixins.prog_decorator_fun cd = Ok (map entry_of cd) /\
  forall m t, In m cd -> attr_of (obj_of m) t = lookup_deco t (all_decos m).
Proof.
  intros cd H. split.
  - apply build_table_claimed. unfold claimed in H. now apply andb_true_iff in H as [H _].
  - intros. apply obj_attr_lookup.
Qed.
Print Assumptions C20_class_body.

(* ---------------------------------------------------------------------------------------------------- *)
(* get_decorated_functions                                                                                  *)

(* Full statement (C20_decorated_exact), FALSE on the pinned tree - see C20_decorated_dunder_refuted and
   C20_decorated_raising_descriptor_refuted (`claimed cd` = `in_domain cd` + `no_raising_getter cd`, lemma claimed_split):

     forall w k c oc e ms cd,
       binding_subclass w c [e] [VEnumCls ms] -> nodup_str ms = true ->
       build_table Gen.Mixins.prog_decorator_fun cd = Ok (w_attrs w) -> in_domain cd = true -> alias_consistent cd ->
       spec_decorated_ok ms cd (gdf_at w k c oc) = true.

   class K(<extra bases>, WithDecoratedMethods[Decorators], ...) - any class layout with that shape, any enum
   members ms, any class body cd in the claimed domain (any number of definitions; plain / async methods,
   classmethods, staticmethods, properties - whatever their getters do, they may raise: get_decorated_functions does
   not evaluate properties since fix 3728f44 (finding K-C20-raising-property) -, attributes, aliases; any assignment
   of decorators and values, none or several per method).  What holds for all of them: the result is exact for the
   definitions whose name does not start with two underscores.
   "Exactly the bound methods": a reported callable is identified by the identity of the object
   getattr(instance, name) yields (m_id; two names of one function share it); `pairs_of` / `decorated` compare these
   identities, so exactness is proved modulo that identification (the harness additionally checks on the real
   objects that the key is a method bound to this instance / to the class / the plain function of a staticmethod). *)
Theorem C20_decorated_exact_modulo_dunder : forall w k c oc e ms cd,
  binding_subclass w c [e] [VEnumCls ms] -> nodup_str ms = true ->
  build_table Gen.Mixins.prog_decorator_fun cd = Ok (w_attrs w) -> claimed cd = true -> alias_consistent cd ->
  exists d, gdf_at w k c oc = Ok (VDict d) /\ map fst d = map VStr ms /\
    forall t, In t ms -> exists inner, dict_get (VStr t) d = Some (VDict inner) /\
      (forall kv, In kv inner -> exists i a, fst kv = VObj i a) /\
      (forall i y, In (i, y) (pairs_of inner) <-> In (i, y) (decorated (filter nd cd) t)).
Proof.
  intros w k c oc e ms cd Hb Hms Ht Hc Hal.
  assert (Hw : w_attrs w = map entry_of cd).
  { destruct (C20_class_body cd Hc) as [Hbt _]. rewrite Hbt in Ht. now inversion Ht. }
  exists (mkd ms (fun t => scan_t t (vals_of w cd) [])). split; [now apply gdf_value with e|]. split.
  { unfold mkd. rewrite map_map. reflexivity. }
  intros t Hin. exists (scan_t t (vals_of w cd) []). split; [now apply dict_get_mkd|]. split.
  - intros kv Hkv. eapply (scan_keys_obj w cd); eauto.
  - intros. eapply (scan_iff w cd Hw Hc Hal); eauto.
Qed.
Print Assumptions C20_decorated_exact_modulo_dunder.

(* the property, under the narrowest guards that exclude the known findings: K9 - no *decorated method* has a name
   that starts with two underscores (undecorated dunder methods, dunder attributes are fine); K-C20-raising-descriptor -
   no non-property descriptor of the class (functools.cached_property, custom descriptor) raises when read *)
Theorem C20_decorated_exact_partial : forall w k c oc e ms cd,
  binding_subclass w c [e] [VEnumCls ms] -> nodup_str ms = true ->
  build_table Gen.Mixins.prog_decorator_fun cd = Ok (w_attrs w) -> in_domain cd = true -> alias_consistent cd ->
  no_decorated_dunder cd = true -> no_raising_getter cd = true ->
  spec_decorated_ok ms cd (gdf_at w k c oc) = true /\
  exists d, gdf_at w k c oc = Ok (VDict d) /\ map fst d = map VStr ms /\
    forall t, In t ms -> exists inner, dict_get (VStr t) d = Some (VDict inner) /\
      (forall i y, In (i, y) (pairs_of inner) <-> In (i, y) (decorated cd t)).
Proof.
  intros w k c oc e ms cd Hb Hms Ht Hdom Hal Hnd Hnr. pose proof (claimed_split cd Hdom Hnr) as Hc.
  assert (Hw : w_attrs w = map entry_of cd).
  { destruct (C20_class_body cd Hc) as [Hbt _]. rewrite Hbt in Ht. now inversion Ht. }
  split.
  - rewrite (spec_ok_ext ms cd (filter nd cd)); [now apply gdf_meets_spec with e|].
    intro t. symmetry. now apply decorated_skip_dunder.
  - destruct (C20_decorated_exact_modulo_dunder w k c oc e ms cd Hb Hms Ht Hc Hal) as (d & Hd & Hk & Hin).
    exists d. split; [exact Hd|]. split; [exact Hk|]. intros t Htm.
    destruct (Hin t Htm) as (inner & Hg & _ & Hiff). exists inner. split; [exact Hg|].
    intros i y. rewrite Hiff. now rewrite decorated_skip_dunder.
Qed.
Print Assumptions C20_decorated_exact_partial.

Lemma wdm_binding : forall w c d ms,
  lookup_ob w c = Some [VAlias (VCls d) [VEnumCls ms]] -> lookup_ob w d = Some Gen.Mixins.wdm_own_bases ->
  uses_mixin w d = true -> binding_subclass w c [VTok 0] [VEnumCls ms].
Proof.
  intros w c d ms Hc Hd Hm. exists [], d, []. repeat split; try assumption; try reflexivity.
  exists Gen.Mixins.wdm_own_bases. split; [exact Hd|]. split; [apply C20_translation_facts|reflexivity].
Qed.

(* known finding K9: `@foo(7) def __call__(self)` in class K(WithDecoratedMethods[D]) is not reported *)
Definition k9_ms : list string := ["_foo"].
Definition k9_cd : list mdef :=
  [ {| m_name := "__call__"; m_id := 1; m_inner := [{| d_type := "_foo"; d_val := VInt 7; d_tr := TrNone |}];
       m_wrap := WPlain; m_outer := [] |} ].
Definition k9_world : world :=
  {| w_classes := [(1, {| c_own_ob := Some [VAlias (VCls 2) [VEnumCls k9_ms]]; c_mro := [1; 2]; c_params := [] |});
                   (2, {| c_own_ob := Some Gen.Mixins.wdm_own_bases; c_mro := [2; 900; 901]; c_params := [] |})];
     w_attrs := map entry_of k9_cd; w_mixin := 901 |}.

Theorem C20_decorated_dunder_refuted : exists w c e ms cd,
  binding_subclass w c [e] [VEnumCls ms] /\ nodup_str ms = true /\
  build_table Gen.Mixins.prog_decorator_fun cd = Ok (w_attrs w) /\ claimed cd = true /\ alias_consistent cd /\
  (forall k oc, spec_decorated_ok ms cd (gdf_at w k c oc) = false) /\
  decorated cd "_foo" = [(1, VInt 7)] /\ (forall k oc, gdf_at w k c oc = Ok (VDict [(VStr "_foo", VDict [])])).
Proof.
  exists k9_world, 1, (VTok 0), k9_ms, k9_cd.
  assert (Hb : binding_subclass k9_world 1 [VTok 0] [VEnumCls k9_ms]).
  { apply wdm_binding with 2; reflexivity. }
  assert (Hal : alias_consistent k9_cd).
  { intros m1 m2 [<-|[]] [<-|[]] _ _ _. reflexivity. }
  assert (Hv : forall k oc, gdf_at k9_world k 1 oc = Ok (VDict [(VStr "_foo", VDict [])])).
  { intros k oc. rewrite (gdf_value k9_world k 1 oc (VTok 0) k9_ms k9_cd Hb eq_refl eq_refl eq_refl). reflexivity. }
  repeat split; try reflexivity; try assumption.
Qed.
Print Assumptions C20_decorated_dunder_refuted.

(* the witness of the repaired finding K-C20-raising-property now meets the statement:
     class K(WithDecoratedMethods[D]):  boom = property(<raises ValueError>);  @foo(1) def m(self)   ->  {FOO: {k.m: 1}} *)
Definition rp_cd : list mdef :=
  [ {| m_name := "boom"; m_id := 1; m_inner := []; m_wrap := WProperty (Raise ValueErrorC); m_outer := [] |};
    {| m_name := "m"; m_id := 2; m_inner := [{| d_type := "_foo"; d_val := VInt 1; d_tr := TrNone |}];
       m_wrap := WPlain; m_outer := [] |} ].
Definition rp_world : world :=
  {| w_classes := [(1, {| c_own_ob := Some [VAlias (VCls 2) [VEnumCls k9_ms]]; c_mro := [1; 2; 900; 901]; c_params := [] |});
                   (2, {| c_own_ob := Some Gen.Mixins.wdm_own_bases; c_mro := [2; 900; 901]; c_params := [] |})];
     w_attrs := map entry_of rp_cd; w_mixin := 901 |}.

Example C20_example_raising_property :
  binding_subclass rp_world 1 [VTok 0] [VEnumCls k9_ms] /\
  build_table Gen.Mixins.prog_decorator_fun rp_cd = Ok (w_attrs rp_world) /\ claimed rp_cd = true /\
  no_decorated_dunder rp_cd = true /\ decorated rp_cd "_foo" = [(2, VInt 1)] /\
  (forall k oc, gdf_at rp_world k 1 oc = Ok (VDict [(VStr "_foo", VDict [(VObj 2 [("_foo", VInt 1)], VInt 1)])])).
Proof.
  assert (Hb : binding_subclass rp_world 1 [VTok 0] [VEnumCls k9_ms]) by (apply wdm_binding with 2; reflexivity).
  repeat split; try reflexivity; try assumption.
Qed.

(* known finding K-C20-raising-descriptor (the residue behind the fixed K-C20-raising-property): properties are skipped,
   every other attribute is still read with getattr(self, name):
     class K(WithDecoratedMethods[D]):  boom = functools.cached_property(<raises ValueError>);  @foo(1) def m(self)
   -> the ValueError leaves get_decorated_functions instead of {FOO: {k.m: 1}} *)
Definition rd_cd : list mdef :=
  [ {| m_name := "boom"; m_id := 1; m_inner := []; m_wrap := WGetter (ARaise ValueErrorC); m_outer := [] |};
    {| m_name := "m"; m_id := 2; m_inner := [{| d_type := "_foo"; d_val := VInt 1; d_tr := TrNone |}];
       m_wrap := WPlain; m_outer := [] |} ].
Definition rd_world : world :=
  {| w_classes := [(1, {| c_own_ob := Some [VAlias (VCls 2) [VEnumCls k9_ms]]; c_mro := [1; 2; 900; 901]; c_params := [] |});
                   (2, {| c_own_ob := Some Gen.Mixins.wdm_own_bases; c_mro := [2; 900; 901]; c_params := [VTok 0] |})];
     w_attrs := [("boom", ARaise ValueErrorC); ("m", AVal (VObj 2 [("_foo", VInt 1)]))]; w_mixin := 901 |}.

Theorem C20_decorated_raising_descriptor_refuted : exists w c e ms cd,
  binding_subclass w c [e] [VEnumCls ms] /\ nodup_str ms = true /\
  build_table Gen.Mixins.prog_decorator_fun cd = Ok (w_attrs w) /\ in_domain cd = true /\ alias_consistent cd /\
  no_decorated_dunder cd = true /\ decorated cd "_foo" = [(2, VInt 1)] /\
  (forall k oc, gdf_at w k c oc = Raise ValueErrorC) /\
  (forall k oc, spec_decorated_ok ms cd (gdf_at w k c oc) = false).
Proof.
  exists rd_world, 1, (VTok 0), k9_ms, rd_cd.
  assert (Hal : alias_consistent rd_cd).
  { intros m1 m2 [<-|[<-|[]]] [<-|[<-|[]]] M1 M2 E; try reflexivity; discriminate. }
  split; [apply wdm_binding with 2; reflexivity|].
  repeat split; try reflexivity; try assumption.
Qed.
Print Assumptions C20_decorated_raising_descriptor_refuted.

(* unparametrised use - class K(WithDecoratedMethods): AssertionError *)
Theorem C20_decorated_unparametrised_asserts : forall w k c ts,
  direct_generic w c ts -> gdf_at w k c None = Raise AssertionErrorC.
Proof. exact gdf_unparam. Qed.
Print Assumptions C20_decorated_unparametrised_asserts.

(* ---------------------------------------------------------------------------------------------------- *)
(* non-vacuity                                                                                              *)

(* class B(P5, Generic[T0, T1], GenericMixin, P6); class S(P7, B[X20, X21], P8); class S2(P9, S) *)
Definition ex_world : world :=
  {| w_classes := [(10, {| c_own_ob := Some [VCls 5; VAlias VGeneric [VTok 0; VTok 1]; VCls 1; VCls 6]; c_mro := [10; 5; 2; 1; 6; 0]; c_params := [] |});
                   (11, {| c_own_ob := Some [VCls 7; VAlias (VCls 10) [VTok 20; VTok 21]; VCls 8]; c_mro := [11; 7; 10; 5; 2; 1; 6; 8; 0]; c_params := [] |});
                   (12, {| c_own_ob := None; c_mro := [12; 9; 11; 7; 10; 5; 2; 1; 6; 8; 0]; c_params := [] |})];
     w_attrs := []; w_mixin := 1 |}.

Example C20_example_shapes :
  direct_generic ex_world 10 [VTok 0; VTok 1] /\
  binding_subclass ex_world 11 [VTok 0; VTok 1] [VTok 20; VTok 21] /\
  inherits_bases_of ex_world 12 11 [12; 9] [7; 10; 5; 2; 1; 6; 8; 0] /\
  binding_subclass ex_world 12 [VTok 0; VTok 1] [VTok 20; VTok 21] /\
  lookup_ob ex_world 9 = None /\
  type_vars_at ex_world 5 10 (Some (VAlias (VCls 10) [VTok 20; VTok 21])) = Ok (VDict [(VTok 0, VTok 20); (VTok 1, VTok 21)]) /\
  type_vars_at ex_world 5 12 None = Ok (VDict [(VTok 0, VTok 20); (VTok 1, VTok 21)]) /\
  type_var_at ex_world 5 12 None = Raise AssertionErrorC /\
  type_vars_at ex_world 5 10 None = Raise AssertionErrorC /\
  type_vars_at ex_world 5 9 None = Raise AssertionErrorC.
Proof.
  repeat split; try (apply direct_generic_b_sound; vm_compute; reflexivity);
    try (apply binding_subclass_b_sound; vm_compute; reflexivity); try (vm_compute; reflexivity).
  exists {| c_own_ob := None; c_mro := [12; 9; 11; 7; 10; 5; 2; 1; 6; 8; 0]; c_params := [] |}. repeat split; reflexivity.
Qed.

(* class K(WithDecoratedMethods[D]) with D = {_foo, _bar}:
     @foo(1) @bar(2) def m1;  alias = m1;  @classmethod @bar(9) def z;  def plain;  p = property(<raises>);  x = 3;  undecorated __init__ *)
Definition ex_ms : list string := ["_foo"; "_bar"].
Definition ex_foo v := {| d_type := "_foo"; d_val := VInt v; d_tr := TrNone |}.
Definition ex_bar v := {| d_type := "_bar"; d_val := VInt v; d_tr := TrKeep |}.
Definition ex_cd : list mdef :=
  [ {| m_name := "__init__"; m_id := 7; m_inner := []; m_wrap := WPlain; m_outer := [] |};
    {| m_name := "alias"; m_id := 2; m_inner := [ex_bar 2; ex_foo 1]; m_wrap := WPlain; m_outer := [] |};
    {| m_name := "m1"; m_id := 2; m_inner := [ex_bar 2; ex_foo 1]; m_wrap := WPlain; m_outer := [] |};
    {| m_name := "p"; m_id := 3; m_inner := []; m_wrap := WProperty (Raise ValueErrorC); m_outer := [] |};
    {| m_name := "x"; m_id := 8; m_inner := []; m_wrap := WGetter (AVal (VInt 3)); m_outer := [] |};
    {| m_name := "plain"; m_id := 4; m_inner := []; m_wrap := WPlain; m_outer := [] |};
    {| m_name := "type_var"; m_id := 0; m_inner := []; m_wrap := WProperty (Ok VNone); m_outer := [] |};
    {| m_name := "z"; m_id := 6; m_inner := [ex_bar 9]; m_wrap := WClassMethod; m_outer := [] |} ].
Definition ex_dm_world : world :=
  {| w_classes := [(1, {| c_own_ob := Some [VAlias (VCls 2) [VEnumCls ex_ms]]; c_mro := [1; 2]; c_params := [] |});
                   (2, {| c_own_ob := Some Gen.Mixins.wdm_own_bases; c_mro := [2; 900; 901]; c_params := [] |})];
     w_attrs := map entry_of ex_cd; w_mixin := 901 |}.

Example C20_example_decorated :
  binding_subclass ex_dm_world 1 [VTok 0] [VEnumCls ex_ms] /\ nodup_str ex_ms = true /\
  build_table Gen.Mixins.prog_decorator_fun ex_cd = Ok (w_attrs ex_dm_world) /\ claimed ex_cd = true /\
  alias_consistent ex_cd /\ no_decorated_dunder ex_cd = true /\
  decorated ex_cd "_foo" = [(2, VInt 1); (2, VInt 1)] /\ decorated ex_cd "_bar" = [(2, VInt 2); (2, VInt 2); (6, VInt 9)] /\
  gdf_at ex_dm_world 4 1 None =
    Ok (VDict [(VStr "_foo", VDict [(obj_of (nth 1 ex_cd (nth 0 ex_cd (nth 0 ex_cd (nth 0 [] (Build_mdef "" 0 [] WPlain []))))), VInt 1)]);
               (VStr "_bar", VDict [(obj_of (nth 1 ex_cd (nth 0 ex_cd (nth 0 ex_cd (nth 0 [] (Build_mdef "" 0 [] WPlain []))))), VInt 2);
                                    (obj_of (nth 7 ex_cd (nth 0 ex_cd (nth 0 ex_cd (nth 0 [] (Build_mdef "" 0 [] WPlain []))))), VInt 9)])]).
Proof.
  repeat split; try (vm_compute; reflexivity).
  - apply wdm_binding with 2; reflexivity.
  - intros m1 m2 H1 H2 M1 M2 E.
    cbn in H1, H2. repeat (destruct H1 as [<-|H1]; [|]); repeat (destruct H2 as [<-|H2]; [|]);
      try contradiction; try reflexivity; try discriminate M1; try discriminate M2; try discriminate E.
Qed.
