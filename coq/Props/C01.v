(* C01 - the type checker is sound.  Stated about the checker configuration REGENERATED from
   pedantic/type_checking_logic/check_types.py on this run (Gen/CheckerTables.v), for every
   context, every annotation of the supported vocabulary (any nesting depth, both spellings),
   every value and every TypeVar environment.                                                 *)
From Coq Require Import List Arith Bool ZArith.
From PV Require Import Base.Exn Base.Values Base.Ann Model.CheckerCfg Model.Checker Spec.Conforms
  Gen.CheckerTables Proofs.CheckerGood Proofs.CheckerRefine Proofs.CheckerSpec Proofs.CheckerTop Proofs.CheckerDeepPos.
Import ListNotations.

Definition cfg := Gen.CheckerTables.checker_cfg.

(* the regenerated registries, arity tables, handler table and element-wise checkers are of the
   shape the proofs rely on (finite check, evaluated by the kernel's VM) *)
Theorem C01_generated_config_good : cfg_good cfg = true.
Proof. vm_compute. reflexivity. Qed.
Print Assumptions C01_generated_config_good.

Lemma good : good_facts cfg.
Proof. apply cfg_good_facts. exact C01_generated_config_good. Qed.

(* accepted => not non-conforming *)
Theorem C01_sound : forall ctx hook a v tv, supported ctx a = true ->
  fst (assert_matches cfg ctx hook a v tv) = Ok tt -> conforms ctx a v <> MustNot.
Proof. intros ctx hook a v tv. exact (sound cfg good ctx hook a v tv). Qed.
Print Assumptions C01_sound.

(* a non-conforming value (in particular every conformance-breaking corruption of a conforming one,
   at any depth) is rejected with PedanticTypeCheckException, and the TypeVar table is untouched *)
Theorem C01_nonconforming_rejected : forall ctx hook a v tv, supported ctx a = true -> conforms ctx a v = MustNot ->
  exists e, assert_matches cfg ctx hook a v tv = (Raise e, tv) /\ derives e PTypeCheckC = true.
Proof. intros ctx hook a v tv. exact (nonconforming_rejected cfg good ctx hook a v tv). Qed.
Print Assumptions C01_nonconforming_rejected.

(* what the checker computes on the vocabulary, exactly: the pure function chk *)
Theorem C01_checker_denotation : forall ctx hook a, supported ctx a = true -> forall v tv,
  assert_matches cfg ctx hook a v tv = (if chk cfg ctx a v then Ok tt else Raise (mismatch_raises cfg), tv).
Proof. intros ctx hook a. exact (assert_pure cfg good ctx hook a). Qed.
Print Assumptions C01_checker_denotation.

(* a corruption at any position of a list / any value of a dict / any slot of a tuple breaks
   conformance of the whole (so it falls under C01_nonconforming_rejected, whatever the depth) *)
Theorem C01_corruption_propagates_list : forall ctx sp a0 pre x post,
  conforms ctx a0 x = MustNot -> conforms ctx (AGeneric sp TList [a0]) (VList (pre ++ x :: post)) = MustNot.
Proof.
  intros ctx sp a0 pre x post H. cbn [conforms origin_kind abc_instance class_of cls_eqb iter_values].
  unfold all3. rewrite map_app. cbn [map]. rewrite existsb_app. cbn [existsb]. rewrite H. cbn. now rewrite orb_true_r.
Qed.
Print Assumptions C01_corruption_propagates_list.

Theorem C01_corruption_propagates_dict_value : forall ctx sp ka va pre k x post,
  conforms ctx va x = MustNot -> conforms ctx (AGeneric sp TDict [ka; va]) (VDict (pre ++ (k, x) :: post)) = MustNot.
Proof.
  intros ctx sp ka va pre k x post H. cbn [conforms origin_kind abc_instance class_of subclass cls_eqb items_of].
  unfold all3 at 1. rewrite map_app. cbn [map fst snd]. rewrite existsb_app. cbn [existsb]. rewrite H.
  replace (is_mustnot (and3 (conforms ctx ka k) MustNot)) with true; [now rewrite orb_true_r|].
  unfold and3, all3. cbn. destruct (conforms ctx ka k); reflexivity.
Qed.
Print Assumptions C01_corruption_propagates_dict_value.

Theorem C01_corruption_propagates_tuplevar : forall ctx sp e pre x post,
  conforms ctx e x = MustNot -> conforms ctx (ATupleVar sp e) (VTuple (pre ++ x :: post)) = MustNot.
Proof.
  intros ctx sp e pre x post H. cbn [conforms]. unfold all3. rewrite map_app. cbn [map]. rewrite existsb_app. cbn [existsb].
  rewrite H. cbn. now rewrite orb_true_r.
Qed.
Print Assumptions C01_corruption_propagates_tuplevar.

(* ... and at ANY depth: a non-conforming sub-position reachable through any number of container layers (elements of every
   element-wise generic, keys / values of mappings and items views, slots of fixed and variadic tuples, NewType wrappers)
   makes the whole value non-conforming, hence rejected with PedanticTypeCheckException *)
Theorem C01_deep_corruption_rejected : forall ctx hook a v a' y tv, supported ctx a = true ->
  reaches a v a' y -> conforms ctx a' y = MustNot ->
  exists e, assert_matches cfg ctx hook a v tv = (Raise e, tv) /\ derives e PTypeCheckC = true.
Proof.
  intros ctx hook a v a' y tv Hs Hr Hbad.
  exact (nonconforming_rejected cfg good ctx hook a v tv Hs (deep_position_breaks ctx a v a' y Hr Hbad)).
Qed.
Print Assumptions C01_deep_corruption_rejected.

(* non-vacuity: Dict[str, List[Optional[int]]] in builtin spelling is in the vocabulary; a conforming
   value is accepted, the same value with one deep element replaced by a str is rejected *)
Definition ex_ann : ann :=
  AGeneric SpBuiltin TDict [ACls CStr; AGeneric SpBuiltin TList [AUnion UTyping [ACls CInt; ACls CNoneType]]].
Definition ex_ok : value := VDict [(VStr [97], VList [VInt 1; VNone]); (VStr [98], VList [])].
Definition ex_bad : value := VDict [(VStr [97], VList [VInt 1; VStr [120]]); (VStr [98], VList [])].
Example ex_supported : supported (fun _ => None) ex_ann = true. Proof. reflexivity. Qed.
Example ex_conforms : conforms (fun _ => None) ex_ann ex_ok = Must /\ conforms (fun _ => None) ex_ann ex_bad = MustNot.
Proof. split; reflexivity. Qed.
Example ex_runs : fst (assert_matches1 cfg (fun _ => None) ex_ann ex_ok []) = Ok tt
               /\ fst (assert_matches1 cfg (fun _ => None) ex_ann ex_bad []) = Raise PTypeCheckC.
Proof. split; vm_compute; reflexivity. Qed.

(* Callable: def f(a: str) -> int does not conform to Callable[[int], int] (parameter class unrelated), nor does
   def g(a: int) -> object (result not a subclass); both are rejected *)
Definition f_str_int : value := VFun {| fs_params := [(Some (Some CStr), false)]; fs_ret := Some (Some CInt); fs_coroutine := false |}.
Definition g_int_obj : value := VFun {| fs_params := [(Some (Some CInt), false)]; fs_ret := Some (Some CObject); fs_coroutine := false |}.
Example ex_callable_clash :
  conforms (fun _ => None) (ACallable (Some [ACls CInt]) (ACls CInt)) f_str_int = MustNot /\
  conforms (fun _ => None) (ACallable (Some [ACls CInt]) (ACls CInt)) g_int_obj = MustNot /\
  fst (assert_matches1 cfg (fun _ => None) (ACallable (Some [ACls CInt]) (ACls CInt)) f_str_int []) = Raise PTypeCheckC /\
  fst (assert_matches1 cfg (fun _ => None) (ACallable (Some [ACls CInt]) (ACls CInt)) g_int_obj []) = Raise PTypeCheckC.
Proof. repeat split; vm_compute; reflexivity. Qed.

(* the str 'x' three layers down in ex_bad is a sub-position checked against Optional[int] *)
Example ex_reaches : reaches ex_ann ex_bad (AUnion UTyping [ACls CInt; ACls CNoneType]) (VStr [120]).
Proof.
  unfold ex_ann, ex_bad.
  eapply (r_val SpBuiltin TDict (ACls CStr) _ _ _ (VStr [97]) (VList [VInt 1; VStr [120]])); try reflexivity; [now left|].
  eapply (r_elem SpBuiltin TList _ _ _ (VStr [120])); try reflexivity; [right; now left|].
  apply r_here.
Qed.

(* ---- the region WITHOUT an oracle (`conforms = Unspec`), stated so that it is not mistaken for coverage ---------------
   The property text decides Callable only by example ("simple Callable signatures") and Literal by "membership".  The
   specification therefore says Must for an exact class-for-class signature, MustNot for a non-callable, an arity
   mismatch, an unrelated parameter class or a result class that is not a subclass; in between (a parameter class that is
   a sub- or superclass of the expected one, lambdas, builtins, classes, coroutine functions, unannotated parameters) and
   for a Literal member that is equal but of another class (True / 1.0 under Literal[1]) it says nothing, and C01 / C02
   do not constrain the checker there.  What the checker DOES there is pinned by the correspondence of every run and by
   the following observations of the model (parameters are compared covariantly: a function declared for bool is
   accepted where Callable[[int], int] is asked, one declared for object is rejected; Literal uses ==). *)
Definition f_bool_int : value := VFun {| fs_params := [(Some (Some CBool), false)]; fs_ret := Some (Some CInt); fs_coroutine := false |}.
Definition f_obj_int : value := VFun {| fs_params := [(Some (Some CObject), false)]; fs_ret := Some (Some CInt); fs_coroutine := false |}.
Theorem C01_unspecified_region_observation :
  let cb := ACallable (Some [ACls CInt]) (ACls CInt) in
  conforms (fun _ => None) cb f_bool_int = Unspec /\ fst (assert_matches1 cfg (fun _ => None) cb f_bool_int []) = Ok tt /\
  conforms (fun _ => None) cb f_obj_int = Unspec /\ fst (assert_matches1 cfg (fun _ => None) cb f_obj_int []) = Raise PTypeCheckC /\
  conforms (fun _ => None) (ALiteral [VInt 1]) (VBool true) = Unspec /\
  fst (assert_matches1 cfg (fun _ => None) (ALiteral [VInt 1]) (VBool true) []) = Ok tt.
Proof. cbn zeta. repeat split; vm_compute; reflexivity. Qed.
Print Assumptions C01_unspecified_region_observation.
