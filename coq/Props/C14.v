(* C14 - placeholder while the model is being validated *)
From Coq Require Import List ZArith Bool.
From PV Require Import Base.Exn Model.ValidatorsBase Gen.Validators.
Theorem C14_stub : Gen.Validators.raise_exception_cls = ValidatorExceptionC.
Proof. reflexivity. Qed.
Print Assumptions C14_stub.
