(* C14 - validators and convert_value decide exactly their documented predicate.
   Property theorems only.  `gen_shapes` collects what translator/t_validators.py reads from the current
   source (comparison operators and flag polarities, domain tests, the strip rule, loop shapes, every
   try/except handler table, literal sets, the normalisation chain, REGEX_EMAIL as a regex AST) and is
   regenerated on every run; `validate` / `convert` are the model instantiated with it.

   Structure: (1) the regenerated shapes are good (boolean predicate, by computation);
   (2) for EVERY good shape record, all oracles within their documented raise-sets, every validator tree and
   every value of its input domain the model returns what the specification (Spec/ValidatorsSpec.v, written
   from the property text) demands; (3) what the specification means for each validator.
   Round 1 had four refuted regions here (NaN under Min/Max, fractional / infinite floats under
   IsEnum(IntEnum), ints beyond the float range under DateTimeUnixTimestamp); they were repaired in /repo
   (bfea338, 7092399, c700fb9) and are theorems now.  ONE refuted region is left (open finding C14-K9): the
   message of a rejection is an f-string over the value (and the bound) that is evaluated before the exception is
   raised, and printing an int of more than 4300 digits raises ValueError.  The model contains this (`reject`,
   `fmt_ok`); C14_reject_message_refuted exhibits it, and the theorems that speak about rejections are stated
   as _partial under the exact guard "value and bounds print" (fmt_ok, which is "str() succeeds":
   C14_printable_iff_str).                                                                                  *)
From Coq Require Import List ZArith Bool SpecFloat.
From PV Require Import Base.Exn Model.ValidatorsBase Model.ValidatorsRegex Gen.Validators Model.Validators
                       Spec.ValidatorsSpec Proofs.ValidatorsRegexProofs Proofs.ValidatorsPrims Proofs.ValidatorsGood
                       Proofs.ValidatorsRefine Proofs.ValidatorsWitness.
Import ListNotations.
Open Scope Z_scope.

Definition validate := Model.Validators.validate gen_shapes.
Definition validate_param := Model.Validators.validate_param gen_shapes.
Definition convert := convert_value gen_shapes.
Notation VEC := ValidatorExceptionC.

(* ---------- (1) translation obligation: the shapes of the current source are in the proved family ----- *)
Theorem C14_shapes_good : shapes_good gen_shapes = true.
Proof. vm_compute. reflexivity. Qed.
Print Assumptions C14_shapes_good.

(* ---------- (2) the model meets the specification ------------------------------------------------------- *)
(* "v prints" is exactly "str(v) succeeds": no int of more than 4300 digits occurs in it *)
Theorem C14_printable_iff_str : forall O v, fmt_ok v = true <-> exists s, py_str O v = Ok s.
Proof.
  intros O v. unfold py_str. destruct (fmt_ok v); cbn [negb]; split; try discriminate; try reflexivity.
  - intros _. destruct v as [ | [] | | | | | | | | | ]; eauto.
  - intros [s H]. discriminate.
Qed.
Print Assumptions C14_printable_iff_str.

(* Full statement (FALSE, see C14_reject_message_refuted):
     forall O w v, oracles_ok O -> spec O w v <> SOut -> validate O w v = outcome_of (spec O w v).
   Proved under the guard that the value and the bounds of the validator tree print (w_fmt_ok, fmt_ok: no int of
   more than 4300 digits).  For all validator trees (any nesting), all such values of the input domain
   (spec <> SOut: e.g. numbers for Min / Max, strings for Email), all oracle behaviours within the raise-sets.
   For IsUuid / DatetimeIsoFormat / DateTimeUnixTimestamp the parsing itself is the same stdlib oracle in model and
   specification: what is proved for them is the exception class of every rejection and the convert flag. *)
Theorem C14_validate_meets_spec_partial : forall O, oracles_ok O -> forall w v,
  w_fmt_ok w = true -> fmt_ok v = true ->
  spec O w v <> SOut -> validate O w v = outcome_of (spec O w v).
Proof.
  intros O HO w v W F Hs. exact (proj1 (validate_refines_spec gen_shapes O C14_shapes_good HO w W v F Hs)).
Qed.
Print Assumptions C14_validate_meets_spec_partial.

(* every rejection is a ValidatorException, whatever the stdlib oracles raise within their raise-sets *)
Theorem C14_rejections_are_ValidatorExc_partial : forall O, oracles_ok O -> forall w v,
  w_fmt_ok w = true -> fmt_ok v = true -> spec O w v <> SOut ->
  (exists r, validate O w v = Ok r) \/ validate O w v = Raise VEC.
Proof.
  intros O HO w v W F Hs. rewrite (C14_validate_meets_spec_partial O HO w v W F Hs).
  destruct (spec O w v); simpl; eauto.
Qed.
Print Assumptions C14_rejections_are_ValidatorExc_partial.

(* finding C14-K9: a rejection whose message has to print an int of more than 4300 digits leaves as ValueError.
   The values are in the input domain and do not satisfy the predicate (-10^5000 < 5; 10^5000 s is no date). *)
Theorem C14_reject_message_refuted : exists w1 v1 v2, forall O,
  spec O w1 v1 = SReject /\ validate O w1 v1 = Raise ValueErrorC /\
  spec O WUnix v2 = SReject /\ validate O WUnix v2 = Raise ValueErrorC.
Proof.
  exists (WMin (VInt 5) true), (VInt (- 10 ^ 5000)), (VInt (10 ^ 5000)). exact reject_message_witness.
Qed.
Print Assumptions C14_reject_message_refuted.

Theorem C14_validate_param_same : forall O w v, validate_param O w v = validate O w v.
Proof. intros O w v. exact (validate_param_same gen_shapes O C14_shapes_good w v). Qed.
Print Assumptions C14_validate_param_same.

(* ---------- (3) Min / Max: all bounds, all numbers (ints, bools, every float incl. +-0.0, +-inf and NaN) -- *)
(* sat_min b incl v is `v >= b` (resp. `v > b`) on the extended rationals (Spec/ValidatorsSpec.v); NaN is no
   rational and satisfies no bound.  Full statement (FALSE for ints beyond the digit limit, K9): without the two
   fmt_ok hypotheses. *)
Theorem C14_min_exact_partial : forall O b incl v,
  is_number v = true -> is_number b = true -> fmt_ok v = true -> fmt_ok b = true ->
  validate O (WMin b incl) v = if sat_min b incl v then Ok v else Raise VEC.
Proof. intros O. exact (min_exact gen_shapes O C14_shapes_good). Qed.
Print Assumptions C14_min_exact_partial.

Theorem C14_max_exact_partial : forall O b incl v,
  is_number v = true -> is_number b = true -> fmt_ok v = true -> fmt_ok b = true ->
  validate O (WMax b incl) v = if sat_max b incl v then Ok v else Raise VEC.
Proof. intros O. exact (max_exact gen_shapes O C14_shapes_good). Qed.
Print Assumptions C14_max_exact_partial.

(* without any guard: the ACCEPT set is exact for all numbers, and a rejection is a ValidatorException or - exactly
   when value or bound does not print - a ValueError *)
Theorem C14_min_exact_or_message_leak : forall O b incl v, is_number v = true -> is_number b = true ->
  validate O (WMin b incl) v = (if sat_min b incl v then Ok v else Raise VEC) \/
  (sat_min b incl v = false /\ fmt_ok v && fmt_ok b = false /\ validate O (WMin b incl) v = Raise ValueErrorC).
Proof. intros O. exact (min_exact_full gen_shapes O C14_shapes_good). Qed.
Print Assumptions C14_min_exact_or_message_leak.

(* the boundary spelled out on ints: equal to the bound is accepted exactly with include_boundary *)
Theorem C14_minmax_int_boundary_partial : forall O b z incl, int_fmt_ok b = true -> int_fmt_ok z = true ->
  (validate O (WMin (VInt b) incl) (VInt z) = if (if incl then b <=? z else b <? z) then Ok (VInt z) else Raise VEC) /\
  (validate O (WMax (VInt b) incl) (VInt z) = if (if incl then z <=? b else z <? b) then Ok (VInt z) else Raise VEC).
Proof.
  intros O b z incl Fb Fz. split.
  - rewrite C14_min_exact_partial by (try reflexivity; assumption). now rewrite sat_min_int.
  - rewrite C14_max_exact_partial by (try reflexivity; assumption). now rewrite sat_max_int.
Qed.
Print Assumptions C14_minmax_int_boundary_partial.

(* former finding C14-K8a (fixed by bfea338): NaN - as value or as bound - is rejected by every Min and every Max *)
Theorem C14_minmax_nan_rejected_partial : forall O b incl v,
  is_number v = true -> is_number b = true -> fmt_ok v = true -> fmt_ok b = true -> is_nan v || is_nan b = true ->
  validate O (WMin b incl) v = Raise VEC /\ validate O (WMax b incl) v = Raise VEC.
Proof. intros O. exact (minmax_nan_rejected gen_shapes O C14_shapes_good). Qed.
Print Assumptions C14_minmax_nan_rejected_partial.

(* ---------- MinLength / MaxLength: every limit, every printable value (K9: the message prints the value), in
   particular length = limit *)
Theorem C14_minlen_exact_partial : forall O n v, fmt_ok v = true ->
  validate O (WMinLen n) v = match py_len v with Some l => if n <=? l then Ok v else Raise VEC | None => Raise VEC end.
Proof. intros O. exact (minlen_exact gen_shapes O C14_shapes_good). Qed.
Print Assumptions C14_minlen_exact_partial.

Theorem C14_maxlen_exact_partial : forall O n v, fmt_ok v = true ->
  validate O (WMaxLen n) v = match py_len v with Some l => if l <=? n then Ok v else Raise VEC | None => Raise VEC end.
Proof. intros O. exact (maxlen_exact gen_shapes O C14_shapes_good). Qed.
Print Assumptions C14_maxlen_exact_partial.

(* ---------- NotEmpty ------------------------------------------------------------------------------------------- *)
Theorem C14_notempty_str : forall O strip s,
  validate O (WNotEmpty strip) (VStr s) = (if all_ws s then Raise VEC else Ok (if strip then VStr (py_strip s) else VStr s))
  /\ is_strip_of s (py_strip s).
Proof.
  intros O strip s. split; [exact (notempty_str gen_shapes O C14_shapes_good strip s) | apply py_strip_is_strip].
Qed.
Print Assumptions C14_notempty_str.

Theorem C14_notempty_other_partial : forall O strip v, is_str v = false -> fmt_ok v = true ->
  validate O (WNotEmpty strip) v =
  if is_sequence v then match py_len v with Some l => if l =? 0 then Raise VEC else Ok v | None => Raise VEC end
  else Raise VEC.
Proof. intros O. exact (notempty_other gen_shapes O C14_shapes_good). Qed.
Print Assumptions C14_notempty_other_partial.

(* ---------- Email: REGEX_EMAIL decides local@domain.tld, for all strings -------------------------------------- *)
Theorem C14_email_regex_iff_pred : forall O s,
  (validate O (WEmail None PPId) (VStr s) = Ok (VStr s) <-> email_pred s) /\
  (validate O (WEmail None PPId) (VStr s) = Raise VEC <-> ~ email_pred s).
Proof.
  intros O s. unfold validate. rewrite (email_default_str gen_shapes O C14_shapes_good PPId s).
  rewrite <- email_predb_iff. destruct (email_predb s); simpl; split; split; congruence.
Qed.
Print Assumptions C14_email_regex_iff_pred.

(* the matcher decides the regular language, for every expression of the supported syntax and every string *)
Theorem C14_regex_matcher_correct : forall r s, re_fullmatch r s = true <-> lang r s [].
Proof. intros r s. apply fullmatch_iff. Qed.
Print Assumptions C14_regex_matcher_correct.

(* MatchPattern: accepted exactly when some substring is in the language of the pattern *)
Theorem C14_matchpattern_exact : forall O r s,
  validate O (WMatch r) (VStr s) = (if re_search r s then Ok (VStr s) else Raise VEC) /\
  (re_search r s = true <-> exists a m b, s = a ++ m ++ b /\ lang r m b).
Proof.
  intros O r s. split; [exact (match_str gen_shapes O C14_shapes_good r s) | apply search_iff].
Qed.
Print Assumptions C14_matchpattern_exact.

(* ---------- Composite / ForEach: all child lists, all item lists, any nesting ------------------------------- *)
Theorem C14_composite : forall O cs v,
  (validate O (WComposite cs) v = Ok v <-> Forall (fun c => exists r, validate O c v = Ok r) cs) /\
  ((exists e, validate O (WComposite cs) v = Raise e) \/ validate O (WComposite cs) v = Ok v) /\
  (forall e, validate O (WComposite cs) v = Raise e ->
     exists pre c post, cs = pre ++ c :: post /\ validate O c v = Raise e /\
                        Forall (fun c' => exists r, validate O c' v = Ok r) pre).
Proof.
  intros O cs v. split; [|split].
  - exact (composite_ok_iff gen_shapes O C14_shapes_good cs v).
  - exact (composite_result gen_shapes O C14_shapes_good cs v).
  - exact (composite_first_failure gen_shapes O C14_shapes_good cs v).
Qed.
Print Assumptions C14_composite.

(* every item goes through every child in order, each child receiving what the previous one returned *)
Theorem C14_foreach : forall O cs items rs,
  validate O (WForEach cs) (VList items) = Ok (VList rs) <->
  Forall2 (fun it r => run_children (validate O) true cs it = Ok r) items rs.
Proof. intros O. exact (foreach_ok_iff gen_shapes O C14_shapes_good). Qed.
Print Assumptions C14_foreach.

(* ---------- IsEnum / DateTimeUnixTimestamp: the former gaps, now theorems ------------------------------------- *)
(* former findings C14-K8b / K8c (fixed by 7092399): under an IntEnum a float is accepted exactly when it is a whole
   number whose value is the value of a member; 1.5, inf and nan are rejected with ValidatorException *)
Theorem C14_isenum_intenum_float : forall O, oracles_ok O -> forall ms convert upper f,
  validate O (WIsEnum ms true convert upper) (VFloat f) =
  match (if float_is_integral f then match int_of_float f with Ok z => member_of ms (VInt z) | Raise _ => None end
         else None) with
  | Some m => Ok (if convert then m else VFloat f)
  | None => Raise VEC
  end.
Proof.
  intros O HO ms convert upper f.
  rewrite (C14_validate_meets_spec_partial O HO (WIsEnum ms true convert upper) (VFloat f) eq_refl eq_refl).
  - cbn [spec int_denoted]. destruct (float_is_integral f); [|reflexivity].
    destruct (int_of_float f) as [z|e]; [|reflexivity]. now destruct (member_of ms (VInt z)).
  - cbn [spec]. now destruct (match int_denoted O ms (VFloat f) with Some z => member_of ms (VInt z) | None => None end).
Qed.
Print Assumptions C14_isenum_intenum_float.

(* former finding C14-K8d (fixed by c700fb9): an int beyond the float range is rejected with ValidatorException -
   as long as it prints (2**1024 does; 10**5000 does not: C14_reject_message_refuted) *)
Theorem C14_unix_int_overflow_rejected_partial : forall O, oracles_ok O -> forall z e, int_fmt_ok z = true ->
  float_of_Z z = Raise e -> validate O WUnix (VInt z) = Raise VEC.
Proof.
  intros O HO z e Fz F. rewrite (C14_validate_meets_spec_partial O HO WUnix (VInt z) eq_refl Fz).
  - cbn [spec seconds_of]. now rewrite F.
  - cbn [spec seconds_of]. rewrite F. discriminate.
Qed.
Print Assumptions C14_unix_int_overflow_rejected_partial.

(* ---------- convert_value ------------------------------------------------------------------------------------------ *)
(* What is proved INDEPENDENTLY of the code's own steps: the result type / exception class for any input, the
   inversion of str() on bool / int / float, the bool table, the digit limit.  What convert_value returns for the
   str / list / dict targets (the property text only demands the type there) and the error cases of int / float are
   covered by the refinement lemma Proofs/ValidatorsRefine.convert_refines_spec (model = spec_convert, which
   transcribes the documented steps isinstance shortcut, str().strip().lower(), split on ',', partition on ':' -
   not an independent statement, therefore not a theorem of this file) and by the correspondence with CPython. *)

(* for any input and any target: an instance of the target type, or ConversionError *)
Theorem C14_convert_type_or_ConversionErr : forall O, oracles_ok O -> forall v t,
  match convert O v t with Ok r => isinstance_t r t = true | Raise e => e = ConversionErrorC end.
Proof. intros O HO. exact (convert_typed gen_shapes O C14_shapes_good HO). Qed.
Print Assumptions C14_convert_type_or_ConversionErr.

(* convert_value inverts str() on ints: whenever str(z) exists - at most 4300 digits, CPython's limit - the text
   is read back as z (the decimal printer and the parser are inverse); beyond the limit str(z) itself fails *)
Theorem C14_convert_inverts_str_int : forall O, oracles_ok O -> forall z s,
  py_str O (VInt z) = Ok s -> convert O (VStr s) TInt = Ok (VInt z).
Proof. intros O HO. exact (convert_inverts_str_int gen_shapes O C14_shapes_good HO). Qed.
Print Assumptions C14_convert_inverts_str_int.

(* ... on floats: str() of a float is CPython's shortest round-trip repr, an oracle here.  Under the explicit
   hypotheses that this text carries no surrounding whitespace and no upper-case letter and that float() reads it
   back as f - all three are checked against CPython for every float of the stream `roundtrip` on every run -
   convert_value gives f back.  (That repr round-trips is NOT proved: it is a property of CPython.) *)
Theorem C14_convert_inverts_str_float : forall O, oracles_ok O -> forall f s,
  py_str O (VFloat f) = Ok s -> py_strip s = s -> py_lower O s = s -> o_float_of_str O s = Ok f ->
  convert O (VStr s) TFloat = Ok (VFloat f).
Proof. intros O HO. exact (convert_inverts_str_float gen_shapes O C14_shapes_good HO). Qed.
Print Assumptions C14_convert_inverts_str_float.

(* ... and on both bools *)
Theorem C14_convert_inverts_str_bool : forall O, oracles_ok O -> forall b s,
  py_str O (VBool b) = Ok s -> convert O (VStr s) TBool = Ok (VBool b).
Proof. intros O HO. exact (convert_inverts_str_bool gen_shapes O C14_shapes_good HO). Qed.
Print Assumptions C14_convert_inverts_str_bool.

(* the bool branch: exactly 'true' / '1' and 'false' / '0' after str().strip().lower() *)
Theorem C14_convert_bool_table : forall O, oracles_ok O -> forall v s0, isinstance_t v TBool = false ->
  py_str O v = Ok s0 ->
  let s := py_lower O (py_strip s0) in
  convert O v TBool =
    if zlist_eqb s S_true || zlist_eqb s [49] then Ok (VBool true)
    else if zlist_eqb s S_false || zlist_eqb s [48] then Ok (VBool false)
    else Raise ConversionErrorC.
Proof. intros O HO. exact (convert_bool_table gen_shapes O C14_shapes_good HO). Qed.
Print Assumptions C14_convert_bool_table.

(* former finding C14-K8e (fixed by 0875924): an int str() refuses to print is a ConversionError for every target
   but int itself (where the isinstance shortcut returns it) *)
Theorem C14_convert_digit_limit : forall O, oracles_ok O -> forall z t,
  py_str O (VInt z) = Raise ValueErrorC -> isinstance_t (VInt z) t = false ->
  convert O (VInt z) t = Raise ConversionErrorC.
Proof.
  intros O HO z t PS I. unfold convert. rewrite (convert_refines_spec gen_shapes O C14_shapes_good HO).
  unfold spec_convert. now rewrite I, PS.
Qed.
Print Assumptions C14_convert_digit_limit.

(* ---------- non-vacuity ---------------------------------------------------------------------------------------------- *)
(* an oracle record within the raise-sets: every stdlib call fails with its documented exception *)
Definition O_fail : oracles := {|
  o_str := fun _ => []; o_lower := fun s => s; o_upper := fun s => s;
  o_int_of_str := fun _ => Raise ValueErrorC; o_int_of_bytes := fun _ => Raise ValueErrorC;
  o_float_of_str := fun _ => Raise ValueErrorC; o_uuid := fun _ => Raise ValueErrorC;
  o_fromiso := fun _ => Raise TypeErrorC; o_epoch_plus := fun _ => Raise OverflowErrorC |}.

Example C14_oracles_ok_inhabited : oracles_ok O_fail.
Proof. constructor; intros; try reflexivity; discriminate. Qed.

(* a nested case inside the input domain, accepted and converted *)
Example C14_example_accept :
  let w := WForEach [WComposite [WMin (VInt 3) true; WMax (VInt 7) false]; WIsEnum [VInt 5; VInt 6] true true true] in
  let v := VList [VInt 5; VFloat (S754_finite false 6755399441055744 (-50)); VInt 6] in
  spec O_fail w v = SAccept (VList [VOpq K_ENUM [0]; VOpq K_ENUM [1]; VOpq K_ENUM [1]]) /\
  validate O_fail w v = Ok (VList [VOpq K_ENUM [0]; VOpq K_ENUM [1]; VOpq K_ENUM [1]]).
Proof. cbn zeta. repeat split; vm_compute; reflexivity. Qed.

(* ... and rejected at the boundary: 7 is not < 7 *)
Example C14_example_reject :
  let w := WForEach [WComposite [WMin (VInt 3) true; WMax (VInt 7) false]] in
  spec O_fail w (VTuple [VInt 3; VInt 7]) = SReject /\
  validate O_fail w (VTuple [VInt 3; VInt 7]) = Raise VEC.
Proof. cbn zeta. repeat split; vm_compute; reflexivity. Qed.

(* the false alarm of round 1: U+001F is whitespace for str.strip() but int() does not skip it *)
Example C14_int_does_not_skip_separators :
  py_strip [31; 50] = [50] /\ num_strip [31; 50] = [31; 50] /\ int_of_canonical [31; 50] = None /\
  int_of_canonical [133; 50; 160] = Some (Ok 2).
Proof. repeat split; reflexivity. Qed.

Example C14_email_examples :
  email_pred [97; 64; 98; 46; 99] /\ ~ email_pred [97; 64; 98; 46; 99; 10] /\ ~ email_pred [97; 64; 98].
Proof.
  rewrite <- !email_predb_iff. repeat split; try reflexivity; vm_compute; congruence.
Qed.

(* the hypotheses of C14_convert_inverts_str_float are satisfiable: an oracle that prints 1.5 as "1.5" and reads it back *)
Definition O_float : oracles := {|
  o_str := fun _ => [49; 46; 53]; o_lower := fun s => s; o_upper := fun s => s;
  o_int_of_str := fun _ => Raise ValueErrorC; o_int_of_bytes := fun _ => Raise ValueErrorC;
  o_float_of_str := fun _ => Ok (S754_finite false 6755399441055744 (-52)); o_uuid := fun _ => Raise ValueErrorC;
  o_fromiso := fun _ => Raise TypeErrorC; o_epoch_plus := fun _ => Raise OverflowErrorC |}.
Example C14_float_roundtrip_example :
  oracles_ok O_float /\ convert O_float (VStr [49; 46; 53]) TFloat = Ok (VFloat (S754_finite false 6755399441055744 (-52))).
Proof.
  split; [constructor; intros; try reflexivity; discriminate|].
  apply (C14_convert_inverts_str_float O_float); try reflexivity. constructor; intros; try reflexivity; discriminate.
Qed.

(* the former witnesses, now on the right side *)
Example C14_former_witnesses : forall O, oracles_ok O ->
  validate O (WMin (VInt 3) true) (VFloat S754_nan) = Raise VEC /\
  validate O (WIsEnum [VInt 1; VInt 2] true true true) (VFloat (S754_finite false 6755399441055744 (-52))) = Raise VEC /\
  validate O (WIsEnum [VInt 1; VInt 2] true true true) (VFloat (S754_infinity false)) = Raise VEC /\
  validate O WUnix (VInt (2 ^ 1024)) = Raise VEC /\
  validate O (WIsEnum [VInt 1; VInt 2] true true true) (VFloat (S754_finite false 4503599627370496 (-51))) = Ok (VOpq K_ENUM [1]).
Proof.
  intros O HO. split; [|split; [|split; [|split]]].
  - apply (C14_minmax_nan_rejected_partial O (VInt 3) true (VFloat S754_nan)); reflexivity.
  - now rewrite (C14_isenum_intenum_float O HO).
  - now rewrite (C14_isenum_intenum_float O HO).
  - apply (C14_unix_int_overflow_rejected_partial O HO _ OverflowErrorC); vm_compute; reflexivity.
  - now rewrite (C14_isenum_intenum_float O HO).
Qed.

(* the digit limit is reachable: str(10^4300) fails (4301 digits), small ints print *)
Example C14_digit_limit_reachable : forall O,
  py_str O (VInt (10 ^ 4300)) = Raise ValueErrorC /\ py_str O (VInt (-12)) = Ok [45; 49; 50].
Proof. exact digit_limit_witness. Qed.
