(* C17 - in_subprocess / calculate_in_subprocess: faithful result, isolation, non-blocking,
   always terminates, nothing left behind.   CLAIMED PARTIAL (see the end of this comment).

   `Gen.Subproc.parent_prog` / `child_prog` are regenerated from
   pedantic/decorators/fn_deco_in_subprocess.py on every run (statement order, handler
   tables); Model/Subproc.v interprets them over Model/PipeKernel.v (pipe ends per process,
   fork inheritance, EOF by writer count, truncated messages, join, zombies).
   Quantifiers: `b : beh` is EVERY behaviour of the callee (returns / raises any exception
   class / terminates the process itself; small or large, picklable or not, sync or async;
   SIGTERM fatal for the child or handled/ignored there - b_term_fatal);
   `sched : list lchoice` is EVERY schedule of parent steps, child steps and external kills
   of the child - a kill may come before the child's first step, inside the callee, in the
   middle of sending a large result, after it, or never; `behs : list beh` is ANY number
   of concurrent invocations with any combination of behaviours, `sched : list gchoice` any
   interleaving of all their parents, children and kills on one event loop.

   PARTIAL: the theorems are about the protocol (order of pipe/fork/close/wait/recv/join,
   which exceptions are caught, who holds which descriptor).  Runtime behaviour the model
   cannot exhibit and that is only exercised by the stress run of harness/c17.py:
   OS scheduling and real durations, the capacity of the pipe buffer (a model send never
   blocks), pickling/unpickling itself (picklability is an input bit), the asyncio selector
   behind loop.add_reader.                                                                  *)
From Coq Require Import List Arith Bool ZArith Lia.
From PV Require Import Base.Exn Model.PipeKernel Model.Subproc Spec.SubprocSpec
  Proofs.SubprocReach Proofs.SubprocLocal Proofs.SubprocGlobal Proofs.SubprocCheck Gen.Subproc Model.SubprocEval
  Model.SubprocRet Proofs.SubprocRetProofs Model.SubprocExc Proofs.SubprocExcProofs.
Import ListNotations.

Definition P := Gen.Subproc.parent_prog.
Definition C := Gen.Subproc.child_prog.
Definition run1 (b : beh) (sched : list lchoice) : lst := lrun P C b sched linit.
Definition runN (behs : list beh) (sched : list gchoice) : gst := grun P C sched (ginit behs).

(* ---- obligations on the regenerated programs --------------------------------------------- *)
(* For each of the finitely many behaviours that the interpreter can tell apart
   (Proofs/SubprocReach.v: all_behs_complete, lstep_ext) the reachable set of the regenerated
   programs is closed under every step and satisfies the six state facts and the measure
   fact of Proofs/SubprocLocal.v.  A moved tx.close(), a dropped join()/rx.close(), a
   narrowed `except`, a send before the exception test ... make this evaluate to false.
   (The evaluation itself - vm_compute, about 20 s - lives in Proofs/SubprocCheck.v, which
   `make` rebuilds whenever Gen/Subproc.v changes.) *)
Theorem C17_programs_check : check_all P C true true = true.
Proof. exact programs_check. Qed.
Print Assumptions C17_programs_check.

(* the decorator only delegates; the only suspension point of the parent is the wait, so
   Pipe() .. start() .. tx.close() is one synchronous segment (what `gstep` assumes) *)
Theorem C17_wrapper_shape :
  Gen.Subproc.wrapper_delegates = true /\ Gen.Subproc.wrapper_is_async = true /\
  Gen.Subproc.wrapper_has_wraps = true /\ Gen.Subproc.parent_awaits_only_in_wait = true.
Proof. repeat split; reflexivity. Qed.
Print Assumptions C17_wrapper_shape.

(* ---- one invocation ------------------------------------------------------------------------ *)
(* FULL STATEMENT (refuted below, kept visible):
     forall b sched, p_done (run1 b sched) = true -> spec_ok b (run1 b sched) = true.
   It fails in one region (a second one, K2 - unpickling in the parent raises - is repaired).
   (K1) the callee RETURNS an object that is itself a SubprocessError; the parent cannot tell
        it from the child's error envelope and raises its `.exception` attribute instead of
        returning the object (C17_single_faithful_refuted). *)
Theorem C17_single_faithful_refuted :
  exists b sched, callee_reports b = true /\ b_out b = COk /\
    p_stat (ps (run1 b sched)) = PSDone (FRaise XRetAttr) /\ spec_ok b (run1 b sched) = false.
Proof.
  exists (mk_beh COk [] false true false true false).
  exists (LParent :: flat_map (fun _ => [LParent; LChild]) (seq 0 40)).
  vm_compute. repeat split; reflexivity.
Qed.
Print Assumptions C17_single_faithful_refuted.

(* Everything the statement demands of a finished invocation, for every behaviour outside
   that region and every schedule: the outcome is the callee's own (or, if the child died
   without reporting, an exception that does not pretend to be the callee's), and no pipe
   end, reader callback, running or un-reaped child is left. *)
Theorem C17_single_spec_partial : forall b sched,
  returns_envelope b = false ->
  p_done (run1 b sched) = true -> spec_ok b (run1 b sched) = true.
Proof.
  intros b sched He Hd. apply (done_spec P C true true C17_programs_check); auto.
  - apply lrun_reach. constructor.
  - now rewrite andb_false_r.
  - now rewrite andb_false_r.
Qed.
Print Assumptions C17_single_spec_partial.

(* result faithful: the child reports, nobody kills it and the await is not cancelled =>
   exactly the callee's outcome *)
Theorem C17_single_faithful_partial : forall b sched f,
  returns_envelope b = false -> callee_reports b = true ->
  p_stat (ps (run1 b sched)) = PSDone f -> c_killed (cs (run1 b sched)) = false -> is_cancel f = false ->
  match b_out b with
  | COk => f = FReturnCallee
  | _ => if b_isa b StopIterationC then f = FRaise (XCls RuntimeErrorC) else f = FRaise XCallee
  end.
Proof.
  intros b sched f. apply (faithful_exact P C true true programs_check). apply lrun_reach. constructor.
Qed.
Print Assumptions C17_single_faithful_partial.

(* the child dies without reporting (os._exit, signal, SystemExit/KeyboardInterrupt,
   unpicklable payload, external kill at any point): the awaiting task gets ChildProcessError
   or - when a complete result had already arrived before an external kill - the result *)
Theorem C17_single_child_death_outcome : forall b sched f,
  p_stat (ps (run1 b sched)) = PSDone f -> is_cancel f = false ->
  model_final b f = true \/ (c_killed (cs (run1 b sched)) = true /\ is_cpe f = true).
Proof.
  intros b sched f. apply (death_outcome P C true true programs_check). apply lrun_reach. constructor.
Qed.
Print Assumptions C17_single_child_death_outcome.

(* ... and that report does not depend on the crash point: two unreported deaths (any two
   behaviours, any two schedules, killed or not) are reported by the same exception class *)
Theorem C17_death_report_uniform : forall b sched f b' sched' f',
  p_stat (ps (run1 b sched)) = PSDone f -> p_stat (ps (run1 b' sched')) = PSDone f' ->
  child_died_unreported b (c_killed (cs (run1 b sched))) f = true ->
  child_died_unreported b' (c_killed (cs (run1 b' sched'))) f' = true ->
  same_report f f' = true /\ report_uniform f b' (c_killed (cs (run1 b' sched'))) f' = true.
Proof.
  intros b sched f b' sched' f' Hf Hf' Hd Hd'.
  rewrite (died_is_cpe P C true true C17_programs_check b _ f (lrun_reach P C b sched linit (lr_init P C b)) Hf Hd).
  rewrite (died_is_cpe P C true true C17_programs_check b' _ f' (lrun_reach P C b' sched' linit (lr_init P C b')) Hf' Hd') in *.
  split; [reflexivity|]. unfold report_uniform. now rewrite orb_true_r.
Qed.
Print Assumptions C17_death_report_uniform.

(* terminates for every crash point: whatever the schedule does (kills included), (1) only
   boundedly many steps happen at all, (2) the invocation is never stuck before its end,
   (3) it can always be driven to its end within the bound *)
Theorem C17_single_terminates_all_crash_points : forall b sched,
  effective P C b sched linit <= measure P C linit /\
  l_blocked_forever P C b (run1 b sched) = false /\
  exists ext, List.length ext <= measure P C linit /\ p_done (run1 b (sched ++ ext)) = true.
Proof.
  intros b sched. pose proof (lrun_reach P C b sched linit (lr_init P C b)) as Hr.
  split; [|split].
  - apply (effective_bounded P C true true C17_programs_check). constructor.
  - apply (never_blocked_forever P C true true C17_programs_check). exact Hr.
  - exact (finish_after P C true true programs_check b sched).
Qed.
Print Assumptions C17_single_terminates_all_crash_points.

(* no descriptor, reader callback, live or un-reaped child on ANY exit path: return or raise, in
   region K1, when unpickling the received message raises in the parent (former K2), when the
   awaiting task is cancelled - before it starts, or at its suspension point (former K5: the
   handler around the wait removes the reader, kills and joins the child, closes the read end) *)
Theorem C17_no_fd_no_zombie_on_exit : forall b sched,
  p_done (run1 b sched) = true -> clean_exit (run1 b sched) = true.
Proof.
  intros b sched Hd. apply (done_clean P C true true C17_programs_check b); auto.
  - apply lrun_reach. constructor.
  - now rewrite andb_false_r.
  - now rewrite andb_false_r.
Qed.
Print Assumptions C17_no_fd_no_zombie_on_exit.

(* the outcome itself needs no such guard: also when unpickling raises, the awaiting task gets
   an exception that does not pretend to be the callee's outcome *)
Theorem C17_single_outcome_partial : forall b sched f,
  returns_envelope b = false -> p_stat (ps (run1 b sched)) = PSDone f ->
  outcome_ok b (c_killed (cs (run1 b sched))) f = true.
Proof.
  intros b sched f He Hf. apply (done_outcome P C true true C17_programs_check); auto.
  apply lrun_reach. constructor.
Qed.
Print Assumptions C17_single_outcome_partial.

(* the repair is known: ANY parent program that passes the sweep that is strict also for
   cancellation satisfies the full statement, for every schedule with cancellations and kills
   anywhere; the current program with a cleanup handler around the wait (remove the reader, kill
   and join the child, close the read end, re-raise) does (ex_protected) *)
Theorem C17_no_fd_no_zombie_on_exit_if_protected : forall P' b sched,
  check_all P' C true true = true ->
  p_done (lrun P' C b sched linit) = true -> clean_exit (lrun P' C b sched linit) = true.
Proof.
  intros P' b sched Hc Hd. apply (done_clean P' C true true Hc b); auto.
  - apply lrun_reach. constructor.
  - now rewrite andb_false_r.
  - now rewrite andb_false_r.
Qed.
Print Assumptions C17_no_fd_no_zombie_on_exit_if_protected.

(* non-blocking, as far as the model can say it: whenever the parent coroutine sits in a
   synchronous call that cannot return yet (recv / join), the callee is no longer computing;
   while the callee computes the parent is suspended or can proceed *)
Theorem C17_single_nonblocking : forall b sched,
  sync_blocked P C b (run1 b sched) = true -> callee_pending C (run1 b sched) = false.
Proof.
  intros b sched. apply (nonblocking P C true true C17_programs_check). apply lrun_reach. constructor.
Qed.
Print Assumptions C17_single_nonblocking.

(* ---- N concurrent invocations --------------------------------------------------------------- *)
(* non-interference: in every interleaving of any number of invocations, invocation i is in
   a state that it reaches when it runs alone with its own callee, and no live child of
   another invocation holds a write end of its pipe *)
Theorem C17_noninterference_N : forall behs sched i v,
  nth_error (g_invs (runN behs sched)) i = Some v ->
  nth_error behs i = Some (g_beh v) /\
  env_writers (g_invs (runN behs sched)) i = 0 /\
  exists lsched, g_loc v = run1 (g_beh v) lsched.
Proof.
  intros behs sched i v Hv.
  pose proof (grun_reach P C behs sched (ginit behs) (gr_init P C behs)) as Hr.
  destruct (projection P C true true C17_programs_check behs _ i v Hr Hv) as [Hb Hl].
  split; [|split].
  - exact Hb.
  - apply (no_foreign_writer P C true true C17_programs_check behs). exact Hr.
  - destruct (reach_lrun P C (g_beh v) (g_loc v) Hl) as [ls Hls]. exists ls. now rewrite <- Hls.
Qed.
Print Assumptions C17_noninterference_N.

(* each invocation receives its own result: the outcome of invocation i meets the
   specification relative to the i-th callee, whatever the others do *)
Theorem C17_own_result_N_partial : forall behs sched i v b,
  nth_error (g_invs (runN behs sched)) i = Some v -> nth_error behs i = Some b ->
  returns_envelope b = false ->
  p_done (g_loc v) = true -> spec_ok b (g_loc v) = true.
Proof.
  intros behs sched i v b Hv Hb He Hd.
  pose proof (grun_reach P C behs sched (ginit behs) (gr_init P C behs)) as Hr.
  destruct (projection P C true true C17_programs_check behs _ i v Hr Hv) as [Hb' Hl].
  rewrite Hb in Hb'. inversion Hb'; subst b.
  apply (done_spec P C true true C17_programs_check); auto; now rewrite andb_false_r.
Qed.
Print Assumptions C17_own_result_N_partial.

(* the whole system terminates: at most N * measure steps under any schedule, never
   deadlocked (although recv/join block the one loop thread), can always be finished *)
Theorem C17_terminates_N : forall behs sched,
  geffective P C sched (ginit behs) <= List.length behs * measure P C linit /\
  g_blocked_forever P C (runN behs sched) = false /\
  exists ext, g_all_done (runN behs (sched ++ ext)) = true.
Proof.
  intros behs sched.
  pose proof (grun_reach P C behs sched (ginit behs) (gr_init P C behs)) as Hr.
  split; [|split].
  - rewrite <- (gmeasure_init P C). apply (geffective_bounded P C true true C17_programs_check behs). constructor.
  - apply (never_blocked_forever_global P C true true C17_programs_check behs). exact Hr.
  - destruct (can_finish_global P C true true C17_programs_check behs _ _ Hr (le_n _)) as [ext [_ Hd]].
    exists ext. unfold runN, grun in *. now rewrite fold_left_app.
Qed.
Print Assumptions C17_terminates_N.

(* when all N awaits have returned the parent process holds no pipe end or reader of any
   invocation and no child is running or un-reaped *)
Theorem C17_no_fd_no_zombie_N : forall behs sched,
  g_all_done (runN behs sched) = true ->
  g_parent_fds (runN behs sched) = 0 /\ g_unreaped (runN behs sched) = 0.
Proof.
  intros behs sched Hd. apply (all_done_clean P C true true C17_programs_check behs); auto.
  - apply grun_reach. constructor.
  - intros b Hb. now rewrite andb_false_r.
  - intros v Hv. now rewrite andb_false_r.
Qed.
Print Assumptions C17_no_fd_no_zombie_N.

(* the coroutine that holds the loop thread is never stuck in recv/join while its callee is
   still computing (other tasks are delayed at most by a child that is sending or exiting) *)
Theorem C17_loop_thread_N : forall behs sched k v,
  g_running (runN behs sched) = Some k -> nth_error (g_invs (runN behs sched)) k = Some v ->
  gstep P C (GParent k) (runN behs sched) = None -> callee_pending C (g_loc v) = false.
Proof.
  intros behs sched k v. apply (holder_not_computing P C true true C17_programs_check behs).
  apply grun_reach. constructor.
Qed.
Print Assumptions C17_loop_thread_N.

(* ---- keyword names that collide with the implementation's own parameters (K3) --------------------- *)
Definition run1k (k : kwcoll) (b : beh) (sched : list lchoice) : lst := lrun_kw P C Gen.Subproc.kw_flags k b sched.

(* FULL STATEMENT (refuted, kept visible): for every keyword-name class k
     forall k b sched, returns_envelope b = false -> b_unp b = false ->
       p_done (run1k k b sched) = true -> spec_ok b (run1k k b sched) = true.
   Witness: a keyword named `func` (calculate_in_subprocess's own parameter, part of its
   documented keyword interface): the call raises TypeError although the callee, called with
   the same arguments, returns.  (`tx` / `fun`: _inner's parameters are positional-only now.) *)
Theorem C17_kw_collision_refuted :
  exists b sched, callee_reports b = true /\ returns_envelope b = false /\ b_unp b = false /\
    p_stat (ps (run1k KWParent b sched)) = PSDone (FRaise (XCls TypeErrorC)) /\ spec_ok b (run1k KWParent b sched) = false.
Proof.
  exists (mk_beh COk [] false true false false false).
  exists (LParent :: flat_map (fun _ => [LParent; LChild]) (seq 0 40)).
  vm_compute. repeat split; reflexivity.
Qed.
Print Assumptions C17_kw_collision_refuted.

(* whenever the keyword names bind (no collision, or the parameters are positional-only) the
   run is the run of the theorems above, so every one of them applies verbatim *)
Theorem C17_kw_partial : forall k b sched,
  kw_binds Gen.Subproc.kw_flags k = true -> run1k k b sched = run1 b sched.
Proof.
  intros k b sched H. unfold run1k, run1, lrun_kw, beh_kw. destruct k; unfold kw_binds in H; try rewrite H; reflexivity.
Qed.
Print Assumptions C17_kw_partial.

(* and with a collision the invocation still terminates and leaves nothing behind *)
Theorem C17_kw_collision_clean : forall k b sched,
  p_done (run1k k b sched) = true -> clean_exit (run1k k b sched) = true.
Proof.
  intros k b sched. unfold run1k, lrun_kw, beh_kw. destruct k.
  - now apply C17_no_fd_no_zombie_on_exit.
  - destruct (kw_parent_safe Gen.Subproc.kw_flags); [now apply C17_no_fd_no_zombie_on_exit | reflexivity].
  - destruct (kw_child_safe Gen.Subproc.kw_flags); now apply C17_no_fd_no_zombie_on_exit.
Qed.
Print Assumptions C17_kw_collision_clean.

(* ---- the hypotheses are satisfiable; concrete crash points ------------------------------------ *)
Definition fair1 : list lchoice := LParent :: flat_map (fun _ => [LParent; LChild]) (seq 0 40).
Definition b_ok := mk_beh COk [] false true false false false.
Definition b_big_ok := mk_beh COk [] true true true false false.
Definition b_value_error := mk_beh CRaise ValueErrorC false true false false false.
Definition b_sys_exit := mk_beh CRaise SystemExitC false true false false false.
Definition b_os_exit := mk_beh CDie [] false true false false false.

Example ex_returns : p_stat (ps (run1 b_ok fair1)) = PSDone FReturnCallee /\ returns_envelope b_ok = false.
Proof. vm_compute. split; reflexivity. Qed.
Example ex_raises : p_stat (ps (run1 b_value_error fair1)) = PSDone (FRaise XCallee).
Proof. vm_compute. reflexivity. Qed.
Example ex_sys_exit : p_stat (ps (run1 b_sys_exit fair1)) = PSDone (FRaise (XCls ChildProcessErrorC)).
Proof. vm_compute. reflexivity. Qed.
Example ex_os_exit : p_stat (ps (run1 b_os_exit fair1)) = PSDone (FRaise (XCls ChildProcessErrorC)).
Proof. vm_compute. reflexivity. Qed.
(* killed before its first step; killed in the middle of sending a large result *)
Example ex_killed_at_once :
  p_stat (ps (run1 b_ok ([LParent; LParent; LParent; LParent; LKill] ++ fair1))) = PSDone (FRaise (XCls ChildProcessErrorC)).
Proof. vm_compute. reflexivity. Qed.
Example ex_killed_mid_send :
  let s := run1 b_big_ok ([LParent; LParent; LParent; LParent; LChild; LChild; LChild; LChild; LKill] ++ fair1) in
  p_stat (ps s) = PSDone (FRaise (XCls ChildProcessErrorC)) /\ data s = [MTrunc] /\ clean_exit s = true.
Proof. vm_compute. repeat split; reflexivity. Qed.
Example ex_sync_blocked_reachable :   (* C17_single_nonblocking is not vacuous: join() does block *)
  exists sched, sync_blocked P C b_ok (run1 b_ok sched) = true.
Proof. exists (flat_map (fun _ => [LParent]) (seq 0 9) ++ [LChild; LChild; LChild; LChild] ++ flat_map (fun _ => [LParent]) (seq 0 6)).
  vm_compute. reflexivity. Qed.

(* the capacity of the pipe buffer is in the model.  A parent that reaps the child BEFORE it reads the
   result (process.join() ahead of rx.recv() - the "tidy up first" reordering) is fine for a small
   result, but for a result larger than the buffer it ends in the distinguished configuration
   deadlock: the child sits in write() until somebody drains the pipe, the parent sits in join() until
   the child exits - neither can step, and only a kill from outside would end it.  The regenerated program passes the sweep (C17_programs_check), this
   one fails it, so the termination theorems above do depend on recv() coming first. *)
Definition b_big_sync := mk_beh COk [] true true false false false.
Theorem C17_join_before_recv_deadlocks_on_large_result :
  (let s := lrun join_first_parent_prog C b_big_sync fair1 linit in
   parent_enabled join_first_parent_prog C b_big_sync s = false /\ child_enabled join_first_parent_prog C b_big_sync s = false /\
   c_sending (cs s) = true /\ c_running s = true /\ p_done s = false) /\
  p_stat (ps (lrun join_first_parent_prog C b_ok fair1 linit)) = PSDone FReturnCallee /\
  check_all join_first_parent_prog C true true = false /\
  p_stat (ps (run1 b_big_sync fair1)) = PSDone FReturnCallee.
Proof.
  split; [vm_compute; repeat split; reflexivity|].
  split; [vm_compute; reflexivity|].
  split; [exact join_first_fails_sweep | vm_compute; reflexivity].
Qed.
Print Assumptions C17_join_before_recv_deadlocks_on_large_result.

(* which signal stops the child of a cancelled await is in the model (PKill sg; the behaviour says whether
   SIGTERM is fatal for the child: an application that has installed its own SIGTERM handler / SIG_IGN hands
   it to every forked child).  The handler around the wait has no suspension point, so after process.<signal>()
   it goes straight to process.join().  With terminate() and a child in which SIGTERM is not fatal the
   coroutine then sits in join() - holding the loop thread - while the callee is still computing, for as long
   as the callee runs; where SIGTERM is fatal the same program cleans up at once, which is why the edit looks
   harmless.  The regenerated program (kill(): SIGKILL) is immune: same behaviour, same schedule, CancelledError
   at once, child killed and reaped.  `b` of every theorem above ranges over both values of b_term_fatal. *)
Definition b_ok_sigterm_handled := mk_beh_sig COk [] false true false false false false.
Definition cancel_then_parent : list lchoice :=
  flat_map (fun _ => [LParent]) (seq 0 12) ++ [LChild; LCancel] ++ flat_map (fun _ => [LParent]) (seq 0 6).
Theorem C17_terminate_in_cancel_handler_holds_loop_thread :
  (let s := lrun terminate_parent_prog C b_ok_sigterm_handled cancel_then_parent linit in
   sync_blocked terminate_parent_prog C b_ok_sigterm_handled s = true /\ callee_pending C s = true /\ p_done s = false) /\
  (let s := lrun terminate_parent_prog C b_ok cancel_then_parent linit in
   p_stat (ps s) = PSDone (FRaise (XCls CancelledErrorC)) /\ clean_exit s = true) /\
  check_all terminate_parent_prog C true true = false /\
  (let s := run1 b_ok_sigterm_handled cancel_then_parent in
   p_stat (ps s) = PSDone (FRaise (XCls CancelledErrorC)) /\ clean_exit s = true /\ c_killed (cs s) = true).
Proof.
  split; [vm_compute; repeat split; reflexivity|].
  split; [vm_compute; repeat split; reflexivity|].
  split; [exact terminate_fails_sweep | vm_compute; repeat split; reflexivity].
Qed.
Print Assumptions C17_terminate_in_cancel_handler_holds_loop_thread.
(* the hypotheses of C17_single_nonblocking are met by such a child too: it is a behaviour like any other *)
Example ex_sigterm_handled_child_nonblocking : forall sched,
  sync_blocked P C b_ok_sigterm_handled (run1 b_ok_sigterm_handled sched) = true ->
  callee_pending C (run1 b_ok_sigterm_handled sched) = false.
Proof. intro sched. apply C17_single_nonblocking. Qed.

(* ---- who else holds the write end (K6) -------------------------------------------------------------------- *)
(* FULL STATEMENT (refuted, kept visible): "every invocation terminates - including when the child process dies
   without reporting a result", whoever else holds the write end of the invocation's pipe:
     forall env b sched, <the parent of `lrun_env env b sched linit` can still move, or is done>.
   Every single-invocation theorem above is stated for env = 0 (`lrun` steps with `lstep P C b 0`): nobody but
   the parent and its child holds the write end.  For concurrent invocations that is a theorem
   (C17_noninterference_N: env_writers = 0, children of OTHER invocations never inherit it).  It is an assumption
   about the callee: a process which the CALLEE starts is forked from the child and inherits its copy of the
   write end - one more live holder, env = 1, for as long as that process lives.  Witness: the child is killed
   inside the callee; with env = 1 the parent stays suspended in the wait (no data, but a writer is left: neither
   readable nor EOF), no parent / child / kill step is enabled - the awaiting task does not learn of the death.
   As soon as that holder has gone too (env = 0) the same state runs to ChildProcessError and a clean exit, and
   without it the same schedule is never stuck.  (Open finding C17-K6; process.sentinel is inherited the same
   way, a repair needs a second wake-up source tied to the child alone, e.g. a pidfd.) *)
Definition lrun_env (env : nat) (b : beh) (sched : list lchoice) (s : lst) : lst :=
  fold_left (fun s c => match lstep P C b env c s with Some s' => s' | None => s end) sched s.
Definition kill_in_callee : list lchoice := flat_map (fun _ => [LParent]) (seq 0 12) ++ [LChild; LKill].
Theorem C17_grandchild_holds_write_end_refuted :
  let s := lrun_env 1 b_ok kill_in_callee linit in
  (c_stat (cs s) = CExited /\ c_killed (cs s) = true /\ p_stat (ps s) = PSWait /\ callee_reports b_ok = true) /\
  (lstep P C b_ok 1 LParent s = None /\ lstep P C b_ok 1 LChild s = None /\ lstep P C b_ok 1 LKill s = None) /\
  (let s' := lrun_env 0 b_ok fair1 s in
   p_stat (ps s') = PSDone (FRaise (XCls ChildProcessErrorC)) /\ clean_exit s' = true) /\
  (let s0 := run1 b_ok kill_in_callee in
   s0 = s /\ l_blocked_forever P C b_ok s0 = false).
Proof. vm_compute. repeat split; reflexivity. Qed.
Print Assumptions C17_grandchild_holds_write_end_refuted.

Example ex_protected : check_all protected_parent_prog C true true = true.
Proof. exact protected_strict. Qed.
Example ex_unpickle_error_clean :
  clean_exit (run1 (mk_beh COk [] false true false false true) fair1) = true.
Proof. vm_compute. reflexivity. Qed.
(* the same cancellation (while the callee computes; after the child has sent) on the current and
   on the protected program: CancelledError both times, nothing left behind only with the handler;
   cancelled before the coroutine starts: nothing was ever created *)
Definition cancel_in_callee : list lchoice := flat_map (fun _ => [LParent]) (seq 0 12) ++ [LChild; LCancel] ++ fair1.
Definition cancel_after_sent : list lchoice :=
  flat_map (fun _ => [LParent]) (seq 0 12) ++ flat_map (fun _ => [LChild]) (seq 0 4) ++ [LCancel] ++ fair1.
Example ex_cancel_protected :
  let s := lrun protected_parent_prog C b_ok cancel_in_callee linit in
  let s' := lrun protected_parent_prog C b_ok cancel_after_sent linit in
  p_stat (ps s) = PSDone (FRaise (XCls CancelledErrorC)) /\ clean_exit s = true /\ c_killed (cs s) = true /\
  p_stat (ps s') = PSDone (FRaise (XCls CancelledErrorC)) /\ clean_exit s' = true /\
  clean_exit (run1 b_ok cancel_in_callee) = true /\ clean_exit (run1 b_ok cancel_after_sent) = true /\
  clean_exit (run1 b_ok [LCancel]) = true /\ cancelled_at_wait (run1 b_ok [LCancel]) = false.
Proof. vm_compute. repeat split; reflexivity. Qed.

(* three concurrent invocations with different callees, one child killed: all finish, each
   with its own outcome *)
Definition fairN (n rounds : nat) : list gchoice :=
  flat_map (fun _ => flat_map (fun i => [GParent i; GChild i]) (seq 0 n)) (seq 0 rounds).
Example ex_three_concurrent :
  let g := runN [b_ok; b_value_error; b_big_ok] (flat_map (fun i => repeat (GParent i) 10) [0; 1; 2] ++ [GChild 2; GChild 2; GKill 2] ++ fairN 3 60) in
  g_all_done g = true /\
  map (fun v => p_stat (ps (g_loc v))) (g_invs g) =
    [PSDone FReturnCallee; PSDone (FRaise XCallee); PSDone (FRaise (XCls ChildProcessErrorC))] /\
  map (fun v => c_killed (cs (g_loc v))) (g_invs g) = [false; false; true].
Proof. vm_compute. repeat split; reflexivity. Qed.
(* children forked while other invocations are in flight do inherit foreign READ ends - the
   inheritance model is exercised - but never a write end *)
Example ex_inherits_foreign_read_end :
  let g := runN [b_ok; b_ok] (flat_map (fun _ => [GParent 0]) (seq 0 10) ++ flat_map (fun _ => [GParent 1]) (seq 0 5)) in
  map (fun v => g_inh v) (g_invs g) = [[]; [(0, {| e_rx := true; e_tx := false |})]].
Proof. vm_compute. reflexivity. Qed.


(* ---- what the callee RETURNS is an awaitable / a generator-like object / a coroutine object ----------
   (Model/SubprocRet.v; input dimension `ret` of the stress run.)  `c : callee` is EVERY plain or coroutine
   function and EVERY value it may return: plain data, a picklable instance of any class with __await__
   (awaiting it yields any value or raises any exception), a generator-like object, a coroutine object
   completing with any such value (nested to any depth), an unpicklable value.
   The regenerated child decides by the FUNCTION whether anything is run on an event loop
   (CSetupLoop + CRunCallee true = inspect.iscoroutinefunction(fun), up front): the parent is sent exactly
   the value the function returns - the object itself, never what awaiting it would produce - or nothing
   where that value cannot be pickled. *)
Theorem C17_returned_object_handed_back_as_is :
  forall c : callee, exists d, dispatch_of C = Some d /\ sent_ok c (run_inner d c) = true.
Proof. exact gen_faithful. Qed.
Print Assumptions C17_returned_object_handed_back_as_is.

(* Deciding by the VALUE the call produced (inspect.isawaitable(res)) fails for EVERY plain function that
   returns an object with __await__, whatever awaiting it does - and, apart from plain functions returning
   coroutine objects, for nothing else (which is why no test with ordinary callees can tell). *)
Theorem C17_dispatch_on_returned_value_refuted :
  (forall cls a, sent_ok (SyncFn (VAwaitable cls a)) (run_inner DByValue (SyncFn (VAwaitable cls a))) = false) /\
  (forall c, (match c with SyncFn (VAwaitable _ _) => false | SyncFn (VCoro _) => false | _ => true end) = true ->
             sent_ok c (run_inner DByValue c) = true).
Proof. split; [exact by_value_refuted | exact by_value_elsewhere]. Qed.
Print Assumptions C17_dispatch_on_returned_value_refuted.

(* Never running anything fails for every coroutine function with a picklable result. *)
Theorem C17_coroutine_functions_must_be_run :
  forall v, picklable v = true -> sent_ok (CoroFn v) (run_inner DNever (CoroFn v)) = false.
Proof. exact never_refuted. Qed.
Print Assumptions C17_coroutine_functions_must_be_run.

Example ex_ret_codes :
  map (fun k => (eval_ret C k false, eval_ret C k true)) [0; 1; 2; 3; 4; 5] =
  [([1%Z], [1%Z]); ([1%Z], [1%Z]); ([1%Z], [1%Z]); ([1%Z], [1%Z]); ([1%Z], [1%Z]); ([0%Z], [0%Z])].
Proof. vm_compute. reflexivity. Qed.


(* ---- several failed invocations in one process: identity and lifetime of what reports them -----------
   (Model/SubprocExc.v; input dimensions `hold` / `round` of the stress run.)  `ends` is ANY sequence of
   invocations of one process, each ending with a value, the callee's exception or the report of a silent
   child death.  The regenerated parent constructs that report in its handler (PASetChildProcessError is the
   statement `result = SubprocessError(ex=ChildProcessError(...))`): distinct invocations are handed
   distinct objects, and once the callers have dropped what they caught no frame - hence no Process object
   with its two descriptors - of any of them is reachable. *)
Theorem C17_each_failure_its_own_exception_nothing_retained :
  exists o, origin_of P = Some o /\
    (forall i j e e', i <> j -> handed o i e <> handed o j e') /\
    (forall ends, open_fds o ends [] = 0).
Proof. exists OHandler. split; [exact gen_origin | split; [exact handler_distinct | exact handler_nothing_left]]. Qed.
Print Assumptions C17_each_failure_its_own_exception_nothing_retained.

(* ONE instance constructed at import and re-raised: all silent deaths are reported by the same object, whose
   traceback keeps the frame of every one of them - two descriptors per death stay open for the life of the
   process, although every caller has dropped what it caught. *)
Theorem C17_module_level_report_refuted :
  (forall i j, handed OModule i IDeath = handed OModule j IDeath) /\
  (forall ends, open_fds OModule ends [] = 2 * count_deaths ends).
Proof. split; [exact module_same | exact module_leaks]. Qed.
Print Assumptions C17_module_level_report_refuted.

(* What the model says about the regenerated program WHILE the callers still hold what they caught: two
   descriptors per failed invocation (callee's exception or silent death alike) stay open for as long -
   the frame in the traceback holds the joined, never close()d Process object.  The stress run observes
   exactly this number (fd_delta_while_held; compared as correspondence, not judged as the property). *)
Theorem C17_descriptors_live_as_long_as_the_caught_exception :
  forall ends, open_fds OHandler ends (failures ends 0) = 2 * count_failed ends.
Proof. exact handler_while_held. Qed.
Print Assumptions C17_descriptors_live_as_long_as_the_caught_exception.

Example ex_exc_codes :
  eval_exc P [IDeath; IReturn; IRaise; IDeath] = [0%Z; 6%Z; 1%Z].
Proof. vm_compute. reflexivity. Qed.
