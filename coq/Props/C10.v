(* C10 - type-safe frozen dataclass: an instance exists iff every field value conforms.
   Property theorems only.  `P` is the decorator program regenerated from
   pedantic/decorators/cls_deco_frozen_dataclass.py on every run (Gen/Dataclass.v); Model/Dataclass.v
   gives it its meaning.  The type checker is a parameter `check` of every theorem
   (`check vis h a v` = outcome of assert_value_matches_type for annotation a and value v; `vis` = the
   context handed to it contains the caller's frame), so the statements hold for the checker of
   Model/Checker.v (plugged in by Model/DataclassEval.v for the correspondence run) and for any other.
   Quantification: all class chains (any number of fields, defaults, default_factory, init=False,
   any depth of inheritance, decorated and undecorated subclasses, every slots/order/kw_only/type_safe
   choice per class), all heaps, all keyword assignments, the three construction paths. *)
From Coq Require Import List ZArith Bool Arith Lia.
From PV Require Import Base.Exn Model.Dataclass Spec.DataclassSpec Proofs.DataclassBase Proofs.DataclassRef
  Proofs.DataclassC10 Gen.Dataclass.
From PV Require Base.Values Base.Ann Spec.Conforms Proofs.CheckerGood Model.DataclassEval Proofs.DataclassReal.
Import ListNotations.

Definition P : prog := Gen.Dataclass.dc_prog.

(* translation obligation: the regenerated decorator is the member of the family the proofs are about
   (dataclass(frozen=True, order=, kw_only=, slots=); new_post_init = old, get_context, validate_types,
   installed before dataclass(); copy_with = replace; deep_copy_with = type(self)( ** {deepcopy of the
   init fields, **kwargs} ); validate_types checks every field of fields(new_class)) *)
Theorem C10_prog_good : prog_good P = true.
Proof. vm_compute. reflexivity. Qed.
Print Assumptions C10_prog_good.

Lemma P_ref : P = ref_prog (p_defaults P).
Proof. apply prog_good_eq, C10_prog_good. Qed.

(* FULL STATEMENT (false on the current tree, see C10_instance_iff_conforming_refuted and C10_subclass_post_init_refuted;
   there for every class C that has a type-safe layer, here already for the validating ones):
     forall check C p st st1 r, validating P C = true -> path_candidate P C p st = (st1, Ok r) ->
       user_raises (resolve_pi P C) = None ->
       snd (run_path P check C p st) = Ok r <-> all_conform (check true) (s_heap st1) (dc_fields C) r = true
   i.e. with the names visible where the object is built.  What holds without any guard: *)

(* the exact characterisation: the object that dataclasses built (path_candidate: the constructor's own
   keyword binding, replace()'s, or deep_copy_with's deep-copied arguments) is returned iff every field
   conforms under every context in which the path validates it; otherwise the exception of the first
   failing check leaves and no instance is returned *)
Theorem C10_instance_iff_all_contexts : forall check C p st st1 r,
  validating P C = true ->
  path_candidate P C p st = (st1, Ok r) ->
  user_raises (resolve_pi P C) = None ->
  (snd (run_path P check C p st) = Ok r <->
   forall b, In b (vis_list (resolve_pi P C) (path_via p) 0) ->
             all_conform (check b) (s_heap st1) (dc_fields C) r = true) /\
  (forall x, snd (run_path P check C p st) = Ok x -> x = r) /\
  (forall e, snd (run_path P check C p st) = Raise e ->
     exists b, In b (vis_list (resolve_pi P C) (path_via p) 0) /\
               first_reject (check b) (s_heap st1) (dc_fields C) r = Some e).
Proof.
  rewrite P_ref. intros check C p st st1 r Hv Hc Hu.
  rewrite (path_outcome _ check C p st st1 r Hv Hc). rewrite Hu. cbn [snd].
  pose proof (validations_ok (p_defaults P) check C (path_via p) (s_heap st1) r) as Hok.
  destruct (validations (p_defaults P) check C (path_via p) (s_heap st1) r) as [[]|e] eqn:E.
  - split; [|split].
    + split; [intros _; now apply Hok|reflexivity].
    + intros x Hx. now inversion Hx.
    + intros e He. discriminate.
  - split; [|split].
    + split; [discriminate|]. intro H. apply Hok in H. discriminate.
    + intros x Hx. discriminate.
    + intros e' He. inversion He. subst e'. unfold validations in E.
      revert E. generalize (vis_list (resolve_pi (ref_prog (p_defaults P)) C) (path_via p) 0).
      induction l as [|b l IH]; simpl; [discriminate|].
      destruct (first_reject (check b) (s_heap st1) (dc_fields C) r) as [e1|] eqn:E1; simpl.
      * intro H. inversion H. subst. exists b. split; [now left|assumption].
      * intro H. destruct (IH H) as [b' [B1 B2]]. exists b'. split; [now right|assumption].
Qed.
Print Assumptions C10_instance_iff_all_contexts.

(* the property on all three paths, under the exact guards that exclude the two refuted regions:
   `validating` (the __post_init__ attribute of the class still is a new_post_init: no subclass below the type-safe
   layer replaced it, see C10_subclass_post_init_refuted) and `ctx_irrelevant` (this path validates in the caller's
   context only, or the checker's verdict on the annotations of THIS class does not depend on names local to the
   caller - every class without a forward reference to a function-local class, see C10_instance_iff_conforming_refuted) *)
Theorem C10_instance_iff_conforming_partial : forall check C p st st1 r,
  ctx_irrelevant (p_defaults P) check C (path_via p) ->
  validating P C = true ->
  path_candidate P C p st = (st1, Ok r) ->
  user_raises (resolve_pi P C) = None ->
  (all_conform (check true) (s_heap st1) (dc_fields C) r = true -> snd (run_path P check C p st) = Ok r) /\
  (all_conform (check true) (s_heap st1) (dc_fields C) r = false ->
     exists e, first_reject (check true) (s_heap st1) (dc_fields C) r = Some e /\
               snd (run_path P check C p st) = Raise e).
Proof.
  rewrite P_ref. intros check C p st st1 r Hi Hv Hc Hu.
  change (p_defaults (ref_prog (p_defaults P))) with (p_defaults P) in Hi.
  rewrite (path_outcome _ check C p st st1 r Hv Hc). rewrite Hu. cbn [snd].
  assert (Hn : is_new (resolve_pi (ref_prog (p_defaults P)) C) = true).
  { unfold validating in Hv. destruct (nearest_deco C); [|discriminate]. now apply andb_true_iff in Hv as [_ Hv]. }
  rewrite (validations_guarded _ check C (path_via p) (s_heap st1) r Hi Hn).
  destruct (first_reject (check true) (s_heap st1) (dc_fields C) r) as [e|] eqn:E.
  - split.
    + intro H. apply first_reject_none in H. congruence.
    + intros _. exists e. split; reflexivity.
  - split; [reflexivity|]. intro H. apply first_reject_none in E. congruence.
Qed.
Print Assumptions C10_instance_iff_conforming_partial.

(* ... and what leaves is PedanticTypeCheckException whenever that is what the checker raises *)
Theorem C10_rejects_with_type_check_exception : forall check C p st st1 r,
  (forall b h a v e, check b h a v = Raise e -> derives e PTypeCheckC = true) ->
  chain_ok C = true ->
  validating P C = true ->
  path_candidate P C p st = (st1, Ok r) ->
  user_raises (resolve_pi P C) = None ->
  forall e, snd (run_path P check C p st) = Raise e -> derives e PTypeCheckC = true.
Proof.
  intros check C p st st1 r Hped Hok Hv Hc Hu e He.
  destruct (C10_instance_iff_all_contexts check C p st st1 r Hv Hc Hu) as [_ [_ H]].
  destruct (H e He) as [b [_ Hb]]. clear H.
  assert (Hset : forall f, In f (dc_fields C) -> getattr (s_heap st1) r (f_name f) <> None).
  { unfold path_candidate, bindM in Hc. destruct (path_args P C p st) as [st0 [args|x]]; [|discriminate].
    intros f Hf. eapply candidate_fields_set; eassumption. }
  revert Hb Hset. induction (dc_fields C) as [|f fs IH]; simpl; [discriminate|]. intros Hb Hset.
  destruct (getattr (s_heap st1) r (f_name f)) as [v|] eqn:Eg; [|exfalso; apply (Hset f); [now left|assumption]].
  destruct (check b (s_heap st1) (f_ann f) v) as [[]|e1] eqn:Ec.
  - apply IH; [assumption|]. intros g Hg. apply Hset. now right.
  - inversion Hb. subst. eapply Hped. eassumption.
Qed.
Print Assumptions C10_rejects_with_type_check_exception.

(* the full statement is false: a checker that resolves a name only in the caller's frame (a forward
   reference to a class local to the function that defines and uses the dataclass) accepts the value in
   the constructor and rejects the very same value in copy_with (get_context(depth=3) lands in the frame
   of dataclasses.replace).  Witness replayed on the real code by harness/dc_common.py (finding C10-ctx). *)
Definition w_check : bool -> heap -> ann -> value -> outcome unit :=
  fun vis _ _ _ => if vis then Ok tt else Raise PTypeCheckC.
Definition w_layer : layer :=
  mkLayer 0 (Some (mkDeco true [])) [mkField 0 0 DNone true true] None.
Theorem C10_instance_iff_conforming_refuted :
  let C := [w_layer] in let kw := [(0, VAtom 0)] in let st := mkSt [] [] in
  validating P C = true /\ user_raises (resolve_pi P C) = None /\
  exists st1 r, run_path P w_check C (ByCtor kw) st = (st1, Ok r) /\
    all_conform (w_check true) (s_heap st1) (dc_fields C) r = true /\
    exists st2 r2, path_candidate P C (ByCopy r []) st1 = (st2, Ok r2) /\
      all_conform (w_check true) (s_heap st2) (dc_fields C) r2 = true /\
      snd (run_path P w_check C (ByCopy r []) st1) = Raise PTypeCheckC.
Proof.
  cbv zeta. split; [vm_compute; reflexivity|]. split; [vm_compute; reflexivity|].
  eexists. eexists. split; [vm_compute; reflexivity|]. split; [vm_compute; reflexivity|].
  eexists. eexists. split; [vm_compute; reflexivity|]. split; vm_compute; reflexivity.
Qed.
Print Assumptions C10_instance_iff_conforming_refuted.

(* the full statement is false in a second region: a subclass of a type-safe class that defines __post_init__
   itself (without calling super().__post_init__()) replaces the hook that carries the check - be it a plain subclass or one
   decorated with @frozen_dataclass (type_safe off).  Its instances ARE instances of the type-safe class, yet the
   constructor, copy_with and deep_copy_with return them with a non-conforming field; only validate_types() notices.
   Witness replayed on the real code by harness/dc_common.py (finding C10-override). *)
Definition o_parent : layer := mkLayer 0 (Some (mkDeco true [])) [mkField 0 0 DNone true true] None.
Definition o_plain : layer := mkLayer 1 None [] (Some PIRet).
Definition o_deco : layer := mkLayer 1 (Some (mkDeco false [])) [] (Some PIRet).
Definition o_check : bool -> heap -> ann -> value -> outcome unit :=
  fun _ _ _ v => match v with VAtom 0%Z => Ok tt | _ => Raise PTypeCheckC end.
Theorem C10_subclass_post_init_refuted : forall sub, sub = o_plain \/ sub = o_deco ->
  let C := [sub; o_parent] in let bad := [(0, VAtom 1)] in let st := mkSt [] [] in
  validating P [o_parent] = true /\ validating P C = false /\
  (forall b h a v, o_check b h a v = o_check true h a v) /\
  snd (run_path P o_check [o_parent] (ByCtor bad) st) = Raise PTypeCheckC /\
  exists st1 r, run_path P o_check C (ByCtor bad) st = (st1, Ok r) /\
    all_conform (o_check true) (s_heap st1) (dc_fields C) r = false /\
    s_journal st1 = [EPi 1] /\
    (exists st2 r2, run_path P o_check C (ByCopy r []) st1 = (st2, Ok r2) /\
                    all_conform (o_check true) (s_heap st2) (dc_fields C) r2 = false) /\
    (exists st3 r3, run_path P o_check C (ByDeep r []) st1 = (st3, Ok r3) /\
                    all_conform (o_check true) (s_heap st3) (dc_fields C) r3 = false) /\
    snd (validate_types P o_check true C r st1) = Raise PTypeCheckC.
Proof.
  intros sub [->| ->]; cbv zeta;
    (split; [vm_compute; reflexivity|]); (split; [vm_compute; reflexivity|]); (split; [reflexivity|]);
    (split; [vm_compute; reflexivity|]);
    eexists; eexists; (split; [vm_compute; reflexivity|]); (split; [vm_compute; reflexivity|]);
    (split; [vm_compute; reflexivity|]);
    (split; [eexists; eexists; split; vm_compute; reflexivity|]);
    (split; [eexists; eexists; split; vm_compute; reflexivity|]); vm_compute; reflexivity.
Qed.
Print Assumptions C10_subclass_post_init_refuted.

(* when dataclasses itself refuses the arguments (missing / unexpected keyword: TypeError; init=False
   field given to replace(): ValueError) that exception leaves and no instance is returned *)
Theorem C10_binding_errors_propagate : forall check C p st st1 e,
  nearest_deco C <> None ->
  path_candidate P C p st = (st1, Raise e) -> run_path P check C p st = (st1, Raise e).
Proof. rewrite P_ref. intros. now apply path_raises_early. Qed.
Print Assumptions C10_binding_errors_propagate.

(* a user-defined __post_init__ still runs, before the check: its journal entry comes first, every check
   event after it; if it raises, that exception leaves, nothing was checked and no instance is returned *)
Theorem C10_post_init_runs_first : forall check C p st st1 r,
  validating P C = true ->
  path_candidate P C p st = (st1, Ok r) ->
  exists checks, forallb is_check checks = true /\
    s_heap (fst (run_path P check C p st)) = s_heap st1 /\
    s_journal (fst (run_path P check C p st)) =
      s_journal st1 ++ match user_of (resolve_pi P C) with Some (c, _) => EPi c :: checks | None => checks end /\
    (forall e, user_raises (resolve_pi P C) = Some e ->
       checks = [] /\ snd (run_path P check C p st) = Raise e).
Proof.
  rewrite P_ref. intros check C p st st1 r Hv Hc.
  rewrite (path_outcome _ check C p st st1 r Hv Hc). cbn [fst snd].
  destruct (pi_spec_events (resolve_pi (ref_prog (p_defaults P)) C) (path_via p) 0
              (fun b => fst (checks_prefix check b (s_heap st1) r (dc_fields C)))
              (fun b => snd (checks_prefix check b (s_heap st1) r (dc_fields C))))
    as [checks [H1 [H2 H3]]].
  - intro b. apply checks_prefix_events.
  - apply resolve_pi_wf.
  - exists checks. split; [assumption|]. split; [reflexivity|]. split.
    + unfold st_app. cbn [s_journal]. now rewrite H2.
    + intros e He. split; [now apply (H3 e)|]. now rewrite He.
Qed.
Print Assumptions C10_post_init_runs_first.

(* validate_types() called on any object, in any state of the heap (e.g. after a list held by a field
   was mutated): raises iff some field currently does not conform - the exception of the first such
   field - and touches nothing *)
Theorem C10_validate_types_iff : forall check vis C r st,
  nearest_deco C <> None ->
  s_heap (fst (validate_types P check vis C r st)) = s_heap st /\
  (snd (validate_types P check vis C r st) = Ok tt <-> all_conform (check vis) (s_heap st) (dc_fields C) r = true) /\
  (forall e, snd (validate_types P check vis C r st) = Raise e <->
             first_reject (check vis) (s_heap st) (dc_fields C) r = Some e).
Proof.
  rewrite P_ref. intros check vis C r st HD.
  destruct (validate_outcome (p_defaults P) check vis C r st HD) as [checks [_ H]]. rewrite H. cbn [fst snd].
  split; [reflexivity|].
  destruct (first_reject (check vis) (s_heap st) (dc_fields C) r) as [e|] eqn:E; simpl.
  - split.
    + split; [discriminate|]. intro H1. apply first_reject_none in H1. congruence.
    + intro e'. split; intro H1; inversion H1; reflexivity.
  - split.
    + split; [intros _; now apply first_reject_none|reflexivity].
    + intro e'. split; discriminate.
Qed.
Print Assumptions C10_validate_types_iff.

(* which classes validate: a class decorated with type_safe=True (any other options, any bases), and every
   subclass of a validating class - decorated (with or without type_safe, with or without slots) or not
   decorated at all - that does not replace __post_init__ *)
Theorem C10_validating_classes : forall L rest,
  (decorated L = true -> param_of P L PTypeSafe = true -> validating P (L :: rest) = true) /\
  (l_pi L = None -> validating P rest = true -> validating P (L :: rest) = true).
Proof.
  rewrite P_ref. intros L rest. split.
  - apply decorated_type_safe_validating.
  - intros Hpi Hv. destruct (decorated L) eqn:HL.
    + now apply decorated_child_validating.
    + now apply undecorated_inherits_validating.
Qed.
Print Assumptions C10_validating_classes.

(* the property in terms of a specification of conformance: whenever the checker accepts what must
   conform and rejects with PedanticTypeCheckException what must not (C01/C02 for Model/Checker.v) *)
Theorem C10_against_specification : forall check (must mustnot : heap -> ann -> value -> bool) C p st st1 r,
  ctx_irrelevant (p_defaults P) check C (path_via p) ->
  (forall h a v, must h a v = true -> check true h a v = Ok tt) ->
  (forall h a v, mustnot h a v = true -> exists e, check true h a v = Raise e /\ derives e PTypeCheckC = true) ->
  chain_ok C = true -> validating P C = true ->
  path_candidate P C p st = (st1, Ok r) ->
  user_raises (resolve_pi P C) = None ->
  let field_is (q : heap -> ann -> value -> bool) f :=
    match getattr (s_heap st1) r (f_name f) with Some v => q (s_heap st1) (f_ann f) v | None => false end in
  (forallb (field_is must) (dc_fields C) = true -> snd (run_path P check C p st) = Ok r) /\
  (forall pre f post, dc_fields C = pre ++ f :: post -> forallb (field_is must) pre = true -> field_is mustnot f = true ->
     exists e, snd (run_path P check C p st) = Raise e /\ derives e PTypeCheckC = true).
Proof.
  intros check must mustnot C p st st1 r Hi Hm Hn Hok Hv Hc Hu field_is.
  destruct (C10_instance_iff_conforming_partial check C p st st1 r Hi Hv Hc Hu) as [A B].
  split.
  - intro H. apply A. unfold all_conform. rewrite forallb_forall in *. intros f Hf. specialize (H f Hf).
    unfold field_is in H. destruct (getattr (s_heap st1) r (f_name f)); [|discriminate]. now rewrite (Hm _ _ _ H).
  - intros pre f post Hd Hpre Hf.
    assert (Hfr : exists e, first_reject (check true) (s_heap st1) (dc_fields C) r = Some e /\ derives e PTypeCheckC = true).
    { rewrite Hd. clear Hd. induction pre as [|g pre IH]; simpl.
      - unfold field_is in Hf. destruct (getattr (s_heap st1) r (f_name f)) as [v|]; [|discriminate].
        destruct (Hn _ _ _ Hf) as [e [E1 E2]]. rewrite E1. now exists e.
      - simpl in Hpre. apply andb_true_iff in Hpre as [Hg Hpre]. unfold field_is in Hg.
        destruct (getattr (s_heap st1) r (f_name g)) as [v|]; [|discriminate]. rewrite (Hm _ _ _ Hg). now apply IH. }
    destruct Hfr as [e [E1 E2]]. exists e. split; [|assumption].
    destruct (all_conform (check true) (s_heap st1) (dc_fields C) r) eqn:Eall.
    + apply first_reject_none in Eall. congruence.
    + destruct (B eq_refl) as [e' [F1 F2]]. congruence.
Qed.
Print Assumptions C10_against_specification.

(* ... instantiated: with the checker of Model/Checker.v under the tables regenerated from check_types.py
   (what Model/DataclassEval.v evaluates), against Spec/Conforms.v, using C01/C02 (Proofs/CheckerTop.v).
   E: annotation objects, atoms and names of a concrete program; field_verdict = conforms on the annotation
   object and the value tree of the field, under the context the validation runs in.
   (1) every field must conform => the instance is returned; (2) all annotations in the vocabulary and some
   field must not conform => PedanticTypeCheckException, on every path *)
Theorem C10_real_checker_good : CheckerGood.cfg_good DataclassReal.real_cfg = true.
Proof. vm_compute. reflexivity. Qed.
Print Assumptions C10_real_checker_good.

Theorem C10_real_checker : forall E C p st st1 r,
  let check := DataclassEval.check_real E in
  validating P C = true ->
  path_candidate P C p st = (st1, Ok r) ->
  user_raises (resolve_pi P C) = None ->
  let contexts := vis_list (resolve_pi P C) (path_via p) 0 in
  ((forall b, In b contexts -> DataclassReal.all_must E b (s_heap st1) (dc_fields C) r) ->
     snd (run_path P check C p st) = Ok r) /\
  ((forall b, In b contexts -> DataclassReal.all_decided E b (s_heap st1) (dc_fields C) r) ->
   (exists b f, In b contexts /\ In f (dc_fields C) /\
                DataclassReal.field_verdict E b (s_heap st1) r f = Some Conforms.MustNot) ->
     exists e, snd (run_path P check C p st) = Raise e /\ derives e PTypeCheckC = true).
Proof.
  intros E C p st st1 r check Hv Hc Hu contexts. subst contexts check.
  destruct (C10_instance_iff_all_contexts (DataclassEval.check_real E) C p st st1 r Hv Hc Hu) as [Hiff [_ Hr]]. split.
  - intro Hm. apply Hiff. intros b Hb. apply (DataclassReal.all_must_conform C10_real_checker_good). now apply Hm.
  - intros Hd [b [f [Hb [Hf Hn]]]].
    destruct (snd (run_path P (DataclassEval.check_real E) C p st)) as [x|e] eqn:Eo.
    + exfalso. assert (Hx : x = r).
      { destruct (C10_instance_iff_all_contexts (DataclassEval.check_real E) C p st st1 r Hv Hc Hu) as [_ [Hx _]]. apply Hx. exact Eo. }
      subst x. pose proof (proj1 Hiff eq_refl b Hb) as Ha.
      rewrite (DataclassReal.mustnot_rejects C10_real_checker_good E b (s_heap st1) (dc_fields C) r f Hf Hn) in Ha. discriminate.
    + exists e. split; [reflexivity|]. destruct (Hr e eq_refl) as [b' [Hb' Hfr]].
      eapply (DataclassReal.decided_reject_is_type_check C10_real_checker_good); [apply Hd; exact Hb'|exact Hfr].
Qed.
Print Assumptions C10_real_checker.

(* ---- non-vacuity: a two-level hierarchy (type-safe parent with a user __post_init__, undecorated
   child), a checker that accepts even atoms; hypotheses hold, both directions really occur, on all paths *)
Definition ex_check : bool -> heap -> ann -> value -> outcome unit :=
  fun _ _ a v => match v with VAtom z => if Z.even z then Ok tt else Raise PTypeCheckC | VRef _ => Ok tt end.
Definition ex_parent : layer :=
  mkLayer 1 (Some (mkDeco false [(PTypeSafe, true); (PSlots, true)]))
          [mkField 0 0 DNone true true; mkField 1 1 (DFactory KList) true true; mkField 2 2 (DVal (VAtom 4)) false true]
          (Some PIRet).
Definition ex_child : layer := mkLayer 2 None [] None.
Example C10_example :
  let C := [ex_child; ex_parent] in let st := mkSt [] [] in
  validating P C = true /\ chain_ok C = true /\ user_raises (resolve_pi P C) = None /\
  (forall b h a v, ex_check b h a v = ex_check true h a v) /\
  snd (run_path P ex_check C (ByCtor [(0, VAtom 2)]) st) = Ok 1 /\
  snd (run_path P ex_check C (ByCtor [(0, VAtom 3)]) st) = Raise PTypeCheckC /\
  (let st1 := fst (run_path P ex_check C (ByCtor [(0, VAtom 2)]) st) in
   s_journal st1 = [EPi 1; ECheck 0 (VAtom 2); ECheck 1 (VRef 0); ECheck 2 (VAtom 4)] /\
   snd (run_path P ex_check C (ByCopy 1 [(0, VAtom 6)]) st1) = Ok 2 /\
   snd (run_path P ex_check C (ByCopy 1 [(0, VAtom 7)]) st1) = Raise PTypeCheckC /\
   snd (run_path P ex_check C (ByDeep 1 [(0, VAtom 8)]) st1) = Ok 8 /\
   snd (run_path P ex_check C (ByDeep 1 [(0, VAtom 9)]) st1) = Raise PTypeCheckC /\
   snd (run_path P ex_check C (ByCopy 1 [(2, VAtom 0)]) st1) = Raise ValueErrorC /\
   snd (run_path P ex_check C (ByCtor []) st1) = Raise TypeErrorC).
Proof. cbv zeta. repeat split; vm_compute; reflexivity. Qed.

(* the context guard is strictly weaker than "the checker never looks at the caller's names": the checker of the
   refutation witness satisfies it on the constructor path of a class with one type-safe layer *)
Example C10_guard_example :
  ctx_irrelevant (p_defaults P) w_check [w_layer] VCtor /\ ~ vis_indep w_check.
Proof.
  split.
  - left. intros b Hb. vm_compute in Hb. destruct Hb as [<-|[]]. reflexivity.
  - intro H. specialize (H false [] 0 (VAtom 0)). discriminate H.
Qed.

(* ... and with the real checker: field annotation `int`, values 5 and '' *)
Definition ex_env : DataclassEval.env :=
  DataclassEval.mkEnv [] [Ann.ACls Values.CInt] [Values.VInt 5%Z; Values.VStr []] [].
Example C10_real_example :
  let C := [w_layer] in let st := mkSt [] [] in let f := mkField 0 0 DNone true true in
  snd (run_path P (DataclassEval.check_real ex_env) C (ByCtor [(0, VAtom 0)]) st) = Ok 0 /\
  DataclassReal.field_verdict ex_env true [mkObj (KData 0) [] [(0, VAtom 0)]] 0 f = Some Conforms.Must /\
  snd (run_path P (DataclassEval.check_real ex_env) C (ByCtor [(0, VAtom 1)]) st) = Raise PTypeCheckC /\
  DataclassReal.field_verdict ex_env true [mkObj (KData 0) [] [(0, VAtom 1)]] 0 f = Some Conforms.MustNot.
Proof. cbv zeta. repeat split; vm_compute; reflexivity. Qed.

(* the same bypass (C10_subclass_post_init_refuted) on the classes of C10_example *)
Example C10_override_bypasses :
  let C := [mkLayer 2 None [] (Some PIRet); ex_parent] in
  validating P C = false /\ snd (run_path P ex_check C (ByCtor [(0, VAtom 3)]) (mkSt [] [])) = Ok 1.
Proof. cbv zeta. split; vm_compute; reflexivity. Qed.
