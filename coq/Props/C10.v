(* C10 - type-safe frozen dataclass: an instance exists iff every field value conforms.
   Property theorems only.  `P` is the decorator program regenerated from
   pedantic/decorators/cls_deco_frozen_dataclass.py on every run (Gen/Dataclass.v); Model/Dataclass.v
   gives it its meaning.  The type checker is a parameter `check` of every theorem
   (`check vis h a v` = outcome of assert_value_matches_type for annotation a and value v; `vis` = the
   context handed to it contains the caller's frame), so the statements hold for the checker of
   Model/Checker.v (plugged in by Model/DataclassEval.v for the correspondence run) and for any other.
   Quantification: all class chains (any number of fields, defaults, default_factory, init=False,
   any depth of inheritance, decorated and undecorated subclasses, every slots/order/kw_only/type_safe
   choice per class, user-written __post_init__ bodies that assign attributes of the object with
   object.__setattr__, call super().__post_init__() and return or raise), all heaps, all keyword
   assignments, the three construction paths.  The FIELD VALUES of the object are tied to the request by
   C10_candidate_fields (before the hooks) and C10_final_field_values (what the check reads / the returned instance holds).

   Vocabulary.  path_candidate: the object dataclasses builds before __post_init__ runs (the constructor's own
   keyword binding, replace()'s, or deep_copy_with's deep-copied arguments).  post_init_run: the whole of
   __post_init__ on that object as a pure function of the heap (Proofs/DataclassC10.v: the mirror of Model.run_pi
   in which the validation loop is Spec.first_reject), returning (journal events, heap it leaves, outcome).
   hooks_run: the part of it below the stacked new_post_init wrappers, i.e. the user-written code (for hierarchies
   with several type-safe layers separated by hooks that call super() it contains the inner validations). *)
From Coq Require Import List ZArith Bool Arith Lia.
From PV Require Import Base.Exn Model.Dataclass Spec.DataclassSpec Proofs.DataclassBase Proofs.DataclassRef
  Proofs.DataclassC10 Proofs.DataclassC11 Proofs.DataclassSucceeds Gen.Dataclass.
From PV Require Base.Values Base.Ann Spec.Conforms Proofs.CheckerGood Model.DataclassEval Proofs.DataclassReal.
Import ListNotations.

Definition P : prog := Gen.Dataclass.dc_prog.
Definition defs := p_defaults P.

(* translation obligation: the regenerated decorator is the member of the family the proofs are about
   (dataclass(frozen=True, order=, kw_only=, slots=); new_post_init = old, get_context, validate_types,
   installed before dataclass(); copy_with = replace; deep_copy_with = type(self)( ** {deepcopy of the
   init fields, **kwargs} ); validate_types checks every field of fields(new_class)) *)
Theorem C10_prog_good : prog_good P = true.
Proof. vm_compute. reflexivity. Qed.
Print Assumptions C10_prog_good.

Lemma P_ref : P = ref_prog defs.
Proof. apply prog_good_eq, C10_prog_good. Qed.

(* ---------------------------------------------------------------- a well-formed request is never refused *)
(* every keyword names a field of __init__; the constructor is given every field without default; the receiver of
   copy_with / deep_copy_with holds a value for every field of __init__ (Spec.path_request_ok).  Then dataclasses
   builds the candidate - no TypeError / ValueError / AttributeError from the binding, on any of the three paths *)
Theorem C10_candidate_exists : forall C D p st,
  nearest_deco C = Some D -> path_request_ok (dc_fields C) p (s_heap st) = true ->
  exists st1 r, path_candidate P C p st = (st1, Ok r).
Proof. rewrite P_ref. intros. eapply path_candidate_ok; eassumption. Qed.
Print Assumptions C10_candidate_exists.

(* ... and whether an instance is RETURNED is decided by __post_init__ on that candidate alone: always when the generated
   __init__ does not call it (no type-safe layer, no user hook), else iff post_init_run returns; the instance is the
   candidate *)
Theorem C10_request_decided_by_post_init : forall check C D p st,
  nearest_deco C = Some D -> path_request_ok (dc_fields C) p (s_heap st) = true ->
  exists st1 r, path_candidate P C p st = (st1, Ok r) /\
    (init_calls_pi P D = false -> run_path P check C p st = (st1, Ok r)) /\
    (init_calls_pi P D = true ->
       ((exists st', run_path P check C p st = (st', Ok r)) <->
        snd (post_init_run defs check C p r (s_heap st1)) = Ok tt) /\
       (forall st' x, run_path P check C p st = (st', Ok x) -> x = r)).
Proof. rewrite P_ref. intros. eapply path_succeeds; eassumption. Qed.
Print Assumptions C10_request_decided_by_post_init.

(* the candidate's FIELD VALUES are those of the request (Spec.spec_source, the case analysis behind Spec.spec_value:
   spec_value_source): for every field, on all three paths - the keyword value; else, for the copy methods, the original's
   value (the very object for copy_with, its deep copy for deep_copy_with); else the default (a fresh empty object for a
   default_factory); else no value.  (deep_copy_with: the receiver exists and no keyword is given twice.) *)
Theorem C10_candidate_fields : forall C p st st1 r,
  path_candidate P C p st = (st1, Ok r) ->
  (forall r0 kw, p = ByDeep r0 kw -> r0 < List.length (s_heap st) /\ NoDup (map fst kw)) ->
  forall f, In f (dc_fields C) ->
  match spec_source (s_heap st) (path_orig p) (path_kw p) f with
  | SKw v | SDefault v => getattr (s_heap st1) r (f_name f) = Some v
  | SOrig v =>
    match p with
    | ByDeep _ _ => exists v', getattr (s_heap st1) r (f_name f) = Some v' /\ is_deepcopy (s_heap st) (s_heap st1) v v'
    | _ => getattr (s_heap st1) r (f_name f) = Some v
    end
  | SFactory k => exists q, getattr (s_heap st1) r (f_name f) = Some (VRef q) /\ List.length (s_heap st) <= q /\
                            nth_error (s_heap st1) q = Some (mkObj k [] [])
  | SNone => getattr (s_heap st1) r (f_name f) = None
  end.
Proof. rewrite P_ref. intros C p st st1 r Hc Hd f Hf. exact (path_candidate_fields defs C p st st1 r Hc Hd f Hf). Qed.
Print Assumptions C10_candidate_fields.

(* ... and the values the check reads / the returned instance holds are Spec.spec_final_value: what the user-written hooks
   that ran assigned last (Spec.spec_hook_sets: Python's MRO / super() rules, no decorator program), else the candidate's *)
Theorem C10_final_field_values : forall check C D p st st1 r st' x,
  nearest_deco C = Some D -> init_calls_pi P D = true ->
  path_candidate P C p st = (st1, Ok r) ->
  run_path P check C p st = (st', Ok x) ->
  x = r /\
  forall n, getattr (s_heap st') r n =
            match last_set (spec_hook_sets C) n with Some v => Some v | None => getattr (s_heap st1) r n end.
Proof.
  rewrite P_ref. intros check C D p st st1 r st' x HD Hi Hc H.
  rewrite (path_outcome defs check C D p st st1 r HD Hi Hc) in H. unfold post_init_run in H.
  destruct (pi_spec defs check C r (resolve_pi (ref_prog defs) C) (path_via p) 0 (s_heap st1)) as [[ev h2] [[]|e]] eqn:E;
    [|discriminate].
  inversion H as [[Ha Hb]]. subst x. split; [reflexivity|]. intro n. cbn [s_heap].
  rewrite (resolve_sets defs check C r C (path_via p) 0 _ _ _ E).
  assert (Ho : exists o, nth_error (s_heap st1) r = Some o).
  { unfold path_candidate, bindM in Hc. destruct (path_args (ref_prog defs) C p st) as [s0 [args|e]]; [|discriminate].
    destruct (candidate_spec _ _ _ _ _ Hc) as [D' [attrs [ext [_ [_ [Hh [Hr _]]]]]]]. rewrite Hh, Hr.
    rewrite nth_error_app2, Nat.sub_diag by lia. eexists. reflexivity. }
  destruct Ho as [o Ho]. now apply (getattr_apply_list r _ _ n o).
Qed.
Print Assumptions C10_final_field_values.

(* ---------------------------------------------------------------- the check decides, on the heap the hooks leave *)
(* the run of a validating class: the user-written part first (hooks_run); if it raises, that exception leaves and the
   wrappers check nothing; else every stacked wrapper validates the heap h2 it left, and the outcome is theirs *)
Lemma run_validating : forall check C p st st1 r,
  validating P C = true -> path_candidate P C p st = (st1, Ok r) ->
  run_path P check C p st =
  match hooks_run defs check C p r (s_heap st1) with
  | (e0, h2, Ok _) =>
    (mkSt h2 (s_journal st1 ++ e0 ++ fst (val_seq check C r (vis_list (resolve_pi P C) (path_via p) 0) h2)),
     match validations defs check C (path_via p) h2 r with Ok _ => Ok r | Raise e => Raise e end)
  | (e0, h2, Raise e) => (mkSt h2 (s_journal st1 ++ e0), Raise e)
  end.
Proof.
  rewrite P_ref. intros check C p st st1 r Hv Hc. unfold validating in Hv.
  destruct (nearest_deco C) as [D|] eqn:HD; [|discriminate]. apply andb_true_iff in Hv as [Hi _].
  rewrite (path_outcome defs check C D p st st1 r HD Hi Hc). rewrite post_init_wrapped.
  destruct (hooks_run defs check C p r (s_heap st1)) as [[e0 h2] [[]|e]]; reflexivity.
Qed.

(* FULL STATEMENT (false on the current tree, see C10_instance_iff_conforming_refuted and C10_subclass_post_init_refuted;
   there for every class C that has a type-safe layer):
     forall check C p st st1 r e0 h2, path_candidate P C p st = (st1, Ok r) ->
       hooks_run defs check C p r (s_heap st1) = (e0, h2, Ok tt) ->
       (snd (run_path P check C p st) = Ok r <-> all_conform (check true) h2 (dc_fields C) r = true) /\
       (snd (run_path P check C p st) <> Ok r -> exists e, snd (run_path ...) = Raise e /\ derives e PTypeCheckC = true)
   i.e. with the names visible where the object is built.  What holds without any guard beyond `validating`: *)

(* the exact characterisation: the candidate is returned iff every field - with the values the user-written __post_init__
   left (heap h2, AFTER the hooks) - conforms under every context in which the path validates it; otherwise the exception
   of the first failing check leaves and no instance is returned; the returned object lives in h2 *)
Theorem C10_instance_iff_all_contexts : forall check C p st st1 r e0 h2,
  validating P C = true ->
  path_candidate P C p st = (st1, Ok r) ->
  hooks_run defs check C p r (s_heap st1) = (e0, h2, Ok tt) ->
  (snd (run_path P check C p st) = Ok r <->
   forall b, In b (vis_list (resolve_pi P C) (path_via p) 0) ->
             all_conform (check b) h2 (dc_fields C) r = true) /\
  (forall x, snd (run_path P check C p st) = Ok x -> x = r) /\
  (forall e, snd (run_path P check C p st) = Raise e ->
     exists b, In b (vis_list (resolve_pi P C) (path_via p) 0) /\
               first_reject (check b) h2 (dc_fields C) r = Some e) /\
  s_heap (fst (run_path P check C p st)) = h2.
Proof.
  intros check C p st st1 r e0 h2 Hv Hc Hh. rewrite (run_validating check C p st st1 r Hv Hc), Hh. cbn [fst snd s_heap].
  pose proof (validations_ok defs check C (path_via p) h2 r) as Hok. rewrite <- P_ref in Hok.
  pose proof (validations_raise defs check C (path_via p) h2 r) as Hr. rewrite <- P_ref in Hr.
  destruct (validations defs check C (path_via p) h2 r) as [[]|e] eqn:E.
  - split; [|split; [|split]].
    + split; [intros _; now apply Hok|reflexivity].
    + intros x Hx. now inversion Hx.
    + intros e He. discriminate.
    + reflexivity.
  - split; [|split; [|split]].
    + split; [discriminate|]. intro H. apply Hok in H. discriminate.
    + intros x Hx. discriminate.
    + intros e' He. inversion He. subst e'. now apply Hr.
    + reflexivity.
Qed.
Print Assumptions C10_instance_iff_all_contexts.

(* hence "the constructor (or a copy method) given a non-conforming keyword value raises": when an instance is returned,
   every keyword value that names a field of __init__ which no hook overwrites passed the checker in every context *)
Theorem C10_returned_keyword_values_conform : forall check C p st st1 r st' x f v,
  validating P C = true ->
  path_candidate P C p st = (st1, Ok r) ->
  (forall r0 kw, p = ByDeep r0 kw -> r0 < List.length (s_heap st) /\ NoDup (map fst kw)) ->
  run_path P check C p st = (st', Ok x) ->
  In f (dc_fields C) -> f_init f = true -> lookup (path_kw p) (f_name f) = Some v ->
  last_set (spec_hook_sets C) (f_name f) = None ->
  forall b, In b (vis_list (resolve_pi P C) (path_via p) 0) -> accepts (check b (s_heap st') (f_ann f) v) = true.
Proof.
  intros check C p st st1 r st' x f v Hv Hc Hd H Hf Hi Hk Hl b Hb.
  assert (Hv' := Hv). unfold validating in Hv'. destruct (nearest_deco C) as [D|] eqn:HD; [|discriminate].
  apply andb_true_iff in Hv' as [Hinit _].
  destruct (C10_final_field_values check C D p st st1 r st' x HD Hinit Hc H) as [Hx Hfin]. subst x.
  pose proof (C10_candidate_fields C p st st1 r Hc Hd f Hf) as Hcand.
  unfold spec_source in Hcand. rewrite Hi, Hk in Hcand.
  assert (Hg : getattr (s_heap st') r (f_name f) = Some v) by (rewrite Hfin, Hl; exact Hcand).
  pose proof (run_validating check C p st st1 r Hv Hc) as Hrun. rewrite H in Hrun.
  destruct (hooks_run defs check C p r (s_heap st1)) as [[e0 h2] [[]|e]] eqn:Hh; [|inversion Hrun].
  destruct (C10_instance_iff_all_contexts check C p st st1 r e0 h2 Hv Hc Hh) as [Hiff [_ [_ Hheap]]].
  rewrite H in Hiff, Hheap. cbn [fst snd] in *. subst h2.
  pose proof (proj1 Hiff eq_refl b Hb) as Hall. unfold all_conform in Hall. rewrite forallb_forall in Hall.
  specialize (Hall f Hf). now rewrite Hg in Hall.
Qed.
Print Assumptions C10_returned_keyword_values_conform.

(* a failure of the user-written part (its own raise, AttributeError of object.__setattr__ on a class without __dict__,
   the TypeError of super() in a slots=True class, a failing inner validation) leaves as it is; no instance *)
Theorem C10_hook_failure_propagates : forall check C p st st1 r e0 h2 e,
  validating P C = true ->
  path_candidate P C p st = (st1, Ok r) ->
  hooks_run defs check C p r (s_heap st1) = (e0, h2, Raise e) ->
  run_path P check C p st = (mkSt h2 (s_journal st1 ++ e0), Raise e).
Proof.
  intros check C p st st1 r e0 h2 e Hv Hc Hh. now rewrite (run_validating check C p st st1 r Hv Hc), Hh.
Qed.
Print Assumptions C10_hook_failure_propagates.

(* what the user-written part is when the hook does not call super() (and when there is none): its journal entry, then
   the assignments object.__setattr__(self, n, v) of its body applied in order to the candidate (plain_hook: each one
   needs a field name or an instance __dict__, else AttributeError), then its return / raise.  Nothing is checked
   inside it, so h2 above IS the candidate's heap with these assignments applied *)
Theorem C10_plain_hook_effect : forall check C p r h1,
  validating P C = true ->
  (user_of (resolve_pi P C) = None -> hooks_run defs check C p r h1 = ([], h1, Ok tt)) /\
  (forall c b, user_of (resolve_pi P C) = Some (c, b) -> no_super (pb_body b) = true ->
     hooks_run defs check C p r h1 = ([EPi c], fst (plain_hook defs C r b h1), snd (plain_hook defs C r b h1))).
Proof.
  rewrite P_ref. intros check C p r h1 Hv. unfold validating in Hv.
  destruct (nearest_deco C) as [D|]; [|discriminate]. apply andb_true_iff in Hv as [_ Hn]. unfold hooks_run. split.
  - intro Hu. now rewrite (core_no_user _ (resolve_pi_wf defs C) Hn Hu).
  - intros c b Hu Hs. destruct (core_user _ _ _ Hu) as [slots [sup Hc]]. rewrite Hc. now apply pi_spec_plain_user.
Qed.
Print Assumptions C10_plain_hook_effect.

(* the property on all three paths, under the exact guards that exclude two of the refuted regions:
   `validating` (the __post_init__ attribute of the class still is a new_post_init: no subclass below the type-safe
   layer replaced it, see C10_subclass_post_init_refuted) and `ctx_irrelevant` (this path validates in the caller's
   context only, or the checker's verdict on the annotations of THIS class does not depend on names local to the
   caller - every class without a forward reference to a function-local class, see C10_instance_iff_conforming_refuted) *)
Theorem C10_instance_iff_conforming_partial : forall check C p st st1 r e0 h2,
  ctx_irrelevant defs check C (path_via p) ->
  validating P C = true ->
  path_candidate P C p st = (st1, Ok r) ->
  hooks_run defs check C p r (s_heap st1) = (e0, h2, Ok tt) ->
  (all_conform (check true) h2 (dc_fields C) r = true -> snd (run_path P check C p st) = Ok r) /\
  (all_conform (check true) h2 (dc_fields C) r = false ->
     exists e, first_reject (check true) h2 (dc_fields C) r = Some e /\
               snd (run_path P check C p st) = Raise e).
Proof.
  intros check C p st st1 r e0 h2 Hi Hv Hc Hh. rewrite (run_validating check C p st st1 r Hv Hc), Hh. cbn [snd].
  assert (Hn : is_new (resolve_pi (ref_prog defs) C) = true).
  { rewrite <- P_ref. unfold validating in Hv. destruct (nearest_deco C); [|discriminate]. now apply andb_true_iff in Hv as [_ Hv]. }
  rewrite (validations_guarded defs check C (path_via p) h2 r Hi Hn).
  destruct (first_reject (check true) h2 (dc_fields C) r) as [e|] eqn:E.
  - split.
    + intro H. apply first_reject_none in H. congruence.
    + intros _. exists e. split; reflexivity.
  - split; [reflexivity|]. intro H. apply first_reject_none in E. congruence.
Qed.
Print Assumptions C10_instance_iff_conforming_partial.

(* whatever leaves a validating class instead of an instance - once the user-written part has returned - is a
   PedanticTypeCheckException, whenever that is what the checker raises; a field that holds no value when the check runs
   (init=False, no default, no hook assigns it) is rejected with PedanticTypeCheckException as well
   (repair of finding C10-initfalse-nodefault: `if not hasattr(self, field.name): raise PedanticTypeCheckException`) *)
Theorem C10_rejects_with_type_check_exception : forall check C p st st1 r e0 h2,
  (forall b h a v e, check b h a v = Raise e -> derives e PTypeCheckC = true) ->
  validating P C = true ->
  path_candidate P C p st = (st1, Ok r) ->
  hooks_run defs check C p r (s_heap st1) = (e0, h2, Ok tt) ->
  forall e, snd (run_path P check C p st) = Raise e -> derives e PTypeCheckC = true.
Proof.
  intros check C p st st1 r e0 h2 Hped Hv Hc Hh e He.
  destruct (C10_instance_iff_all_contexts check C p st st1 r e0 h2 Hv Hc Hh) as [_ [_ [H _]]].
  destruct (H e He) as [b [_ Hb]]. clear H.
  revert Hb. induction (dc_fields C) as [|f fs IH]; simpl; [discriminate|]. intros Hb.
  destruct (getattr h2 r (f_name f)) as [v|] eqn:Eg; [|inversion Hb; reflexivity].
  destruct (check b h2 (f_ann f) v) as [[]|e1] eqn:Ec.
  - now apply IH.
  - inversion Hb. subst. eapply Hped. eassumption.
Qed.
Print Assumptions C10_rejects_with_type_check_exception.

(* every field of __init__ holds a value, and so does every init=False field with a default (chain_ok), whatever the hooks
   do: they only add or overwrite attributes *)
Theorem C10_fields_have_values : forall check C p st st1 r e0 h2 o,
  chain_ok C = true ->
  path_candidate P C p st = (st1, Ok r) ->
  hooks_run defs check C p r (s_heap st1) = (e0, h2, o) ->
  forall f, In f (dc_fields C) -> getattr h2 r (f_name f) <> None.
Proof.
  intros check C p st st1 r e0 h2 o Hok Hc Hh f Hf.
  assert (H1 : getattr (s_heap st1) r (f_name f) <> None).
  { unfold path_candidate, bindM in Hc. destruct (path_args P C p st) as [st0 [args|x]]; [|discriminate].
    eapply candidate_fields_set; eassumption. }
  pose proof (pi_spec_keeps defs check C r (core (resolve_pi (ref_prog defs) C)) (path_via p)
                (wraps (resolve_pi (ref_prog defs) C) + 0) (s_heap st1) (f_name f) H1) as H2.
  unfold hooks_run in Hh. rewrite Hh in H2. exact H2.
Qed.
Print Assumptions C10_fields_have_values.

(* formerly refuted (finding C10-initfalse-nodefault, fixed): x: int; y: int = field(init=False), no default, nothing
   assigns y.  The request is well formed and the given value conforms; y has no value: PedanticTypeCheckException
   (it was AttributeError from getattr in validate_types) *)
Definition nf_layer : layer :=
  mkLayer 0 (Some (mkDeco true [])) [mkField 0 0 DNone true true; mkField 1 1 DNone false true] None.
Definition nf_check : bool -> heap -> ann -> value -> outcome unit := fun _ _ _ _ => Ok tt.
Example C10_init_false_without_default_fixed :
  let C := [nf_layer] in let p := ByCtor [(0, VAtom 0)] in let st := mkSt [] [] in
  validating P C = true /\ chain_ok C = false /\ path_request_ok (dc_fields C) p (s_heap st) = true /\
  (forall b h a v, nf_check b h a v = Ok tt) /\
  snd (run_path P nf_check C p st) = Raise PTypeCheckC /\
  snd (validate_types P nf_check true C 0 (mkSt [mkObj (KData 0) [] [(0, VAtom 0)]] [])) = Raise PTypeCheckC.
Proof. cbv zeta. repeat split; vm_compute; reflexivity. Qed.

(* the full statement is false: a checker that resolves a name only in the caller's frame (a forward
   reference to a class local to the function that defines and uses the dataclass) accepts the value in
   the constructor and rejects the very same value in copy_with (get_context(depth=3) lands in the frame
   of dataclasses.replace).  Witness replayed on the real code by harness/dc_common.py (finding C10-ctx). *)
Definition w_check : bool -> heap -> ann -> value -> outcome unit :=
  fun vis _ _ _ => if vis then Ok tt else Raise PTypeCheckC.
Definition w_layer : layer :=
  mkLayer 0 (Some (mkDeco true [])) [mkField 0 0 DNone true true] None.
Theorem C10_instance_iff_conforming_refuted :
  let C := [w_layer] in let kw := [(0, VAtom 0)] in let st := mkSt [] [] in
  validating P C = true /\ user_of (resolve_pi P C) = None /\
  exists st1 r, run_path P w_check C (ByCtor kw) st = (st1, Ok r) /\
    all_conform (w_check true) (s_heap st1) (dc_fields C) r = true /\
    exists st2 r2, path_candidate P C (ByCopy r []) st1 = (st2, Ok r2) /\
      all_conform (w_check true) (s_heap st2) (dc_fields C) r2 = true /\
      snd (run_path P w_check C (ByCopy r []) st1) = Raise PTypeCheckC.
Proof.
  cbv zeta. split; [vm_compute; reflexivity|]. split; [vm_compute; reflexivity|].
  eexists. eexists. split; [vm_compute; reflexivity|]. split; [vm_compute; reflexivity|].
  eexists. eexists. split; [vm_compute; reflexivity|]. split; vm_compute; reflexivity.
Qed.
Print Assumptions C10_instance_iff_conforming_refuted.

(* the full statement is false in a second region: a subclass of a type-safe class that defines __post_init__
   itself without calling super().__post_init__() replaces the hook that carries the check - be it a plain subclass or one
   decorated with @frozen_dataclass (type_safe off).  Its instances ARE instances of the type-safe class, yet the
   constructor, copy_with and deep_copy_with return them with a non-conforming field; only validate_types() notices.
   Witness replayed on the real code by harness/dc_common.py (finding C10-override). *)
Definition o_parent : layer := mkLayer 0 (Some (mkDeco true [])) [mkField 0 0 DNone true true] None.
Definition o_plain : layer := mkLayer 1 None [] (Some PIRet).
Definition o_deco : layer := mkLayer 1 (Some (mkDeco false [])) [] (Some PIRet).
Definition o_check : bool -> heap -> ann -> value -> outcome unit :=
  fun _ _ _ v => match v with VAtom 0%Z => Ok tt | _ => Raise PTypeCheckC end.
Theorem C10_subclass_post_init_refuted : forall sub, sub = o_plain \/ sub = o_deco ->
  let C := [sub; o_parent] in let bad := [(0, VAtom 1)] in let st := mkSt [] [] in
  validating P [o_parent] = true /\ validating P C = false /\ checked_last P C = false /\
  (forall b h a v, o_check b h a v = o_check true h a v) /\
  snd (run_path P o_check [o_parent] (ByCtor bad) st) = Raise PTypeCheckC /\
  exists st1 r, run_path P o_check C (ByCtor bad) st = (st1, Ok r) /\
    all_conform (o_check true) (s_heap st1) (dc_fields C) r = false /\
    s_journal st1 = [EPi 1] /\
    (exists st2 r2, run_path P o_check C (ByCopy r []) st1 = (st2, Ok r2) /\
                    all_conform (o_check true) (s_heap st2) (dc_fields C) r2 = false) /\
    (exists st3 r3, run_path P o_check C (ByDeep r []) st1 = (st3, Ok r3) /\
                    all_conform (o_check true) (s_heap st3) (dc_fields C) r3 = false) /\
    snd (validate_types P o_check true C r st1) = Raise PTypeCheckC.
Proof.
  intros sub [->| ->]; cbv zeta;
    (split; [vm_compute; reflexivity|]); (split; [vm_compute; reflexivity|]); (split; [vm_compute; reflexivity|]);
    (split; [reflexivity|]);
    (split; [vm_compute; reflexivity|]);
    eexists; eexists; (split; [vm_compute; reflexivity|]); (split; [vm_compute; reflexivity|]);
    (split; [vm_compute; reflexivity|]);
    (split; [eexists; eexists; split; vm_compute; reflexivity|]);
    (split; [eexists; eexists; split; vm_compute; reflexivity|]); vm_compute; reflexivity.
Qed.
Print Assumptions C10_subclass_post_init_refuted.

(* ... whereas a subclass hook that ENDS with super().__post_init__() keeps the guarantee: for every class whose
   __post_init__ attribute ends with a validation (checked_last: a new_post_init, or user bodies that cannot raise
   afterwards and whose last statement is a super() call reaching one - through any number of classes), every returned
   instance conforms, with the field values it has when it is returned, under the context of that last validation *)
Theorem C10_returned_instance_conforms : forall check C p st st' x,
  checked_last P C = true ->
  run_path P check C p st = (st', Ok x) ->
  all_conform (check (final_vis (resolve_pi P C) (path_via p) 0)) (s_heap st') (dc_fields C) x = true.
Proof.
  rewrite P_ref. intros check C p st st' x Hv H. unfold checked_last in Hv.
  destruct (nearest_deco C) as [D|] eqn:HD; [|discriminate]. apply andb_true_iff in Hv as [Hi He].
  destruct (path_candidate (ref_prog defs) C p st) as [st1 [r|e]] eqn:Hc.
  - rewrite (path_outcome defs check C D p st st1 r HD Hi Hc) in H. unfold post_init_run in H.
    destruct (pi_spec defs check C r (resolve_pi (ref_prog defs) C) (path_via p) 0 (s_heap st1)) as [[ev h2] [[]|e]] eqn:E;
      [|discriminate].
    inversion H. subst. cbn [s_heap]. eapply ends_checked_sound; eassumption.
  - rewrite (path_raises_early defs check C p st st1 e) in H by (congruence || assumption). discriminate.
Qed.
Print Assumptions C10_returned_instance_conforms.

(* which classes end with a validation: the validating ones, and every subclass (decorated without slots, or plain) whose
   own __post_init__ cannot raise after its last statement, a super().__post_init__() call *)
Theorem C10_checked_last_classes : forall L rest,
  (validating P (L :: rest) = true -> checked_last P (L :: rest) = true) /\
  (forall b, l_pi L = Some b -> (decorated L && eff_slots P L) = false -> pb_raise b = None ->
     last_is_super (pb_body b) = true -> checked_last P rest = true -> checked_last P (L :: rest) = true).
Proof.
  rewrite P_ref. intros L rest. split.
  - unfold validating, checked_last. destruct (nearest_deco (L :: rest)); [|discriminate].
    intro H. apply andb_true_iff in H as [H1 H2]. rewrite H1.
    assert (G : forall f, is_new f = true -> ends_checked f = true) by (intros [| |? ? ? ?|?] X; simpl in *; congruence).
    now rewrite (G _ H2).
  - intros b H1 H2 H3 H4 H5. now destruct (super_last_checked defs L rest b H1 H2 H3 H4 H5).
Qed.
Print Assumptions C10_checked_last_classes.

(* when dataclasses itself refuses the arguments (missing / unexpected keyword: TypeError; init=False
   field given to replace(): ValueError) that exception leaves and no instance is returned *)
Theorem C10_binding_errors_propagate : forall check C p st st1 e,
  nearest_deco C <> None ->
  path_candidate P C p st = (st1, Raise e) -> run_path P check C p st = (st1, Raise e).
Proof. rewrite P_ref. intros. now apply path_raises_early. Qed.
Print Assumptions C10_binding_errors_propagate.

(* a user-defined __post_init__ still runs, before the check: the journal of a validating class is the events of the
   user-written part - beginning with the entry of the first user hook - followed by the check events of the deciding
   validations, which read the heap the hooks left; if the user-written part raises, that exception leaves, the
   wrappers check nothing and no instance is returned *)
Theorem C10_post_init_runs_first : forall check C p st st1 r,
  validating P C = true ->
  path_candidate P C p st = (st1, Ok r) ->
  exists e0 h2 o0 checks, hooks_run defs check C p r (s_heap st1) = (e0, h2, o0) /\
    forallb is_check checks = true /\
    s_heap (fst (run_path P check C p st)) = h2 /\
    s_journal (fst (run_path P check C p st)) = s_journal st1 ++ e0 ++ checks /\
    (forall c b, user_of (resolve_pi P C) = Some (c, b) -> exists tl, e0 = EPi c :: tl) /\
    (user_of (resolve_pi P C) = None -> e0 = []) /\
    (forall e, o0 = Raise e -> checks = [] /\ snd (run_path P check C p st) = Raise e).
Proof.
  intros check C p st st1 r Hv Hc. rewrite (run_validating check C p st st1 r Hv Hc).
  destruct (hooks_run defs check C p r (s_heap st1)) as [[e0 h2] o0] eqn:Hh.
  assert (Hfirst : (forall c b, user_of (resolve_pi P C) = Some (c, b) -> exists tl, e0 = EPi c :: tl) /\
                   (user_of (resolve_pi P C) = None -> e0 = [])).
  { revert Hh Hv. rewrite P_ref. intros Hh Hv. unfold hooks_run in Hh. split.
    - intros c b Hu. destruct (core_user _ _ _ Hu) as [slots [sup Hcore]]. rewrite Hcore in Hh.
      destruct (pi_spec_user_first defs check C r c b slots sup (path_via p) (wraps (resolve_pi (ref_prog defs) C) + 0) (s_heap st1))
        as [tl Ht]. rewrite Hh in Ht. now exists tl.
    - intro Hu. unfold validating in Hv. destruct (nearest_deco C); [|discriminate]. apply andb_true_iff in Hv as [_ Hn].
      rewrite (core_no_user _ (resolve_pi_wf defs C) Hn Hu) in Hh. inversion Hh. reflexivity. }
  destruct Hfirst as [F1 F2].
  destruct o0 as [[]|e].
  - exists e0, h2, (Ok tt), (fst (val_seq check C r (vis_list (resolve_pi P C) (path_via p) 0) h2)).
    split; [reflexivity|]. split; [apply val_seq_events|]. split; [reflexivity|]. split; [reflexivity|].
    split; [assumption|]. split; [assumption|]. intros e He. discriminate.
  - exists e0, h2, (Raise e), []. split; [reflexivity|]. split; [reflexivity|]. split; [reflexivity|].
    split; [cbn [fst s_journal]; now rewrite app_nil_r|]. split; [assumption|]. split; [assumption|].
    intros e' He. inversion He. subst. split; reflexivity.
Qed.
Print Assumptions C10_post_init_runs_first.

(* validate_types() called on any object, in any state of the heap (e.g. after a list held by a field
   was mutated): raises iff some field currently does not conform - the exception of the first such
   field - and touches nothing *)
Theorem C10_validate_types_iff : forall check vis C r st,
  nearest_deco C <> None ->
  s_heap (fst (validate_types P check vis C r st)) = s_heap st /\
  (snd (validate_types P check vis C r st) = Ok tt <-> all_conform (check vis) (s_heap st) (dc_fields C) r = true) /\
  (forall e, snd (validate_types P check vis C r st) = Raise e <->
             first_reject (check vis) (s_heap st) (dc_fields C) r = Some e).
Proof.
  rewrite P_ref. intros check vis C r st HD.
  destruct (validate_outcome defs check vis C r st HD) as [checks [_ H]]. rewrite H. cbn [fst snd].
  split; [reflexivity|].
  destruct (first_reject (check vis) (s_heap st) (dc_fields C) r) as [e|] eqn:E; simpl.
  - split.
    + split; [discriminate|]. intro H1. apply first_reject_none in H1. congruence.
    + intro e'. split; intro H1; inversion H1; reflexivity.
  - split.
    + split; [intros _; now apply first_reject_none|reflexivity].
    + intro e'. split; discriminate.
Qed.
Print Assumptions C10_validate_types_iff.

(* which classes validate: a class decorated with type_safe=True (any other options, any bases, with or without its own
   __post_init__), and every subclass of a validating class - decorated (with or without type_safe, with or without
   slots) or not decorated at all - that does not define __post_init__ *)
Theorem C10_validating_classes : forall L rest,
  (decorated L = true -> param_of P L PTypeSafe = true -> validating P (L :: rest) = true) /\
  (l_pi L = None -> validating P rest = true -> validating P (L :: rest) = true).
Proof.
  rewrite P_ref. intros L rest. split.
  - apply decorated_type_safe_validating.
  - intros Hpi Hv. destruct (decorated L) eqn:HL.
    + now apply decorated_child_validating.
    + now apply undecorated_inherits_validating.
Qed.
Print Assumptions C10_validating_classes.

(* the property in terms of a specification of conformance: whenever the checker accepts what must
   conform and rejects with PedanticTypeCheckException what must not (C01/C02 for Model/Checker.v).
   The guards `validating` and `ctx_irrelevant` exclude the two refuted regions (C10_subclass_post_init_refuted,
   C10_instance_iff_conforming_refuted).  The verdicts are taken on the heap h2 the user-written __post_init__ left; a field
   without value counts as one that must not conform *)
Theorem C10_against_specification : forall check (must mustnot : heap -> ann -> value -> bool) C p st st1 r e0 h2,
  ctx_irrelevant defs check C (path_via p) ->
  (forall h a v, must h a v = true -> check true h a v = Ok tt) ->
  (forall h a v, mustnot h a v = true -> exists e, check true h a v = Raise e /\ derives e PTypeCheckC = true) ->
  validating P C = true ->
  path_candidate P C p st = (st1, Ok r) ->
  hooks_run defs check C p r (s_heap st1) = (e0, h2, Ok tt) ->
  let field_is (q : heap -> ann -> value -> bool) f :=
    match getattr h2 r (f_name f) with Some v => q h2 (f_ann f) v | None => false end in
  (forallb (field_is must) (dc_fields C) = true -> snd (run_path P check C p st) = Ok r) /\
  (forall pre f post, dc_fields C = pre ++ f :: post -> forallb (field_is must) pre = true ->
     field_is mustnot f = true \/ getattr h2 r (f_name f) = None ->
     exists e, snd (run_path P check C p st) = Raise e /\ derives e PTypeCheckC = true).
Proof.
  intros check must mustnot C p st st1 r e0 h2 Hi Hm Hn Hv Hc Hh field_is.
  destruct (C10_instance_iff_conforming_partial check C p st st1 r e0 h2 Hi Hv Hc Hh) as [A B].
  split.
  - intro H. apply A. unfold all_conform. rewrite forallb_forall in *. intros f Hf. specialize (H f Hf).
    unfold field_is in H. destruct (getattr h2 r (f_name f)); [|discriminate]. now rewrite (Hm _ _ _ H).
  - intros pre f post Hd Hpre Hf.
    assert (Hfr : exists e, first_reject (check true) h2 (dc_fields C) r = Some e /\ derives e PTypeCheckC = true).
    { rewrite Hd. clear Hd. induction pre as [|g pre IH]; simpl.
      - unfold field_is in Hf. destruct (getattr h2 r (f_name f)) as [v|].
        + destruct Hf as [Hf|Hf]; [|discriminate]. destruct (Hn _ _ _ Hf) as [e [E1 E2]]. rewrite E1. now exists e.
        + exists PTypeCheckC. split; reflexivity.
      - simpl in Hpre. apply andb_true_iff in Hpre as [Hg Hpre]. unfold field_is in Hg.
        destruct (getattr h2 r (f_name g)) as [v|]; [|discriminate]. rewrite (Hm _ _ _ Hg). now apply IH. }
    destruct Hfr as [e [E1 E2]]. exists e. split; [|assumption].
    destruct (all_conform (check true) h2 (dc_fields C) r) eqn:Eall.
    + apply first_reject_none in Eall. congruence.
    + destruct (B eq_refl) as [e' [F1 F2]]. congruence.
Qed.
Print Assumptions C10_against_specification.

(* ... instantiated: with the checker of Model/Checker.v under the tables regenerated from check_types.py
   (what Model/DataclassEval.v evaluates), against Spec/Conforms.v, using C01/C02 (Proofs/CheckerTop.v).
   E: annotation objects, atoms and names of a concrete program; field_verdict = conforms on the annotation
   object and the value tree of the field (in the heap the hooks left), under the context the validation runs in.
   (1) every field must conform => the instance is returned; (2) all annotations in the vocabulary and some
   field must not conform => PedanticTypeCheckException, on every path *)
Theorem C10_real_checker_good : CheckerGood.cfg_good DataclassReal.real_cfg = true.
Proof. vm_compute. reflexivity. Qed.
Print Assumptions C10_real_checker_good.

Theorem C10_real_checker : forall E C p st st1 r e0 h2,
  let check := DataclassEval.check_real E in
  validating P C = true ->
  path_candidate P C p st = (st1, Ok r) ->
  hooks_run defs check C p r (s_heap st1) = (e0, h2, Ok tt) ->
  let contexts := vis_list (resolve_pi P C) (path_via p) 0 in
  ((forall b, In b contexts -> DataclassReal.all_must E b h2 (dc_fields C) r) ->
     snd (run_path P check C p st) = Ok r) /\
  ((forall b, In b contexts -> DataclassReal.all_decided E b h2 (dc_fields C) r) ->
   (exists b f, In b contexts /\ In f (dc_fields C) /\
                DataclassReal.field_verdict E b h2 r f = Some Conforms.MustNot) ->
     exists e, snd (run_path P check C p st) = Raise e /\ derives e PTypeCheckC = true).
Proof.
  intros E C p st st1 r e0 h2 check Hv Hc Hh contexts. subst contexts check.
  destruct (C10_instance_iff_all_contexts (DataclassEval.check_real E) C p st st1 r e0 h2 Hv Hc Hh) as [Hiff [Hx [Hr _]]]. split.
  - intro Hm. apply Hiff. intros b Hb. apply (DataclassReal.all_must_conform C10_real_checker_good). now apply Hm.
  - intros Hd [b [f [Hb [Hf Hn]]]].
    destruct (snd (run_path P (DataclassEval.check_real E) C p st)) as [x|e] eqn:Eo.
    + exfalso. assert (x = r) by (now apply Hx). subst x. pose proof (proj1 Hiff eq_refl b Hb) as Ha.
      rewrite (DataclassReal.mustnot_rejects C10_real_checker_good E b h2 (dc_fields C) r f Hf Hn) in Ha. discriminate.
    + exists e. split; [reflexivity|]. destruct (Hr e eq_refl) as [b' [Hb' Hfr]].
      eapply (DataclassReal.decided_reject_is_type_check C10_real_checker_good); [apply Hd; exact Hb'|exact Hfr].
Qed.
Print Assumptions C10_real_checker.

(* ---- non-vacuity: a two-level hierarchy (type-safe parent with a user __post_init__ that normalises field 0 when it
   holds 3, undecorated child), a checker that accepts even atoms; hypotheses hold, both directions really occur, on
   all paths *)
Definition ex_check : bool -> heap -> ann -> value -> outcome unit :=
  fun _ _ a v => match v with VAtom z => if Z.even z then Ok tt else Raise PTypeCheckC | VRef _ => Ok tt end.
Definition ex_parent : layer :=
  mkLayer 1 (Some (mkDeco false [(PTypeSafe, true); (PSlots, true)]))
          [mkField 0 0 DNone true true; mkField 1 1 (DFactory KList) true true; mkField 2 2 (DVal (VAtom 4)) false true]
          (Some PIRet).
Definition ex_child : layer := mkLayer 2 None [] None.
Example C10_example :
  let C := [ex_child; ex_parent] in let st := mkSt [] [] in
  validating P C = true /\ chain_ok C = true /\ user_raises (resolve_pi P C) = None /\
  path_request_ok (dc_fields C) (ByCtor [(0, VAtom 2)]) [] = true /\
  hooks_run defs ex_check C (ByCtor [(0, VAtom 2)]) 1 (s_heap (fst (path_candidate P C (ByCtor [(0, VAtom 2)]) st)))
    = ([EPi 1], s_heap (fst (path_candidate P C (ByCtor [(0, VAtom 2)]) st)), Ok tt) /\
  (forall b h a v, ex_check b h a v = ex_check true h a v) /\
  snd (run_path P ex_check C (ByCtor [(0, VAtom 2)]) st) = Ok 1 /\
  snd (run_path P ex_check C (ByCtor [(0, VAtom 3)]) st) = Raise PTypeCheckC /\
  (let st1 := fst (run_path P ex_check C (ByCtor [(0, VAtom 2)]) st) in
   s_journal st1 = [EPi 1; ECheck 0 (VAtom 2); ECheck 1 (VRef 0); ECheck 2 (VAtom 4)] /\
   path_request_ok (dc_fields C) (ByCopy 1 [(0, VAtom 6)]) (s_heap st1) = true /\
   snd (run_path P ex_check C (ByCopy 1 [(0, VAtom 6)]) st1) = Ok 2 /\
   snd (run_path P ex_check C (ByCopy 1 [(0, VAtom 7)]) st1) = Raise PTypeCheckC /\
   snd (run_path P ex_check C (ByDeep 1 [(0, VAtom 8)]) st1) = Ok 8 /\
   snd (run_path P ex_check C (ByDeep 1 [(0, VAtom 9)]) st1) = Raise PTypeCheckC /\
   snd (run_path P ex_check C (ByCopy 1 [(2, VAtom 0)]) st1) = Raise ValueErrorC /\
   snd (run_path P ex_check C (ByCtor []) st1) = Raise TypeErrorC).
Proof. cbv zeta. repeat split; vm_compute; reflexivity. Qed.

(* hooks with a heap effect: the check reads the values the hook left.  B2: the hook sets field 0 to 4 - the
   non-conforming keyword value 3 is accepted (instance with 4); B3: the hook sets it to 5 - the conforming 2 is
   rejected; A3: an init=False field without default that the hook assigns - it has a value when the check runs
   although chain_ok does not hold *)
Definition hk (body : list pistmt) : layer :=
  mkLayer 0 (Some (mkDeco true [])) [mkField 0 0 DNone true true] (Some (mkPib body None)).
Definition a3 : layer :=
  mkLayer 0 (Some (mkDeco true [])) [mkField 0 0 DNone true true; mkField 1 1 DNone false true] (Some (mkPib [PSet 1 (VAtom 6)] None)).
Example C10_hook_examples :
  let st := mkSt [] [] in
  validating P [hk [PSet 0 (VAtom 4)]] = true /\
  run_path P ex_check [hk [PSet 0 (VAtom 4)]] (ByCtor [(0, VAtom 3)]) st
    = (mkSt [mkObj (KData 0) [] [(0, VAtom 4)]] [EPi 0; ECheck 0 (VAtom 4)], Ok 0) /\
  run_path P ex_check [hk [PSet 0 (VAtom 5)]] (ByCtor [(0, VAtom 2)]) st
    = (mkSt [mkObj (KData 0) [] [(0, VAtom 5)]] [EPi 0; ECheck 0 (VAtom 5)], Raise PTypeCheckC) /\
  hooks_run defs ex_check [hk [PSet 0 (VAtom 5)]] (ByCtor [(0, VAtom 2)]) 0 [mkObj (KData 0) [] [(0, VAtom 2)]]
    = ([EPi 0], [mkObj (KData 0) [] [(0, VAtom 5)]], Ok tt) /\
  validating P [a3] = true /\ chain_ok [a3] = false /\
  run_path P ex_check [a3] (ByCtor [(0, VAtom 2)]) st
    = (mkSt [mkObj (KData 0) [] [(0, VAtom 2); (1, VAtom 6)]] [EPi 0; ECheck 0 (VAtom 2); ECheck 1 (VAtom 6)], Ok 0).
Proof. cbv zeta. repeat split; vm_compute; reflexivity. Qed.

(* super(): a plain subclass whose hook repairs the field and then calls super().__post_init__() is checked AFTER the
   repair (checked_last, C10_returned_instance_conforms applies); one that calls super() first and spoils the field
   afterwards returns a non-conforming instance - the region of finding C10-override (checked_last = false) *)
Definition sup_first : layer := mkLayer 1 None [] (Some (mkPib [PSuper; PSet 0 (VAtom 5)] None)).
Definition sup_last : layer := mkLayer 1 None [] (Some (mkPib [PSet 0 (VAtom 4); PSuper] None)).
Example C10_super_examples :
  let st := mkSt [] [] in
  checked_last P [sup_last; o_parent] = true /\ validating P [sup_last; o_parent] = false /\
  run_path P ex_check [sup_last; o_parent] (ByCtor [(0, VAtom 3)]) st
    = (mkSt [mkObj (KData 1) [] [(0, VAtom 4)]] [EPi 1; ECheck 0 (VAtom 4)], Ok 0) /\
  checked_last P [sup_first; o_parent] = false /\
  run_path P ex_check [sup_first; o_parent] (ByCtor [(0, VAtom 2)]) st
    = (mkSt [mkObj (KData 1) [] [(0, VAtom 5)]] [EPi 1; ECheck 0 (VAtom 2)], Ok 0) /\
  snd (run_path P ex_check [sup_first; o_parent] (ByCtor [(0, VAtom 3)]) st) = Raise PTypeCheckC.
Proof. cbv zeta. repeat split; vm_compute; reflexivity. Qed.

(* the context guard is strictly weaker than "the checker never looks at the caller's names": the checker of the
   refutation witness satisfies it on the constructor path of a class with one type-safe layer *)
Example C10_guard_example :
  ctx_irrelevant defs w_check [w_layer] VCtor /\ ~ vis_indep w_check.
Proof.
  split.
  - left. intros b Hb. vm_compute in Hb. destruct Hb as [<-|[]]. reflexivity.
  - intro H. specialize (H false [] 0 (VAtom 0)). discriminate H.
Qed.

(* ... and with the real checker: field annotation `int`, values 5 and '' *)
Definition ex_env : DataclassEval.env :=
  DataclassEval.mkEnv [] [Ann.ACls Values.CInt] [Values.VInt 5%Z; Values.VStr []] [].
Example C10_real_example :
  let C := [w_layer] in let st := mkSt [] [] in let f := mkField 0 0 DNone true true in
  snd (run_path P (DataclassEval.check_real ex_env) C (ByCtor [(0, VAtom 0)]) st) = Ok 0 /\
  DataclassReal.field_verdict ex_env true [mkObj (KData 0) [] [(0, VAtom 0)]] 0 f = Some Conforms.Must /\
  snd (run_path P (DataclassEval.check_real ex_env) C (ByCtor [(0, VAtom 1)]) st) = Raise PTypeCheckC /\
  DataclassReal.field_verdict ex_env true [mkObj (KData 0) [] [(0, VAtom 1)]] 0 f = Some Conforms.MustNot.
Proof. cbv zeta. repeat split; vm_compute; reflexivity. Qed.

(* the same bypass (C10_subclass_post_init_refuted) on the classes of C10_example *)
Example C10_override_bypasses :
  let C := [mkLayer 2 None [] (Some PIRet); ex_parent] in
  validating P C = false /\ snd (run_path P ex_check C (ByCtor [(0, VAtom 3)]) (mkSt [] [])) = Ok 1.
Proof. cbv zeta. split; vm_compute; reflexivity. Qed.
