(* C02 - the type checker is complete and independent of spelling and iteration order.        *)
From Coq Require Import List Arith Bool ZArith Permutation.
From PV Require Import Base.Exn Base.Values Base.Ann Model.CheckerCfg Model.Checker Spec.Conforms
  Gen.CheckerTables Proofs.CheckerGood Proofs.CheckerRefine Proofs.CheckerSpec Proofs.CheckerTop Proofs.CheckerSpell Proofs.CheckerReorderDeep.
Import ListNotations.

Definition cfg := Gen.CheckerTables.checker_cfg.

Theorem C02_generated_config_good : cfg_good cfg = true.
Proof. vm_compute. reflexivity. Qed.
Print Assumptions C02_generated_config_good.

Lemma good : good_facts cfg.
Proof. apply cfg_good_facts. exact C02_generated_config_good. Qed.

(* a conforming value is accepted: the call returns and the TypeVar table is untouched *)
Theorem C02_complete : forall ctx hook a v tv, supported ctx a = true -> conforms ctx a v = Must ->
  assert_matches cfg ctx hook a v tv = (Ok tt, tv).
Proof. intros ctx hook a v tv. exact (complete cfg good ctx hook a v tv). Qed.
Print Assumptions C02_complete.

(* A plain class never "misses type arguments", so an instance is never turned away before isinstance is asked.  The arity tables
   are keyed by the NAMES of the typing generics and the model has no class names.  For the source shape that looks
   cls.__name__ up (plain_class_complete cfg = false) the statement rests on the assumption recorded at Model/Checker.v
   has_required - no class in play is called like a key of the tables - which is FALSE for a user class named List, Dict,
   Tuple, Union ... (finding K-C02-class-name; the harness keeps those names out of the class-deco stream for that shape).  For
   the shape that answers for plain classes first (flag true) it is a fact about every class whatever it is called, and the
   harness then names user classes like every export of typing / collections / collections.abc, these included. *)
Theorem C02_plain_class_never_incomplete : forall c, has_required cfg (ACls c) = true.
Proof. intro c. unfold has_required, has_required_tables. cbn [ann_name]. apply orb_true_r. Qed.
Print Assumptions C02_plain_class_never_incomplete.

(* equivalent spellings (typing alias / builtin alias, Union / Optional / X | Y, any member order,
   at any depth) give the same outcome for every value *)
Theorem C02_spelling_independent : forall ctx hook a a', spell_equiv a a' ->
  supported ctx a = true -> supported ctx a' = true ->
  forall v tv, assert_matches cfg ctx hook a v tv = assert_matches cfg ctx hook a' v tv.
Proof.
  intros ctx hook a a' He Hs Hs' v tv.
  rewrite (assert_pure cfg good ctx hook a Hs v tv), (assert_pure cfg good ctx hook a' Hs' v tv).
  now rewrite (spelling_independent cfg ctx a a' He v).
Qed.
Print Assumptions C02_spelling_independent.

(* the iteration order of a set / frozenset / dict value does not matter *)
Theorem C02_iteration_order_independent : forall ctx hook a v v', reorder v v' -> supported ctx a = true ->
  forall tv, assert_matches cfg ctx hook a v tv = assert_matches cfg ctx hook a v' tv.
Proof.
  intros ctx hook a v v' Hr Hs tv.
  rewrite (assert_pure cfg good ctx hook a Hs v tv), (assert_pure cfg good ctx hook a Hs v' tv).
  now rewrite (iteration_order_independent cfg ctx a v v' Hr).
Qed.
Print Assumptions C02_iteration_order_independent.

(* ... at ANY depth: sets / frozensets / dicts / defaultdicts nested anywhere inside the value (inside list elements,
   tuple members, dict keys and values, set elements, ...) may each iterate in any order *)
Theorem C02_iteration_order_independent_deep : forall ctx hook a v v', dreorder v v' -> supported ctx a = true ->
  forall tv, assert_matches cfg ctx hook a v tv = assert_matches cfg ctx hook a v' tv.
Proof.
  intros ctx hook a v v' Hr Hs tv.
  rewrite (assert_pure cfg good ctx hook a Hs v tv), (assert_pure cfg good ctx hook a Hs v' tv).
  now rewrite (deep_iteration_order_independent cfg ctx v v' Hr a).
Qed.
Print Assumptions C02_iteration_order_independent_deep.

(* KNOWN FINDING K-C02-abc (open): the PEP 585 spelling through collections.abc / collections is NOT covered by
   C02_complete (`supported` excludes SpAbc): the faithful model rejects a conforming value there. *)
Theorem C02_abc_spelling_refuted : exists a v, conforms (fun _ => None) a v = Must /\
  fst (assert_matches1 cfg (fun _ => None) a v []) = Raise PTypeCheckC /\ supported (fun _ => None) a = false.
Proof. exists (AGeneric SpAbc TSequence [ACls CInt]), (VList [VInt 1]). repeat split; vm_compute; reflexivity. Qed.
Print Assumptions C02_abc_spelling_refuted.

(* non-vacuity *)
Definition a1 : ann := AGeneric SpBuiltin TList [AUnion UTyping [ACls CInt; ACls CNoneType]].     (* list[Optional[int]] *)
Definition a2 : ann := AGeneric SpTyping TList [AUnion UPipe [ACls CNoneType; ACls CInt]].         (* List[None | int] *)
Example ex_equiv : spell_equiv a1 a2.
Proof.
  apply se_gen; [discriminate|]. constructor; [|constructor].
  apply (se_union UTyping UPipe _ [ACls CInt; ACls CNoneType]).
  - repeat constructor.
  - apply perm_swap.
Qed.
Example ex_both_supported : supported (fun _ => None) a1 = true /\ supported (fun _ => None) a2 = true.
Proof. split; reflexivity. Qed.
Example ex_accepts : assert_matches1 cfg (fun _ => None) a1 (VList [VInt 1; VNone]) [] = (Ok tt, []).
Proof. vm_compute. reflexivity. Qed.
Example ex_reorder : reorder (VSet [VInt 1; VInt 2]) (VSet [VInt 2; VInt 1]).
Proof. apply perm_swap. Qed.

(* [{'k': {1, 2}}, ...] vs [{'k': {2, 1}}, ...]: a set two levels down *)
Example ex_reorder_deep : dreorder (VList [VDict [(VStr [107], VSet [VInt 1; VInt 2]); (VStr [108], VSet [])]])
                                   (VList [VDict [(VStr [108], VSet []); (VStr [107], VSet [VInt 2; VInt 1])]]).
Proof.
  apply dr_list. constructor; [|constructor].
  apply (dr_dict _ [(VStr [107], VSet [VInt 2; VInt 1]); (VStr [108], VSet [])]); [|apply perm_swap].
  constructor; [apply dr_refl | | constructor; [apply dr_refl|apply dr_refl|constructor]].
  apply (dr_set _ [VInt 1; VInt 2]); [apply drl_refl|apply perm_swap].
Qed.
