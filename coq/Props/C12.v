From Coq Require Import List Bool.
From PV Require Import Base.Exn Model.ValidateSem Gen.Validate.
Import ListNotations.
Theorem C12_cfg_is_reference : Gen.Validate.cfg = reference_cfg.
Proof. reflexivity. Qed.
Print Assumptions C12_cfg_is_reference.
