(* C12 - @validate is a gate: the body only ever sees validated values.

   Property theorems.  `Gen.Validate.cfg` / `Gen.Validate.is_required_rule` are regenerated from
   pedantic/decorators/fn_deco_validate/fn_deco_validate.py and parameters/abstract_parameter.py on every run;
   `vrun` is the model (Model/ValidateSem.v) interpreting them.  All theorems hold for every value universe,
   every signature without a var-positional parameter (plain function, method, coroutine function), every list
   of Parameters, validator chains of any length whose members are arbitrary functions value -> outcome value,
   every strict / return_as / ignore_input setting and every call.

   Guard (boolean, see Proofs/ValidateGate.v):
     self_guard  - the name `self` arrives only as the implicit first positional argument and is not the name
                   of a Parameter.  fn_deco_validate.py passes the value stored under the key 'self' as first positional
                   argument however it got there; outside the guard the statements are FALSE on the current source
                   (C12_gate_self_refuted, C12_default_cascade_self_refuted; open finding C12-K3).
   The functional statement is C12_run_meets_spec: on well-formed declarations and calls the run ends exactly as the
   independent specification Spec/ValidateSpec.v (spec_outcome, the oracle of the harness) demands.
   History: until /repo commit d10af45 `_as_args` fell back to arrival order when a name outside the signature
   reached a function without **kwargs (finding C12-K1, then C12_gate_refuted / C12_gate_partial); the fallback is
   gone, the configuration field aa_arrival_on_unknown_key is false, and the gate holds without that guard.
   C12_K1_witness_fixed keeps the old witness.                                                                *)
From Coq Require Import List Arith Bool Permutation.
From PV Require Import Base.Exn Model.ValidateSem Spec.ValidateSpec Proofs.ValidateDict Proofs.ValidateRef
  Proofs.ValidateBind Proofs.ValidateGate Proofs.ValidateByName Proofs.ValidateSpecLink Proofs.ValidateStar Gen.Validate.
Import ListNotations.

Definition vrun {value : Type} (is_none : value -> bool) :=
  run value is_none Gen.Validate.cfg Gen.Validate.is_required_rule.
Definition vvalidate {value : Type} (is_none : value -> bool) :=
  param_validate value is_none Gen.Validate.cfg Gen.Validate.is_required_rule.

(* translation obligation: the regenerated configuration is the one the lemmas are proved for *)
Theorem C12_cfg_is_reference :
  Gen.Validate.cfg = reference_cfg /\ Gen.Validate.is_required_rule = reference_req_rule.
Proof. split; reflexivity. Qed.
Print Assumptions C12_cfg_is_reference.

Lemma vrun_ref : forall value is_none, @vrun value is_none = run value is_none reference_cfg reference_req_rule.
Proof. intros. unfold vrun. destruct C12_cfg_is_reference as [-> ->]. reflexivity. Qed.
Lemma vvalidate_ref : forall value is_none,
  @vvalidate value is_none = param_validate value is_none reference_cfg reference_req_rule.
Proof. intros. unfold vvalidate. destruct C12_cfg_is_reference as [-> ->]. reflexivity. Qed.

(* Parameter.validate is the full chain: conversion, then every validator in order, each receiving its
   predecessor's output (spec_param / spec_journal, Spec/ValidateSpec.v); a rejecting step raises the Parameter's
   exception carrying the parameter name; a foreign exception passes through *)
Theorem C12_chain_in_order : forall value is_none (p : param value) w,
  snd (vvalidate is_none p w) =
    match spec_param value is_none p w with
    | VPass v => WOk v
    | VReject => WRaise (p_exc p) (Some (p_name p))
    | VForeign e => WRaise e None
    end
  /\ fst (vvalidate is_none p w) = spec_journal value is_none p w.
Proof.
  intros. rewrite vvalidate_ref. split; [|apply pv_journal]. rewrite pv_spec.
  now destruct (spec_param value is_none p w).
Qed.
Print Assumptions C12_chain_in_order.

(* THE GATE.  Every value in the body's binding is (origin): the chain output of its Parameter on the value the
   caller passed for that name; or, the caller passing none, the chain output on the value of its external source;
   or, the caller passing none, its Parameter default; or the signature default of that name; or - no Parameter
   declared, strict off (or the name is self) - the caller's value itself.                                     *)
Theorem C12_gate_partial : forall value is_none sg env dc is_async c j b,
  s_varpos sg = false ->
  self_guard value sg dc c = true ->
  vrun is_none sg env dc is_async c = (j, FBody b) ->
  forall n v, In (n, v) b -> origin value is_none sg dc c n v.
Proof. intros. rewrite vrun_ref in *. eapply gate; eauto. Qed.
Print Assumptions C12_gate_partial.

(* THE MODEL MEETS THE SPECIFICATION.  Declaration and call well-formed (Parameter names and signature names
   pairwise distinct; at most as many positionals as positional parameters, no name twice, self only as implicit
   first positional), no Parameter named self, every exception_type a ParameterException, the Flask strict-JSON
   clause silent: the run ends as spec_outcome demands -
     DRaise rs        : the body does not run; the exception derives from one of the demanded classes and carries
                        the demanded parameter name (where one is demanded);
     DPythonRejects   : the body does not run, Python's TypeError (a parameter without default gets no value);
     DBody b          : (every name that reaches the function is a parameter of it, or it takes **kwargs) the body
                        runs and sees exactly b, name by name.
   names_fit in the DBody case: when a name that is no parameter of the function reaches a function without **kwargs (a surplus
   keyword under strict=False, a Parameter the function does not have), spec_outcome's DBody lists that name among the
   values to hand over, but Python rejects the call (TypeError) - there DBody does NOT describe the run and no theorem uses
   it; the harness judges that region separately (TypeError expected in every return_as mode; open finding C13-K2 for
   KWARGS_WITHOUT_NONE).  The DRaise and DPythonRejects cases need no such premise.
   In particular: a value the caller supplies for a declared name reaches the body as the chain output, never as
   the signature default; an implementation that preferred defaults or dropped supplied values would not do. *)
Theorem C12_run_meets_spec : forall value is_none sg env dc c is_async,
  s_varpos sg = false ->
  decl_wellformed value sg dc = true -> call_wellformed value sg c = true ->
  declared value dc self_name = false ->
  (forall p, In p (d_params dc) -> derives (p_exc p) ParameterExceptionC = true) ->
  snd (flask_m value env dc) = WOk tt ->
  match spec_outcome value is_none sg dc c with
  | DRaise rs => exists e pn, snd (vrun is_none sg env dc is_async c) = FRaise e pn /\ raise_allowed e pn rs
  | DPythonRejects => snd (vrun is_none sg env dc is_async c) = FRaise TypeErrorC None
  | DBody b => names_fit value sg dc c = true ->
               exists b', snd (vrun is_none sg env dc is_async c) = FBody b' /\ deq b' b
  end.
Proof. intros. rewrite vrun_ref in *. now apply run_meets_spec. Qed.
Print Assumptions C12_run_meets_spec.

(* the same for one supplied value, without the well-formedness of the rest: what the caller passes for n reaches
   the body through the chain of the Parameter declared for n, and unchanged if none is declared *)
Theorem C12_supplied_reaches_body : forall value is_none sg env dc is_async c j b n w,
  s_varpos sg = false ->
  d_ignore_input dc = false -> List.length (c_args c) <= List.length (pos_params value sg) ->
  NoDup (keys (named_assignment value sg c)) -> self_guard value sg dc c = true ->
  vrun is_none sg env dc is_async c = (j, FBody b) -> In (n, w) (named_assignment value sg c) ->
  match lookup_param value dc n with
  | Some p => forall v, spec_param value is_none p w = VPass v ->
              (d_mode dc <> KWARGS_WITHOUT_NONE \/ is_none v = false) -> dget n b = Some v
  | None => (d_mode dc <> KWARGS_WITHOUT_NONE \/ is_none w = false) -> dget n b = Some w
  end.
Proof. intros. rewrite vrun_ref in *. eapply supplied_reaches_body; eauto. Qed.
Print Assumptions C12_supplied_reaches_body.

(* ---- a small universe for witnesses: values are numbers, 0 plays None ---- *)
Definition nnone (v : nat) : bool := Nat.eqb v 0.
Definition at_most (k : nat) : vfun nat := fun v => if Nat.leb v k then Ok v else Raise ValidatorExceptionC.
Definition plus_one : vfun nat := fun v => Ok (S v).
Definition mkparam (n : name) (chain : list (vfun nat)) (required : bool) (default : option nat) : param nat :=
  {| p_name := n; p_convert := None; p_chain := chain; p_required := required; p_default := default;
     p_exc := ParameterExceptionC; p_ext := None; p_flask_json := false |}.
Definition mksig (ps : list (name * option nat)) : signature nat :=
  {| s_params := map (fun nd => {| sp_name := fst nd; sp_kwonly := false; sp_default := snd nd |}) ps; s_varkw := false; s_varpos := false |}.
Definition no_env : wenv := {| w_flask_installed := false; w_request := None |}.

(* former finding C12-K1 (fixed by d10af45): def f(b=5, a=0), Parameter a / at most 1, strict=False, return_as=ARGS;
   f(a=1, c=2) used to run the body with a=2, b=1; now the unexpected keyword c ends in Python's TypeError, the
   body does not run (names: a=1, b=2, c=3) *)
Definition k1_sig := mksig [(2, Some 5); (1, Some 0)].
Definition k1_deco : deco nat :=
  {| d_params := [mkparam 1 [at_most 1] true None]; d_mode := ARGS; d_strict := false; d_ignore_input := false |}.
Definition k1_call : call nat := {| c_args := []; c_kwargs := [(1, 1); (3, 2)] |}.

Example C12_K1_witness_fixed :
  self_guard nat k1_sig k1_deco k1_call = true /\ names_fit nat k1_sig k1_deco k1_call = false /\
  vrun nnone k1_sig no_env k1_deco false k1_call = ([(1, 0, 1)], FRaise TypeErrorC None).
Proof. repeat split. Qed.

(* outside self_guard (open finding C12-K3): @validate(strict=False) def g(a=1, **kw); g(self=5) runs the body with
   a=5 - the value passed under the undeclared name self is bound to the first parameter (names: self=0, a=1) *)
Theorem C12_gate_self_refuted : exists sg env dc is_async c j b n v,
  self_guard nat sg dc c = false /\
  vrun nnone sg env dc is_async c = (j, FBody b) /\ In (n, v) b /\ ~ origin nat nnone sg dc c n v.
Proof.
  exists {| s_params := [{| sp_name := 1; sp_kwonly := false; sp_default := Some 1 |}]; s_varkw := true; s_varpos := false |}, no_env,
    {| d_params := []; d_mode := KWARGS_WITH_NONE; d_strict := false; d_ignore_input := false |}, false,
    {| c_args := []; c_kwargs := [(0, 5)] |}, [], [(1, 5)], 1, 5.
  repeat split; try reflexivity.
  - now left.
  - intro H. destruct H as [p w Ip _ _ _|p w Ip _ _ _ _|p Ip _ _ _|sp Isp Hn D _|_ [_ G] _].
    + destruct Ip.
    + destruct Ip.
    + destruct Ip.
    + destruct Isp as [<-|[]]. discriminate D.
    + cbn in G. destruct G as [G|[]]. discriminate G.
Qed.
Print Assumptions C12_gate_self_refuted.

(* ... and a Parameter named self: @validate(Parameter('self', default=3, required=False)) def c(a=1, **kw); c() runs
   the body with a=3; the default never arrives under its own name *)
Theorem C12_default_cascade_self_refuted : exists sg env dc is_async c j b p d,
  self_guard nat sg dc c = false /\ NoDup (map (@p_name nat) (d_params dc)) /\
  vrun nnone sg env dc is_async c = (j, FBody b) /\
  In p (d_params dc) /\ (forall w, ~ caller_gives nat sg dc c (p_name p) w) /\ no_external nat p /\
  p_default p = Some d /\ d_mode dc <> KWARGS_WITHOUT_NONE /\ dget (p_name p) b <> Some d.
Proof.
  exists {| s_params := [{| sp_name := 1; sp_kwonly := false; sp_default := Some 1 |}]; s_varkw := true; s_varpos := false |}, no_env,
    {| d_params := [mkparam 0 [] false (Some 3)]; d_mode := KWARGS_WITH_NONE; d_strict := true; d_ignore_input := false |},
    false, {| c_args := []; c_kwargs := [] |}, [], [(1, 3)], (mkparam 0 [] false (Some 3)), 3.
  repeat split; try reflexivity; try discriminate.
  - repeat constructor. cbn. tauto.
  - now left.
  - intros w [_ G]. destruct G.
Qed.
Print Assumptions C12_default_cascade_self_refuted.

(* FUNCTIONS WITH star-args (s_varpos sg = true; the model covers the zip branch of the positional loop).  Former findings
   C12-K4 / C12-K5 (fixed by /repo 137d0c4 / 1908fef; then C12_strict_varargs_refuted / C12_gate_varargs_refuted): the
   positionals collected by the star-args parameter are matched with the unused Parameters by position; one beyond the last
   Parameter raises TooManyArguments under strict and is passed through otherwise.  The old witnesses: *)
Definition va_sig (named : list name) : signature nat :=
  {| s_params := map (fun n => {| sp_name := n; sp_kwonly := false; sp_default := None |}) named; s_varkw := false; s_varpos := true |}.
Definition va_deco (strict : bool) : deco nat :=
  {| d_params := [mkparam 1 [at_most 5] true None; mkparam 2 [at_most 5] true None]; d_mode := ARGS; d_strict := strict;
     d_ignore_input := false |}.

(* f with only a star-args parameter, Parameters a, b: f(1, 2, 99) *)
Example C12_K4_witness_fixed :
  vrun nnone (va_sig []) no_env (va_deco true) false {| c_args := [1; 2; 99]; c_kwargs := [] |} = ([], FRaise TooManyArgumentsC None) /\
  vrun nnone (va_sig []) no_env (va_deco false) false {| c_args := [1; 2; 99]; c_kwargs := [] |}
    = ([(1, 0, 1); (2, 0, 2)], FBodyStar [] [1; 2; 99]).
Proof. split; reflexivity. Qed.

(* g with parameter x followed by star-args, Parameters x, y: g(1, 1) and g(1, 1, 2) *)
Example C12_K5_witness_fixed :
  vrun nnone (va_sig [1]) no_env (va_deco true) false {| c_args := [1; 1]; c_kwargs := [] |}
    = ([(1, 0, 1); (2, 0, 1)], FBodyStar [(1, 1)] [1]) /\
  vrun nnone (va_sig [1]) no_env (va_deco true) false {| c_args := [1; 1; 2]; c_kwargs := [] |}
    = ([(1, 0, 1)], FRaise TooManyArgumentsC None).
Proof. split; reflexivity. Qed.

(* THE SAME FOR FUNCTIONS WITH star-args IN THEIR PRINCIPAL USE (Spec.spec_star_domain: return_as=ARGS, a purely positional call
   that passes every named parameter, no keyword-only parameters, no self, the Parameters of the named parameters declared
   first and in signature order, the other Parameters standing for the positions of the tuple): the run ends exactly as
   Spec.spec_star_outcome demands - named binding and tuple equal (the i-th surplus positional through the chain of the
   i-th remaining Parameter, then the defaults of the Parameters without value, a positional beyond the last Parameter
   unchanged when not strict), or one of the demanded exceptions and no body.
   Not claimed (C12_gate_partial / C12_strict_partial say s_varpos sg = false): star-args functions OUTSIDE that use -
   keyword arguments or KWARGS modes together with star-args, methods, keyword-only parameters, Parameters declared out of
   order (there the arrival order of the values decides, pinned by test_return_as_args_advanced_different_order) and a
   var-positional parameter not spelled `args`; the model covers all but the last and is compared with the
   implementation on them (correspondence), but nothing is claimed. *)
Theorem C12_run_meets_spec_star : forall value is_none sg env dc c is_async,
  spec_star_domain value sg dc c = true ->
  (forall p, In p (d_params dc) -> derives (p_exc p) ParameterExceptionC = true) ->
  snd (flask_m value env dc) = WOk tt ->
  match spec_star_outcome value is_none sg dc c with
  | DSRaise rs => exists e pn, snd (vrun is_none sg env dc is_async c) = FRaise e pn /\ raise_allowed e pn rs
  | DSPythonRejects => False
  | DSBody b star => snd (vrun is_none sg env dc is_async c) = FBodyStar b star
  end.
Proof. intros. rewrite vrun_ref. now apply run_meets_spec_star. Qed.
Print Assumptions C12_run_meets_spec_star.

(* strict, in that use: a positional beyond the last Parameter keeps the body from running; TooManyArguments is demanded *)
Theorem C12_strict_varargs : forall value is_none sg env dc c is_async,
  spec_star_domain value sg dc c = true ->
  (forall p, In p (d_params dc) -> derives (p_exc p) ParameterExceptionC = true) ->
  snd (flask_m value env dc) = WOk tt ->
  d_strict dc = true ->
  List.length (star_params value sg dc) + List.length (positional_names value sg) < List.length (c_args c) ->
  exists rs, spec_star_outcome value is_none sg dc c = DSRaise rs /\ In (TooManyArgumentsC, None) rs /\
             exists e pn, snd (vrun is_none sg env dc is_async c) = FRaise e pn /\ raise_allowed e pn rs.
Proof. intros. rewrite vrun_ref. now apply strict_star. Qed.
Print Assumptions C12_strict_varargs.

(* OUTSIDE THAT USE THE GATE IS FALSE for star-args functions under return_as=ARGS (open finding C12-K6): the values are passed
   positionally in their order of ARRIVAL (keywords first, then the bound positionals, then defaults in declaration order),
   so a keyword argument - or a Parameter without value declared out of signature order - shifts them to other parameters.
   Parameters x / at most 1 and y / at most 10 on g with parameters x, y and star-args: g(1, y=5) runs the body with
   x=5, y=1 - the 5 never passed the chain of x (the repository pins this order: test_return_as_args_advanced_different_order) *)
Theorem C12_gate_varargs_refuted : exists sg env dc is_async c j b star,
  s_varpos sg = true /\ spec_star_domain nat sg dc c = false /\ self_guard nat sg dc c = true /\
  vrun nnone sg env dc is_async c = (j, FBodyStar b star) /\ In (1, 5) b /\ ~ origin nat nnone sg dc c 1 5.
Proof.
  exists (va_sig [1; 2]), no_env,
    {| d_params := [mkparam 1 [at_most 1] true None; mkparam 2 [at_most 10] true None]; d_mode := ARGS; d_strict := true;
       d_ignore_input := false |}, false, {| c_args := [1]; c_kwargs := [(2, 5)] |}, [(2, 0, 5); (1, 0, 1)], [(1, 5); (2, 1)], [].
  repeat split; try reflexivity.
  - now left.
  - intro H. destruct H as [p w Ip Hn [_ G] S|p w Ip Hn Abs _ _|p Ip Hn Abs _|sp Isp Hn D _|Dcl _ _].
    + destruct Ip as [<-|[<-|[]]]; [|discriminate Hn]. cbn in G. destruct G as [G|[G|[]]]; [discriminate G|].
      injection G as <-. vm_compute in S. discriminate S.
    + apply (Abs 1). split; [reflexivity | right; now left].
    + apply (Abs 1). split; [reflexivity | right; now left].
    + destruct Isp as [<-|[<-|[]]]; discriminate D.
    + discriminate Dcl.
Qed.
Print Assumptions C12_gate_varargs_refuted.

(* ANY REJECTION RAISES BEFORE THE BODY.  A value the caller passes for a declared Parameter that does not pass
   the chain (rejected at any position, or a foreign exception in a validator): the body does not run *)
Theorem C12_rejection_no_body : forall value is_none sg env dc is_async c n w p,
  s_varpos sg = false ->
  caller_gives value sg dc c n w -> lookup_param value dc n = Some p ->
  (forall v, spec_param value is_none p w <> VPass v) ->
  exists e pn, snd (vrun is_none sg env dc is_async c) = FRaise e pn.
Proof. intros. rewrite vrun_ref in *. eapply rejection_no_body; eauto. Qed.
Print Assumptions C12_rejection_no_body.

(* the first rejection wins.  `arrival` lists the arguments in the order in which _wrapper_content meets them
   (keywords, then the bound positionals); if everything in front of x passes and the Parameter of x rejects, then
   exactly its exception leaves - class exception_type, attribute parameter_name = the name - the body does not
   run, and the validators called are those of the arguments in front plus the rejecting chain up to the
   rejecting validator: nothing behind the rejection is looked at *)
Theorem C12_first_rejection_no_body : forall value is_none sg env dc is_async c pre x post p,
  s_varpos sg = false ->
  arrival value sg dc c = Some (pre ++ x :: post) ->
  Forall (fun y => exists v, snd (snd (titem value is_none dc y)) = WOk v) pre ->
  lookup_param value dc (fst (snd x)) = Some p ->
  spec_param value is_none p (snd (snd x)) = VReject ->
  vrun is_none sg env dc is_async c =
  (flat_map (fun y => fst (snd (titem value is_none dc y))) pre ++ spec_journal value is_none p (snd (snd x)),
   FRaise (p_exc p) (Some (fst (snd x)))).
Proof. intros. rewrite vrun_ref in *. eapply first_rejection; eauto. Qed.
Print Assumptions C12_first_rejection_no_body.

(* the same for ANY failing step (rejection, foreign exception of a validator or of the conversion, undeclared
   argument under strict): everything in front passed, the step of x raises (e, pn) - exactly that leaves *)
Theorem C12_first_failure_wins : forall value is_none sg env dc is_async c pre x post e pn,
  s_varpos sg = false ->
  arrival value sg dc c = Some (pre ++ x :: post) ->
  Forall (fun y => exists v, snd (snd (titem value is_none dc y)) = WOk v) pre ->
  snd (snd (titem value is_none dc x)) = WRaise e pn ->
  vrun is_none sg env dc is_async c =
  (flat_map (fun y => fst (snd (titem value is_none dc y))) pre ++ fst (snd (titem value is_none dc x)), FRaise e pn).
Proof. intros. rewrite vrun_ref in *. eapply first_failure_arrival; eauto. Qed.
Print Assumptions C12_first_failure_wins.

(* ... and in the unused-parameter loop: every argument passed, the Parameters without argument in front of p (in
   declaration order) got their value, the step of p raises (e, pn) - exactly that leaves.  The step of p is
   u_m p = (C12_unused_step_outcome) the chain on the value of its external source if it has one (a raising source:
   that exception), else: required -> exception_type with the parameter name; Parameter default; signature
   default; ValidateException *)
Theorem C12_first_failure_unused : forall value is_none sg env dc is_async c xs pre p post e pn,
  s_varpos sg = false ->
  arrival value sg dc c = Some xs ->
  Forall (fun y => exists v, snd (snd (titem value is_none dc y)) = WOk v) xs ->
  unused_params value dc (useds value dc (map snd xs)) = pre ++ p :: post ->
  Forall (fun q => exists v, snd (u_m value is_none sg q) = WOk v) pre ->
  snd (u_m value is_none sg p) = WRaise e pn ->
  vrun is_none sg env dc is_async c =
  (flat_map (fun y => fst (snd (titem value is_none dc y))) xs ++ flat_map (fun q => fst (u_m value is_none sg q)) pre
     ++ fst (u_m value is_none sg p), FRaise e pn).
Proof. intros. rewrite vrun_ref in *. eapply first_failure_unused; eauto. Qed.
Print Assumptions C12_first_failure_unused.

Theorem C12_unused_step_outcome : forall value is_none sg (p : param value),
  u_m value is_none sg p =
  match p_ext p with
  | Some x => if e_has x then match e_load x with Ok w => vvalidate is_none p w | Raise y => ([], WRaise y None) end
              else cascade_outcome value sg p
  | None => cascade_outcome value sg p
  end
  /\ cascade_outcome value sg p =
     (if spec_required value p then ([], WRaise (p_exc p) (Some (p_name p)))
      else match p_default p with
           | Some d => ([], WOk d)
           | None => match sig_default value sg (p_name p) with
                     | Some d => ([], WOk d)
                     | None => ([], WRaise ValidateExceptionC None)
                     end
           end).
Proof. intros. rewrite vvalidate_ref. split; [apply unused_outcome | reflexivity]. Qed.
Print Assumptions C12_unused_step_outcome.

(* an exception that carries a parameter name comes from the Parameter of that name: it rejected the value the
   caller / its external source gave, or it is required and got no value *)
Theorem C12_exception_names_parameter : forall value is_none sg env dc is_async c e n,
  s_varpos sg = false ->
  snd (vrun is_none sg env dc is_async c) = FRaise e (Some n) ->
  exists p, In p (d_params dc) /\ p_name p = n /\ e = p_exc p /\ rejected_here value is_none sg dc c p.
Proof. intros. rewrite vrun_ref in *. eapply raise_names_parameter; eauto. Qed.
Print Assumptions C12_exception_names_parameter.

(* STRICT.  An argument without declared Parameter (any keyword; any positional but self): the body does not run;
   if no declared Parameter rejects its value the exception is TooManyArguments *)
Theorem C12_strict_partial : forall value is_none sg env dc is_async c x xs,
  s_varpos sg = false ->
  d_strict dc = true -> arrival value sg dc c = Some xs -> In x xs ->
  declared value dc (fst (snd x)) = false -> (fst x = false \/ fst (snd x) <> self_name) ->
  (exists e pn, snd (vrun is_none sg env dc is_async c) = FRaise e pn) /\
  ((forall y p, In y xs -> lookup_param value dc (fst (snd y)) = Some p ->
                exists v, spec_param value is_none p (snd (snd y)) = VPass v) ->
   snd (vrun is_none sg env dc is_async c) = FRaise TooManyArgumentsC None).
Proof.
  intros. rewrite vrun_ref in *. split.
  - eapply strict_no_body; eassumption.
  - intro. eapply strict_too_many; eassumption.
Qed.
Print Assumptions C12_strict_partial.

(* more positionals than positional parameters on a function without star-args.  The property text demands TooManyArguments for
   "an argument without declared Parameter"; such a positional has not even a parameter: the wrapper raises ValidateException,
   the BASE class of TooManyArguments (signature.bind_partial fails first), and the body does not run.  The class is the
   base class, not TooManyArguments itself: open finding C12-K7 *)
Theorem C12_too_many_positionals : forall value is_none sg env dc is_async c,
  s_varpos sg = false ->
  d_ignore_input dc = false -> List.length (pos_params value sg) < List.length (c_args c) ->
  (forall kw, In kw (c_kwargs c) -> exists v, snd (step_m value is_none dc false (fst kw) (snd kw)) = WOk v) ->
  snd (vrun is_none sg env dc is_async c) = FRaise ValidateExceptionC None /\ derives TooManyArgumentsC ValidateExceptionC = true.
Proof. intros. rewrite vrun_ref. split; [eapply too_many_positionals; eauto | reflexivity]. Qed.
Print Assumptions C12_too_many_positionals.

(* REQUIRED / NONE / MISSING.  None for a required Parameter: its exception with the name, no validator called;
   None for a non-required Parameter passes unvalidated (no validator called); a Parameter without value from
   caller and external source that is required - or has neither Parameter default nor signature default - keeps
   the body from running *)
Theorem C12_required_none_missing : forall value is_none,
  (forall (p : param value) w, spec_required value p = true -> is_none w = true ->
     vvalidate is_none p w = ([], WRaise (p_exc p) (Some (p_name p)))) /\
  (forall (p : param value) w, spec_required value p = false -> is_none w = true ->
     vvalidate is_none p w = ([], WOk w)) /\
  (forall sg env dc is_async c p, s_varpos sg = false ->
     In p (d_params dc) -> (forall w, ~ caller_gives value sg dc c (p_name p) w) -> no_external value p ->
     (spec_required value p = true \/ (p_default p = None /\ sig_default value sg (p_name p) = None)) ->
     exists e pn, snd (vrun is_none sg env dc is_async c) = FRaise e pn).
Proof.
  intros value is_none. rewrite vvalidate_ref. repeat split.
  - apply required_none_rejected.
  - apply optional_none_passes_unvalidated.
  - intros. rewrite vrun_ref. eapply missing_value_no_body; eassumption.
Qed.
Print Assumptions C12_required_none_missing.

(* DEFAULT CASCADE.  A declared Parameter (names pairwise distinct) without value from caller and external source,
   body reached: it is not required, and the body sees the Parameter default if there is one (KWARGS_WITHOUT_NONE:
   unless that default is None), else the signature default - a third case does not reach the body *)
Theorem C12_default_cascade : forall value is_none sg env dc is_async c j b p,
  s_varpos sg = false ->
  self_guard value sg dc c = true ->
  NoDup (map (@p_name value) (d_params dc)) ->
  vrun is_none sg env dc is_async c = (j, FBody b) ->
  In p (d_params dc) -> (forall w, ~ caller_gives value sg dc c (p_name p) w) -> no_external value p ->
  spec_required value p = false /\
  match p_default p with
  | Some d => (d_mode dc <> KWARGS_WITHOUT_NONE \/ is_none d = false) -> dget (p_name p) b = Some d
  | None => exists d, sig_default value sg (p_name p) = Some d /\ dget (p_name p) b = Some d
  end.
Proof. intros. rewrite vrun_ref in *. eapply default_cascade; eauto. Qed.
Print Assumptions C12_default_cascade.

(* ---- non-vacuity: def f(a, b, c=9) with Parameter a / [at most 5; plus one], b / [plus one], c default 4 ---- *)
Definition ex_sig := mksig [(1, None); (2, None); (3, Some 9)].
Definition ex_deco (m : return_as) (strict : bool) : deco nat :=
  {| d_params := [mkparam 1 [at_most 5; plus_one] true None; mkparam 2 [plus_one] true None; mkparam 3 [] false (Some 4)];
     d_mode := m; d_strict := strict; d_ignore_input := false |}.

Example C12_gate_hypotheses_satisfiable :
  let c := {| c_args := [3]; c_kwargs := [(2, 4)] |} in
  self_guard nat ex_sig (ex_deco ARGS true) c = true /\
  vrun nnone ex_sig no_env (ex_deco ARGS true) false c =
    ([(2, 0, 4); (1, 0, 3); (1, 1, 3)], FBody [(1, 4); (2, 5); (3, 4)]).
Proof. repeat split. Qed.

Example C12_first_rejection_hypotheses_satisfiable :
  let c := {| c_args := [3; 1]; c_kwargs := [(3, 7)] |} in
  let dc := {| d_params := [mkparam 1 [plus_one; at_most 3; plus_one] true None; mkparam 2 [plus_one] true None;
                            mkparam 3 [] false None];
               d_mode := ARGS; d_strict := true; d_ignore_input := false |} in
  arrival nat ex_sig dc c = Some ([(false, (3, 7))] ++ (true, (1, 3)) :: [(true, (2, 1))]) /\
  vrun nnone ex_sig no_env dc false c = ([(1, 0, 3); (1, 1, 4)], FRaise ParameterExceptionC (Some 1)).
Proof. split; reflexivity. Qed.

Example C12_strict_hypotheses_satisfiable :
  let c := {| c_args := [3; 1]; c_kwargs := [(8, 7)] |} in
  arrival nat ex_sig (ex_deco ARGS true) c = Some [(false, (8, 7)); (true, (1, 3)); (true, (2, 1))] /\
  declared nat (ex_deco ARGS true) 8 = false /\
  snd (vrun nnone ex_sig no_env (ex_deco ARGS true) false c) = FRaise TooManyArgumentsC None.
Proof. repeat split. Qed.

(* ... and a POSITIONAL argument without Parameter, at the FIRST position of a plain function and named like Python's implicit
   class argument (names: cls=12, amount=1): def build(cls, amount) with a Parameter for amount only; nothing binds cls
   implicitly, build(7, 5) is refused like any other undeclared argument - by position and by keyword *)
Example C12_strict_positional_first_hypotheses_satisfiable :
  let sg := mksig [(12, None); (1, None)] in
  let dc := {| d_params := [mkparam 1 [at_most 5] true None]; d_mode := ARGS; d_strict := true; d_ignore_input := false |} in
  let c := {| c_args := [7; 5]; c_kwargs := [] |} in
  arrival nat sg dc c = Some [(true, (12, 7)); (true, (1, 5))] /\
  declared nat dc 12 = false /\ 12 <> self_name /\
  snd (vrun nnone sg no_env dc false c) = FRaise TooManyArgumentsC None /\
  snd (vrun nnone sg no_env dc false {| c_args := []; c_kwargs := [(12, 7); (1, 5)] |}) = FRaise TooManyArgumentsC None.
Proof. repeat split. discriminate. Qed.

Example C12_default_cascade_hypotheses_satisfiable :
  let c := {| c_args := [3; 1]; c_kwargs := [] |} in
  vrun nnone ex_sig no_env (ex_deco KWARGS_WITHOUT_NONE true) true c =
    ([(1, 0, 3); (1, 1, 3); (2, 0, 1)], FBody [(1, 4); (2, 2); (3, 4)]) /\
  NoDup (map (@p_name nat) (d_params (ex_deco KWARGS_WITHOUT_NONE true))).
Proof. split; [reflexivity|]. repeat constructor; cbn; intuition discriminate. Qed.

Example C12_run_meets_spec_hypotheses_satisfiable :
  let dc := ex_deco ARGS true in
  let c := {| c_args := [3; 4; 6]; c_kwargs := [] |} in
  decl_wellformed nat ex_sig dc = true /\ call_wellformed nat ex_sig c = true /\ declared nat dc self_name = false /\
  snd (flask_m nat no_env dc) = WOk tt /\ names_fit nat ex_sig dc c = true /\
  (* def f(a, b, c=9); f(3, 4, 6): the supplied 6 is demanded for c, not the signature default 9 *)
  spec_outcome nat nnone ex_sig dc c = DBody [(1, 4); (2, 5); (3, 6)] /\
  snd (vrun nnone ex_sig no_env dc false c) = FBody [(1, 4); (2, 5); (3, 6)] /\
  spec_outcome nat nnone ex_sig dc {| c_args := [9]; c_kwargs := [(3, 1)] |}
    = DRaise [(ParameterExceptionC, Some 1); (ValidateExceptionC, None)].
Proof. repeat split. Qed.

(* a required Parameter without value in the unused-parameter loop: exactly its exception with its name *)
Example C12_first_failure_unused_hypotheses_satisfiable :
  let dc := ex_deco ARGS true in
  let c := {| c_args := [3]; c_kwargs := [] |} in
  arrival nat ex_sig dc c = Some [(true, (1, 3))] /\
  unused_params nat dc (useds nat dc (map snd [(true, (1, 3))])) = [] ++ mkparam 2 [plus_one] true None :: [mkparam 3 [] false (Some 4)] /\
  vrun nnone ex_sig no_env dc false c = ([(1, 0, 3); (1, 1, 3)], FRaise ParameterExceptionC (Some 2)).
Proof. repeat split. Qed.

Example C12_run_meets_spec_star_hypotheses_satisfiable :
  let c := {| c_args := [1; 1; 2]; c_kwargs := [] |} in
  let dc := {| d_params := [mkparam 1 [at_most 5] true None; mkparam 2 [plus_one] true None; mkparam 3 [] false (Some 7)];
               d_mode := ARGS; d_strict := true; d_ignore_input := false |} in
  spec_star_domain nat (va_sig [1]) dc c = true /\ snd (flask_m nat no_env dc) = WOk tt /\
  spec_star_outcome nat nnone (va_sig [1]) dc c = DSBody [(1, 1)] [2; 2] /\
  snd (vrun nnone (va_sig [1]) no_env dc false c) = FBodyStar [(1, 1)] [2; 2] /\
  spec_star_outcome nat nnone (va_sig [1]) dc {| c_args := [1; 1; 2; 9]; c_kwargs := [] |} = DSRaise [(TooManyArgumentsC, None)].
Proof. repeat split. Qed.
