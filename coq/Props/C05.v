(* C05 - keyword-only calling discipline of @pedantic and @require_kwargs.

   Full statement (properties.jsonl): calling a @pedantic / @require_kwargs function or method that
   declares no *args parameter with one of its declared parameters passed positionally always raises a
   PedanticException and the body does not run, whatever the values; dunder methods outside the
   documented list and property setters are exempt; the implicit self/cls never counts.

       forall f c bd, c05_positional f c = true ->
         exists e, run f c bd = (Raise e, []) /\ is_pedantic e = true                      (FALSE)

   The implementation decides "takes *args", "is a property setter", "is a static method" and "how many
   decorators" by searching the source TEXT of the function and recognises the receiver by the
   parameter name `self`.  The full statement is therefore false (theorems `*_refuted`, each witness
   reproduced on the real code by bin/check as a KNOWN-FINDING); it is proved under the guards that
   exclude exactly those regions (`*_partial`).  `run` is the model of coq/Model/Pedantic.v,
   tied to the source by translator/t_pedantic.py (Gen/Pedantic.v, `C05_cfg_good`; AST locks of the hand-modelled functions: obligation locks:hand-modelled-functions of bin/check)
   and by the correspondence stream pedantic/sig-x-call of bin/check C05.                     *)
From Coq Require Import List Arith Bool String ZArith Lia.
From PV Require Import Base.Exn Base.Values Base.Ann Base.PyCall Model.CheckerCfg Model.Checker Model.PedanticCfg
  Model.Pedantic Model.PedanticEval Spec.Conforms Spec.PedanticSpec
  Proofs.PedanticBase Proofs.PedanticC05 Proofs.PedanticChecker Proofs.PedanticWitness Gen.Pedantic.
Import ListNotations.
Close Scope Z_scope.
Open Scope list_scope.

(* ---------------- translation obligations ---------------- *)
Theorem C05_cfg_good : pc_good Gen.Pedantic.pedantic_cfg = true.
Proof. vm_compute. reflexivity. Qed.
Print Assumptions C05_cfg_good.

(* ---------------- the discipline ---------------- *)
(* no *args in the signature, k >= 1 declared parameters positional, not exempt: PedanticCallWithArgsException
   before anything else happens - for every checker, every body, every value.
   Guards: the two text flags agree with the facts (K2), and the first positional argument is not
   stripped as if it were a receiver (K4): nothing is stripped, or at least two values arrive. *)
Theorem C05_positional_rejected_partial : forall pc check consumes f c bd,
  pc_good pc = true ->
  c05_positional f c = true ->
  t_star_args (f_text f) = false -> t_setter (f_text f) = f_setter f ->
  (strips_first pc f = false \/ 2 <= List.length (wargs c)) ->
  run pc check consumes f c bd = (Raise PCallWithArgsC, []).
Proof.
  intros pc check consumes f c bd G H Hs Ht Hk. unfold c05_positional in H.
  repeat (apply andb_true_iff in H; destruct H as [H ?]).
  apply positional_rejected; [assumption| |].
  - rewrite (should_have_kwargs_exempt pc G f Hs Ht). assumption.
  - apply args_left; [assumption| |assumption]. destruct (c_args c); [discriminate|congruence].
Qed.
Print Assumptions C05_positional_rejected_partial.

Theorem C05_require_kwargs_rejected_partial : forall pc check consumes f c bd,
  pc_good pc = true ->
  c05_positional f c = true ->
  t_star_args (f_text f) = false -> t_setter (f_text f) = f_setter f ->
  (strips_first pc f = false \/ 2 <= List.length (wargs c)) ->
  run_rk pc check consumes f c bd = (Raise PCallWithArgsC, []).
Proof.
  intros pc check consumes f c bd G H Hs Ht Hk. unfold c05_positional in H.
  repeat (apply andb_true_iff in H; destruct H as [H ?]).
  apply positional_rejected_rk; [assumption| |].
  - rewrite (should_have_kwargs_exempt pc G f Hs Ht). assumption.
  - apply args_left; [assumption| |assumption]. destruct (c_args c); [discriminate|congruence].
Qed.
Print Assumptions C05_require_kwargs_rejected_partial.

(* inside the K4 region (the single positional value is stripped) the body still does not run as soon as
   one required parameter is not supplied by keyword: the region of the finding is exactly
   "stripped /\ every required parameter has a keyword or a default" *)
Theorem C05_stripped_but_unfilled_partial : forall pc check consumes f c bd,
  pc_good pc = true ->
  c05_positional f c = true ->
  t_star_args (f_text f) = false -> t_setter (f_text f) = f_setter f ->
  some_required_unfilled f c = true ->
  (forall a v tv e, fst (check a v tv) = Raise e -> is_pedantic e = true) ->        (* the checker raises PedanticExceptions only (C08) *)
  (forall inst, instance_of f c = Ok inst -> clazz_probe f c inst = Ok tt) ->       (* K2: '@staticmethod' in the text of a module-level function *)
  exists e, run pc check consumes f c bd = (Raise e, []) /\ is_pedantic e = true.
Proof.
  intros pc check consumes f c bd G H Hs Ht Hu Hped Hprobe. unfold c05_positional in H.
  repeat (apply andb_true_iff in H; destruct H as [H ?]).
  apply unfilled_never_runs_ped; try assumption.
  - rewrite (should_have_kwargs_exempt pc G f Hs Ht). assumption.
  - intros _. unfold wargs. destruct (c_args c); [discriminate|]. destruct (c_recv c); discriminate.
Qed.
Print Assumptions C05_stripped_but_unfilled_partial.

(* closed: with the checker model over the regenerated tables (which raises PedanticExceptions only on its whole domain) *)
Theorem C05_stripped_but_unfilled_closed_partial : forall ctx f c bd,
  c05_positional f c = true ->
  t_star_args (f_text f) = false -> t_setter (f_text f) = f_setter f ->
  some_required_unfilled f c = true ->
  (forall inst, instance_of f c = Ok inst -> clazz_probe f c inst = Ok tt) ->
  exists e, run1 ctx f c bd = (Raise e, []) /\ is_pedantic e = true.
Proof.
  intros ctx f c bd H Hs Ht Hu Hp. unfold run1.
  exact (C05_stripped_but_unfilled_partial _ _ _ f c bd C05_cfg_good H Hs Ht Hu (checker1_pedantic_only ctx) Hp).
Qed.
Print Assumptions C05_stripped_but_unfilled_closed_partial.

(* ---------------- the exemptions ---------------- *)
(* should_have_kwargs is false exactly for property setters, for dunder names outside the documented
   list - and for every function whose text contains "*args" *)
Theorem C05_exemptions_exact : forall pc f,
  pc_good pc = true ->
  should_have_kwargs pc f =
  negb (t_setter (f_text f) || t_star_args (f_text f))
  && (negb (is_dunder (f_name f)) || existsb (String.eqb (f_name f)) documented_kwargs_dunders).
Proof. intros pc f G. apply should_have_kwargs_general; assumption. Qed.
Print Assumptions C05_exemptions_exact.

Theorem C05_exemptions_exact_partial : forall pc f,
  pc_good pc = true ->
  t_star_args (f_text f) = false -> t_setter (f_text f) = f_setter f ->
  should_have_kwargs pc f = negb (exempt f).
Proof. intros pc f G. apply should_have_kwargs_exempt; assumption. Qed.
Print Assumptions C05_exemptions_exact_partial.

(* "stay positionally callable": what is proved is that the keyword test lets every call of an exempt callable pass
   (assert_uses_kwargs = Ok: no PedanticCallWithArgsException can come from it).  That the positional call then behaves like the
   undecorated one is a C04 matter: positional calls of exempt callables are in the transparency ORACLE of bin/check C04
   (Spec.PedanticSpec.c04_args_ok) and are exercised by the correspondence, they are not covered by a theorem (the transparency
   theorem of C04 is about keyword calls); closed instances: the Examples C05_exempt_positional_call_transparent below. *)
Theorem C05_exempt_stays_positional : forall pc f c,
  pc_good pc = true -> should_have_kwargs pc f = false -> assert_uses_kwargs pc f c = Ok tt.
Proof. intros pc f c G H. rewrite (assert_uses_kwargs_ref pc G), H. reflexivity. Qed.
Print Assumptions C05_exempt_stays_positional.

(* the implicit receiver never counts: a call without explicit positional arguments passes the test as
   soon as the receiver the wrapper got is the one that is stripped *)
Theorem C05_receiver_not_counted_partial : forall pc f c,
  pc_good pc = true ->
  c_args c = [] -> List.length (c_recv c) <= 1 -> (c_recv c <> [] -> strips_first pc f = true) ->
  assert_uses_kwargs pc f c = Ok tt.
Proof.
  intros pc f c G Ha Hl Hs. rewrite (assert_uses_kwargs_ref pc G), (args_without_self_ref pc G).
  unfold wargs. rewrite Ha, app_nil_r.
  destruct (c_recv c) as [|r [|r2 l]] eqn:E; simpl in Hl; try lia.
  - destruct (strips_first pc f); simpl; now rewrite andb_false_r.
  - rewrite Hs by discriminate. simpl. now rewrite andb_false_r.
Qed.
Print Assumptions C05_receiver_not_counted_partial.

(* ---------------- refutations of the full statement (known findings) ---------------- *)
(* K2: the word "*args" in a comment of the body: f(1) runs the body *)
Theorem C05_star_args_text_refuted : exists f c bd,
  c05_positional f c = true /\ t_setter (f_text f) = f_setter f /\ strips_first Gen.Pedantic.pedantic_cfg f = false
  /\ snd (run1 ctx0 f c bd) <> [].
Proof.
  exists f_star_text, (poscall [] [VInt 1%Z] []), (returns (VInt 1%Z)).
  repeat split; try reflexivity. vm_compute. discriminate.
Qed.
Print Assumptions C05_star_args_text_refuted.

(* K2: '@f.setter' in a comment *)
Theorem C05_setter_text_refuted : exists f c bd,
  c05_positional f c = true /\ t_star_args (f_text f) = false /\ strips_first Gen.Pedantic.pedantic_cfg f = false
  /\ snd (run1 ctx0 f c bd) <> [].
Proof.
  exists f_setter_text, (poscall [] [VInt 1%Z] []), (returns (VInt 1%Z)).
  repeat split; try reflexivity. vm_compute. discriminate.
Qed.
Print Assumptions C05_setter_text_refuted.

(* K4: @pedantic stacked on a second decorator, defaulted parameter: st('x') runs the body *)
Theorem C05_first_positional_stripped_refuted : exists f c bd,
  c05_positional f c = true /\ t_star_args (f_text f) = false /\ t_setter (f_text f) = f_setter f
  /\ some_required_unfilled f c = false
  /\ snd (run1 ctx0 f c bd) <> [].
Proof.
  exists f_stacked, (poscall [] [vx] []), (returns (VInt 1%Z)).
  repeat split; try reflexivity. vm_compute. discriminate.
Qed.
Print Assumptions C05_first_positional_stripped_refuted.

(* K4: static method of a @pedantic_class with a defaulted parameter: K.s(5) runs the body with the default *)
Theorem C05_static_first_positional_refuted : exists f c bd,
  c05_positional f c = true /\ t_star_args (f_text f) = false /\ t_setter (f_text f) = f_setter f
  /\ fst (run1 ctx0 f c bd) = Ok (VInt 1%Z) /\ snd (run1 ctx0 f c bd) = [([(a_, BOne (SDefault a_))], [])].
Proof.
  exists f_static_default, (poscall [] [VInt 5%Z] []), (returns (VInt 1%Z)).
  repeat split; reflexivity.
Qed.
Print Assumptions C05_static_first_positional_refuted.

(* K2: the receiver is recognised by the name `self`: k.m(a=1) on `def m(this, a: int)` is rejected although
   nothing is positional *)
Theorem C05_receiver_name_refuted : exists f c bd,
  c_args c = [] /\ fst (run1 ctx0 f c bd) = Raise PCallWithArgsC.
Proof.
  exists m_this, (kwcall [k_inst] [(a_, VInt 1%Z)]), (returns (VInt 1%Z)). split; reflexivity.
Qed.
Print Assumptions C05_receiver_name_refuted.

(* K2: "@require_kwargs" in the text of a class method of a @pedantic_class: the instance through which it is
   called is not stripped, k.c(a=1) is rejected *)
Theorem C05_pedantic_text_refuted : exists f c bd,
  c_args c = [] /\ fst (run1 ctx0 f c bd) = Raise PCallWithArgsC.
Proof.
  exists c_bound_ped_text, {| c_recv := [k_inst]; c_twin_recv := [K_cls]; c_args := []; c_kwargs := [(a_, VInt 1%Z)] |}, (returns (VInt 1%Z)).
  split; reflexivity.
Qed.
Print Assumptions C05_pedantic_text_refuted.

(* exempt callables called positionally, on the model of the whole library: an operator method and a required parameter *)
Example C05_exempt_positional_call_transparent :
  let add := method "__add__" self_name [par b_ PosOrKw AInt None] (tflags false false false false 0) in
  let c := poscall [k_inst] [VInt 1%Z] [] in
  exempt add = true /\ c04_call_ok ctx0 add c = true
  /\ run1 ctx0 add c (returns (VInt 1%Z)) = twin add c (returns (VInt 1%Z))
  /\ run1 ctx0 add (poscall [k_inst] [vx] []) (returns (VInt 1%Z)) = (Raise PTypeCheckC, []).
Proof. repeat split; reflexivity. Qed.

(* repaired by /repo f0d33a4: a DEFAULTED parameter of an exempt method passed positionally is checked like any other value:
   k('x') on __call__(self, x: int = 0) is rejected, k(1) runs the body *)
Example C05_exempt_defaulted_positional_checked :
  let call := method "__call__" self_name [par b_ PosOrKw AInt (Some (VInt 0%Z))] (tflags false false false false 0) in
  run1 ctx0 call (poscall [k_inst] [vx] []) (returns (VInt 1%Z)) = (Raise PTypeCheckC, [])
  /\ fst (run1 ctx0 call (poscall [k_inst] [VInt 1%Z] []) (returns (VInt 1%Z))) = Ok (VInt 1%Z).
Proof. split; reflexivity. Qed.

(* ---------------- the hypotheses are satisfiable ---------------- *)
Example C05_guards_satisfiable :
  c05_positional f_plain (poscall [] [VInt 1%Z] []) = true
  /\ t_star_args (f_text f_plain) = false /\ t_setter (f_text f_plain) = f_setter f_plain
  /\ strips_first Gen.Pedantic.pedantic_cfg f_plain = false
  /\ run1 ctx0 f_plain (poscall [] [VInt 1%Z] []) (returns (VInt 1%Z)) = (Raise PCallWithArgsC, []).
Proof. repeat split; reflexivity. Qed.

Example C05_method_guards_satisfiable :
  c05_positional m_self (poscall [k_inst] [VInt 1%Z] []) = true
  /\ 2 <= List.length (wargs (poscall [k_inst] [VInt 1%Z] []))
  /\ run1 ctx0 m_self (poscall [k_inst] [VInt 1%Z] []) (returns (VInt 1%Z)) = (Raise PCallWithArgsC, []).
Proof. repeat split; try reflexivity. Qed.

Example C05_unfilled_satisfiable :
  c05_positional f_static_text (poscall [] [VInt 1%Z] []) = true /\ some_required_unfilled f_static_text (poscall [] [VInt 1%Z] []) = true
  /\ run1 ctx0 f_static_text (poscall [] [VInt 1%Z] []) (returns (VInt 1%Z)) = (Raise PTypeCheckC, []).
Proof. repeat split; reflexivity. Qed.

(* ---------------- one positional value where every parameter has a default ---------------- *)
(* One declared parameter written positionally where EVERY parameter has a default (nothing would be left unfilled if the value
   were dropped), whatever the parameters are called, whatever the value and the defaults are, under @pedantic and under
   @require_kwargs: rejected, the body does not run.  The text flags of `plain_text` are those of a function whose only '@' in
   front of the def line is its decorator; '@' characters and decorator-looking lines AFTER the def line (nested decorated
   functions, docstrings with '@tag' lines, the matrix multiplication operator) are not among the things the implementation
   reads (Model.Pedantic.text_flags; locked by translator/t_pedantic.py): the generated modules of bin/check C05 carry them
   and are judged against Spec.PedanticSpec.c05_positional directly. *)
Theorem C05_one_positional_all_defaulted_rejected_closed : forall ctx n m v d d' bd,
  n <> self_name -> n <> m ->
  let f := func "f" [par n PosOrKw AInt (Some d); par m PosOrKw AInt (Some d')] plain_text in
  run1 ctx f (poscall [] [v] []) bd = (Raise PCallWithArgsC, [])
  /\ run_rk1 ctx f (poscall [] [v] []) bd = (Raise PCallWithArgsC, []).
Proof.
  intros ctx n m v d d' bd Hs Hn f. subst f. destruct n as [|k]; [exfalso; apply Hs; reflexivity|].
  assert (Hc : c05_positional (func "f" [par (S k) PosOrKw AInt (Some d); par m PosOrKw AInt (Some d')] plain_text) (poscall [] [v] []) = true).
  { unfold c05_positional, twin_binding, py_bind. cbn. reflexivity. }
  split; [unfold run1; apply C05_positional_rejected_partial|unfold run_rk1; apply C05_require_kwargs_rejected_partial];
    try exact C05_cfg_good; try exact Hc; try reflexivity; left; reflexivity.
Qed.
Print Assumptions C05_one_positional_all_defaulted_rejected_closed.
