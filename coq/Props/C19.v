(* C19 - docstring checking (work in progress: translation obligation only; the property theorems follow) *)
From Coq Require Import List ZArith Bool String.
From PV Require Import Base.Exn Model.DocstringTyping Model.Docstring Spec.DocstringSpec Gen.Docstring.
Import ListNotations.

Theorem C19_prog_is_canonical : docstring_prog = canonical.
Proof. reflexivity. Qed.
Print Assumptions C19_prog_is_canonical.
