(* C19 - docstring checking accepts exactly the docstrings consistent with the signature.

   `Gen.Docstring.docstring_prog` is regenerated on every run from pedantic/type_checking_logic/check_docstring.py
   (_check_docstring, _assert_docstring_is_complete, _parse_documented_type) and pedantic/decorators/fn_deco_pedantic.py
   (the trigger condition in pedantic.decorator); Model/Docstring.v interprets it (check, decorate, decorate_all).
   The specification is Spec/DocstringSpec.v (consistent, one_edit), written from the property text.
   Input of model and specification: the annotations (inspect.getfullargspec(f).annotations, any number of parameters of
   any kind, in any order) and the *parsed* docstring as docstring_parser returns it.

   The findings of the earlier rounds (C19-untyped-param d123a44, C19-pipe-union-context 2108a61, C19-unevaluable-type
   eaebe0b) are fixed in /repo: the statements below are the full ones, without any guard on the documented types; the
   former witnesses are kept as Examples of the repaired behaviour.

   Limit (audit): `consistent` evaluates documented types with eval / ty_eqb of Model/DocstringTyping.v, the same hand-written
   model of typing the model of the check uses (validated against CPython by the stream `typing` and by the Python-side
   oracle py_consistent on every run).                                                                              *)
From Coq Require Import List ZArith Bool String.
From PV Require Import Base.Exn Model.DocstringTyping Model.Docstring Model.DocstringClass Spec.DocstringSpec Gen.Docstring
  Proofs.DocstringTy Proofs.DocstringEvalLemmas Proofs.DocstringRef Proofs.DocstringMain Proofs.DocstringWf Proofs.DocstringClass.
Import ListNotations.
Open Scope string_scope.
Open Scope list_scope.

(* ---- translation obligations ------------------------------------------------------------------------------- *)
(* the regenerated program is the one the lemmas are about *)
Theorem C19_prog_is_canonical : docstring_prog = canonical.
Proof. reflexivity. Qed.
Print Assumptions C19_prog_is_canonical.

(* _check_docstring is called in the body of pedantic.decorator (decoration time, before any wrapper exists);
   pedantic_require_docstring / pedantic_class_require_docstring are the shortcuts they claim to be; annotations /
   docstring / raw_doc are the plain accessors; _update_context (hand-modelled as Model.Docstring.upd and validated
   by the correspondence stream `typing`) has the pinned structure.                                             *)
Theorem C19_structure :
  check_runs_at_decoration_time = true /\ require_shortcut_ok = true /\ class_shortcut_ok = true /\
  accessors_ok = true /\ eval_uses_module_globals_and_context = true /\ update_context_sha = "7c734fcb68de5321".
Proof. repeat split; reflexivity. Qed.
Print Assumptions C19_structure.

Definition fc (req : bool) (ann : annotations) (doc : docT) : fcase := mkfc req true ann doc.

(* ---- when the check runs at all ------------------------------------------------------------------------------- *)
Theorem C19_trigger : forall c,
  decorate docstring_prog c =
  if f_parser c && applies (f_require c) (f_doc c) then check docstring_prog c else Ok tt.
Proof.
  intros c. rewrite C19_prog_is_canonical, decorate_canonical, check_canonical. reflexivity.
Qed.
Print Assumptions C19_trigger.

(* a required docstring that is missing (or empty) *)
Theorem C19_required_missing_doc : forall ann doc,
  d_raw doc <> RawText -> decorate docstring_prog (fc true ann doc) = Raise PDocstringC.
Proof.
  intros ann doc H. rewrite C19_trigger. cbn [fc mkfc f_parser f_require f_doc applies andb orb].
  rewrite C19_prog_is_canonical, check_canonical. apply complete_fail_check.
  intros C. apply complete_ref_Ok in C as [C _]. contradiction.
Qed.
Print Assumptions C19_required_missing_doc.

(* ---- accepted <-> consistent ------------------------------------------------------------------------------------ *)
(* Guards of this section.  `sig_ok`: the annotations form a dict (every key once) of typing objects.  `scope_ok`: the scope
   contains the classes the annotations mention.  `doc_no_typing_dot`: pedantic rejects the *spelling* "typing." in a
   documented type as such.  `no_hiding scope` (only for "accepted => consistent" and what follows from it): no class visible
   to the function is called like a non-class export of typing (List, Dict, Any, Optional ...).                          *)

(* completeness of acceptance, for ALL class names (also user classes called List, Type, Any ...): a consistent docstring
   is accepted - _update_context has collected every class of an annotation before its entry is parsed, and
   eval(type_, globals(), context) looks the context up first *)
Theorem C19_consistent_is_accepted : forall scope req ann doc,
  sig_ok ann = true -> scope_ok scope ann = true -> doc_no_typing_dot doc = true ->
  consistent scope ann doc -> check docstring_prog (fc req ann doc) = Ok tt.
Proof.
  intros scope req ann doc Hs Hsc Hdot H. rewrite C19_prog_is_canonical, check_canonical.
  eapply consistent_accepted; eauto.
Qed.
Print Assumptions C19_consistent_is_accepted.

(* Full statement (false on the current code, see C19_accepted_is_consistent_refuted; open finding C19-late-shadowing):
     forall scope req ann doc, sig_ok ann = true -> scope_ok scope ann = true ->
       check docstring_prog (fc req ann doc) = Ok tt -> consistent scope ann doc.
   A class whose name hides a typing name shadows that name only after an annotation mentioning it has been processed;
   before that, the documented name still means the typing object.                                                    *)
Theorem C19_accepted_is_consistent_partial : forall scope req ann doc,
  sig_ok ann = true -> scope_ok scope ann = true -> no_hiding scope = true ->
  check docstring_prog (fc req ann doc) = Ok tt -> consistent scope ann doc.
Proof.
  intros scope req ann doc Hs Hsc Hh H. rewrite C19_prog_is_canonical, check_canonical in H.
  eapply accepted_consistent; eauto.
Qed.
Print Assumptions C19_accepted_is_consistent_partial.

Definition dt (text : string) (e : texpr) : dtype := {| dt_text := text; dt_expr := e |}.

(* import typing as t; class List: ...; def f(a: t.List[int], b: List) with `a (List[int])`, `b (List)`: in the scope of f
   `List[int]` denotes nothing (List is the class), the docstring is accepted; with the parameters swapped it is rejected *)
Theorem C19_accepted_is_consistent_refuted : exists scope req ann doc,
  sig_ok ann = true /\ scope_ok scope ann = true /\
  check docstring_prog (fc req ann doc) = Ok tt /\ ~ consistent scope ann doc.
Proof.
  exists ["List"; "int"], true, [("a", TGen (GTyping "List") [TCls "int"]); ("b", TCls "List")],
         (mkdoc RawText [("a", Some (dt "List[int]" (ESub (EName "List") (EName "int")))); ("b", Some (dt "List" (EName "List")))] None).
  split; [vm_compute; reflexivity|]. split; [vm_compute; reflexivity|]. split; [vm_compute; reflexivity|].
  intros C. apply consistentb_iff in C; [|apply nodupb_NoDup; vm_compute; reflexivity]. vm_compute in C. discriminate.
Qed.
Print Assumptions C19_accepted_is_consistent_refuted.

Theorem C19_accepts_iff_consistent_partial : forall scope req ann doc,
  sig_ok ann = true -> scope_ok scope ann = true -> doc_no_typing_dot doc = true -> no_hiding scope = true ->
  (check docstring_prog (fc req ann doc) = Ok tt <-> consistent scope ann doc).
Proof.
  intros scope req ann doc Hs Hsc Hdot Hh. rewrite C19_prog_is_canonical, check_canonical. split.
  - eapply accepted_consistent; eauto.
  - eapply consistent_accepted; eauto.
Qed.
Print Assumptions C19_accepts_iff_consistent_partial.

(* _update_context collects every class an annotation mentions (also under X | Y, since 2108a61) before the entry of that
   annotation is parsed: the fact behind the "consistent => accepted" direction *)
Theorem C19_context_complete : forall ann, sig_ok ann = true -> ctx_covers [] ann = true.
Proof. intros ann H. apply ann_ok_ctx_covers. apply (sf_ann_ok _ (sig_ok_facts _ H)). Qed.
Print Assumptions C19_context_complete.

(* ---- rejection: always PedanticDocstringException ------------------------------------------------------------------- *)
(* for every signature and every parsed docstring - documented types missing, not expressions at all, with a wrong number
   of type arguments, subscripting something that is not generic, naming something undefined ... - the check raises
   nothing but PedanticDocstringException: no IndexError, TypeError, SyntaxError, AttributeError *)
Theorem C19_only_docstring_exception : forall req ann doc,
  sig_ok ann = true ->
  check docstring_prog (fc req ann doc) = Ok tt \/ check docstring_prog (fc req ann doc) = Raise PDocstringC.
Proof.
  intros. rewrite C19_prog_is_canonical, check_canonical. eapply only_docstring_exception; eauto.
Qed.
Print Assumptions C19_only_docstring_exception.

(* (full statements without `no_hiding`: false for the same reason, see C19_one_edit_rejected_refuted) *)
Theorem C19_rejects_inconsistent_partial : forall scope req ann doc,
  sig_ok ann = true -> scope_ok scope ann = true -> no_hiding scope = true ->
  ~ consistent scope ann doc -> check docstring_prog (fc req ann doc) = Raise PDocstringC.
Proof.
  intros. rewrite C19_prog_is_canonical, check_canonical. eapply inconsistent_rejected; eauto.
Qed.
Print Assumptions C19_rejects_inconsistent_partial.

(* every single edit of a consistent docstring: drop / add / rename a documented parameter (also onto the name of another
   one), change one documented type to ANY expression with a different denotation or with none (a change at any nesting
   depth, also into something that is not a type: `List[int, str]`, `int[str]`, `int or`, `int.foo`),
   remove the type of a documented parameter, drop / add / alter the Returns entry, Returns without a type *)
Theorem C19_one_edit_rejected_partial : forall scope req ann doc doc',
  sig_ok ann = true -> scope_ok scope ann = true -> no_hiding scope = true ->
  consistent scope ann doc -> one_edit scope doc doc' ->
  check docstring_prog (fc req ann doc') = Raise PDocstringC.
Proof.
  intros. rewrite C19_prog_is_canonical, check_canonical. eapply one_edit_rejected; eauto.
Qed.
Print Assumptions C19_one_edit_rejected_partial.

(* ... and therefore decoration fails, whenever the check applies to the edited docstring *)
Theorem C19_one_edit_rejected_at_decoration : forall scope req ann doc doc',
  sig_ok ann = true -> scope_ok scope ann = true -> no_hiding scope = true ->
  consistent scope ann doc -> one_edit scope doc doc' ->
  applies req doc' = true ->
  decorate docstring_prog (fc req ann doc') = Raise PDocstringC.
Proof.
  intros scope req ann doc doc' Hs Hsc Hh Hc He Ha. rewrite C19_trigger.
  cbn [fc mkfc f_parser f_require f_doc andb]. rewrite Ha. eapply C19_one_edit_rejected_partial; eauto.
Qed.
Print Assumptions C19_one_edit_rejected_at_decoration.

(* class Union: ...; def f(a: int, b: Union) with `a (int)`, `b (Union)` is consistent; the edit a (int) -> a (Union[int])
   (in the scope of f: not a type at all) is accepted, because typing.Union[int] is int while the class is not collected yet *)
Theorem C19_one_edit_rejected_refuted : exists scope req ann doc doc',
  sig_ok ann = true /\ scope_ok scope ann = true /\ consistent scope ann doc /\ one_edit scope doc doc' /\
  check docstring_prog (fc req ann doc') = Ok tt.
Proof.
  exists ["Union"; "int"], true, [("a", TCls "int"); ("b", TCls "Union")],
         (mkdoc RawText ([] ++ ("a", Some (dt "int" (EName "int"))) :: [("b", Some (dt "Union" (EName "Union")))]) None),
         (mkdoc RawText ([] ++ ("a", Some (dt "Union[int]" (ESub (EName "Union") (EName "int")))) :: [("b", Some (dt "Union" (EName "Union")))]) None).
  split; [vm_compute; reflexivity|]. split; [vm_compute; reflexivity|]. split; [|split; [|vm_compute; reflexivity]].
  - apply consistentb_iff; [apply nodupb_NoDup; vm_compute; reflexivity|vm_compute; reflexivity].
  - apply E_change_type. intros [t [t' [E1 [E2 Q]]]]. vm_compute in E2. discriminate.
Qed.
Print Assumptions C19_one_edit_rejected_refuted.

(* ---- pedantic_class_require_docstring: the methods are decorated in order ---------------------------------------------- *)
Theorem C19_class_all_methods : forall l,
  (decorate_all docstring_prog l = Ok tt <-> forall c, In c l -> decorate docstring_prog c = Ok tt) /\
  (forall l1 c l2 e, l = l1 ++ c :: l2 -> (forall x, In x l1 -> decorate docstring_prog x = Ok tt) ->
     decorate docstring_prog c = Raise e -> decorate_all docstring_prog l = Raise e).
Proof.
  intros l. split; [apply decorate_all_Ok|]. intros l1 c l2 e E H1 H2. subst l. now apply decorate_all_first.
Qed.
Print Assumptions C19_class_all_methods.

(* ---- subclasses: an override is judged by ITS OWN docstring ------------------------------------------------------------------ *)
(* Model/DocstringClass.v: a class = its own methods (each with the __doc__ of that very function) + at most one base class.
   Decorator form (`@...` over the class statement / over the def in the class body) and call form (the decorator applied
   later, once the class object exists: pedantic_class_require_docstring(K), pedantic_require_docstring(K.m), pedantic(K.m))
   reach the same function objects, hence one statement covers both.  What a base class documents for a method of the same
   name (`inherited_doc`, the text inspect.getdoc / help() show) is no input of the check: the statements hold for EVERY
   `parent`.                                                                                                               *)

(* decorating the attribute K.n that K defines itself = decorating that function with its own annotations and docstring *)
Theorem C19_attribute_checked_with_own_docstring : forall own parent n m req,
  find_meth n own = Some m ->
  decorate_attr docstring_prog req (Klass own parent) n = decorate docstring_prog (fc req (m_ann m) (m_doc m)).
Proof. intros. now apply decorate_attr_own. Qed.
Print Assumptions C19_attribute_checked_with_own_docstring.

(* "when required, a missing docstring raises": an override without a docstring of its own, whatever its bases document *)
Theorem C19_undocumented_override_rejected : forall own parent n m,
  find_meth n own = Some m -> d_raw (m_doc m) <> RawText ->
  decorate_attr docstring_prog true (Klass own parent) n = Raise PDocstringC.
Proof.
  intros own parent n m H D. rewrite (C19_attribute_checked_with_own_docstring _ _ _ _ _ H).
  now apply C19_required_missing_doc.
Qed.
Print Assumptions C19_undocumented_override_rejected.

(* ... and the class decorator stops at the first own method without a docstring, whatever the bases document *)
Theorem C19_class_with_undocumented_method_rejected : forall l1 m l2 parent,
  d_raw (m_doc m) <> RawText ->
  (forall x, In x l1 -> decorate docstring_prog (fc true (m_ann x) (m_doc x)) = Ok tt) ->
  decorate_class docstring_prog (Klass (l1 ++ m :: l2) parent) = Raise PDocstringC.
Proof.
  intros l1 m l2 parent D H. apply decorate_class_first; [exact H|]. now apply C19_required_missing_doc.
Qed.
Print Assumptions C19_class_with_undocumented_method_rejected.

Theorem C19_class_accepted_iff_own_methods_accepted : forall own parent,
  decorate_class docstring_prog (Klass own parent) = Ok tt <->
  forall m, In m own -> decorate docstring_prog (fc true (m_ann m) (m_doc m)) = Ok tt.
Proof. intros. apply decorate_class_Ok. Qed.
Print Assumptions C19_class_accepted_iff_own_methods_accepted.

(* accepted <-> the override's own docstring is consistent with the override's own signature (same guards as
   C19_accepts_iff_consistent_partial; the base class does not occur in the right-hand side) *)
Theorem C19_override_accepted_iff_own_docstring_consistent_partial : forall scope own parent n m req,
  find_meth n own = Some m ->
  sig_ok (m_ann m) = true -> scope_ok scope (m_ann m) = true -> doc_no_typing_dot (m_doc m) = true -> no_hiding scope = true ->
  applies req (m_doc m) = true ->
  (decorate_attr docstring_prog req (Klass own parent) n = Ok tt <-> consistent scope (m_ann m) (m_doc m)).
Proof.
  intros scope own parent n m req H Hs Hsc Hd Hh Ha.
  rewrite (C19_attribute_checked_with_own_docstring _ _ _ _ _ H), C19_trigger.
  cbn [fc mkfc f_parser f_require f_doc andb]. rewrite Ha.
  now apply C19_accepts_iff_consistent_partial.
Qed.
Print Assumptions C19_override_accepted_iff_own_docstring_consistent_partial.

(* class B: def run(self, a: int) -> None documented `a (int)`;  class K(B): def run(self, a: int) -> None, no docstring.
   The inherited documentation of K.run is consistent with the signature of K.run - and K.run is rejected all the same
   (class decorator and function decorator); plain @pedantic does not apply; an inherited (not overridden) attribute is the
   function of B and is accepted. *)
Definition ex_run_doc : docT := mkdoc RawText [("a", Some {| dt_text := "int"; dt_expr := EName "int" |})] None.
Definition ex_run_ann : annotations := [("a", TCls "int"); ("return", TNone)].
Definition ex_B : klass := Klass [ {| m_name := "run"; m_ann := ex_run_ann; m_doc := ex_run_doc |} ] None.
Definition ex_K : klass := Klass [ {| m_name := "run"; m_ann := ex_run_ann; m_doc := mkdoc RawNone [] None |} ] (Some ex_B).

Example ex_inherited_docstring_is_not_the_docstring :
  inherited_doc ex_K "run" = Some ex_run_doc /\
  consistentb ["int"] ex_run_ann ex_run_doc = true /\
  decorate_class docstring_prog ex_B = Ok tt /\
  decorate_class docstring_prog ex_K = Raise PDocstringC /\
  decorate_attr docstring_prog true ex_K "run" = Raise PDocstringC /\
  decorate_attr docstring_prog false ex_K "run" = Ok tt /\
  decorate_attr docstring_prog true (Klass [] (Some ex_B)) "run" = Ok tt.
Proof. vm_compute. repeat split; reflexivity. Qed.

(* ---- the specification ------------------------------------------------------------------------------------------------ *)
(* the oracle evaluated by the harness is the specification *)
Theorem C19_spec_executable : forall scope ann doc, sig_ok ann = true ->
  (consistentb scope ann doc = true <-> consistent scope ann doc).
Proof. intros scope ann doc H. apply consistentb_iff. apply (sf_nodup _ (sig_ok_facts _ H)). Qed.
Print Assumptions C19_spec_executable.

(* "a type equal to its annotation": == on typing objects is an equivalence relation *)
Theorem C19_type_equality_is_equivalence :
  (forall a, ty_eqb a a = true) /\ (forall a b, ty_eqb a b = ty_eqb b a) /\
  (forall a b c, ty_eqb a b = true -> ty_eqb b c = true -> ty_eqb a c = true).
Proof. split; [exact ty_eqb_refl|]. split; [exact ty_eqb_sym|exact ty_eqb_trans]. Qed.
Print Assumptions C19_type_equality_is_equivalence.

(* a fact about the vocabulary (no longer a hypothesis of anything): the handler added by eaebe0b is never reached by a
   well-formed type expression (names, None, typing and builtin generics with the right number
   of arguments, Tuple[X, ...], Callable[[...], R], Callable[..., R], Union / Optional / X | Y, at any nesting depth)
   evaluates to a value or fails with a NameError, whatever the scope *)
Theorem C19_vocabulary_is_evaluable : forall scope d,
  forallb name_ok scope = true -> wf_expr (dt_expr d) = true -> evaluable scope d = true.
Proof.
  intros scope d H W. apply wf_evaluable; [|assumption]. intros m Hm. rewrite forallb_forall in H. auto.
Qed.
Print Assumptions C19_vocabulary_is_evaluable.

(* ---- the witnesses of the two fixed findings, on the repaired code --------------------------------------------------------- *)
(* def f(a: Foo | None) with `a (Foo | None): ...` is accepted *)
Example ex_pipe_accepted :
  check docstring_prog (fc true [("a", TPipe [TCls "Foo"; TCls "NoneType"])]
                           (mkdoc RawText [("a", Some (dt "Foo | None" (EOr (EName "Foo") ENone)))] None)) = Ok tt.
Proof. vm_compute. reflexivity. Qed.

(* def f(a: int) with `a: ...` instead of `a (int): ...` raises PedanticDocstringException *)
Example ex_untyped_rejected :
  check docstring_prog (fc true [("a", TCls "int")] (mkdoc RawText [("a", None)] None)) = Raise PDocstringC.
Proof. vm_compute. reflexivity. Qed.

(* `a (List[int, str])`, `a (int[str])`, `a (int or)` (not an expression), `a (typing-free int.foo)` for def f(a: int) *)
Example ex_unevaluable_rejected :
  forallb (fun e => match check docstring_prog (fc true [("a", TCls "int")] (mkdoc RawText [("a", Some (dt "x" e))] None)) with
                    | Raise x => prefix x PDocstringC && prefix PDocstringC x | Ok _ => false end)
    [ESub (EName "List") (ETuple [EName "int"; EName "str"]); ESub (EName "int") (EName "str"); EInvalidSyntax;
     EAttr (EName "typing") "foo"] = true.
Proof. vm_compute. reflexivity. Qed.

(* user classes called Type and Sequence, documented faithfully: def f(a: Type, b: Dict[str, Sequence]) -> Optional[Type] *)
Example ex_hiding_consistent_accepted :
  let ann := [("return", TUnion [TCls "Type"; TCls "NoneType"]); ("a", TCls "Type");
              ("b", TGen (GTyping "Dict") [TCls "str"; TCls "Sequence"])] in
  let doc := mkdoc RawText [("a", Some (dt "Type" (EName "Type")));
                            ("b", Some (dt "Dict[str, Sequence]" (ESub (EName "Dict") (ETuple [EName "str"; EName "Sequence"]))))]
                           (Some [dt "Optional[Type]" (ESub (EName "Optional") (EName "Type"))]) in
  let scope := ["Type"; "Sequence"; "NoneType"; "str"] in
  no_hiding scope = false /\ consistentb scope ann doc = true /\ check docstring_prog (fc true ann doc) = Ok tt.
Proof. vm_compute. repeat split; reflexivity. Qed.

(* ---- non-vacuity ---------------------------------------------------------------------------------------------------------- *)
(* def f(a: Optional[List[Foo]], *args: int, k: Dict[str, Foo] | None) -> Callable[[Foo], int]   with a faithful docstring
   that respells Optional[...] as Union[..., None] *)
Definition ex_ann : annotations :=
  [("return", TGen (GTyping "Callable") [TCls "Foo"; TCls "int"]);
   ("a", TUnion [TGen (GTyping "List") [TCls "Foo"]; TCls "NoneType"]);
   ("args", TCls "int");
   ("k", TUnion [TGen (GTyping "Dict") [TCls "str"; TCls "Foo"]; TCls "NoneType"])].
Definition ex_scope : list string := ["Foo"; "NoneType"; "int"; "str"].
Definition ex_a : dtype := dt "Union[List[Foo], None]" (ESub (EName "Union") (ETuple [ESub (EName "List") (EName "Foo"); ENone])).
Definition ex_args : dtype := dt "int" (EName "int").
Definition ex_k : dtype := dt "Optional[Dict[str, Foo]]" (ESub (EName "Optional") (ESub (EName "Dict") (ETuple [EName "str"; EName "Foo"]))).
Definition ex_ret : dtype := dt "Callable[[Foo], int]" (ESub (EName "Callable") (ETuple [EList [EName "Foo"]; EName "int"])).
Definition ex_doc : docT := mkdoc RawText [("k", Some ex_k); ("a", Some ex_a); ("args", Some ex_args)] (Some [ex_ret]).

Example ex_guards : sig_ok ex_ann = true /\ scope_ok ex_scope ex_ann = true /\ no_hiding ex_scope = true /\ doc_no_typing_dot ex_doc = true /\
  doc_evaluable ex_scope ex_doc = true.
Proof. repeat split; vm_compute; reflexivity. Qed.

Example ex_consistent : consistent ex_scope ex_ann ex_doc.
Proof. apply consistentb_iff; [apply nodupb_NoDup; vm_compute; reflexivity|vm_compute; reflexivity]. Qed.

Example ex_accepted : decorate docstring_prog (fc false ex_ann ex_doc) = Ok tt.
Proof. vm_compute. reflexivity. Qed.

Example ex_edit_untype : one_edit ex_scope ex_doc (mkdoc RawText ([("k", Some ex_k)] ++ ("a", None) :: [("args", Some ex_args)]) (Some [ex_ret])).
Proof. apply (E_untype_param ex_scope RawText [("k", Some ex_k)] "a" ex_a). Qed.

(* one edit of every kind is possible on it *)
Example ex_edit_rename : one_edit ex_scope ex_doc (mkdoc RawText ([("k", Some ex_k)] ++ ("b", Some ex_a) :: [("args", Some ex_args)]) (Some [ex_ret])).
Proof. apply (E_rename_param ex_scope RawText [("k", Some ex_k)] "a" "b"). discriminate. Qed.

(* a change two levels down: Optional[Dict[str, Foo]] -> Optional[Dict[str, int]] *)
Definition ex_k' : dtype := dt "Optional[Dict[str, int]]" (plug (CSubS (EName "Optional") (CSubS (EName "Dict") (CTupleAt [EName "str"] CHole []))) (EName "int")).
Example ex_edit_deep : one_edit ex_scope ex_doc (mkdoc RawText ([] ++ ("k", Some ex_k') :: [("a", Some ex_a); ("args", Some ex_args)]) (Some [ex_ret])).
Proof.
  apply (E_change_type ex_scope RawText [] "k" ex_k ex_k').
  intros [t [t' [E1 [E2 Q]]]]. vm_compute in E1, E2. inversion E1; inversion E2; subst. discriminate.
Qed.

Example ex_edit_deep_rejected :
  decorate docstring_prog (fc true ex_ann (mkdoc RawText ([] ++ ("k", Some ex_k') :: [("a", Some ex_a); ("args", Some ex_args)]) (Some [ex_ret])))
  = Raise PDocstringC.
Proof. vm_compute. reflexivity. Qed.

(* an edit into something that is not a type at all *)
Example ex_edit_not_a_type : one_edit ex_scope ex_doc (mkdoc RawText ([] ++ ("k", Some (dt "Dict[str]" (ESub (EName "Dict") (EName "str")))) :: [("a", Some ex_a); ("args", Some ex_args)]) (Some [ex_ret])).
Proof.
  apply (E_change_type ex_scope RawText [] "k" ex_k (dt "Dict[str]" (ESub (EName "Dict") (EName "str")))).
  intros [t [t' [E1 [E2 Q]]]]. vm_compute in E2. discriminate.
Qed.

Example ex_edit_alter_returns : one_edit ex_scope ex_doc (mkdoc RawText [("k", Some ex_k); ("a", Some ex_a); ("args", Some ex_args)] (Some [ex_args])).
Proof.
  apply (E_alter_returns ex_scope RawText _ ex_ret ex_args).
  intros [t [t' [E1 [E2 Q]]]]. vm_compute in E1, E2. inversion E1; inversion E2; subst. discriminate.
Qed.
