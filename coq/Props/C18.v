(* C18 - utility decorators are transparent and their own effect is exact.  Property theorems only.

   `Gen.Wrappers.d_<name>` is the body of every wrapper / async_wrapper of pedantic/decorators/fn_deco_*.py,
   compiled statement by statement into the effect language of Model/WrapperSem.v by translator/t_wrappers.py
   on every run.  All theorems are about these regenerated terms.

   Reading guide.  `use_wrapped d cx : csem Sigma` is "call the decorated callable the way its undecorated twin
   is called" (plain call, or call + await when the twin is a coroutine function).  The twin `cx_callee cx CFunc`
   is ANY callable over ANY world Sigma that behaves as an arbitrary state transformer `g` (`behaves_as g f`: a
   plain function does g when called; a coroutine function binds its arguments when called and does g when
   awaited; f itself may already be a decorated callable that prints, warns, counts).
   `same_as g h` says: for all arguments and states, h returns the very result object / raises the very
   exception instance that one run of g on the SAME arguments produces and leaves the world as that one run
   leaves it; only the wrapper's own journal may differ.                                                      *)
From Coq Require Import List ZArith Bool String Lia.
From PV Require Import Base.Exn Model.WrapperSem Spec.WrapperSpec Model.WrapperStack Proofs.WrapperProofs Gen.Wrappers.
From PV Require Import Model.WrapperKw Proofs.WrapperKwProofs.
From PV Require Gen.Pedantic Proofs.PedanticBase.
Import ListNotations.
Open Scope list_scope.

(* ---- translation obligations: the regenerated side tables are the ones the theorems need ------------------- *)
Theorem C18_warn_prog_never_raises : fops_safe false raise_warning_prog = true.
Proof. vm_compute. reflexivity. Qed.
Print Assumptions C18_warn_prog_never_raises.

Theorem C18_class_shortcuts :
  lookup_deco (map (fun p => (fst p, d_trace)) (filter (fun p => String.eqb (snd p) "trace") class_shortcuts)) "trace_class" = Some d_trace /\
  In ("trace_class", "trace")%string class_shortcuts /\ In ("timer_class", "timer")%string class_shortcuts /\
  rename_dict_is_last_wins_comprehension = true.
Proof. vm_compute. repeat split; auto 10. Qed.
Print Assumptions C18_class_shortcuts.

(* the keyword-only test of require_kwargs is taken from the call protocol regenerated for C03/C05 (Gen/Pedantic.v:
   should_have_kwargs, args_without_self, assert_uses_kwargs); it is a member of the family its closed forms are proved for *)
Theorem C18_kw_protocol_good : PedanticBase.pc_good Gen.Pedantic.pedantic_cfg = true.
Proof. vm_compute. reflexivity. Qed.
Print Assumptions C18_kw_protocol_good.

(* "keyword call" implies that the code's own test passes, for decoration with the @ syntax (the text '@require_kwargs'
   is in the source): nothing is passed positionally, or only the receiver of a method - when require_kwargs sits
   directly on `def m(self, ...)` or at least two decorator lines precede the def (these two are what the code looks at
   to decide that the first positional is a receiver) *)
Definition keyword_call (s : kw_shape) (a : args) : Prop :=
  a = [] \/ (List.length a = 1%nat /\ (ks_first_self s = true \/ (2 <= ks_n_at s)%nat)).

Theorem C18_require_kwargs_test_passes_on_keyword_calls : forall s a k,
  ks_rk_text s = true -> keyword_call s a -> kw_test_of Gen.Pedantic.pedantic_cfg s a k = None.
Proof.
  intros s a k Ht [->|[Hl Hs]].
  - apply (kw_test_none _ C18_kw_protocol_good). cbn. lia.
  - apply (kw_test_none _ C18_kw_protocol_good). rewrite (strip_at_syntax _ C18_kw_protocol_good s Ht Hs). lia.
Qed.
Print Assumptions C18_require_kwargs_test_passes_on_keyword_calls.

(* ... and otherwise it raises PedanticCallWithArgsException: the guard above is exact for ordinary functions
   (not *args in the text, not an exempt dunder name, no property setter) *)
Theorem C18_require_kwargs_test_fails_on_positional_calls : forall s a k,
  Pedantic.should_have_kwargs Gen.Pedantic.pedantic_cfg (fn_of_shape s) = true ->
  (strip_of Gen.Pedantic.pedantic_cfg s < List.length a)%nat ->
  kw_test_of Gen.Pedantic.pedantic_cfg s a k = Some PCallWithArgsC.
Proof. intros. now apply (kw_test_some _ C18_kw_protocol_good). Qed.
Print Assumptions C18_require_kwargs_test_fails_on_positional_calls.

(* a callable that has a name is never repr'd by the messages: for functions, bound methods (also of an object whose
   __repr__ raises) and wrappers the guard name_readable is free *)
Theorem C18_named_is_readable : forall Sigma (cx : ctx Sigma) c, c_named (cx_callee cx c) = true -> name_readable cx c.
Proof. intros. now left. Qed.
Print Assumptions C18_named_is_readable.

(* ---- transparency, one decorator ------------------------------------------------------------------------------ *)
(* Full statement (FALSE on the current source, open known finding C18-K13; see the _refuted theorems below):
     for every twin behaviour g, all arguments, all states:  same_as g (use_wrapped d cx).
   trace, trace_if_returns and does_same_as_function build their messages with f-strings that evaluate repr(args),
   repr(kwargs), repr(result) BEFORE anything is printed, so a value whose __repr__ raises (or prints, or is itself
   a decorated method) makes the decorated call fail.  Proved under the guard, only where the wrapper really formats
   a value:
     repr_harmless cx : producing the text of any value succeeds and has no effect (so it is not a wrapped method).
   The name of the function: since the fixes ff26652 / 4311a8e the messages read
   `func.__name__ if hasattr(func, "__name__") else repr(func)` (item FName): a callable WITH a name - functions, bound
   methods, wrappers - is never repr'd, so for it there is no guard; for a callable WITHOUT a name (functools.partial,
   callable objects) its own repr is evaluated, and that shows the receiver / the bound arguments:
     name_readable cx CFunc := c_named f = true \/ repr of the callable is harmless.
   (The first repair, getattr(func, "__name__", repr(func)), evaluated repr(func) on EVERY call: the translator refuses
   that form.)                                                                                                       *)
Section Transparent.
  Variable Sigma : Type.
  Variable cx : ctx Sigma.
  Variable g : base Sigma.
  Hypothesis Hused : awaited_if_coro (cx_callee cx CFunc) = true.
  Hypothesis Htwin : behaves_as g (cx_callee cx CFunc).

  Theorem C18_transparent_trace_partial : repr_harmless cx -> same_as g (use_wrapped d_trace cx).
  Proof. intros Hr. pose proof (repr_harmless_name _ cx CFunc Hr). apply behaves_use. apply meets_trace; assumption. Qed.

  (* timer, count_calls and deprecated format nothing of the caller's, only the name: any named callable without any
     guard (C18_named_is_readable), a nameless one when its own repr is harmless *)
  Theorem C18_transparent_timer_partial : name_readable cx CFunc -> same_as g (use_wrapped d_timer cx).
  Proof. intros Hn. apply behaves_use. apply meets_timer; assumption. Qed.

  Theorem C18_transparent_count_calls_partial : name_readable cx CFunc -> same_as g (use_wrapped d_count_calls cx).
  Proof. intros Hn. apply behaves_use. apply meets_count_calls; assumption. Qed.

  Theorem C18_transparent_deprecated_partial :
    name_readable cx CFunc -> cx_warn_prog cx = raise_warning_prog -> same_as g (use_wrapped d_deprecated cx).
  Proof.
    intros Hn H. apply behaves_use. apply meets_deprecated; try assumption. rewrite H. exact C18_warn_prog_never_raises.
  Qed.

  (* whatever `==` answers *)
  Theorem C18_transparent_trace_if_returns_partial : repr_harmless cx -> same_as g (use_wrapped d_trace_if_returns cx).
  Proof. intros Hr. pose proof (repr_harmless_name _ cx CFunc Hr). apply behaves_use. apply meets_trace_if_returns; assumption. Qed.

  (* every keyword call, when the wrapper's test is the regenerated one applied to what require_kwargs sees of the
     function (shape s) and the function was decorated with the @ syntax.  require_kwargs is defined on function
     objects only (DecoratedFunction: "should be a method or function"): c_named *)
  Theorem C18_transparent_require_kwargs_keyword_call : forall s a k,
    c_named (cx_callee cx CFunc) = true ->
    (forall a k, cx_assert_kw cx a k = kw_test_of Gen.Pedantic.pedantic_cfg s a k) ->
    ks_rk_text s = true -> keyword_call s a ->
    same_as_at g (use_wrapped d_require_kwargs cx) a k.
  Proof.
    intros s a k Hname Hcx Ht Hk st.
    assert (Hm : behaves_as (spec_apply NRequireKwargs cx g g) (as_callee d_require_kwargs cx)) by (apply meets_require_kwargs; assumption).
    destruct (behaves_use _ _ _ Hm a k st) as [w E].
    cbn [spec_apply] in E. rewrite Hcx, (C18_require_kwargs_test_passes_on_keyword_calls s a k Ht Hk) in E. eauto.
  Qed.

  (* both functions agree (the other one is a plain function that leaves the world alone) *)
  Theorem C18_transparent_does_same_as_function_agreeing : forall go a k,
    repr_harmless cx ->
    plain_function (cx_callee cx CFunc) = true -> sync_function (cx_callee cx COther) = true ->
    behaves_as go (cx_callee cx COther) ->
    (forall c v c1, g a k c = (ROk v, c1) -> exists v', go a k c1 = (ROk v', c1) /\ cx_vne cx v' v = false) ->
    same_as_at g (use_wrapped d_does_same_as_function cx) a k.
  Proof.
    intros go a k Hr Hp Hs Ho Hagree s. pose proof (repr_harmless_name _ cx CFunc Hr).
    assert (Hm : behaves_as (spec_apply NDoesSame cx go g) (as_callee d_does_same_as_function cx)) by (apply meets_does_same; assumption).
    destruct (behaves_use _ _ _ Hm a k s) as [w E].
    cbn [spec_apply] in E. unfold spec_does_same in E.
    destruct (g a k (cs s)) as [r c1] eqn:Eg. destruct r; cbn in *; eauto.
    destruct (Hagree _ _ _ Eg) as (v' & E1 & E2). rewrite E1, E2 in E. cbn in E. eauto.
  Qed.

  Theorem C18_transparent_overrides : same_as g (use_wrapped d_overrides cx).
  Proof. apply behaves_use. apply meets_overrides; assumption. Qed.

  (* every call none of whose keywords is listed in a Rename rule *)
  Theorem C18_transparent_rename_kwargs_unlisted : forall a k,
    no_listed_key (cx_rename cx) k = true -> keys_distinct k = true ->
    same_as_at g (use_wrapped d_rename_kwargs cx) a k.
  Proof.
    intros a k H1 H2 s.
    assert (Hm : behaves_as (spec_apply NRenameKwargs cx g g) (as_callee d_rename_kwargs cx)) by (apply meets_rename_kwargs; assumption).
    destruct (behaves_use _ _ _ Hm a k s) as [w E].
    cbn [spec_apply] in E. rewrite spec_renamed_unlisted, dict_of_pairs_distinct in E by assumption. eauto.
  Qed.
End Transparent.
Print Assumptions C18_transparent_trace_partial.
Print Assumptions C18_transparent_timer_partial.
Print Assumptions C18_transparent_count_calls_partial.
Print Assumptions C18_transparent_deprecated_partial.
Print Assumptions C18_transparent_trace_if_returns_partial.
Print Assumptions C18_transparent_overrides.
Print Assumptions C18_transparent_require_kwargs_keyword_call.
Print Assumptions C18_transparent_rename_kwargs_unlisted.
Print Assumptions C18_transparent_does_same_as_function_agreeing.

(* ---- composition ------------------------------------------------------------------------------------------------ *)
(* the general statement: ANY stack of the eleven decorators, of any height and in any order, behaves as the
   composition of their documented effects (spec_apply) *)
Theorem C18_stack_meets_spec : forall Sigma (l : list (dname * ctx Sigma * base Sigma)) f g,
  awaited_if_coro f = true -> behaves_as g f -> stack_side l f ->
  same_as (stack_spec l g) (use_callee (stack_callee l f)).
Proof. exact stack_meets_spec. Qed.
Print Assumptions C18_stack_meets_spec.

(* transparent wrappers compose: any stack of decorators each of which is transparent on the calls P
   (transp_cond: nothing to ask of trace/timer/count_calls/deprecated/trace_if_returns/overrides; keyword calls for
   require_kwargs; no listed keyword for rename_kwargs; agreement for does_same_as_function) is transparent on P *)
Theorem C18_compose_any_stack : forall Sigma P (l : list (dname * ctx Sigma * base Sigma)) f g,
  awaited_if_coro f = true -> behaves_as g f -> stack_side l f ->
  Forall (fun lv => transp_cond P (fst (fst lv)) (snd (fst lv)) (snd lv) g) l ->
  same_as_on P g (use_callee (stack_callee l f)).
Proof. exact compose_any_stack. Qed.
Print Assumptions C18_compose_any_stack.

(* two decorators, both orders are instances: d1 applied to (d2 applied to f) *)
Theorem C18_compose_two : forall Sigma P n1 (cx1 : ctx Sigma) go1 n2 cx2 go2 f g,
  awaited_if_coro f = true -> behaves_as g f ->
  level_side n2 (with_callee cx2 f) go2 ->
  level_side n1 (with_callee cx1 (as_callee (deco_of n2) (with_callee cx2 f))) go1 ->
  transp_cond P n1 cx1 go1 g -> transp_cond P n2 cx2 go2 g ->
  same_as_on P g (use_stacked (deco_of n1) cx1 (deco_of n2) (with_callee cx2 f)).
Proof.
  intros Sigma P n1 cx1 go1 n2 cx2 go2 f g Hwu Hsim Hs2 Hs1 Ht1 Ht2.
  apply (compose_any_stack Sigma P [(n1, cx1, go1); (n2, cx2, go2)] f g Hwu Hsim).
  - cbn [stack_side stack_callee]. split; [split; [exact I | exact Hs2] | exact Hs1].
  - repeat constructor; assumption.
Qed.
Print Assumptions C18_compose_two.

(* "exactly one invocation, same arguments in, same result object out, same exception propagated": the journal
   reading of same_as.  The twin is an arbitrary function of (args, kwargs, invocation index) behind an arbitrary
   signature (`accepts`), the journal records every run of its body *)
Theorem C18_exactly_one_invocation : forall P (l : list (dname * ctx jst * base jst)) b accepts iscoro a k s,
  let f := beh_callee b accepts CFunc iscoro in
  stack_side l f ->
  Forall (fun lv => transp_cond P (fst (fst lv)) (snd (fst lv)) (snd lv) (jbase b accepts CFunc)) l ->
  P a k -> accepts CFunc a k = true ->
  let out := use_callee (stack_callee l f) a k s in
  cs (snd out) = cs s ++ [CallRec CFunc a k] /\
  fst out = match b CFunc a k (count_of CFunc (cs s)) with
            | Ok v => ROk v
            | Raise e => RExc e (XId (count_of CFunc (cs s)))
            end.
Proof.
  intros P l b accepts iscoro a k s f Hside HF HP Hacc out.
  assert (Hwu : awaited_if_coro f = true) by (unfold awaited_if_coro, f, beh_callee; destruct iscoro; reflexivity).
  destruct (compose_any_stack jst P l f (jbase b accepts CFunc) Hwu (beh_callee_behaves b accepts iscoro) Hside HF a k HP s)
    as [w E].
  subst out. rewrite E. unfold jbase. rewrite Hacc. cbn.
  destruct (b CFunc a k (count_of CFunc (cs s))); cbn; split; reflexivity.
Qed.
Print Assumptions C18_exactly_one_invocation.

(* ---- metadata: functools.wraps on every wrapper variant of every decorator ------------------------------------------ *)
Theorem C18_metadata_every_variant : forall name d v,
  In (name, d) all_decos -> In v (variants d) -> w_wraps v = true.
Proof. apply all_variants_wrap_In. vm_compute. reflexivity. Qed.
Print Assumptions C18_metadata_every_variant.

(* ... and what the decorator hands back is always the callable itself or a wrapper carrying its
   __name__/__qualname__/__doc__/__module__, for coroutine functions and plain functions alike *)
Theorem C18_metadata_selected : forall name d callee_is_coroutine,
  In (name, d) all_decos ->
  select d callee_is_coroutine <> ChBroken /\ attrs_of (select d callee_is_coroutine) = FromCallee.
Proof. apply all_selected_wrap_In. vm_compute. reflexivity. Qed.
Print Assumptions C18_metadata_selected.

(* the decorators named in the statement are all covered (pedantic, validate, in_subprocess, mock, unimplemented ...) *)
Theorem C18_metadata_covers_statement :
  forallb (fun n => match lookup_deco all_decos n with Some d => negb (Nat.eqb (List.length (variants d)) 0) | None => false end)
          wrapper_decorators = true /\
  (exists d, lookup_deco all_decos "overrides" = Some d /\ d_dispatch d = DispAlways VFunc).
Proof. split; [vm_compute; reflexivity | eexists; split; vm_compute; reflexivity]. Qed.
Print Assumptions C18_metadata_covers_statement.

(* the seven with a dedicated coroutine wrapper: both variants exist, both wrap, a coroutine function gets the
   async one and a plain function the sync one *)
Theorem C18_coroutine_kept : forall name, In name coroutine_wrapper_decorators ->
  exists d, lookup_deco all_decos name = Some d /\ has_two_wrapping_variants d = true /\ keeps_coro d = true.
Proof.
  intros name H. cbn in H.
  repeat (destruct H as [H|H]; [subst name; eexists; split; [vm_compute; reflexivity| split; vm_compute; reflexivity]|]).
  contradiction.
Qed.
Print Assumptions C18_coroutine_kept.

(* a decorated coroutine function is still awaited to the same result: instance of transparency with the twin an
   `async def` (c_iscoro = c_mode = true), for the decorators WITHOUT a coroutine wrapper as well *)
Theorem C18_coroutine_awaited_to_same_result : forall Sigma n (cx : ctx Sigma) g,
  In n [NTrace; NTimer; NCountCalls; NDeprecated; NTraceIfReturns; NOverrides] ->
  c_iscoro (cx_callee cx CFunc) = true -> c_mode (cx_callee cx CFunc) = true ->
  cx_warn_prog cx = raise_warning_prog ->
  behaves_as g (cx_callee cx CFunc) ->
  repr_harmless cx ->
  same_as g (use_wrapped (deco_of n) cx) /\
  c_iscoro (as_callee (deco_of n) cx) = keeps_coroutine n.
Proof.
  intros Sigma n cx g Hn Hi Hm Hp Hsim Hrepr. pose (go := g).
  assert (Hwu : awaited_if_coro (cx_callee cx CFunc) = true) by (unfold awaited_if_coro; now rewrite Hi, Hm).
  split.
  - assert (Hs : level_side n cx go).
    { pose proof (repr_harmless_name _ cx CFunc Hrepr) as Hnm.
      assert (Hw : fops_safe false (cx_warn_prog cx) = true) by (rewrite Hp; exact C18_warn_prog_never_raises).
      destruct n; cbn; auto; cbn in Hn; repeat (destruct Hn as [Hn|Hn]; [discriminate Hn|]); contradiction. }
    pose proof (behaves_use _ _ _ (level_meets_spec Sigma n cx go g Hwu Hsim Hs)) as H.
    cbn in Hn. repeat (destruct Hn as [Hn|Hn]; [subst n; exact H|]). contradiction.
  - rewrite as_callee_iscoro, Hi.
    cbn in Hn. repeat (destruct Hn as [Hn|Hn]; [subst n; reflexivity|]). contradiction.
Qed.
Print Assumptions C18_coroutine_awaited_to_same_result.

(* ---- exact own effects ---------------------------------------------------------------------------------------------- *)
(* count_calls: by induction on the call history, for every callee behaviour (returns, raises, anything): after n
   calls the num_calls of THIS wrapper object (cx_self) is n larger, and a freshly created wrapper starts at 0.  The
   callee is only asked not to write this wrapper's counter itself (an inner count_calls wrapper has its own) *)
Theorem C18_count_exact : forall Sigma (cx : ctx Sigma) calls s,
  let me := cx_self cx in
  name_readable cx CFunc ->           (* free for every named callable; a nameless one must have a harmless repr *)
  (forall c a k s, cnt_get me (ws_cnt (ws (snd (c_call (cx_callee cx c) a k s)))) = cnt_get me (ws_cnt (ws s))) ->
  (forall c a k s, cnt_get me (ws_cnt (ws (snd (c_resume (cx_callee cx c) a k s)))) = cnt_get me (ws_cnt (ws s))) ->
  cnt_get me (ws_cnt (ws (run_calls (use_wrapped d_count_calls cx) calls s)))
    = (cnt_get me (ws_cnt (ws s)) + Z.of_nat (List.length calls))%Z
  /\ d_counter_init d_count_calls = Some 0%Z.
Proof. intros. split; [now apply count_history | reflexivity]. Qed.
Print Assumptions C18_count_exact.

(* ... and a count_calls wrapper writes no other wrapper's counter *)
Theorem C18_count_only_own_counter : forall Sigma (cx : ctx Sigma) id a k s,
  name_readable cx CFunc -> id <> cx_self cx ->
  (forall c a k s, cnt_get id (ws_cnt (ws (snd (c_call (cx_callee cx c) a k s)))) = cnt_get id (ws_cnt (ws s))) ->
  (forall c a k s, cnt_get id (ws_cnt (ws (snd (c_resume (cx_callee cx c) a k s)))) = cnt_get id (ws_cnt (ws s))) ->
  cnt_get id (ws_cnt (ws (snd (use_wrapped d_count_calls cx a k s)))) = cnt_get id (ws_cnt (ws s)).
Proof. intros. now apply count_other_untouched. Qed.
Print Assumptions C18_count_only_own_counter.

(* mock never runs the body: the state (world and wrapper journal) is untouched, the caller gets return_value *)
Theorem C18_mock_never_calls : forall Sigma (cx : ctx Sigma) a k s,
  plain_function (cx_callee cx CFunc) = true ->
  use_wrapped d_mock cx a k s = (ROk (cx_param cx "return_value"%string), s).
Proof. exact mock_never_calls. Qed.
Print Assumptions C18_mock_never_calls.

Theorem C18_unimplemented_never_calls : forall Sigma (cx : ctx Sigma) a k s,
  name_readable cx CFunc ->
  use_wrapped d_unimplemented cx a k s = (RExc NotImplementedExceptionC (XFresh 4), s).
Proof. exact unimplemented_never_calls. Qed.
Print Assumptions C18_unimplemented_never_calls.

(* rename_kwargs: the callee is run once on the same positional arguments and on exactly the renamed keywords *)
Theorem C18_rename_exact : forall Sigma (cx : ctx Sigma) g,
  awaited_if_coro (cx_callee cx CFunc) = true -> behaves_as g (cx_callee cx CFunc) ->
  same_as (fun a k c => g a (dict_of_pairs (spec_renamed (cx_rename cx) k)) c) (use_wrapped d_rename_kwargs cx).
Proof. intros Sigma cx g Hwu Hsim. apply behaves_use. exact (meets_rename_kwargs Sigma cx g Hwu Hsim g). Qed.
Print Assumptions C18_rename_exact.

(* ... where the renamed keywords are: the same list with exactly the listed names replaced when no two names
   collide, and in general a dictionary in which every name holds the value of the last keyword renamed to it *)
Theorem C18_rename_dict : forall rules k,
  (keys_distinct (spec_renamed rules k) = true -> dict_of_pairs (spec_renamed rules k) = spec_renamed rules k) /\
  (forall n, assoc (dict_of_pairs (spec_renamed rules k)) n = assoc_last (spec_renamed rules k) n).
Proof. intros. split; [apply dict_of_pairs_distinct | apply assoc_dict_of_pairs]. Qed.
Print Assumptions C18_rename_dict.

(* overrides raises PedanticOverrideException at decoration iff the base class lacks the name; otherwise it hands
   back the function itself *)
Theorem C18_overrides_iff : forall enabled dir_of,
  (run_pre (d_pre d_overrides) enabled true dir_of = PreRaise POverrideC <-> dir_of "base_class"%string = false) /\
  (run_pre (d_pre d_overrides) enabled true dir_of = PreContinue <-> dir_of "base_class"%string = true) /\
  forall b, select d_overrides b = ChFunc.
Proof.
  intros. rewrite overrides_decoration. destruct (dir_of "base_class"%string); repeat split; intros; try reflexivity; try discriminate.
Qed.
Print Assumptions C18_overrides_iff.

(* does_same_as_function: both run once on the same arguments; AssertionError iff the two results differ *)
Theorem C18_does_same_iff_differ : forall Sigma (cx : ctx Sigma) g go a k s v c1 v2 c2,
  awaited_if_coro (cx_callee cx CFunc) = true -> behaves_as g (cx_callee cx CFunc) ->
  repr_harmless cx ->
  plain_function (cx_callee cx CFunc) = true -> sync_function (cx_callee cx COther) = true ->
  behaves_as go (cx_callee cx COther) ->
  g a k (cs s) = (ROk v, c1) -> go a k c1 = (ROk v2, c2) ->
  let out := use_wrapped d_does_same_as_function cx a k s in
  cs (snd out) = c2 /\
  (fst out = RExc AssertionErrorC (XFresh 4) <-> cx_vne cx v2 v = true) /\
  (fst out = ROk v <-> cx_vne cx v2 v = false).
Proof.
  intros Sigma cx g go a k s v c1 v2 c2 Hwu Hsim Hr Hp Hs Ho Eg Ego out. pose proof (repr_harmless_name _ cx CFunc Hr).
  assert (Hm : behaves_as (spec_apply NDoesSame cx go g) (as_callee d_does_same_as_function cx)) by (apply meets_does_same; assumption).
  destruct (behaves_use _ _ _ Hm a k s) as [w E].
  subst out. unfold use_wrapped. rewrite E. cbn [spec_apply]. unfold spec_does_same. rewrite Eg, Ego.
  destruct (cx_vne cx v2 v); cbn; repeat split; intros; try reflexivity; try discriminate.
Qed.
Print Assumptions C18_does_same_iff_differ.

(* the coroutine variant: both are plain coroutine functions, both are awaited.  The other function's coroutine objects
   are its own (behaves_as_other: VPending COther) *)
Theorem C18_does_same_async : forall Sigma (cx : ctx Sigma) g go,
  c_iscoro (cx_callee cx CFunc) = true -> c_mode (cx_callee cx CFunc) = true ->
  c_iscoro (cx_callee cx COther) = true -> c_mode (cx_callee cx COther) = true ->
  behaves_as g (cx_callee cx CFunc) -> behaves_as_other go (cx_callee cx COther) ->
  repr_harmless cx ->
  same_as (spec_does_same (cx_vne cx) g go) (use_wrapped d_does_same_as_function cx).
Proof.
  intros Sigma cx g go Hi Hm Hio Hmo Hsim Ho Hr.
  assert (Hwu : awaited_if_coro (cx_callee cx CFunc) = true) by (unfold awaited_if_coro; now rewrite Hi, Hm).
  apply behaves_use.
  pose proof (repr_harmless_name _ cx CFunc Hr). apply meets_does_same_async; try assumption.
  exact (call_awaited_other Sigma cx go Ho Hmo).
Qed.
Print Assumptions C18_does_same_async.

(* ... hence, for coroutine functions too: AssertionError iff the two awaited results differ *)
Theorem C18_does_same_async_iff_differ : forall Sigma (cx : ctx Sigma) g go a k s v c1 v2 c2,
  c_iscoro (cx_callee cx CFunc) = true -> c_mode (cx_callee cx CFunc) = true ->
  c_iscoro (cx_callee cx COther) = true -> c_mode (cx_callee cx COther) = true ->
  behaves_as g (cx_callee cx CFunc) -> behaves_as_other go (cx_callee cx COther) -> repr_harmless cx ->
  g a k (cs s) = (ROk v, c1) -> go a k c1 = (ROk v2, c2) ->
  let out := use_wrapped d_does_same_as_function cx a k s in
  cs (snd out) = c2 /\
  (fst out = RExc AssertionErrorC (XFresh 4) <-> cx_vne cx v2 v = true) /\
  (fst out = ROk v <-> cx_vne cx v2 v = false).
Proof.
  intros Sigma cx g go a k s v c1 v2 c2 Hi Hm Hio Hmo Hsim Ho Hr Eg Ego out.
  destruct (C18_does_same_async Sigma cx g go Hi Hm Hio Hmo Hsim Ho Hr a k s) as [w E].
  subst out. rewrite E. unfold spec_does_same. rewrite Eg, Ego.
  destruct (cx_vne cx v2 v); cbn; repeat split; intros; try reflexivity; try discriminate.
Qed.
Print Assumptions C18_does_same_async_iff_differ.

(* deprecated: exactly one DeprecationWarning per call, whatever the warning filter was before the call, for every
   callee behaviour and every history *)
Theorem C18_deprecated_one_warning : forall Sigma (cx : ctx Sigma) calls s,
  name_readable cx CFunc -> cx_warn_prog cx = raise_warning_prog ->
  (forall c a k s, n_deprecation (ws_log (ws (snd (c_call (cx_callee cx c) a k s)))) = n_deprecation (ws_log (ws s))) ->
  (forall c a k s, n_deprecation (ws_log (ws (snd (c_resume (cx_callee cx c) a k s)))) = n_deprecation (ws_log (ws s))) ->
  n_deprecation (ws_log (ws (run_calls (use_wrapped d_deprecated cx) calls s)))
  = (n_deprecation (ws_log (ws s)) + List.length calls)%nat.
Proof. intros. now apply deprecated_history. Qed.
Print Assumptions C18_deprecated_one_warning.

(* ---- trace_class / timer_class ---------------------------------------------------------------------------------------- *)
(* Full statement (FALSE on the model of the current source, see the three _refuted theorems):
     forall member kinds m and all accesses acc, calling `recv.attr( *a, **k )` on the decorated class is
     same_as calling it on the undecorated class.
   Proved for every (m, acc) with class_access_ok m acc = true, i.e. everything except a static method reached
   through an instance and a class method reached through an instance or through a subclass - and, as for trace
   itself, when repr is harmless.  For a class under trace_class `repr_harmless` is a condition on the CLASS: every
   method prints repr(self), so the class's __repr__ / __str__ must not call a member of the class (all are traced) and
   must not read state that __init__ has not set yet (the traced __init__ prints self first); see the two _refuted
   theorems C18_trace_class_repr_calls_member_refuted / _repr_reads_init_state_refuted (open finding C18-K13b).  That
   the __repr__ itself gets no wrapper (fix 80ba436, C18_trace_class_does_not_wrap_repr) does not discharge it. *)
Theorem C18_class_methods_partial : forall Sigma n (cx : ctx Sigma) fn g m acc self cls0 sub a o,
  (n = NTrace \/ n = NTimer) ->
  awaited_if_coro fn = true -> behaves_as g fn ->
  repr_harmless cx ->
  class_access_ok m acc = true -> orig_args m acc self cls0 sub a = Some o ->
  forall k, same_as_at (fun _ k c => g o k c) (class_call forall_cfg n cx fn m acc self cls0 sub) a k.
Proof. exact class_call_transparent. Qed.
Print Assumptions C18_class_methods_partial.

Definition ex_ws : wst := {| ws_log := []; ws_cnt := []; ws_filter := FaDefault; ws_warned := false |}.
Definition ex_s0 : st jst := Build_st [] ex_ws.
Definition ex_beh : beh := fun _ _ _ i => Ok (VObj (100 + i)).
Definition ex_accepts (arity : nat) : callee -> args -> kwargs -> bool := fun _ a _ => Nat.eqb (List.length a) arity.
(* def s(x) / def c(cls, x) *)
Definition ex_fn (arity : nat) : cdesc jst := beh_callee ex_beh (ex_accepts arity) CFunc false.
(* repr of every value succeeds and does nothing *)
Definition ex_repr : val -> st jst -> res * st jst := fun _ s => (ROk VOpaque, s).
Definition ex_cx_id (id : nat) (f : cdesc jst) : ctx jst :=
  Build_ctx (fun _ => f) (fun _ => VNone) [] (fun _ _ => false) (fun _ _ => true) (fun _ _ => None) raise_warning_prog id ex_repr.
Definition ex_cx := ex_cx_id 0.

(* obj.s(2) on a @trace_class class: TypeError, the undecorated class returns *)
Theorem C18_class_static_via_instance_refuted :
  exists m acc self cls0 sub a o, class_access_ok m acc = false /\ orig_args m acc self cls0 sub a = Some o /\
    fst (class_call forall_cfg NTrace (ex_cx (ex_fn 1)) (ex_fn 1) m acc self cls0 sub a [] ex_s0) = RExc TypeErrorC (XFresh 6) /\
    fst (use_callee (ex_fn 1) o [] ex_s0) = ROk (VObj 100).
Proof. exists MStatic, AInst, (VObj 1), (VCls 0), (VCls 1), [VObj 2], [VObj 2]. vm_compute. repeat split; reflexivity. Qed.
Print Assumptions C18_class_static_via_instance_refuted.

(* obj.c(3) on a @trace_class class: TypeError *)
Theorem C18_class_classmethod_via_instance_refuted :
  exists m acc self cls0 sub a o, class_access_ok m acc = false /\ orig_args m acc self cls0 sub a = Some o /\
    fst (class_call forall_cfg NTrace (ex_cx (ex_fn 2)) (ex_fn 2) m acc self cls0 sub a [] ex_s0) = RExc TypeErrorC (XFresh 6) /\
    fst (use_callee (ex_fn 2) o [] ex_s0) = ROk (VObj 100).
Proof. exists MClassM, AInst, (VObj 1), (VCls 0), (VCls 1), [VObj 3], [VCls 0; VObj 3]. vm_compute. repeat split; reflexivity. Qed.
Print Assumptions C18_class_classmethod_via_instance_refuted.

(* Sub().s(2) and Sub().c(3): the same through an instance of a subclass *)
Theorem C18_class_static_via_subclass_instance_refuted :
  exists m acc self cls0 sub a o, m = MStatic /\ acc = ASubInst /\ class_access_ok m acc = false /\
    orig_args m acc self cls0 sub a = Some o /\
    fst (class_call forall_cfg NTrace (ex_cx (ex_fn 1)) (ex_fn 1) m acc self cls0 sub a [] ex_s0) = RExc TypeErrorC (XFresh 6) /\
    fst (use_callee (ex_fn 1) o [] ex_s0) = ROk (VObj 100).
Proof. exists MStatic, ASubInst, (VObj 1), (VCls 0), (VCls 1), [VObj 2], [VObj 2]. vm_compute. repeat split; reflexivity. Qed.
Print Assumptions C18_class_static_via_subclass_instance_refuted.

Theorem C18_class_classmethod_via_subclass_instance_refuted :
  exists m acc self cls0 sub a o, m = MClassM /\ acc = ASubInst /\ class_access_ok m acc = false /\
    orig_args m acc self cls0 sub a = Some o /\
    fst (class_call forall_cfg NTrace (ex_cx (ex_fn 2)) (ex_fn 2) m acc self cls0 sub a [] ex_s0) = RExc TypeErrorC (XFresh 6) /\
    fst (use_callee (ex_fn 2) o [] ex_s0) = ROk (VObj 100).
Proof. exists MClassM, ASubInst, (VObj 1), (VCls 0), (VCls 1), [VObj 3], [VCls 1; VObj 3]. vm_compute. repeat split; reflexivity. Qed.
Print Assumptions C18_class_classmethod_via_subclass_instance_refuted.

(* the five excluded cells are exactly the refuted ones *)
Theorem C18_class_access_ok_exact : forall m acc,
  class_access_ok m acc = false <->
  In (m, acc) [(MStatic, AInst); (MStatic, ASubInst); (MClassM, AInst); (MClassM, ASubInst); (MClassM, ASubClass)].
Proof.
  intros m acc. split.
  - destruct m, acc; cbn; intros H; try discriminate H; tauto.
  - cbn. intros H. repeat (destruct H as [H|H]; [inversion H; reflexivity|]). contradiction.
Qed.
Print Assumptions C18_class_access_ok_exact.

(* Sub.c(3): the function receives the decorated class instead of Sub *)
Theorem C18_class_classmethod_frozen_cls_refuted :
  exists m acc self cls0 sub a o, class_access_ok m acc = false /\ orig_args m acc self cls0 sub a = Some o /\
    cs (snd (class_call forall_cfg NTrace (ex_cx (ex_fn 2)) (ex_fn 2) m acc self cls0 sub a [] ex_s0)) = [CallRec CFunc [cls0; VObj 3] []] /\
    cs (snd (use_callee (ex_fn 2) o [] ex_s0)) = [CallRec CFunc [sub; VObj 3] []] /\ cls0 <> sub.
Proof.
  exists MClassM, ASubClass, (VObj 1), (VCls 0), (VCls 1), [VObj 3], [VCls 1; VObj 3]. vm_compute.
  repeat split; try reflexivity. discriminate.
Qed.
Print Assumptions C18_class_classmethod_frozen_cls_refuted.

(* ---- require_kwargs on top of another wrapper of a method, applied by call ------------------------------------------------ *)
(* Full statement (FALSE on the current source, open known finding C18-K12): in every stack, every call that passes
   nothing positionally except the receiver goes through require_kwargs unchanged.
   Proved (C18_transparent_require_kwargs_keyword_call) for decoration with the @ syntax.  Refuted for
   K.m = require_kwargs(trace(K.m)): the source has no decorator line and getfullargspec of trace's wrapper shows no
   `self`, so the regenerated test counts the receiver (strip_of = 0, computed from Gen/Pedantic.v, not chosen here). *)
Definition shape_at (n_at : nat) (first_self : bool) : kw_shape :=
  {| ks_name := "m"; ks_first_self := first_self; ks_star_args := false; ks_staticmethod := false; ks_setter := false;
     ks_rk_text := true; ks_n_at := n_at |}.
Definition shape_by_call_over_wrapper : kw_shape :=
  {| ks_name := "m"; ks_first_self := false; ks_star_args := false; ks_staticmethod := false; ks_setter := false;
     ks_rk_text := false; ks_n_at := 0 |}.
Definition ex_cx_kw (s : kw_shape) (f : cdesc jst) : ctx jst :=
  Build_ctx (fun _ => f) (fun _ => VNone) [] (fun _ _ => false) (fun _ _ => true)
            (kw_test_of Gen.Pedantic.pedantic_cfg s) raise_warning_prog 1 ex_repr.

Theorem C18_require_kwargs_by_call_over_wrapped_method_refuted :
  exists self k,
    let m := ex_fn 1 in          (* def m(self, **kw) as far as binding goes *)
    strip_of Gen.Pedantic.pedantic_cfg shape_by_call_over_wrapper = 0%nat /\
    fst (use_stacked d_require_kwargs (ex_cx_kw shape_by_call_over_wrapper m) d_trace (ex_cx m) [self] k ex_s0)
      = RExc PCallWithArgsC (XFresh 1) /\
    fst (use_stacked d_require_kwargs (ex_cx_kw (shape_at 2 false) m) d_trace (ex_cx m) [self] k ex_s0) = ROk (VObj 100) /\
    fst (use_callee m [self] k ex_s0) = ROk (VObj 100).
Proof. exists (VObj 50), [("x"%string, VObj 5)]. vm_compute. repeat split; reflexivity. Qed.
Print Assumptions C18_require_kwargs_by_call_over_wrapped_method_refuted.

(* ---- messages: the text of the arguments, the name of the callable ------------------------------------------------------- *)
Definition ex_cx_repr (r : val -> st jst -> res * st jst) (f : cdesc jst) : ctx jst :=
  Build_ctx (fun _ => f) (fun _ => VNone) [] (fun _ _ => false) (fun _ _ => true) (fun _ _ => None) raise_warning_prog 0 r.
(* the object number n has a __repr__ that raises e *)
Definition bad_repr (n : nat) (e : exn) : val -> st jst -> res * st jst :=
  fun v s => match v with
             | VObj m => if Nat.eqb m n then (RExc e (XId (2000 + n)), s) else (ROk VOpaque, s)
             | _ => (ROk VOpaque, s)
             end.

(* @trace def f(x); f(obj) where repr(obj) raises: the caller gets that exception, the body never runs (K13) *)
Theorem C18_trace_argument_repr_raises_refuted :
  exists cx a,
    c_named (cx_callee cx CFunc) = true /\ awaited_if_coro (cx_callee cx CFunc) = true /\
    use_wrapped d_trace cx a [] ex_s0 = (RExc ValueErrorC (XId 2007), ex_s0) /\
    use_callee (cx_callee cx CFunc) a [] ex_s0 = (ROk (VObj 100), Build_st [CallRec CFunc a []] ex_ws).
Proof. exists (ex_cx_repr (bad_repr 7 ValueErrorC) (ex_fn 1)), [VObj 7]. vm_compute. repeat split; reflexivity. Qed.
Print Assumptions C18_trace_argument_repr_raises_refuted.

(* ... and when repr of the RESULT raises, the body has run and its result is lost *)
Theorem C18_trace_result_repr_raises_refuted :
  exists cx a,
    c_named (cx_callee cx CFunc) = true /\
    use_wrapped d_trace cx a [] ex_s0
      = (RExc ValueErrorC (XId 2100), Build_st [CallRec CFunc a []] {| ws_log := [EvPrint]; ws_cnt := []; ws_filter := FaDefault; ws_warned := false |}) /\
    fst (use_callee (cx_callee cx CFunc) a [] ex_s0) = ROk (VObj 100).
Proof. exists (ex_cx_repr (bad_repr 100 ValueErrorC) (ex_fn 1)), [VObj 7]. vm_compute. repeat split; reflexivity. Qed.
Print Assumptions C18_trace_result_repr_raises_refuted.

(* trace_class does not trace a class's own __repr__ / __str__ (fix 80ba436): the shortcut passes both names in `skip`,
   and for_all_methods does not touch a skipped attribute (the translator refuses any other shape of the loop).
   This is only a statement about WHICH attributes get a wrapper ... *)
Theorem C18_trace_class_does_not_wrap_repr :
  exists names, In ("trace_class"%string, names) class_skips /\ In "__repr__"%string names /\ In "__str__"%string names.
Proof. eexists. split; [vm_compute; auto 10|]. split; vm_compute; auto. Qed.
Print Assumptions C18_trace_class_does_not_wrap_repr.

(* ... it does NOT make repr(self) harmless (open finding C18-K13b).  Every other method of the class is traced and
   prints repr(self) before its body runs, so:
   (a) a __repr__ that calls a method of the class (def __repr__(self): return f'Q({self.name()})') re-enters a traced
       method, which formats its own `self`, i.e. calls __repr__ again.  `budget` is the interpreter's recursion limit;
       for EVERY budget the outcome is RecursionError, nothing is printed and no body ever runs (the same computation
       as a traced __repr__ before the fix); *)
Fixpoint repr_calling_traced_member (budget : nat) : val -> st jst -> res * st jst :=
  match budget with
  | O => fun _ s => (RExc RecursionErrorC (XFresh 8), s)
  | S b => fun v s => use_wrapped d_trace (ex_cx_repr (repr_calling_traced_member b) (ex_fn 1)) [v] [] s   (* self.name() *)
  end.

Lemma repr_calling_traced_member_recurses : forall budget v s,
  repr_calling_traced_member budget v s = (RExc RecursionErrorC (XFresh 8), s).
Proof.
  induction budget as [|b IH]; intros v s; [reflexivity|].
  cbn [repr_calling_traced_member]. unfold use_wrapped, use_callee, as_callee. cbn.
  unfold run_body. cbn. unfold after_fmt, fmt_item. cbn. rewrite IH. reflexivity.
Qed.

Theorem C18_trace_class_repr_calls_member_refuted : forall budget self s,
  (* Q().get(): get is traced, its message formats self *)
  use_wrapped d_trace (ex_cx_repr (repr_calling_traced_member budget) (ex_fn 1)) [self] [] s
    = (RExc RecursionErrorC (XFresh 8), s) /\
  fst (use_callee (ex_fn 1) [self] [] ex_s0) = ROk (VObj 100) /\
  ~ repr_harmless (ex_cx_repr (repr_calling_traced_member budget) (ex_fn 1)).
Proof.
  intros budget self s. split; [|split; [reflexivity|]].
  - unfold use_wrapped, use_callee, as_callee. cbn.
    unfold run_body. cbn. unfold after_fmt, fmt_item. cbn. rewrite repr_calling_traced_member_recurses. reflexivity.
  - intros H. destruct (H VNone ex_s0) as [r E]. cbn in E. rewrite repr_calling_traced_member_recurses in E. discriminate E.
Qed.
Print Assumptions C18_trace_class_repr_calls_member_refuted.

(* (b) a __repr__ that reads state set by __init__ (def __init__(self, x): self.x = x; def __repr__: f'Q4({self.x})'):
       the traced __init__ formats self BEFORE its body has set anything - Q4(1) raises AttributeError, the undecorated
       class constructs the object *)
Theorem C18_trace_class_repr_reads_init_state_refuted :
  exists self x,
    let cx := ex_cx_repr (bad_repr 50 AttributeErrorC) (ex_fn 2) in              (* def __init__(self, x) *)
    use_wrapped d_trace cx [self; x] [] ex_s0 = (RExc AttributeErrorC (XId 2050), ex_s0) /\
    fst (use_callee (ex_fn 2) [self; x] [] ex_s0) = ROk (VObj 100) /\ ~ repr_harmless cx.
Proof.
  exists (VObj 50), (VObj 1). cbn zeta. split; [vm_compute; reflexivity | split; [vm_compute; reflexivity|]].
  intros H. destruct (H (VObj 50) ex_s0) as [r E]. vm_compute in E. discriminate E.
Qed.
Print Assumptions C18_trace_class_repr_reads_init_state_refuted.

(* a callable without __name__ / __qualname__ (functools.partial(f), an instance with __call__): since fix ff26652 every
   wrapper that only MENTIONS the function in a message works on it (former finding C18-K14).  Two decorators are, by
   their own definition, about named function objects and stay outside: require_kwargs builds a DecoratedFunction, which
   accepts functions and methods only ("should be a method or function" - its own error message then needs
   __qualname__: AttributeError); overrides asks whether the base class has an attribute of the function's NAME *)
Definition nameless (f : cdesc jst) : cdesc jst :=
  {| c_named := false; c_iscoro := c_iscoro f; c_mode := c_mode f; c_call := c_call f; c_resume := c_resume f |}.

Example C18_example_nameless_callables :
  let p := nameless (ex_fn 1) in let cx := ex_cx p in let a := [VObj 1] in
  fst (use_callee p a [] ex_s0) = ROk (VObj 100) /\
  fst (use_wrapped d_trace cx a [] ex_s0) = ROk (VObj 100) /\
  fst (use_wrapped d_timer cx a [] ex_s0) = ROk (VObj 100) /\
  fst (use_wrapped d_count_calls cx a [] ex_s0) = ROk (VObj 100) /\
  fst (use_wrapped d_deprecated cx a [] ex_s0) = ROk (VObj 100) /\
  fst (use_wrapped d_trace_if_returns cx a [] ex_s0) = ROk (VObj 100) /\
  fst (use_wrapped d_unimplemented cx a [] ex_s0) = RExc NotImplementedExceptionC (XFresh 4) /\
  fst (use_wrapped d_mock cx a [] ex_s0) = ROk VNone /\ fst (use_wrapped d_rename_kwargs cx a [] ex_s0) = ROk (VObj 100) /\
  (* outside the domain of the two *)
  fst (use_wrapped d_require_kwargs cx [] [] ex_s0) = RExc AttributeErrorC (XFresh 7) /\
  run_pre (d_pre d_overrides) true false (fun _ => true) = PreRaise AttributeErrorC.
Proof. vm_compute. repeat split; reflexivity. Qed.

(* ... but a NAMELESS callable whose own repr raises (functools.partial(obj.m) where repr(obj) raises: the repr of a partial
   shows the receiver) still fails: the fallback of the name read is that repr (open finding C18-K13).  timer: after
   the body ran, the result is lost.  A NAMED callable with the very same repr - the bound method obj.m itself - is fine *)
Definition callable_repr_raises : val -> st jst -> res * st jst :=
  fun v s => match v with VCallable _ => (RExc ValueErrorC (XId 2999), s) | _ => (ROk VOpaque, s) end.

Theorem C18_nameless_callable_repr_raises_refuted :
  let a := [VObj 1] in
  let cxp := ex_cx_repr callable_repr_raises (nameless (ex_fn 1)) in       (* functools.partial(obj.m) *)
  let cxm := ex_cx_repr callable_repr_raises (ex_fn 1) in                  (* obj.m *)
  ~ name_readable cxp CFunc /\
  (fst (use_wrapped d_timer cxp a [] ex_s0) = RExc ValueErrorC (XId 2999) /\
   cs (snd (use_wrapped d_timer cxp a [] ex_s0)) = [CallRec CFunc a []]) /\
  fst (use_wrapped d_count_calls cxp a [] ex_s0) = RExc ValueErrorC (XId 2999) /\
  fst (use_wrapped d_deprecated cxp a [] ex_s0) = RExc ValueErrorC (XId 2999) /\
  fst (use_wrapped d_unimplemented cxp a [] ex_s0) = RExc ValueErrorC (XId 2999) /\
  fst (use_callee (nameless (ex_fn 1)) a [] ex_s0) = ROk (VObj 100) /\
  (* the bound method: never repr'd *)
  fst (use_wrapped d_timer cxm a [] ex_s0) = ROk (VObj 100) /\ fst (use_wrapped d_count_calls cxm a [] ex_s0) = ROk (VObj 100) /\
  fst (use_wrapped d_deprecated cxm a [] ex_s0) = ROk (VObj 100) /\
  fst (use_wrapped d_unimplemented cxm a [] ex_s0) = RExc NotImplementedExceptionC (XFresh 4).
Proof.
  cbn zeta. split.
  - intros [H|H]; [discriminate H|]. destruct (H ex_s0) as [r E]. discriminate E.
  - vm_compute. repeat split; reflexivity.
Qed.
Print Assumptions C18_nameless_callable_repr_raises_refuted.

(* ---- non-vacuity ------------------------------------------------------------------------------------------------------- *)
(* the hypotheses of the theorems above are satisfiable (by a def and by an async def), and the wrappers really run
   the callee *)
Example C18_example_hypotheses : forall iscoro,
  let f := beh_callee ex_beh (ex_accepts 1) CFunc iscoro in let cx := ex_cx f in
  awaited_if_coro (cx_callee cx CFunc) = true /\ plain_function (cx_callee cx CFunc) = true /\
  behaves_as (jbase ex_beh (ex_accepts 1) CFunc) (cx_callee cx CFunc) /\
  cx_warn_prog cx = raise_warning_prog /\
  (forall c a k s, ws_cnt (ws (snd (c_call (cx_callee cx c) a k s))) = ws_cnt (ws s)) /\
  (forall c a k s, ws_cnt (ws (snd (c_resume (cx_callee cx c) a k s))) = ws_cnt (ws s)).
Proof.
  intros iscoro. cbn zeta. repeat split; try (destruct iscoro; reflexivity).
  - apply beh_callee_behaves.
  - intros c a k [j w]. destruct iscoro; cbn; unfold run_beh, ex_accepts; cbn; destruct (Nat.eqb (List.length a) 1); reflexivity.
  - intros c a k [j w]. destruct iscoro; cbn; unfold run_beh, ex_accepts; cbn; try reflexivity.
    destruct (Nat.eqb (List.length a) 1); reflexivity.
Qed.

Example C18_example_runs :
  let cx := ex_cx (ex_fn 1) in
  use_stacked d_trace cx d_count_calls cx [VObj 7] [] ex_s0 =
    (ROk (VObj 100), Build_st [CallRec CFunc [VObj 7] []]
       {| ws_log := [EvPrint; EvCount 1; EvPrint; EvPrint]; ws_cnt := [(0%nat, 1%Z)]; ws_filter := FaDefault; ws_warned := false |}) /\
  fst (use_wrapped d_rename_kwargs
         (Build_ctx (fun _ => ex_fn 0) (fun _ => VNone) [("old", "new")]%string (fun _ _ => false) (fun _ _ => true)
                    (fun _ _ => None) raise_warning_prog 0 ex_repr) [] [("old"%string, VObj 5)] ex_s0) = ROk (VObj 100) /\
  n_deprecation (ws_log (ws (run_calls (use_wrapped d_deprecated cx) [([VObj 1], []); ([], []); ([VObj 2], [])] ex_s0))) = 3%nat /\
  (* the same through an async def: the sync wrapper of count_calls counts at call time, the body runs when awaited *)
  let cxa := ex_cx (beh_callee ex_beh (ex_accepts 1) CFunc true) in
  use_stacked d_trace cxa d_count_calls cxa [VObj 7] [] ex_s0 =
    (ROk (VObj 100), Build_st [CallRec CFunc [VObj 7] []]
       {| ws_log := [EvPrint; EvCount 1; EvPrint; EvPrint]; ws_cnt := [(0%nat, 1%Z)]; ws_filter := FaDefault; ws_warned := false |}).
Proof. vm_compute. repeat split; reflexivity. Qed.

(* two count_calls wrappers around one function are two objects with two counters: both count every call; a wrapper
   created after three calls of the inner one starts at 0 (decoration as an operation inside the history) *)
Example C18_example_count_stacked :
  let f := ex_fn 1 in
  let inner := ex_cx_id 0 f in
  let outer := ex_cx_id 1 (as_callee d_count_calls inner) in
  let calls := [([VObj 1], []); ([], []); ([VObj 2], [])] in
  let s3 := run_calls (use_wrapped d_count_calls inner) calls ex_s0 in
  ws_cnt (ws s3) = [(0%nat, 3%Z)] /\
  ws_cnt (ws (run_calls (use_wrapped d_count_calls outer) calls s3)) = [(0%nat, 6%Z); (1%nat, 3%Z)].
Proof. vm_compute. split; reflexivity. Qed.

(* the coroutine variant of does_same_as_function is not vacuous: two `async def`s whose hypotheses hold, one run in
   which both return equal objects (the caller gets the decorated function's object, both bodies ran once), one in
   which they differ (AssertionError, both bodies ran once) *)
Example C18_example_does_same_async :
  let f := beh_callee ex_beh (ex_accepts 1) CFunc true in
  let eq_other := beh_callee ex_beh (ex_accepts 1) COther true in                             (* returns VObj 100 as well *)
  let ne_other := beh_callee (fun _ _ _ i => Ok (VObj (200 + i))) (ex_accepts 1) COther true in
  let cx o := Build_ctx (fun c => match c with CFunc => f | COther => o end) (fun _ => VNone) []
                        (fun a b => match a, b with VObj n, VObj m => Nat.eqb n m | _, _ => false end)
                        (fun a b => match a, b with VObj n, VObj m => negb (Nat.eqb n m) | _, _ => true end)
                        (fun _ _ => None) raise_warning_prog 0 ex_repr in
  behaves_as (jbase ex_beh (ex_accepts 1) CFunc) f /\ behaves_as_other (jbase ex_beh (ex_accepts 1) COther) eq_other /\
  c_iscoro f = true /\ c_mode eq_other = true /\ repr_harmless (cx eq_other) /\
  use_wrapped d_does_same_as_function (cx eq_other) [VObj 1] [] ex_s0
    = (ROk (VObj 100), Build_st [CallRec CFunc [VObj 1] []; CallRec COther [VObj 1] []] ex_ws) /\
  use_wrapped d_does_same_as_function (cx ne_other) [VObj 1] [] ex_s0
    = (RExc AssertionErrorC (XFresh 4), Build_st [CallRec CFunc [VObj 1] []; CallRec COther [VObj 1] []] ex_ws).
Proof.
  cbn zeta. repeat split; try reflexivity.
  - apply beh_callee_behaves.
  - apply beh_callee_other_async.
  - intros v s. eexists. reflexivity.
Qed.
