(* C11 - frozen dataclass: immutability, copy_with / deep_copy_with, comparison as a tuple of fields.
   Property theorems only.  `P` is the decorator program regenerated from
   pedantic/decorators/cls_deco_frozen_dataclass.py on every run (Gen/Dataclass.v).  Objects live in a
   heap: "a new instance", "shares the field object", "shares no mutable object", "the original is
   unchanged" are statements about references and heap cells.  All theorems hold for every checker
   `check` (type_safe on or off), every class chain (field counts, defaults, default_factory, init=False,
   decorated / undecorated subclasses, every slots/order/kw_only choice), every heap and receiver,
   every set of replaced fields, every user-written __post_init__ (bodies that assign attributes of the new object with
   object.__setattr__, call super().__post_init__(), return or raise).  A field that such a hook assigns holds what the
   hook assigned - the statements about field values are for the other fields (`hook_set_names`). *)
From Coq Require Import List ZArith Bool Arith Lia.
From PV Require Import Base.Exn Model.Dataclass Spec.DataclassSpec Proofs.DataclassBase Proofs.DataclassRef
  Proofs.DataclassC10 Proofs.DataclassC11 Proofs.DataclassSucceeds Gen.Dataclass.
Import ListNotations.

Definition P : prog := Gen.Dataclass.dc_prog.

Theorem C11_prog_good : prog_good P = true.
Proof. vm_compute. reflexivity. Qed.
Print Assumptions C11_prog_good.

Definition defs := p_defaults P.
Lemma P_ref : P = ref_prog defs.
Proof. apply prog_good_eq, C11_prog_good. Qed.

(* ---------------------------------------------------------------- frozen *)
(* FULL STATEMENT (false, see C11_frozen_undecorated_subclass_refuted): for every class C with a @frozen_dataclass class
   in its MRO (nearest_deco C <> None: the instances of C are instances of that class), every name n and value v,
     rejected st (setattr P C r n v st) /\ rejected st (delattr P C r n st).
   Proved in the exact region where it holds (frozen_guard): the instance's own class is decorated, or the name is a
   field, or some class of the hierarchy was decorated with slots=True *)
Theorem C11_frozen_partial : forall C r n v st,
  frozen_guard P C n = true ->
  rejected st (setattr P C r n v st) /\ rejected st (delattr P C r n st).
Proof.
  rewrite P_ref. intros C r n v st Hg.
  assert (Hne : setattr_chain (ref_prog defs) true C n <> SAObject).
  { unfold frozen_guard in Hg. apply orb_true_iff in Hg as [Hg|Hg]; [apply orb_true_iff in Hg as [Hg|Hg]|].
    - destruct C as [|L rest]; [discriminate|]. rewrite (setattr_chain_decorated _ L rest n Hg).
      destruct (negb (eff_slots (ref_prog defs) L) || mem n (field_names (L :: rest))); discriminate.
    - rewrite (setattr_chain_field _ C n true Hg). discriminate.
    - now apply setattr_chain_slots. }
  unfold setattr, delattr.
  destruct (setattr_chain (ref_prog defs) true C n); [| |congruence];
    (split; (split; [reflexivity|eexists; reflexivity])).
Qed.
Print Assumptions C11_frozen_partial.

(* outside that region the statement is false: an instance of an UNDECORATED subclass of a @frozen_dataclass class
   (no slots anywhere) accepts the assignment of every name that is not a field - plain dataclasses behaviour:
   the generated __setattr__ only raises when `type(self) is cls or name in fields`.  General form and witness
   (class A: x; class B(A): pass; b = B(x=3); b.y = 0 is accepted, and del b.y afterwards).
   Replayed on the real code (finding C11-subclass-unfrozen) *)
Theorem C11_frozen_undecorated_subclass_refuted :
  (forall C r n v st o, C <> [] -> frozen_guard P C n = false -> nth_error (s_heap st) r = Some o ->
     exists st', setattr P C r n v st = (st', Ok tt) /\ getattr (s_heap st') r n = Some v) /\
  (let C := [mkLayer 2 None [] None; mkLayer 1 (Some (mkDeco false [])) [mkField 0 0 DNone true true] None] in
   let st := mkSt [mkObj (KData 2) [] [(0, VAtom 3)]] [] in
   nearest_deco C <> None /\ frozen_guard P C 77 = false /\
   exists st', setattr P C 0 77 (VAtom 0) st = (st', Ok tt) /\ getattr (s_heap st') 0 77 = Some (VAtom 0) /\
               snd (delattr P C 0 77 st') = Ok tt).
Proof.
  split.
  - rewrite P_ref. intros C r n v st o Hne Hg Ho. unfold frozen_guard in Hg.
    apply orb_false_iff in Hg as [Hg Hs]. apply orb_false_iff in Hg as [Hd Hm].
    destruct C as [|L rest]; [congruence|].
    assert (Hc : setattr_chain (ref_prog defs) true (L :: rest) n = SAObject).
    { simpl setattr_chain. rewrite Hd. simpl. apply setattr_chain_open.
      - eapply field_names_rest. eassumption.
      - simpl in Hs. now apply orb_false_iff in Hs as [_ Hs]. }
    assert (Hdict : has_dict (ref_prog defs) (L :: rest) = true) by (simpl; now rewrite Hd).
    unfold setattr. rewrite Hc, Hdict. simpl. eexists. split; [reflexivity|].
    cbn [s_heap]. unfold getattr. rewrite heap_upd_same, Ho. simpl. rewrite lookup_dict_set. now rewrite Nat.eqb_refl.
  - cbv zeta. split; [discriminate|]. split; [vm_compute; reflexivity|].
    eexists. split; [vm_compute; reflexivity|]. split; vm_compute; reflexivity.
Qed.
Print Assumptions C11_frozen_undecorated_subclass_refuted.

(* instances of a decorated class (any options, any bases): which exception.  FrozenInstanceError, except for a new
   name on a slots=True class, where CPython 3.12's generated __setattr__ fails with TypeError in its super() call
   (still rejected, state untouched) *)
Theorem C11_frozen_decorated_partial : forall L rest r n v st,
  decorated L = true ->
  let e := if negb (eff_slots P L) || mem n (field_names (L :: rest)) then FrozenInstanceErrorC else TypeErrorC in
  setattr P (L :: rest) r n v st = (st, Raise e) /\ delattr P (L :: rest) r n st = (st, Raise e) /\
  rejected st (setattr P (L :: rest) r n v st) /\ rejected st (delattr P (L :: rest) r n st).
Proof.
  rewrite P_ref. intros L rest r n v st HL e.
  assert (A : setattr (ref_prog defs) (L :: rest) r n v st = (st, Raise e) /\
              delattr (ref_prog defs) (L :: rest) r n st = (st, Raise e)).
  { unfold setattr, delattr. rewrite (setattr_chain_decorated _ L rest n HL). unfold e.
    destruct (negb (eff_slots (ref_prog defs) L) || mem n (field_names (L :: rest))); split; reflexivity. }
  destruct A as [A B]. rewrite A, B. repeat split; try reflexivity; exists e; reflexivity.
Qed.
Print Assumptions C11_frozen_decorated_partial.

(* for every class of the hierarchy, also subclasses that are not decorated themselves: fields can be
   neither assigned nor deleted *)
Theorem C11_frozen_fields : forall C r n v st,
  mem n (field_names C) = true ->
  setattr P C r n v st = (st, Raise FrozenInstanceErrorC) /\ delattr P C r n st = (st, Raise FrozenInstanceErrorC).
Proof.
  rewrite P_ref. intros C r n v st H. unfold setattr, delattr. rewrite (setattr_chain_field _ C n true H). split; reflexivity.
Qed.
Print Assumptions C11_frozen_fields.

(* ---------------------------------------------------------------- the original is unchanged *)
(* constructor, copy_with, deep_copy_with - whether they return or raise - only allocate: every heap
   cell that existed (the original, everything it refers to, every other object) is as before *)
Theorem C11_original_unchanged : forall check C p st,
  preserved (s_heap st) (s_heap (fst (run_path P check C p st))).
Proof.
  intros check C p st. destruct (run_path P check C p st) as [st' o] eqn:E.
  exact (grows_run_path P check C p st st' o E).
Qed.
Print Assumptions C11_original_unchanged.

(* ---------------------------------------------------------------- copy_with *)
(* FULL STATEMENT (false for init=False fields, see C11_copy_init_false_refuted): for EVERY field f of the
   class, getattr copy f = kw f where given, else the very object the original holds.
   Proved for every field that takes part in __init__ and that no user-written __post_init__ running for the class assigns
   (a hook that assigns a field decides its value itself: C11_hook_assigned_field_example).
   That copy_with RETURNS for every well-formed request is C11_copy_succeeds below. *)
Theorem C11_copy_fields_partial : forall check C r kw st st' r',
  copy_with P check C r kw st = (st', Ok r') ->
  (* a new object *)               List.length (s_heap st) <= r' /\
  (* of the same class *)          class_of (s_heap st') r' = Some (class_id C) /\
  (* fields: kw where given, the original's otherwise *)
  (forall f, In f (dc_fields C) -> f_init f = true -> ~ In (f_name f) (hook_set_names C) ->
     getattr (s_heap st') r' (f_name f) = expected_field kw (s_heap st) r (f_name f) /\
     getattr (s_heap st') r' (f_name f) <> None) /\
  (* only init fields can be replaced at all *)
  (forall n, lookup kw n <> None -> exists f, In f (dc_fields C) /\ f_init f = true /\ f_name f = n).
Proof.
  rewrite P_ref. intros check C r kw st st' r' H.
  destruct (copy_with_result _ check C r kw st st' r' H) as [_ [A [B [C0 [_ D]]]]]. repeat split; try assumption.
  - now apply C0.
  - now apply C0.
Qed.
Print Assumptions C11_copy_fields_partial.

(* shallow: an un-replaced field of the copy IS the original's object (same reference), whatever it is *)
Theorem C11_copy_shallow_shares_partial : forall check C r kw st st' r' f,
  copy_with P check C r kw st = (st', Ok r') ->
  In f (dc_fields C) -> f_init f = true -> ~ In (f_name f) (hook_set_names C) -> lookup kw (f_name f) = None ->
  getattr (s_heap st') r' (f_name f) = getattr (s_heap st) r (f_name f) /\
  getattr (s_heap st) r (f_name f) <> None.
Proof.
  intros check C r kw st st' r' f H Hf Hi Hnh Hk.
  destruct (C11_copy_fields_partial check C r kw st st' r' H) as [_ [_ [A _]]].
  destruct (A f Hf Hi Hnh) as [A1 A2]. unfold expected_field in A1. rewrite Hk in A1. split; [assumption|congruence].
Qed.
Print Assumptions C11_copy_shallow_shares_partial.

(* init=False fields are not copied by dataclasses.replace: both copy methods re-initialise them from the
   default (a default_factory produces a fresh object), they cannot be replaced *)
Theorem C11_init_false_reinitialised : forall check C r kw st st' r' f (deep : bool),
  (if deep then deep_copy_with P check C r kw st else copy_with P check C r kw st) = (st', Ok r') ->
  (deep = true -> r < List.length (s_heap st) /\ NoDup (map fst kw)) ->
  In f (dc_fields C) -> f_init f = false -> ~ In (f_name f) (hook_set_names C) ->
  lookup kw (f_name f) = None /\
  (forall v, f_default f = DVal v -> getattr (s_heap st') r' (f_name f) = Some v) /\
  (forall k, f_default f = DFactory k -> exists q, getattr (s_heap st') r' (f_name f) = Some (VRef q) /\
       List.length (s_heap st) <= q /\ nth_error (s_heap st') q = Some (mkObj k [] [])).
Proof.
  rewrite P_ref. intros check C r kw st st' r' f deep H Hd Hf Hi Hnh. destruct deep.
  - destruct (Hd eq_refl) as [Hr Hn].
    destruct (deep_copy_with_result _ check C r kw st st' r' H Hr Hn) as [_ [_ [_ [_ [A _]]]]].
    destruct (A f Hf Hi) as [A1 A2]. split; [assumption|]. now apply A2.
  - destruct (copy_with_result _ check C r kw st st' r' H) as [_ [_ [_ [_ [A _]]]]].
    destruct (A f Hf Hi) as [A1 A2]. split; [assumption|]. now apply A2.
Qed.
Print Assumptions C11_init_false_reinitialised.

(* hence the full statement fails for an init=False field with a default_factory: the copy holds a
   fresh empty object, neither shared with nor (once the original's was filled) equal to the original's.
   Witness: class with y = field(default_factory=list, init=False); original whose y holds one element.
   Replayed on the real code (finding C11-initfalse). *)
Definition w_cls : chain :=
  [mkLayer 0 (Some (mkDeco false [])) [mkField 0 0 DNone true true; mkField 1 1 (DFactory KList) false true] None].
Definition w_heap : heap := [mkObj KList [VAtom 5] []; mkObj (KData 0) [] [(0, VAtom 1); (1, VRef 0)]].
Definition no_check : bool -> heap -> ann -> value -> outcome unit := fun _ _ _ _ => Ok tt.
Theorem C11_copy_init_false_refuted :
  exists st' r', copy_with P no_check w_cls 1 [] (mkSt w_heap []) = (st', Ok r') /\
    getattr w_heap 1 1 = Some (VRef 0) /\ getattr (s_heap st') r' 1 = Some (VRef 2) /\
    nth_error (s_heap st') 0 = Some (mkObj KList [VAtom 5] []) /\ nth_error (s_heap st') 2 = Some (mkObj KList [] []).
Proof. eexists. eexists. repeat split; vm_compute; reflexivity. Qed.
Print Assumptions C11_copy_init_false_refuted.

(* ---------------------------------------------------------------- deep_copy_with *)
(* FULL STATEMENT (false for init=False fields whose default is a mutable object, see
   C11_deep_init_false_refuted): no mutable object is reachable both from a field of the copy that was not
   given in kw and from the original.  Proved for the fields that take part in __init__ and that no user-written
   __post_init__ assigns (that deep_copy_with RETURNS for every well-formed request is C11_copy_succeeds): *)
Theorem C11_deep_fields_partial : forall check C r kw st st' r',
  deep_copy_with P check C r kw st = (st', Ok r') ->
  r < List.length (s_heap st) -> NoDup (map fst kw) -> heap_wf (s_heap st) ->
  List.length (s_heap st) <= r' /\
  class_of (s_heap st') r' = Some (class_id C) /\
  (forall f, In f (dc_fields C) -> f_init f = true -> ~ In (f_name f) (hook_set_names C) ->
     match lookup kw (f_name f) with
     | Some v => getattr (s_heap st') r' (f_name f) = Some v
     | None => exists v v', getattr (s_heap st) r (f_name f) = Some v /\ getattr (s_heap st') r' (f_name f) = Some v' /\
         (* equal values *)  deep_equal (s_heap st) v (s_heap st') v' /\
         (* nothing mutable shared: whatever the copy's field reaches is an object that did not exist before,
            or lies behind an object whose class opts out of deep copying (__deepcopy__ returns self) *)
         (forall q, reach (s_heap st') v' q ->
            List.length (s_heap st) <= q \/
            exists q0, selfcopy (s_heap st) q0 = true /\ reach (s_heap st) v q0 /\ reach (s_heap st) (VRef q0) q)
     end) /\
  (forall n, lookup kw n <> None -> exists f, In f (dc_fields C) /\ f_init f = true /\ f_name f = n).
Proof.
  rewrite P_ref. intros check C r kw st st' r' H Hr Hn Hwf.
  destruct (deep_copy_with_result _ check C r kw st st' r' H Hr Hn) as [_ [A [B [C0 [_ D]]]]].
  split; [assumption|]. split; [assumption|]. split; [|assumption].
  intros f Hf Hi Hnh. specialize (C0 f Hf Hi Hnh). destruct (lookup kw (f_name f)); [assumption|].
  destruct C0 as [v [v' [G1 [G2 G3]]]]. exists v, v'. split; [assumption|]. split; [assumption|].
  assert (Hv : ref_ok (List.length (s_heap st)) v).
  { unfold getattr in G1. destruct (nth_error (s_heap st) r) as [o|] eqn:Eo; [|discriminate].
    apply (Hwf r o Eo). unfold children. apply in_or_app. right.
    apply lookup_some_in in G1. apply in_map_iff. now exists (f_name f, v). }
  split.
  - now apply deepcopy_equal.
  - intros q Hq. eapply deepcopy_reaches; eassumption.
Qed.
Print Assumptions C11_deep_fields_partial.

(* an init=False field whose default VALUE is a mutable object (dataclasses allows any hashable object) is
   re-initialised with that very object: deep_copy_with shares it with the original.
   Witness: class with u = field(default=<instance>, init=False).  Replayed on the real code (C11-initfalse). *)
Definition w_cls2 : chain :=
  [mkLayer 0 (Some (mkDeco false [])) [mkField 0 0 DNone true true; mkField 1 1 (DVal (VRef 0)) false true] None].
Definition w_heap2 : heap := [mkObj (KUser 0) [VAtom 7] []; mkObj (KData 0) [] [(0, VAtom 1); (1, VRef 0)]].
Theorem C11_deep_init_false_refuted :
  exists st' r', deep_copy_with P no_check w_cls2 1 [] (mkSt w_heap2 []) = (st', Ok r') /\
    getattr w_heap2 1 1 = Some (VRef 0) /\ getattr (s_heap st') r' 1 = Some (VRef 0) /\ selfcopy w_heap2 0 = false.
Proof. eexists. eexists. repeat split; vm_compute; reflexivity. Qed.
Print Assumptions C11_deep_init_false_refuted.

(* ---------------------------------------------------------------- same class *)
(* both copies are instances of the receiver's own class, also when that class is an undecorated subclass *)
Theorem C11_same_class : forall check C r kw st st' r' (deep : bool),
  (if deep then deep_copy_with P check C r kw st else copy_with P check C r kw st) = (st', Ok r') ->
  class_of (s_heap st') r' = Some (class_id C) /\ List.length (s_heap st) <= r'.
Proof.
  rewrite P_ref. intros check C r kw st st' r' deep H. destruct deep.
  - (* the class and freshness of the result do not depend on the side conditions of the field lemma *)
    destruct (grows_deep_copy_with _ check C r kw _ _ _ H) as [extT HT].
    unfold deep_copy_with in H. change (has_meth (ref_prog defs) MDeepCopyWith) with true in H. cbv iota in H.
    unfold bindM at 1 in H. destruct (deep_args (ref_prog defs) C r kw st) as [s1 [args|e]] eqn:Ea; [|discriminate].
    change (deep_ctor (ref_prog defs) C) with C in H.
    destruct (construct_result _ check _ _ _ _ _ _ H) as [attrs [attrs' [ext [_ [Hh [Hr' _]]]]]].
    destruct (grows_deep_args (ref_prog defs) C r kw _ _ _ Ea) as [e1 He1].
    split.
    + unfold class_of. rewrite Hh, Hr'. rewrite nth_error_app2, Nat.sub_diag by lia. reflexivity.
    + subst r'. rewrite app_length, He1, app_length. lia.
  - destruct (copy_with_result _ check C r kw st st' r' H) as [_ [A [B _]]]. split; assumption.
Qed.
Print Assumptions C11_same_class.

(* ---------------------------------------------------------------- the copy methods return *)
(* a well-formed request (every keyword names a field of __init__; the receiver holds a value for every field of
   __init__) is never refused by the binding machinery - dataclasses.replace / the constructor call of deep_copy_with
   build the new object on every class, with init=False fields, defaults, inheritance, slots ... - and it is RETURNED
   - always when the generated __init__ does not call __post_init__ (type_safe off along the whole MRO and no user hook),
   - otherwise iff __post_init__ (user hooks, then the type checks) accepts it: post_init_run, characterised in
     Props/C10.v; for a type-safe class without user hook: iff every field of the new object conforms *)
Theorem C11_copy_succeeds : forall check C D r kw st (deep : bool),
  nearest_deco C = Some D ->
  request_ok (dc_fields C) kw = true -> receiver_ok (dc_fields C) (s_heap st) r = true ->
  let p := if deep then ByDeep r kw else ByCopy r kw in
  let run := if deep then deep_copy_with P check C r kw st else copy_with P check C r kw st in
  exists st1 r1, path_candidate P C p st = (st1, Ok r1) /\
    (init_calls_pi P D = false -> run = (st1, Ok r1)) /\
    (init_calls_pi P D = true ->
       ((exists st', run = (st', Ok r1)) <-> snd (post_init_run defs check C p r1 (s_heap st1)) = Ok tt)) /\
    (validating P C = true -> user_of (resolve_pi P C) = None ->
       (forall b, In b (vis_list (resolve_pi P C) (path_via p) 0) ->
                  all_conform (check b) (s_heap st1) (dc_fields C) r1 = true) ->
       exists st', run = (st', Ok r1)).
Proof.
  rewrite P_ref. intros check C D r kw st deep HD Hreq Hrec p run.
  assert (Hrun : run = run_path (ref_prog defs) check C p st) by (unfold run, p; destruct deep; reflexivity).
  assert (Hp : path_request_ok (dc_fields C) p (s_heap st) = true)
    by (unfold p; destruct deep; simpl; now rewrite Hreq, Hrec).
  destruct (path_succeeds defs check C D p st HD Hp) as [st1 [r1 [Hc [Hq Hi]]]].
  exists st1, r1. rewrite Hrun. split; [assumption|]. split; [assumption|]. split; [intro X; now destruct (Hi X)|].
  intros Hv Hu Hall. unfold validating in Hv. rewrite HD in Hv. apply andb_true_iff in Hv as [Hinit Hn].
  destruct (Hi Hinit) as [Hiff _]. apply Hiff.
  rewrite post_init_wrapped. unfold hooks_run. rewrite (core_no_user _ (resolve_pi_wf defs C) Hn Hu). cbn [pi_spec snd].
  now apply validations_ok.
Qed.
Print Assumptions C11_copy_succeeds.

(* ---------------------------------------------------------------- __eq__, __hash__, ordering *)
(* whatever Python does with two tuples (tuple_cmp, tuple_hash arbitrary).  For EVERY class C with a @frozen_dataclass class
   in its MRO (nearest_deco C = Some D: decorated classes and their undecorated subclasses alike): for two instances of C,
   == is the comparison of the tuples of (compare) fields and hash is the hash of that tuple; against an instance of another
   class every comparison method returns NotImplemented *)
Theorem C11_eq_hash_tuple : forall R (tuple_cmp : cmpop -> heap -> list value -> list value -> outcome R)
    (tuple_hash : heap -> list value -> outcome R) C D h r1 r2 t1 t2,
  nearest_deco C = Some D ->
  fields_tuple h r1 (dc_fields C) = Some t1 -> fields_tuple h r2 (dc_fields C) = Some t2 ->
  (class_of h r2 = Some (class_id C) ->
     dc_cmp P R tuple_cmp OpEq C h r1 r2 = bind (tuple_cmp OpEq h t1 t2) (fun x => Ok (ViaTuple x))) /\
  (forall c2 op, class_of h r2 = Some c2 -> c2 <> class_id C -> dc_cmp P R tuple_cmp op C h r1 r2 = Ok NotImpl) /\
  dc_hash P R tuple_hash C h r1 = tuple_hash h t1.
Proof.
  rewrite P_ref. intros R tuple_cmp tuple_hash C D h r1 r2 t1 t2 HD H1 H2. split; [|split].
  - intro Hc. eapply dc_cmp_eq_gen; eassumption.
  - intros c2 op Hc Hne. eapply dc_cmp_other_class; eassumption.
  - eapply dc_hash_gen; eassumption.
Qed.
Print Assumptions C11_eq_hash_tuple.

(* FULL STATEMENT (false, see C11_inherited_order_refuted): for every class C with a class decorated with order=True in its
   MRO, < <= > >= on two instances of C are the comparisons of the tuples of the fields of C.
   Proved through the class that DEFINES the order methods (order_layer: the first class along the MRO decorated with
   order=True) under the exact guard that it has the fields of C - in particular whenever the instance's own class, or the
   nearest decorated class of an undecorated subclass, is the one decorated with order=True *)
Theorem C11_order_tuple_partial : forall R (tuple_cmp : cmpop -> heap -> list value -> list value -> outcome R) C D' h r1 r2 t1 t2 op,
  order_layer P C = Some D' -> dc_fields D' = dc_fields C -> op <> OpEq ->
  class_of h r2 = Some (class_id C) ->
  fields_tuple h r1 (dc_fields C) = Some t1 -> fields_tuple h r2 (dc_fields C) = Some t2 ->
  dc_cmp P R tuple_cmp op C h r1 r2 = bind (tuple_cmp op h t1 t2) (fun x => Ok (ViaTuple x)).
Proof. rewrite P_ref. intros. eapply dc_cmp_order_gen; eassumption. Qed.
Print Assumptions C11_order_tuple_partial.

(* the guard holds when the class itself is decorated with order=True, and for undecorated subclasses of such a class *)
Theorem C11_order_guard_classes : forall L rest,
  (decorated L = true -> eff_order P L = true ->
     order_layer P (L :: rest) = Some (L :: rest) /\ dc_fields (L :: rest) = dc_fields (L :: rest)) /\
  (decorated L = false -> forall D', order_layer P rest = Some D' -> dc_fields D' = dc_fields rest ->
     order_layer P (L :: rest) = Some D' /\ dc_fields D' = dc_fields (L :: rest)).
Proof.
  intros L rest. split.
  - intros HL Ho. simpl. now rewrite HL, Ho.
  - intros HL D' Ho Hf. simpl. rewrite HL. simpl. now split.
Qed.
Print Assumptions C11_order_guard_classes.

(* outside the guard the statement is false: a subclass decorated WITHOUT order=True that adds a field inherits the order
   methods of its order=True parent, which compare the parent's fields only.
   @frozen_dataclass(order=True) class A: x: int;  @frozen_dataclass class OC(A): z: int = 0
   a = OC(x=1, z=5), b = OC(x=1, z=9):  a < b compares (1,) with (1,) although the tuples of fields are (1, 5) and (1, 9)
   (so a < b is False, a <= b and b <= a are True, a == b is False).  Replayed on the real code (finding C11-inherited-order) *)
Definition io_A : layer := mkLayer 1 (Some (mkDeco false [(POrder, true)])) [mkField 0 0 DNone true true] None.
Definition io_OC : layer := mkLayer 2 (Some (mkDeco false [])) [mkField 1 1 (DVal (VAtom 0)) true true] None.
Definition io_heap : heap := [mkObj (KData 2) [] [(0, VAtom 1); (1, VAtom 5)]; mkObj (KData 2) [] [(0, VAtom 1); (1, VAtom 9)]].
Theorem C11_inherited_order_refuted :
  let C := [io_OC; io_A] in let pair := fun (_ : cmpop) (_ : heap) a b => Ok (a, b) in
  order_layer P C = Some [io_A] /\ eff_order P io_OC = false /\
  fields_tuple io_heap 0 (dc_fields C) = Some [VAtom 1; VAtom 5] /\
  fields_tuple io_heap 1 (dc_fields C) = Some [VAtom 1; VAtom 9] /\
  (forall op, op <> OpEq ->
     dc_cmp P (list value * list value) pair op C io_heap 0 1 = Ok (ViaTuple ([VAtom 1], [VAtom 1]))) /\
  dc_cmp P (list value * list value) pair OpEq C io_heap 0 1 = Ok (ViaTuple ([VAtom 1; VAtom 5], [VAtom 1; VAtom 9])).
Proof.
  cbv zeta. repeat split; try (vm_compute; reflexivity).
  intros [] H; try (vm_compute; reflexivity). congruence.
Qed.
Print Assumptions C11_inherited_order_refuted.

(* ---- non-vacuity: a slots class with a list field and an init=False field, an undecorated subclass;
   the hypotheses of the theorems hold and the operations really succeed *)
Definition ex_parent : layer :=
  mkLayer 1 (Some (mkDeco false [(PSlots, true); (POrder, true)]))
          [mkField 0 0 DNone true true; mkField 1 1 (DFactory KList) true true; mkField 2 2 (DVal (VAtom 4)) false true] None.
Definition ex_child : layer := mkLayer 2 None [] None.
Definition ex_heap : heap :=
  [mkObj KList [VAtom 1; VRef 1] []; mkObj (KUser 0) [VAtom 9] [];
   mkObj (KData 2) [] [(0, VAtom 3); (1, VRef 0); (2, VAtom 4)]].
Example C11_example :
  let C := [ex_child; ex_parent] in let st := mkSt ex_heap [] in
  heap_wfb ex_heap = true /\ decorated ex_parent = true /\ eff_slots P ex_parent = true /\ eff_order P ex_parent = true /\
  snd (copy_with P no_check C 2 [(0, VAtom 8)] st) = Ok 3 /\
  getattr (s_heap (fst (copy_with P no_check C 2 [(0, VAtom 8)] st))) 3 1 = Some (VRef 0) /\
  snd (deep_copy_with P no_check C 2 [(0, VAtom 8)] st) = Ok 12 /\
  getattr (s_heap (fst (deep_copy_with P no_check C 2 [(0, VAtom 8)] st))) 12 1 = Some (VRef 6) /\
  class_of (s_heap (fst (deep_copy_with P no_check C 2 [(0, VAtom 8)] st))) 12 = Some 2 /\
  snd (setattr P [ex_parent] 2 0 (VAtom 0) st) = Raise FrozenInstanceErrorC /\
  snd (setattr P [ex_parent] 2 77 (VAtom 0) st) = Raise TypeErrorC /\
  snd (setattr P C 2 1 (VAtom 0) st) = Raise FrozenInstanceErrorC /\
  fields_tuple ex_heap 2 (dc_fields C) = Some [VAtom 3; VRef 0; VAtom 4].
Proof. cbv zeta. repeat split; vm_compute; reflexivity. Qed.

(* the hypotheses of C11_copy_succeeds hold on the example classes, with init=False field and slots, on both methods *)
Example C11_copy_succeeds_example :
  let C := [ex_child; ex_parent] in
  nearest_deco C = Some [ex_parent] /\ init_calls_pi P [ex_parent] = false /\
  request_ok (dc_fields C) [(0, VAtom 8)] = true /\ receiver_ok (dc_fields C) ex_heap 2 = true /\
  frozen_guard P C 77 = true /\ frozen_guard P [ex_parent] 77 = true.
Proof. cbv zeta. repeat split; vm_compute; reflexivity. Qed.

(* the boundary of the field statements: a field that a user-written __post_init__ assigns holds what the hook assigned,
   whatever copy_with was given (class with def __post_init__(self): object.__setattr__(self, 'f0', <atom 4>)) *)
Example C11_hook_assigned_field_example :
  let C := [mkLayer 0 (Some (mkDeco false [])) [mkField 0 0 DNone true true; mkField 1 1 DNone true true]
                    (Some (mkPib [PSet 0 (VAtom 4)] None))] in
  let st := mkSt [mkObj (KData 0) [] [(0, VAtom 4); (1, VAtom 1)]] [] in
  hook_set_names C = [0] /\
  snd (copy_with P no_check C 0 [(0, VAtom 7); (1, VAtom 2)] st) = Ok 1 /\
  getattr (s_heap (fst (copy_with P no_check C 0 [(0, VAtom 7); (1, VAtom 2)] st))) 1 0 = Some (VAtom 4) /\
  getattr (s_heap (fst (copy_with P no_check C 0 [(0, VAtom 7); (1, VAtom 2)] st))) 1 1 = Some (VAtom 2).
Proof. cbv zeta. repeat split; vm_compute; reflexivity. Qed.
