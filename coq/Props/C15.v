(* C15 - retry: bounded attempts, first success wins, foreign exceptions are not retried.
   Property theorems only.  `Gen.Retry.retry_cfg` is regenerated from
   pedantic/decorators/fn_deco_retry.py on every run; `retry_run` interprets it.         *)
From Coq Require Import List ZArith Bool Lia.
From PV Require Import Base.Exn Model.RetrySem Spec.RetrySpec Proofs.RetryProofs Gen.Retry.
Import ListNotations.

Definition run attempts listed outs := retry_run Gen.Retry.retry_cfg attempts listed outs.

(* translation obligation: the regenerated loop is a member of the family proved correct *)
Theorem C15_cfg_good : cfg_good Gen.Retry.retry_cfg = true.
Proof. vm_compute. reflexivity. Qed.
Print Assumptions C15_cfg_good.

Theorem C15_wrapper_delegates :
  Gen.Retry.retry_wrapper_delegates = true /\ Gen.Retry.retry_wrapper_has_wraps = true.
Proof. split; reflexivity. Qed.
Print Assumptions C15_wrapper_delegates.

(* for all attempts : Z, all `exceptions`, all outcome streams: number of invocations *)
Theorem C15_invocations : forall attempts listed outs k,
  first_stop listed outs k ->
  n_calls (snd (run attempts listed outs)) = spec_calls attempts k.
Proof.
  intros. unfold run. rewrite (calls_good _ C15_cfg_good). now apply last_idx_first.
Qed.
Print Assumptions C15_invocations.

Theorem C15_invocations_all_listed : forall attempts listed outs,
  never_stops listed outs ->
  n_calls (snd (run attempts listed outs)) = spec_calls_never attempts.
Proof.
  intros. unfold run. rewrite (calls_good _ C15_cfg_good). now apply last_idx_never.
Qed.
Print Assumptions C15_invocations_all_listed.

(* the caller sees exactly the object produced by the last invocation *)
Theorem C15_last_outcome_is_result : forall attempts listed outs,
  fst (run attempts listed outs) = RFrom (n_calls (snd (run attempts listed outs)) - 1).
Proof.
  intros. unfold run. rewrite (calls_good _ C15_cfg_good).
  destruct (run_good _ C15_cfg_good attempts listed outs) as [H _]. rewrite H. f_equal. lia.
Qed.
Print Assumptions C15_last_outcome_is_result.

(* every attempt gets the caller's arguments unchanged; waiting only between attempts;
   nothing else observable happens (logging aside) *)
Theorem C15_trace_exact : forall attempts listed outs,
  filter not_log (snd (run attempts listed outs)) =
  spec_trace (n_calls (snd (run attempts listed outs))).
Proof.
  intros. unfold run. rewrite (calls_good _ C15_cfg_good).
  now destruct (run_good _ C15_cfg_good attempts listed outs) as [_ H].
Qed.
Print Assumptions C15_trace_exact.

Theorem C15_sleeps_between_only : forall attempts listed outs,
  n_sleeps (snd (run attempts listed outs)) = (n_calls (snd (run attempts listed outs)) - 1)%nat.
Proof.
  intros. rewrite <- (n_sleeps_filter (snd (run attempts listed outs))), C15_trace_exact.
  destruct (n_calls (snd (run attempts listed outs))) as [|m]; [reflexivity|].
  cbn [spec_trace]. unfold n_sleeps. cbn. fold (n_sleeps (spec_trace_tail m)).
  rewrite n_sleeps_spec_trace_tail. lia.
Qed.
Print Assumptions C15_sleeps_between_only.

(* an exception that is not an Exception (KeyboardInterrupt, SystemExit ...) is never retried
   when `exceptions` only lists Exception classes, as its type demands *)
Theorem C15_baseexception_not_retried : forall attempts listed outs e,
  (forall x, listed x = true -> is_exception x = true) ->
  outs 0%nat = ORaise e -> is_exception e = false ->
  n_calls (snd (run attempts listed outs)) = 1%nat /\ fst (run attempts listed outs) = RFrom 0.
Proof.
  intros attempts listed outs e Hl H0 He.
  assert (Hs : first_stop listed outs 0).
  { split; [|intros; lia]. unfold stops. rewrite H0.
    destruct (listed e) eqn:E; [|reflexivity]. apply Hl in E. congruence. }
  rewrite C15_last_outcome_is_result, (C15_invocations _ _ _ _ Hs). unfold spec_calls.
  split; [lia|]. f_equal. lia.
Qed.
Print Assumptions C15_baseexception_not_retried.

(* the executable oracle evaluated by the correspondence check is the proved count *)
Theorem C15_oracle_agrees : forall attempts listed outs,
  n_calls (snd (run attempts listed outs)) = spec_calls_exec attempts listed outs.
Proof.
  intros. unfold run. rewrite (calls_good _ C15_cfg_good). now apply last_idx_exec.
Qed.
Print Assumptions C15_oracle_agrees.

(* non-vacuity: a concrete stream meets the hypotheses and the loop really iterates *)
Example C15_example :
  let outs := fun i : nat => match i with 0%nat | 1%nat => ORaise ValueErrorC | 2%nat => ORet | _ => ORaise TypeErrorC end in
  let listed := fun e => derives e ValueErrorC in
  first_stop listed outs 2 /\
  n_calls (snd (run 5%Z listed outs)) = 3%nat /\ n_calls (snd (run 2%Z listed outs)) = 2%nat /\
  n_calls (snd (run 0%Z listed outs)) = 1%nat /\ n_calls (snd (run (-3)%Z listed outs)) = 1%nat.
Proof.
  cbn zeta. split; [split; [reflexivity|]|].
  - intros j Hj. destruct j as [|[|j]]; [reflexivity|reflexivity|lia].
  - repeat split; vm_compute; reflexivity.
Qed.
