(* C15 - retry: bounded attempts, first success wins, foreign exceptions are not retried.
   Property theorems only.  `Gen.Retry.retry_cfg` is regenerated from
   pedantic/decorators/fn_deco_retry.py on every run; `retry_run` interprets it.         *)
From Coq Require Import List ZArith Bool Lia.
From PV Require Import Base.Exn Model.RetrySem Model.RetryGroups Spec.RetrySpec Proofs.RetryProofs Gen.Retry.
Import ListNotations.

Definition run attempts listed outs := retry_run Gen.Retry.retry_cfg attempts listed outs.

(* translation obligation: the regenerated loop is a member of the family proved correct *)
Theorem C15_cfg_good : cfg_good Gen.Retry.retry_cfg = true.
Proof. vm_compute. reflexivity. Qed.
Print Assumptions C15_cfg_good.

Theorem C15_wrapper_delegates :
  Gen.Retry.retry_wrapper_delegates = true /\ Gen.Retry.retry_wrapper_has_wraps = true.
Proof. split; reflexivity. Qed.
Print Assumptions C15_wrapper_delegates.

(* for all attempts : Z, all `exceptions`, all outcome streams: number of invocations *)
Theorem C15_invocations : forall attempts listed outs k,
  first_stop listed outs k ->
  n_calls (snd (run attempts listed outs)) = spec_calls attempts k.
Proof.
  intros. unfold run. rewrite (calls_good _ C15_cfg_good). now apply last_idx_first.
Qed.
Print Assumptions C15_invocations.

Theorem C15_invocations_all_listed : forall attempts listed outs,
  never_stops listed outs ->
  n_calls (snd (run attempts listed outs)) = spec_calls_never attempts.
Proof.
  intros. unfold run. rewrite (calls_good _ C15_cfg_good). now apply last_idx_never.
Qed.
Print Assumptions C15_invocations_all_listed.

(* the caller sees exactly the object produced by the last invocation *)
Theorem C15_last_outcome_is_result : forall attempts listed outs,
  fst (run attempts listed outs) = RFrom (n_calls (snd (run attempts listed outs)) - 1).
Proof.
  intros. unfold run. rewrite (calls_good _ C15_cfg_good).
  destruct (run_good _ C15_cfg_good attempts listed outs) as [H _]. rewrite H. f_equal. lia.
Qed.
Print Assumptions C15_last_outcome_is_result.

(* every attempt gets the caller's arguments unchanged; waiting only between attempts;
   nothing else observable happens (logging aside) *)
Theorem C15_trace_exact : forall attempts listed outs,
  filter not_log (snd (run attempts listed outs)) =
  spec_trace (n_calls (snd (run attempts listed outs))).
Proof.
  intros. unfold run. rewrite (calls_good _ C15_cfg_good).
  now destruct (run_good _ C15_cfg_good attempts listed outs) as [_ H].
Qed.
Print Assumptions C15_trace_exact.

Theorem C15_sleeps_between_only : forall attempts listed outs,
  n_sleeps (snd (run attempts listed outs)) = (n_calls (snd (run attempts listed outs)) - 1)%nat.
Proof.
  intros. rewrite <- (n_sleeps_filter (snd (run attempts listed outs))), C15_trace_exact.
  destruct (n_calls (snd (run attempts listed outs))) as [|m]; [reflexivity|].
  cbn [spec_trace]. unfold n_sleeps. cbn. fold (n_sleeps (spec_trace_tail m)).
  rewrite n_sleeps_spec_trace_tail. lia.
Qed.
Print Assumptions C15_sleeps_between_only.

(* an exception that is not an Exception (KeyboardInterrupt, SystemExit ...) is never retried
   when `exceptions` only lists Exception classes, as its type demands *)
Theorem C15_baseexception_not_retried : forall attempts listed outs e,
  (forall x, listed x = true -> is_exception x = true) ->
  outs 0%nat = ORaise e -> is_exception e = false ->
  n_calls (snd (run attempts listed outs)) = 1%nat /\ fst (run attempts listed outs) = RFrom 0.
Proof.
  intros attempts listed outs e Hl H0 He.
  assert (Hs : first_stop listed outs 0).
  { split; [|intros; lia]. unfold stops. rewrite H0.
    destruct (listed e) eqn:E; [|reflexivity]. apply Hl in E. congruence. }
  rewrite C15_last_outcome_is_result, (C15_invocations _ _ _ _ Hs). unfold spec_calls.
  split; [lia|]. f_equal. lia.
Qed.
Print Assumptions C15_baseexception_not_retried.

(* the executable oracle evaluated by the correspondence check is the proved count *)
Theorem C15_oracle_agrees : forall attempts listed outs,
  n_calls (snd (run attempts listed outs)) = spec_calls_exec attempts listed outs.
Proof.
  intros. unfold run. rewrite (calls_good _ C15_cfg_good). now apply last_idx_exec.
Qed.
Print Assumptions C15_oracle_agrees.

(* non-vacuity: a concrete stream meets the hypotheses and the loop really iterates *)
Example C15_example :
  let outs := fun i : nat => match i with 0%nat | 1%nat => ORaise ValueErrorC | 2%nat => ORet | _ => ORaise TypeErrorC end in
  let listed := fun e => derives e ValueErrorC in
  first_stop listed outs 2 /\
  n_calls (snd (run 5%Z listed outs)) = 3%nat /\ n_calls (snd (run 2%Z listed outs)) = 2%nat /\
  n_calls (snd (run 0%Z listed outs)) = 1%nat /\ n_calls (snd (run (-3)%Z listed outs)) = 1%nat.
Proof.
  cbn zeta. split; [split; [reflexivity|]|].
  - intros j Hj. destruct j as [|[|j]]; [reflexivity|reflexivity|lia].
  - repeat split; vm_compute; reflexivity.
Qed.

(* ---- exception groups --------------------------------------------------------------------
   Outcome streams over exception OBJECTS (Model/RetryGroups.v): plain instances and exception
   groups carrying leaves / nested groups.  The loop selects by the class of the raised object
   (`except exceptions:` is isinstance), so a group is listed iff its own class is.              *)
Definition run_x attempts listed (xouts : nat -> xoc) := run attempts listed (fun i => oc_of (xouts i)).

Theorem C15_groups_invocations : forall attempts listed xouts k,
  first_stop_x listed xouts k ->
  n_calls (snd (run_x attempts listed xouts)) = spec_calls attempts k.
Proof. intros. unfold run_x. apply C15_invocations. now apply first_stop_proj. Qed.
Print Assumptions C15_groups_invocations.

Theorem C15_groups_invocations_all_listed : forall attempts listed xouts,
  never_stops_x listed xouts ->
  n_calls (snd (run_x attempts listed xouts)) = spec_calls_never attempts.
Proof. intros. unfold run_x. apply C15_invocations_all_listed. now apply never_stops_proj. Qed.
Print Assumptions C15_groups_invocations_all_listed.

(* a group whose own class is not listed ends the retrying at its position - for ALL members, in
   particular when every leaf it carries is listed - and the caller receives that very object *)
Theorem C15_foreign_group_ends_retrying : forall attempts listed xouts i c members,
  (forall j, (j < i)%nat -> stops_x listed (xouts j) = false) ->
  xouts i = XRaise (XGroup c members) -> listed c = false ->
  n_calls (snd (run_x attempts listed xouts)) = spec_calls attempts i /\
  ((Z.of_nat i < Z.max attempts 1)%Z -> fst (run_x attempts listed xouts) = RFrom i).
Proof.
  intros attempts listed xouts i c members Hb Hi Hc.
  assert (Hs : first_stop_x listed xouts i).
  { split; [|exact Hb]. rewrite Hi. cbn. now rewrite Hc. }
  pose proof (C15_groups_invocations attempts listed xouts i Hs) as Hn.
  split; [exact Hn|]. intro Hlt. unfold run_x in *.
  rewrite C15_last_outcome_is_result, Hn. unfold spec_calls. f_equal. lia.
Qed.
Print Assumptions C15_foreign_group_ends_retrying.

(* a group whose own class IS listed is retried like any listed exception, whatever it carries *)
Theorem C15_listed_group_is_retried : forall attempts listed xouts c members,
  xouts 0%nat = XRaise (XGroup c members) -> listed c = true -> (2 <= attempts)%Z ->
  (2 <= n_calls (snd (run_x attempts listed xouts)))%nat.
Proof.
  intros attempts listed xouts c members H0 Hc Ha. unfold run_x.
  rewrite C15_oracle_agrees. unfold spec_calls_exec.
  replace (Z.to_nat (Z.max attempts 1)) with (S (Z.to_nat (attempts - 1))) by lia.
  cbn [find_stop]. rewrite H0. cbn [oc_of xcls stops]. rewrite Hc. cbn [negb].
  destruct (find_stop listed _ (Z.to_nat (attempts - 1)) 1) as [k|] eqn:E.
  - apply find_stop_ge in E. lia.
  - lia.
Qed.
Print Assumptions C15_listed_group_is_retried.

(* what the groups of a stream carry has no influence at all: two streams whose objects have the same
   outcomes agree position by position in kind and in the class of the raised object give the same run (result index and trace) *)
Theorem C15_group_members_irrelevant : forall attempts listed xo1 xo2,
  (forall i, oc_of (xo1 i) = oc_of (xo2 i)) ->
  run_x attempts listed xo1 = run_x attempts listed xo2.
Proof.
  intros attempts listed xo1 xo2 H. unfold run_x, run. apply retry_run_ext.
  exact H.
Qed.
Print Assumptions C15_group_members_irrelevant.

(* the object-level oracle evaluated by the correspondence check is the proved count *)
Theorem C15_groups_oracle_agrees : forall attempts listed xouts,
  n_calls (snd (run_x attempts listed xouts)) = spec_calls_exec_x attempts listed xouts.
Proof. intros. unfold run_x. rewrite C15_oracle_agrees. apply spec_calls_exec_proj. Qed.
Print Assumptions C15_groups_oracle_agrees.

(* the class relation used for groups: ExceptionGroup derives Exception AND BaseExceptionGroup *)
Example C15_group_classes :
  listed_g [ExceptionC] ExceptionGroupC = true /\ listed_g [BaseExceptionGroupC] ExceptionGroupC = true /\
  listed_g [BaseExceptionGroupC] (ExceptionGroupC ++ [0%nat]) = true /\
  listed_g [ExceptionC] BaseExceptionGroupC = false /\ listed_g [ValueErrorC] ExceptionGroupC = false /\
  listed_g [ExceptionGroupC] BaseExceptionGroupC = false /\ listed_g [ExceptionGroupC ++ [0%nat]] ExceptionGroupC = false /\
  listed_g [ValueErrorC; KeyErrorC] KeyErrorC = true /\ listed_g [ValueErrorC; KeyErrorC] LookupErrorC = false.
Proof. repeat split; reflexivity. Qed.

(* non-vacuity: a foreign group all of whose leaves are listed (also nested) stops the retrying at once,
   a group with mixed leaves likewise; under the default specification the same group is retried *)
Example C15_groups_example :
  let g := XGroup ExceptionGroupC [XPlain ValueErrorC; XGroup ExceptionGroupC [XPlain ValueErrorC]] in
  let mixed := XGroup ExceptionGroupC [XPlain ValueErrorC; XPlain OSErrorC] in
  let xouts := fun i : nat => match i with 0%nat => XRaise (XPlain ValueErrorC) | 1%nat => XRaise g | _ => XRet end in
  let xouts2 := fun i : nat => match i with 0%nat => XRaise mixed | _ => XRet end in
  all_leaves (listed_g [ValueErrorC]) g = true /\ some_leaf (listed_g [ValueErrorC]) mixed = true /\
  first_stop_x (listed_g [ValueErrorC]) xouts 1 /\
  n_calls (snd (run_x 5%Z (listed_g [ValueErrorC]) xouts)) = 2%nat /\
  fst (run_x 5%Z (listed_g [ValueErrorC]) xouts) = RFrom 1 /\
  n_calls (snd (run_x 5%Z (listed_g [ValueErrorC]) xouts2)) = 1%nat /\
  n_calls (snd (run_x 5%Z (listed_g [ExceptionC]) xouts)) = 3%nat /\
  n_calls (snd (run_x 2%Z (listed_g [ExceptionC]) xouts)) = 2%nat.
Proof.
  cbn zeta. split; [reflexivity|]. split; [reflexivity|]. split.
  - split; [reflexivity|]. intros j Hj. destruct j as [|j]; [reflexivity|lia].
  - repeat split; vm_compute; reflexivity.
Qed.

(* `exceptions=()` - a specification that lists nothing: every exception is foreign, so whatever the function does there is
   exactly one invocation, for every value of attempts *)
Theorem C15_empty_spec_single_invocation : forall attempts outs,
  n_calls (snd (run attempts (listed_g []) outs)) = 1%nat.
Proof.
  intros. rewrite (C15_invocations attempts (listed_g []) outs 0).
  - unfold spec_calls. lia.
  - split.
    + unfold stops, listed_g. destruct (outs 0%nat); reflexivity.
    + intros j Hj. lia.
Qed.
Print Assumptions C15_empty_spec_single_invocation.
