(* C16 - safe_contextmanager / safe_async_contextmanager run the cleanup exactly once.
   Property theorems only.  `Gen.CtxShape.safe_contextmanager_deco` and
   `safe_async_contextmanager_deco` are regenerated from
   pedantic/decorators/fn_deco_context_manager.py on every run; `prog var` is the body of the
   wrapper generator as translated, interpreted by Model/SafeCtx.v, driven by the transcription
   of contextlib (Model/Contextlib.v) and the with statement.

   Reading guide.  `with_use var (prog var) u body w` is
       with decorated( *args, **kwargs ) as x: <body>          (async with for var = Async)
   for the generator  <setup>; yield x; <cleanup>  described by u (setup outcome, x, cleanup
   outcome, identity of the arguments), started in world w (journal so far + allocation
   counter of exception objects).  `body` is ANY function from the bound object and the
   world to (how the block ends: WNormal | WEarly (return/break) | WRaise e, world) that only
   raises objects that exist (`body_wf`); in particular another with statement.  Exception
   classes are all paths of Base/Exn.v (every class, BaseException subclasses included);
   exception objects have identity (`eid`), "unchanged" means the same object.              *)
From Coq Require Import List Arith Bool Lia.
From PV Require Import Base.Exn Model.Generator Model.Contextlib Model.SafeCtx Model.CtxEval Spec.CtxSpec
  Gen.CtxShape Proofs.CtxCore Proofs.CtxNest Proofs.CtxEdge Proofs.CtxCount.
Import ListNotations.

Definition prog (var : variant) : block := d_prog (deco_for var).

(* translation obligations: what the decorator is composed of *)
Theorem C16_wrapper_shape :
  shape_ok Sync safe_contextmanager_deco = true /\ shape_ok Async safe_async_contextmanager_deco = true /\
  d_wraps safe_contextmanager_deco = true /\ d_wraps safe_async_contextmanager_deco = true.
Proof. repeat split; reflexivity. Qed.
Print Assumptions C16_wrapper_shape.

(* the four kinds of `def`, the two states of the global switch (is_enabled(): ENABLE_PEDANTIC unset/"1" or not)
   and the two kinds of interpreter (assert statements executed / stripped by -O, -OO, PYTHONOPTIMIZE) are the
   whole domain of a decoration: finite.  GFall: the guards fall through, the wrapper is defined and d_ret
   (C16_wrapper_shape) is returned *)
Theorem C16_decoration_rejects_non_generators : forall var k enabled optimize,
  decorate var (mkDctx k enabled optimize) = if spec_accepts var k then GFall else GRaised AssertionErrorC.
Proof. intros [] [] [] []; reflexivity. Qed.
Print Assumptions C16_decoration_rejects_non_generators.

(* the property text makes no exception for disable_pedantic() / ENABLE_PEDANTIC=0 or for python -O: the
   function of the right kind always gets the wrapper `prog var` the theorems below are about, never an
   early `return contextmanager(f)` *)
Theorem C16_wrapper_whatever_switch_and_optimize : forall var enabled optimize,
  decorate var (mkDctx (kind_of var) enabled optimize) = GFall /\ spec_accepts var (kind_of var) = true.
Proof. intros [] [] []; split; reflexivity. Qed.
Print Assumptions C16_wrapper_whatever_switch_and_optimize.

(* everything about one with statement, in one statement *)
Theorem C16_with_statement : forall var u body w,
  body_wf body ->
  let w1 := emit (ev_setup u) w in
  let r := with_use var (prog var) u body w in
  match u_setup u with
  | SetupRaise c =>
      jrev (snd r) = jrev w1 /\
      exists e, fst r = WRaise e /\ nid w <= eid e < nid (snd r) /\ delivered var c (OGen (u_id u) 0) e
  | SetupReturn =>
      jrev (snd r) = jrev w1 /\
      exists e, fst r = WRaise e /\ nid w <= eid e < nid (snd r) /\ ecls e = RuntimeErrorC /\ eorigin e = OPep479
                /\ exists i, ecause e = Some (Exc (stop_class var) i OProto None)
  | SetupOk =>
      let ow := body (u_val u) w1 in
      jrev (snd r) = ev_cleanup u :: jrev (snd ow) /\ nid (snd ow) <= nid (snd r) /\
      match u_cleanup u with
      | CleanRaise c =>
          exists e, fst r = WRaise e /\ nid (snd ow) <= eid e < nid (snd r) /\ delivered var c (OGen (u_id u) 1) e
      | _ => fst r = fst ow
      end
  end.
Proof. exact with_use_cases. Qed.
Print Assumptions C16_with_statement.

(* whatever the body does: after it the journal gains exactly one entry, the cleanup of this
   generator; before it exactly one, the setup.  So the code after the yield runs exactly once,
   after the body. *)
Theorem C16_cleanup_exactly_once_after_body : forall var u body w,
  body_wf body -> u_setup u = SetupOk ->
  let w1 := emit (ev_setup u) w in
  let ow := body (u_val u) w1 in
  let r := with_use var (prog var) u body w in
  jrev (snd r) = ev_cleanup u :: jrev (snd ow) /\
  cleanups_of (u_id u) (journal (snd r)) = S (cleanups_of (u_id u) (journal (snd ow))).
Proof. exact cleanup_once. Qed.
Print Assumptions C16_cleanup_exactly_once_after_body.

(* the same for bodies given by data: normal end, early exit, exception of ANY class *)
Theorem C16_journal_exact : forall var u tag o w,
  u_setup u = SetupOk ->
  journal (snd (with_use var (prog var) u (simple_body tag o) w))
  = journal w ++ [ev_setup u; EvBody tag (u_val u); ev_cleanup u].
Proof. exact journal_exact. Qed.
Print Assumptions C16_journal_exact.

(* a body exception leaves as the very same object unless the cleanup raises; then the
   cleanup's exception (a new object, allocated after the body ended) leaves.  Every class:
   StopIteration, StopAsyncIteration, GeneratorExit, KeyboardInterrupt, RuntimeError ... *)
Theorem C16_body_exception_unchanged_unless_cleanup_raises : forall var u body w e w2,
  body_wf body -> u_setup u = SetupOk ->
  body (u_val u) (emit (ev_setup u) w) = (WRaise e, w2) ->
  let r := with_use var (prog var) u body w in
  match u_cleanup u with
  | CleanRaise c => exists e', fst r = WRaise e' /\ eid e < eid e' /\ delivered var c (OGen (u_id u) 1) e'
  | _ => fst r = WRaise e
  end.
Proof. exact body_exception_unchanged. Qed.
Print Assumptions C16_body_exception_unchanged_unless_cleanup_raises.

(* return / break / normal end: the block ends the same way unless the cleanup raises *)
Theorem C16_early_exit_is_normal_exit : forall var u body w o w2,
  body_wf body -> u_setup u = SetupOk ->
  body (u_val u) (emit (ev_setup u) w) = (o, w2) -> (o = WNormal \/ o = WEarly) ->
  let r := with_use var (prog var) u body w in
  jrev (snd r) = ev_cleanup u :: jrev w2 /\
  match u_cleanup u with
  | CleanRaise c => exists e', fst r = WRaise e' /\ delivered var c (OGen (u_id u) 1) e'
  | _ => fst r = o
  end.
Proof. exact early_exit. Qed.
Print Assumptions C16_early_exit_is_normal_exit.

(* `as` binds the yielded object: the outcome is that of the body applied to u_val u in the
   world right after the setup; two bodies that agree there are indistinguishable *)
Theorem C16_as_binds_yielded : forall var u tag o w,
  u_setup u = SetupOk ->
  In (EvBody tag (u_val u)) (journal (snd (with_use var (prog var) u (simple_body tag o) w))) /\
  forall y, In (EvBody tag y) (journal (snd (with_use var (prog var) u (simple_body tag o) w))) ->
            In (EvBody tag y) (journal w) \/ y = u_val u.
Proof. exact as_binds. Qed.
Print Assumptions C16_as_binds_yielded.

Theorem C16_setup_failure_no_cleanup : forall var u body w c,
  body_wf body -> u_setup u = SetupRaise c ->
  let r := with_use var (prog var) u body w in
  journal (snd r) = journal w ++ [ev_setup u] /\
  exists e, fst r = WRaise e /\ delivered var c (OGen (u_id u) 0) e.
Proof. exact setup_failure. Qed.
Print Assumptions C16_setup_failure_no_cleanup.

(* the generator function receives the caller's own arguments (identity u_args u): the first thing a
   with statement adds to the journal is the setup entry carrying them, and every entry it adds for
   this generator (setup, cleanup) carries them; whatever setup, body and cleanup do *)
Theorem C16_args_forwarded : forall var u tag o w,
  let r := with_use var (prog var) u (simple_body tag o) w in
  exists new, journal (snd r) = journal w ++ new /\
              hd_error new = Some (EvGen (u_id u) 0 (Some (u_args u))) /\
              forall i t a', In (EvGen i t a') new -> i = u_id u /\ a' = Some (u_args u).
Proof. exact args_forwarded. Qed.
Print Assumptions C16_args_forwarded.

(* nested use, any depth, against the specification written from the property text:
   journal and the object that leaves *)
Theorem C16_nested_matches_spec : forall var us tag o x0 w,
  let r := with_nest var (prog var) us (simple_body tag o) x0 w in
  journal (snd r) = journal w ++ fst (spec_nest var us tag o x0) /\
  classify (fst r) = snd (spec_nest var us tag o x0).
Proof. exact nested_spec. Qed.
Print Assumptions C16_nested_matches_spec.

(* nested use, any depth, any body: when no generator fails the block ends exactly as the
   body did (same object) and the cleanups run once each, innermost first *)
Theorem C16_nested_transparent : forall var us body,
  body_wf body -> (forall x w, nid w <= nid (snd (body x w))) ->
  forall x0 w, forallb quiet us = true ->
  let w_in := mkW (rev (map ev_setup us) ++ jrev w) (nid w) in
  let ow := body (last_val x0 us) w_in in
  let r := with_nest var (prog var) us body x0 w in
  fst r = fst ow /\ jrev (snd r) = map ev_cleanup us ++ jrev (snd ow).
Proof. exact nest_transparent. Qed.
Print Assumptions C16_nested_transparent.

(* repeated use of the same decorated function: every use is a fresh generator; the journal of
   a sequence is the concatenation of the journals each statement has on its own, from any
   world (nothing is carried over) *)
Theorem C16_repeated_use_independent : forall var items w,
  let r := with_seq var (prog var) items w in
  journal (snd r) = journal w ++ fst (spec_seq var items) /\
  map classify (fst r) = snd (spec_seq var items).
Proof. exact repeated_spec. Qed.
Print Assumptions C16_repeated_use_independent.

(* "exactly once", counted: in nested use the code after the yield of generator `id` runs as often as
   a generator with that id gets as far as its yield (reached_count, Spec/CtxSpec.v) - whatever the
   body and the other generators do ... *)
Theorem C16_nested_each_cleanup_counted : forall var us tag o x0 w id,
  let r := with_nest var (prog var) us (simple_body tag o) x0 w in
  cleanups_of id (journal (snd r)) = cleanups_of id (journal w) + reached_count us id.
Proof. exact nested_count. Qed.
Print Assumptions C16_nested_each_cleanup_counted.

(* ... which for generators with distinct ids is at most once, and exactly once when every setup succeeds *)
Theorem C16_nested_each_cleanup_exactly_once : forall var us tag o x0 u,
  NoDup (map u_id us) -> In u us ->
  let n := cleanups_of (u_id u) (journal (snd (with_nest var (prog var) us (simple_body tag o) x0 w0))) in
  n <= 1 /\ (forallb setup_ok us = true -> n = 1).
Proof. exact nested_once. Qed.
Print Assumptions C16_nested_each_cleanup_exactly_once.

(* the same over repeated use (statement after statement on the same decorated function) *)
Theorem C16_repeated_each_cleanup_counted : forall var items w id,
  let r := with_seq var (prog var) items w in
  cleanups_of id (journal (snd r)) = cleanups_of id (journal w) + reached_count_seq items id.
Proof. exact repeated_count. Qed.
Print Assumptions C16_repeated_each_cleanup_counted.

(* ---- edge cases, stated exactly ------------------------------------------------------------ *)

(* a body that raises StopIteration / StopAsyncIteration / GeneratorExit: inside the wrapper the
   StopIteration is turned into a RuntimeError (PEP 479) and contextlib recognises it by its
   __cause__; what leaves the with statement is the body's own object (c ranges over every class;
   the instances of interest are StopIterationC, StopAsyncIterationC, GeneratorExitC, RuntimeErrorC,
   KeyboardInterruptC, see the Example at the end) *)
Theorem C16_body_stop_iteration_unchanged : forall var u tag c w,
  u_setup u = SetupOk -> u_cleanup u = CleanOk ->
  fst (with_use var (prog var) u (simple_body tag (BodyRaise c)) w)
  = WRaise (Exc c (nid w) (OBody tag) None).
Proof. exact body_stop_unchanged. Qed.
Print Assumptions C16_body_stop_iteration_unchanged.

(* a cleanup (or setup) that raises StopIteration: Python hands the decorator a RuntimeError
   chained to it, and that RuntimeError leaves - also when the body raised *)
Theorem C16_cleanup_stop_iteration_leaves_as_runtime_error : forall var u body w c,
  body_wf body -> u_setup u = SetupOk -> u_cleanup u = CleanRaise c -> converts var c = true ->
  exists e i, fst (with_use var (prog var) u body w) = WRaise e /\
              ecls e = RuntimeErrorC /\ ecause e = Some (Exc c i (OGen (u_id u) 1) None).
Proof. exact cleanup_stop. Qed.
Print Assumptions C16_cleanup_stop_iteration_leaves_as_runtime_error.

(* outside the property's domain.  A generator that yields a second time is NOT reported (plain
   contextlib raises "generator didn't stop"): the block ends as the body did and the code after
   the second yield never runs *)
Theorem C16_second_yield_is_accepted_silently : forall var u body w y,
  body_wf body -> u_setup u = SetupOk -> u_cleanup u = CleanYield y ->
  let ow := body (u_val u) (emit (ev_setup u) w) in
  let r := with_use var (prog var) u body w in
  fst r = fst ow /\ jrev (snd r) = ev_cleanup u :: jrev (snd ow).
Proof. exact second_yield. Qed.
Print Assumptions C16_second_yield_is_accepted_silently.

(* a generator that never yields: a new RuntimeError, no body, no cleanup *)
Theorem C16_generator_without_yield : forall var u body w,
  body_wf body -> u_setup u = SetupReturn ->
  let r := with_use var (prog var) u body w in
  journal (snd r) = journal w ++ [ev_setup u] /\
  exists e, fst r = WRaise e /\ ecls e = RuntimeErrorC /\ nid w <= eid e.
Proof. exact no_yield. Qed.
Print Assumptions C16_generator_without_yield.

(* the docstring's claim: @safe_contextmanager on  <setup>; yield x; <cleanup>  behaves like
   plain @contextmanager on  <setup>; try: yield x  finally: <cleanup>  (same journal, same way
   of ending; a cleanup exception is delivered alike) *)
Theorem C16_equivalent_to_try_finally_under_contextmanager : forall var u body w,
  body_wf body -> in_domain_use u = true ->
  let r := with_use var (prog var) u body w in
  let r' := with_gen var (gen_of (u_id u) (Some (u_args u)) (guarded_gen (u_setup u) (u_val u) (u_cleanup u))) body w in
  jrev (snd r') = jrev (snd r) /\
  match u_setup u, u_cleanup u with
  | SetupOk, CleanRaise c => exists e', fst r' = WRaise e' /\ delivered var c (OGen (u_id u) 1) e'
  | SetupOk, _ => fst r' = fst r
  | SetupRaise c, _ => exists e', fst r' = WRaise e' /\ delivered var c (OGen (u_id u) 0) e'
  | _, _ => True
  end.
Proof. exact docstring_equiv. Qed.
Print Assumptions C16_equivalent_to_try_finally_under_contextmanager.

(* without the wrapper the guarantee is false: plain @contextmanager on the unguarded generator
   skips the cleanup when the body raises - this is what the decorator is for, and it shows the
   theorems above are not true of every program *)
Theorem C16_unwrapped_generator_skips_cleanup :
  let u := mkUse 1 7 SetupOk 9 CleanOk in
  cleanups_of 1 (journal (snd (with_gen Sync (gen_of 1 (Some 7) (use_beh u)) (simple_body 1 (BodyRaise ValueErrorC)) w0))) = 0.
Proof. vm_compute. reflexivity. Qed.
Print Assumptions C16_unwrapped_generator_skips_cleanup.

(* non-vacuity: the hypotheses are satisfiable and the statements say something *)
Example C16_example_body_wf : body_wf (simple_body 3 (BodyRaise KeyboardInterruptC)).
Proof. apply simple_body_wf. Qed.

Example C16_example_nested_body_wf :
  body_wf (fun x w => with_use Async (prog Async) (mkUse 2 8 SetupOk 10 (CleanRaise ValueErrorC)) (simple_body 2 BodyEarly) w).
Proof.
  intros x w o w' H.
  pose proof (with_use_wf Async (mkUse 2 8 SetupOk 10 (CleanRaise ValueErrorC)) (simple_body 2 BodyEarly) w
                (simple_body_wf _ _) (simple_body_mono _ _)) as [H1 _].
  cbv zeta in H1. change (P Async) with (prog Async) in H1. rewrite H in H1. exact H1.
Qed.

Example C16_example_stop_classes :
  forall c, In c [StopIterationC; StopAsyncIterationC; GeneratorExitC; RuntimeErrorC; KeyboardInterruptC] ->
  forall var, fst (with_use var (prog var) (mkUse 1 7 SetupOk 9 CleanOk) (simple_body 1 (BodyRaise c)) w0)
              = WRaise (Exc c 0 (OBody 1) None).
Proof. intros c _ var. apply C16_body_stop_iteration_unchanged; reflexivity. Qed.

Example C16_example_run :
  let u1 := mkUse 1 7 SetupOk 9 (CleanRaise StopIterationC) in
  let u2 := mkUse 2 8 SetupOk 10 CleanOk in
  let r := with_nest Sync (prog Sync) [u1; u2] (simple_body 1 (BodyRaise GeneratorExitC)) 0 w0 in
  journal (snd r) = [EvGen 1 0 (Some 7); EvGen 2 0 (Some 8); EvBody 1 10; EvGen 2 1 (Some 8); EvGen 1 1 (Some 7)] /\
  classify (fst r) = LGenWrapped 1 1 /\ converts Sync StopIterationC = true /\ quiet u2 = true /\ in_domain_use u1 = true.
Proof. vm_compute. repeat split; reflexivity. Qed.

Example C16_example_count :
  let us := [mkUse 1 7 SetupOk 9 (CleanRaise KeyboardInterruptC); mkUse 2 8 SetupOk 10 CleanOk; mkUse 3 8 (SetupRaise ValueErrorC) 0 CleanOk] in
  NoDup (map u_id us) /\ reached_count us 1 = 1 /\ reached_count us 2 = 1 /\ reached_count us 3 = 0 /\
  forallb setup_ok [mkUse 1 7 SetupOk 9 (CleanRaise KeyboardInterruptC); mkUse 2 8 SetupOk 10 CleanOk] = true.
Proof. cbv zeta. repeat split; try reflexivity. repeat constructor; cbn; intuition discriminate. Qed.

(* the two new quantifiers are not vacuous: guards that consult the switch, or that are assert statements, are
   expressible and decide differently in the circumstances the theorems quantify over *)
Example C16_example_switch_and_optimize_matter :
  let g_switch := GCons (GIf (CNot CIsEnabled) (GCons (GReturn EarlyContextmanagerF) GNil)) GNil in
  let g_assert := GCons (GAssert (CAnd (CNot CIsAsyncGenFn) CIsGenFn)) GNil in
  grun_block g_switch (mkDctx FGenerator true false) = GFall /\
  grun_block g_switch (mkDctx FGenerator false false) = GReturned EarlyContextmanagerF /\
  grun_block g_assert (mkDctx FPlain false false) = GRaised AssertionErrorC /\
  grun_block g_assert (mkDctx FPlain false true) = GFall /\
  (* and what an early `return contextmanager(f)` would mean for a raising body: no cleanup *)
  cleanups_of 1 (journal (snd (plain_seq Sync [([mkUse 1 7 SetupOk 9 CleanOk], BodyRaise ValueErrorC)] w0))) = 0 /\
  cleanups_of 1 (journal (snd (with_seq Sync (prog Sync) [([mkUse 1 7 SetupOk 9 CleanOk], BodyRaise ValueErrorC)] w0))) = 1.
Proof. vm_compute. repeat split; reflexivity. Qed.
