(* C19 - specification, written from the property text (not from the code).

   "When docstring checking applies (pedantic_require_docstring, pedantic_class_require_docstring, or
    any @pedantic function whose docstring documents parameters), decoration succeeds iff the
    Google-style docstring documents exactly the annotated parameters, each with a type equal to its
    annotation, and has a Returns entry equal to the return annotation (absent iff the function
    returns None).  Any missing, surplus or differently typed entry - and, when required, a missing
    docstring - raises PedanticDocstringException at decoration time."

   Reading fixed here:
   * signature = the annotations: annotated parameters (name -> annotation) and the optional return
     annotation.  Un-annotated parameters (`self`) are not part of it: the text says "the annotated
     parameters".  A function without return annotation is treated like `-> None`: nothing is returned
     that could be documented, so the Returns entry has to be absent.
   * "documents exactly": every documented name is an annotated parameter, every annotated parameter
     is documented, no name twice.  The order of the entries is free.
   * "a type equal to its annotation": the documented type expression *denotes* (in the scope in which
     the function is defined: `scope`, the visible class names) an object that is `==` to the
     annotation.  Denotation and `==` are those of `typing` (DocstringTyping.v): Optional[X] is
     Union[X, None], unions are flat, duplicate free and compare as sets, typing.List[int] is not
     list[int].  An entry without a type, or whose type cannot be evaluated, is not equal to anything.
   * a docstring has to exist.
   * names are compared literally: the Google form `*args (int)` documents a parameter called "*args", which is
     not the annotated parameter "args" (pedantic reads it the same way).

   Limit (audit): `denotes` uses eval / ty_eqb of Model/DocstringTyping.v, the same hand-written model of typing the
   model of the check uses; "a type equal to its annotation" is therefore relative to that shared model.  It is tied to
   CPython twice on every run: the correspondence stream `typing` (eval, ==, both directions) and the Python-side
   oracle `py_consistent` (harness/w_docstring.py: Python's own eval and ==) that is compared with `consistentb`.

   The specification does not know about contexts built while iterating, about the order of the
   annotations, about `typing.` spellings or about which check runs first.                       *)
From Coq Require Import List Bool Arith String.
From PV Require Import Base.Exn Model.DocstringTyping.
Import ListNotations.
Open Scope string_scope.
Open Scope list_scope.

Definition annotations := list (string * ty).

Definition is_ret (kv : string * ty) : bool := String.eqb (fst kv) "return".
Definition params_of (ann : annotations) : annotations := filter (fun kv => negb (is_ret kv)) ann.
Definition param_names (ann : annotations) : list string := map fst (params_of ann).
Definition ret_of (ann : annotations) : option ty := assoc "return" ann.
Definition doc_names (doc : docT) : list string := map fst (d_params doc).

(* does the function return something that has to be documented? *)
Definition returns_value (ann : annotations) : option ty :=
  match ret_of ann with
  | Some TNone => None
  | r => r
  end.

(* when the check applies *)
Definition applies (require : bool) (doc : docT) : bool :=
  require || negb (Nat.eqb (List.length (d_params doc)) 0).

Definition denotes (scope : list string) (d : dtype) (t : ty) : Prop :=
  exists t', eval scope (dt_expr d) = Ok t' /\ ty_eqb t' t = true.

Definition consistent (scope : list string) (ann : annotations) (doc : docT) : Prop :=
  d_raw doc = RawText /\
  NoDup (doc_names doc) /\
  (forall n, In n (doc_names doc) <-> In n (param_names ann)) /\
  (forall n od, In (n, od) (d_params doc) ->
     exists d t, od = Some d /\ In (n, t) (params_of ann) /\ denotes scope d t) /\
  match returns_value ann with
  | None => d_returns doc = None
  | Some t => exists d, d_returns doc = Some [d] /\ denotes scope d t
  end.

(* ---- executable form (oracle of the harness); Proofs/DocstringSpecProofs.v: consistentb_iff ---- *)

Definition denotesb (scope : list string) (d : dtype) (t : ty) : bool :=
  match eval scope (dt_expr d) with Ok t' => ty_eqb t' t | Raise _ => false end.

Fixpoint nodupb (l : list string) : bool :=
  match l with [] => true | x :: r => negb (mem x r) && nodupb r end.

Definition consistentb (scope : list string) (ann : annotations) (doc : docT) : bool :=
  match d_raw doc with RawText => true | _ => false end &&
  nodupb (doc_names doc) &&
  forallb (fun n => mem n (param_names ann)) (doc_names doc) &&
  forallb (fun n => mem n (doc_names doc)) (param_names ann) &&
  forallb (fun p => match snd p, assoc (fst p) (params_of ann) with
                    | Some d, Some t => denotesb scope d t
                    | _, _ => false
                    end) (d_params doc) &&
  match returns_value ann, d_returns doc with
  | None, None => true
  | Some t, Some [d] => denotesb scope d t
  | _, _ => false
  end.

(* ---- single edits of a docstring -------------------------------------------------------------- *)

Definition mkdoc (raw : rawdoc) (ps : list dparam) (r : option (list dtype)) : docT :=
  {| d_raw := raw; d_params := ps; d_returns := r |}.

(* d and d' denote the same type ("the same type after normalisation") *)
Definition same_denotation (scope : list string) (d d' : dtype) : Prop :=
  exists t t', eval scope (dt_expr d) = Ok t /\ eval scope (dt_expr d') = Ok t' /\ ty_eqb t' t = true.

(* a documented type Python can evaluate in the scope of the function, or that fails because it
   mentions a name that is not defined.  Not a hypothesis of any property theorem (since eaebe0b every
   evaluation failure is turned into PedanticDocstringException); kept as a fact about the vocabulary:
   every well-formed type expression is evaluable (Proofs/DocstringWf.v).                            *)
Definition evaluable (scope : list string) (d : dtype) : bool :=
  match eval scope (dt_expr d) with
  | Ok _ => true
  | Raise e => derives e NameErrorC
  end.

(* The new documented type is ANY expression whose denotation differs from the old one or that has no
   denotation at all (a text that is not an expression, a wrong number of type arguments, a subscript
   of something that is not generic, an unknown name ...): that covers the replacement of one
   sub-expression at any nesting depth (`plug` below) and also any larger change.                    *)
Inductive one_edit (scope : list string) : docT -> docT -> Prop :=
| E_drop_param : forall raw l1 p l2 r,
    one_edit scope (mkdoc raw (l1 ++ p :: l2) r) (mkdoc raw (l1 ++ l2) r)
| E_add_param : forall raw l1 p l2 r,
    one_edit scope (mkdoc raw (l1 ++ l2) r) (mkdoc raw (l1 ++ p :: l2) r)
| E_rename_param : forall raw l1 n n' ot l2 r, n' <> n ->
    one_edit scope (mkdoc raw (l1 ++ (n, ot) :: l2) r) (mkdoc raw (l1 ++ (n', ot) :: l2) r)
| E_change_type : forall raw l1 n d d' l2 r,
    ~ same_denotation scope d d' ->
    one_edit scope (mkdoc raw (l1 ++ (n, Some d) :: l2) r) (mkdoc raw (l1 ++ (n, Some d') :: l2) r)
| E_drop_returns : forall raw ps l,
    one_edit scope (mkdoc raw ps (Some l)) (mkdoc raw ps None)
| E_add_returns : forall raw ps l,
    one_edit scope (mkdoc raw ps None) (mkdoc raw ps (Some l))
| E_alter_returns : forall raw ps d d',
    ~ same_denotation scope d d' ->
    one_edit scope (mkdoc raw ps (Some [d])) (mkdoc raw ps (Some [d']))
| E_untype_returns : forall raw ps d,
    one_edit scope (mkdoc raw ps (Some [d])) (mkdoc raw ps (Some []))
| E_untype_param : forall raw l1 n d l2 r,
    one_edit scope (mkdoc raw (l1 ++ (n, Some d) :: l2) r) (mkdoc raw (l1 ++ (n, None) :: l2) r).

(* one-hole contexts of type expressions: "at any nesting depth" *)
Inductive ectx :=
| CHole
| CSubF (c : ectx) (s : texpr)
| CSubS (f : texpr) (c : ectx)
| CTupleAt (l1 : list texpr) (c : ectx) (l2 : list texpr)
| CListAt (l1 : list texpr) (c : ectx) (l2 : list texpr)
| COrL (c : ectx) (b : texpr)
| COrR (a : texpr) (c : ectx).

Fixpoint plug (c : ectx) (e : texpr) : texpr :=
  match c with
  | CHole => e
  | CSubF c s => ESub (plug c e) s
  | CSubS f c => ESub f (plug c e)
  | CTupleAt l1 c l2 => ETuple (l1 ++ plug c e :: l2)
  | CListAt l1 c l2 => EList (l1 ++ plug c e :: l2)
  | COrL c b => EOr (plug c e) b
  | COrR a c => EOr a (plug c e)
  end.

(* ---- guards used by the theorems (all boolean, all satisfied by the generated cases) ----------- *)

(* an annotation object without Python tuples / lists inside (every typing object of the vocabulary) *)
Fixpoint ann_ok (t : ty) : bool :=
  match t with
  | TTup _ | TLst _ => false
  | TUnion l => forallb ann_ok l
  | TPipe l => forallb ann_ok l
  | TGen _ l => forallb ann_ok l
  | _ => true
  end.

(* no `X | Y` union anywhere in the annotation *)
Fixpoint no_pipe (t : ty) : bool :=
  match t with
  | TPipe _ => false
  | TUnion l => forallb no_pipe l
  | TGen _ l => forallb no_pipe l
  | TTup l => forallb no_pipe l
  | TLst l => forallb no_pipe l
  | _ => true
  end.

Definition ann_names (ann : annotations) : list string := flat_map (fun kv => cls_names (snd kv)) ann.

(* a well-formed signature: a dict has every key once, the annotations are typing objects *)
Definition sig_ok (ann : annotations) : bool :=
  nodupb (map fst ann) && forallb (fun kv => ann_ok (snd kv)) ann.

(* the scope contains the classes the annotations mention *)
Definition scope_ok (scope : list string) (ann : annotations) : bool :=
  forallb (fun n => mem n scope) (ann_names ann).

(* a class name that does not hide a non-class name of `typing` (a user class called List / Any / Optional would).
   `no_hiding scope`: no class visible to the function has such a name.  Only the direction "accepted => consistent"
   needs it: pedantic evaluates a documented type with eval(type_, globals(), context), where the context holds the classes
   collected so far - a class called List that is mentioned by a LATER annotation does not shadow typing.List yet. *)
Definition name_ok (n : string) : bool :=
  match globals n with
  | None => true
  | Some (TCls _) => true
  | Some _ => false
  end.

Definition no_hiding (scope : list string) : bool := forallb name_ok scope.

Definition doc_types (doc : docT) : list dtype :=
  flat_map (fun p => match snd p with Some d => [d] | None => [] end) (d_params doc)
  ++ match d_returns doc with Some l => l | None => [] end.

(* every documented parameter has a type *)
Definition doc_typed (doc : docT) : bool :=
  forallb (fun p => match snd p with Some _ => true | None => false end) (d_params doc).

(* every documented type can be evaluated (or names something undefined) *)
Definition doc_evaluable (scope : list string) (doc : docT) : bool := forallb (evaluable scope) (doc_types doc).

(* every documented type is a well-formed type expression *)
Definition doc_wf (doc : docT) : bool := forallb (fun d => wf_expr (dt_expr d)) (doc_types doc).

(* no documented type is spelled with the text "typing." (pedantic rejects that spelling as such) *)
Definition doc_no_typing_dot (doc : docT) : bool :=
  forallb (fun d => negb (contains "typing." (dt_text d))) (doc_types doc).
