(* What the external sources of @validate are, written from the property text (C13: "environment variable, Flask
   JSON/form/query/header value") and the documented meaning of these sources, not from the code: for each kind of source,
   whether the key is present in it and which value it holds.  Shares only the vocabulary (world, frequest, json_body)
   with Model/ValidateSources.v.

     JSON     the request is a JSON request whose body is an object with a member named like the parameter: that member
     form     the form has a field named like the parameter: its (first) value
     query    the query string has the key: its first value - all its values as a list when value_type is list
     header   the request has a header whose name equals the parameter name up to the spelling of header names
              (case, '-' / '_': the WSGI key): its value
     env      the environment has the variable: its text without surrounding white space                          *)
From Coq Require Import List Arith Bool.
From PV Require Import Base.Exn Model.ValidateSem Model.ValidateSources.
Import ListNotations.

Inductive source_kind := KJson | KForm | KQuery | KHeader | KEnv.

Section SrcSpec.
Variable value : Type.
Variable hkey : name -> name.
Variable strip : value -> value.
Variable of_list : list value -> value.

Notation world := (world value).
Notation frequest := (frequest value).

Fixpoint named {A} (k : name) (d : list (name * A)) : option A :=
  match d with
  | [] => None
  | (k', v) :: d' => if Nat.eqb k' k then Some v else named k d'
  end.

Fixpoint header_named (k : name) (hs : list (name * value)) : option value :=
  match hs with
  | [] => None
  | (h, v) :: hs' => if Nat.eqb (hkey h) (hkey k) then Some v else header_named k hs'
  end.

Definition is_some {A} (o : option A) : bool := match o with Some _ => true | None => false end.

Definition json_members (rq : frequest) : list (name * value) :=
  match fr_json rq with Some (JObject ms) => ms | _ => [] end.

(* the key is present in the source *)
Definition present (kind : source_kind) (w : world) (k : name) : bool :=
  match kind, wd_request w with
  | KEnv, _ => is_some (named k (wd_environ w))
  | _, None => false
  | KJson, Some rq => is_some (named k (json_members rq))
  | KForm, Some rq => is_some (named k (fr_form rq))
  | KQuery, Some rq => is_some (named k (fr_args rq))
  | KHeader, Some rq => is_some (header_named k (fr_headers rq))
  end.

(* the value the source holds under the key *)
Definition source_value (kind : source_kind) (as_list : bool) (w : world) (k : name) : option value :=
  match kind, wd_request w with
  | KEnv, _ => option_map strip (named k (wd_environ w))
  | _, None => None
  | KJson, Some rq => named k (json_members rq)
  | KForm, Some rq => match named k (fr_form rq) with Some (v :: _) => Some v | _ => None end
  | KQuery, Some rq => match named k (fr_args rq) with
                       | Some l => if as_list then Some (of_list l) else hd_error l
                       | None => None
                       end
  | KHeader, Some rq => header_named k (fr_headers rq)
  end.

(* a MultiDict as werkzeug builds it: no key with an empty list of values *)
Definition md_ok (d : mdict value) : bool := forallb (fun kv => match snd kv with [] => false | _ => true end) d.
Definition world_ok (w : world) : bool :=
  match wd_request w with Some rq => md_ok (fr_form rq) && md_ok (fr_args rq) | None => true end.

(* inside a request context (the Flask sources are only defined there) *)
Definition in_context (kind : source_kind) (w : world) : bool :=
  match kind with KEnv => true | _ => is_some (wd_request w) end.

End SrcSpec.
