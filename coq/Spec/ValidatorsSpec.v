(* C14 - specification, written from the property text: for every validator its input domain, its
   documented predicate and its documented conversion; for convert_value the documented result.
   Nothing here refers to the shapes regenerated from the source (Gen/Validators.v, `shapes`) or to the
   model's functions for the validators; shared are only the value universe, the validator syntax, the
   string helpers of convert_value's list/dict branch, the CPython primitives of
   Model/ValidatorsBase.v (strip, str, int, len, iteration, ==) and the stdlib oracles.

   `spec w v` is the executable oracle the harness evaluates next to the model:
     SOut       v is outside the input domain of w (no claim)
     SReject    v does not satisfy the documented predicate: ValidatorException is demanded
     SAccept r  v satisfies it: the call must return r                                           *)
From Coq Require Import List ZArith Bool SpecFloat QArith.
From PV Require Import Base.Exn Model.ValidatorsBase Model.ValidatorsRegex Model.Validators.
Import ListNotations.
Open Scope Z_scope.

Inductive verdict : Type := SOut | SReject | SAccept (r : value).

(* ---------- numbers as extended rationals: the meaning of "value >= bound" -------------------- *)
Inductive xreal : Type := XRNegInf | XRFin (q : Q) | XRPosInf.

Definition Q_of_dyadic (m e : Z) : Q :=
  match e with
  | Z0 => m # 1
  | Zpos p => (m * Z.pow_pos 2 p) # 1
  | Zneg p => m # (Pos.pow 2 p)
  end.

(* None: not a number, or NaN (which is no real number and satisfies no bound) *)
Definition real_of (v : value) : option xreal :=
  match v with
  | VBool b => Some (XRFin ((if b then 1 else 0) # 1))
  | VInt z => Some (XRFin (z # 1))
  | VFloat S754_nan => None
  | VFloat (S754_infinity s) => Some (if s then XRNegInf else XRPosInf)
  | VFloat (S754_zero _) => Some (XRFin (0 # 1))
  | VFloat (S754_finite s m e) => Some (XRFin (Q_of_dyadic (if s then Z.neg m else Z.pos m) e))
  | _ => None
  end.

Definition xr_le (a b : xreal) : bool :=
  match a, b with
  | XRNegInf, _ => true
  | _, XRPosInf => true
  | XRFin p, XRFin q => Qle_bool p q
  | _, _ => false
  end.
Definition xr_lt (a b : xreal) : bool := negb (xr_le b a).

Definition is_number (v : value) : bool :=
  match v with VBool _ | VInt _ | VFloat _ => true | _ => false end.

(* Min(bound, include_boundary): value >= bound, resp. value > bound *)
Definition sat_min (bound : value) (incl : bool) (v : value) : bool :=
  match real_of v, real_of bound with
  | Some x, Some b => if incl then xr_le b x else xr_lt b x
  | _, _ => false
  end.
(* Max(bound, include_boundary): value <= bound, resp. value < bound *)
Definition sat_max (bound : value) (incl : bool) (v : value) : bool :=
  match real_of v, real_of bound with
  | Some x, Some b => if incl then xr_le x b else xr_lt x b
  | _, _ => false
  end.

(* ---------- strings -------------------------------------------------------------------------------- *)
Definition all_ws (s : str) : bool := forallb is_ws s.

(* t is s without its leading and trailing whitespace *)
Definition is_strip_of (s t : str) : Prop :=
  exists a b, s = a ++ t ++ b /\ all_ws a = true /\ all_ws b = true /\
              match t with [] => True | c :: _ => is_ws c = false /\ is_ws (last t c) = false end.

(* the readable form of REGEX_EMAIL: local@domain.tld, local and domain non-empty without `@` and
   whitespace (the domain may contain dots), tld non-empty ASCII letters / digits *)
Definition local_char (c : Z) : bool := negb (c =? 64) && negb (is_ws c).
Definition tld_char (c : Z) : bool :=
  ((97 <=? c) && (c <=? 122)) || ((65 <=? c) && (c <=? 90)) || ((48 <=? c) && (c <=? 57)).
Definition email_pred (s : str) : Prop :=
  exists l d t, s = l ++ [64] ++ d ++ [46] ++ t /\ l <> [] /\ d <> [] /\ t <> [] /\
                forallb local_char l = true /\ forallb local_char d = true /\ forallb tld_char t = true.

(* executable form: the tld is what follows the last dot; before it exactly one `@` with text on both sides *)
Fixpoint split_last (sep : Z) (s : str) : option (str * str) :=
  match s with
  | [] => None
  | c :: s' =>
      match split_last sep s' with
      | Some (a, b) => Some (c :: a, b)
      | None => if c =? sep then Some ([], s') else None
      end
  end.
Definition email_predb (s : str) : bool :=
  match split_last 46 s with
  | None => false
  | Some (pre, t) =>
      negb (is_nil t) && forallb tld_char t &&
      let l := before_sep 64 pre in
      let d := after_sep 64 pre in
      existsb (Z.eqb 64) pre && negb (is_nil l) && negb (is_nil d) && forallb local_char l && forallb local_char d
  end.

(* ---------- enums ---------------------------------------------------------------------------------- *)
(* the member carrying a value equal (==) to v, or v itself when it is a member *)
Definition member_of (members : list value) (v : value) : option value :=
  match v with
  | VOpq k [i] => if (k =? K_ENUM) && (0 <=? i) && (i <? zlen members) then Some v else None
  | _ => option_map (fun i => VOpq K_ENUM [i]) (find_index (py_eq v) members 0)
  end.

(* ---------- children and items (the verdict of a child is a parameter) ------------------------------ *)
Section SpecLoops.
  Variable A : Type.
  Variable child : A -> value -> verdict.
  (* Composite: every child accepts the same value; the value itself is returned *)
  Fixpoint all_accept (cs : list A) (v : value) : verdict :=
    match cs with
    | [] => SAccept v
    | c :: cs' => match child c v with SAccept _ => all_accept cs' v | SReject => SReject | SOut => SOut end
    end.
  (* ForEach, one item: it passes through the children in order, each one receiving what the previous returned *)
  Fixpoint pipe (cs : list A) (it : value) : verdict :=
    match cs with
    | [] => SAccept it
    | c :: cs' => match child c it with SAccept r => pipe cs' r | SReject => SReject | SOut => SOut end
    end.
End SpecLoops.
Arguments all_accept {A} child cs v.
Arguments pipe {A} child cs it.

(* ForEach, all items in order: the list of the converted items *)
Fixpoint each_accept (one : value -> verdict) (items : list value) : verdict :=
  match items with
  | [] => SAccept (VList [])
  | it :: items' =>
      match one it with
      | SOut => SOut
      | SReject => SReject
      | SAccept r =>
          match each_accept one items' with
          | SAccept (VList rs) => SAccept (VList (r :: rs))
          | SAccept _ => SOut          (* unreachable *)
          | other => other
          end
      end
  end.

Section Spec.
  Variable O : oracles.

  (* the integer a value denotes: an int/bool, a float without fractional part, a string (or bytes) int() reads,
     a member of the IntEnum itself *)
  Definition int_denoted (members : list value) (v : value) : option Z :=
    match v with
    | VBool b => Some (if b then 1 else 0)
    | VInt z => Some z
    | VFloat f => if float_is_integral f then match int_of_float f with Ok z => Some z | Raise _ => None end else None
    | VStr s => match py_int_of_str O s with Ok z => Some z | Raise _ => None end
    | VBytes s => match o_int_of_bytes O s with Ok z => Some z | Raise _ => None end
    | VOpq k [i] => if (k =? K_ENUM) && (0 <=? i)
                    then match nth_error members (Z.to_nat i) with Some (VInt z) => Some z | _ => None end
                    else None
    | _ => None
    end.

  (* the number of seconds a value denotes as a float *)
  Definition seconds_of (v : value) : option spec_float :=
    match v with
    | VBool b => Some (if b then sf_one else S754_zero false)
    | VInt z => match float_of_Z z with Ok f => Some f | Raise _ => None end
    | VFloat f => Some f
    | VStr s => match o_float_of_str O s with Ok f => Some f | Raise _ => None end
    | _ => None
    end.

  Fixpoint spec (w : validator) (v : value) {struct w} : verdict :=
    match w with
    | WMin b incl => if is_number v && is_number b then (if sat_min b incl v then SAccept v else SReject) else SOut
    | WMax b incl => if is_number v && is_number b then (if sat_max b incl v then SAccept v else SReject) else SOut
    | WMinLen n => match py_len v with Some l => if n <=? l then SAccept v else SReject | None => SReject end
    | WMaxLen n => match py_len v with Some l => if l <=? n then SAccept v else SReject | None => SReject end
    | WNotEmpty strip =>
        match v with
        | VStr s => if all_ws s then SReject else SAccept (if strip then VStr (py_strip s) else v)
        | _ => if is_sequence v
               then match py_len v with Some l => if l =? 0 then SReject else SAccept v | None => SReject end
               else SReject
        end
    | WEmail pat pp =>
        match v with
        | VStr s =>
            let ok := match pat with None => email_predb s | Some r => re_fullmatch r s end in
            if ok then SAccept (pp_apply pp s) else SReject
        | _ => SOut
        end
    | WIsUuid convert =>
        match v with
        | VStr s => match o_uuid O s with Ok u => SAccept (if convert then u else v) | Raise _ => SReject end
        | _ => SOut
        end
    | WIsEnum members int_enum convert upper =>
        let v1 := match v with VStr s => if upper then VStr (py_upper O s) else v | _ => v end in
        let m := if int_enum
                 then match int_denoted members v1 with Some z => member_of members (VInt z) | None => None end
                 else member_of members v1 in
        match m with Some mem => SAccept (if convert then mem else v1) | None => SReject end
    | WMatch pat =>
        match v with
        | VStr s => if re_search pat s then SAccept v else SReject
        | _ => SOut
        end
    | WIso => match o_fromiso O v with Ok d => SAccept d | Raise _ => SReject end
    | WUnix =>
        match seconds_of v with
        | Some f => match o_epoch_plus O f with Ok d => SAccept d | Raise _ => SReject end
        | None => SReject
        end
    | WComposite cs => all_accept spec cs v
    | WForEach cs =>
        match iter_items v with
        | None => SReject
        | Some items => each_accept (pipe spec cs) items
        end
    end.

  Definition outcome_of (s : verdict) : outcome value :=
    match s with SAccept r => Ok r | _ => Raise ValidatorExceptionC end.

  (* ---------- convert_value ---------------------------------------------------------------------- *)
  Definition S_true : str := [116; 114; 117; 101].
  Definition S_false : str := [102; 97; 108; 115; 101].

  Definition spec_convert (v : value) (t : ttype) : outcome value :=
    if isinstance_t v t then Ok v else
    match py_str O v with
    | Raise _ => Raise ConversionErrorC        (* str() refuses an int beyond the digit limit *)
    | Ok s0 =>
    let s := py_lower O (py_strip s0) in
    match t with
    | TBool => if zlist_eqb s S_true || zlist_eqb s [49] then Ok (VBool true)
               else if zlist_eqb s S_false || zlist_eqb s [48] then Ok (VBool false)
               else Raise ConversionErrorC
    | TInt => match py_int_of_str O s with Ok z => Ok (VInt z) | Raise _ => Raise ConversionErrorC end
    | TFloat => match o_float_of_str O s with Ok f => Ok (VFloat f) | Raise _ => Raise ConversionErrorC end
    | TStr => Ok (VStr s)
    | TList => Ok (VList (map (fun it => VStr (py_strip it)) (split_on 44 s)))
    | TDict => let d := dict_of_items (split_on 44 s) in Ok (VDict (map VStr (fst d)) (map VStr (snd d)))
    end
    end.

  Definition has_type (v : value) (t : ttype) : bool := isinstance_t v t.

End Spec.
