(* C15, written from the property text only (no reference to the loop).               *)
From Coq Require Import List ZArith Bool.
From PV Require Import Base.Exn Model.RetrySem Model.RetryGroups.
Import ListNotations.
Open Scope Z_scope.

(* an outcome ends the retrying iff it is a return or an exception outside `exceptions` *)
Definition stops (listed : exn -> bool) (o : oc) : bool :=
  match o with ORet => true | ORaise e => negb (listed e) end.

(* k is the index of the first outcome that is a return or a foreign exception *)
Definition first_stop (listed : exn -> bool) (outs : nat -> oc) (k : nat) : Prop :=
  stops listed (outs k) = true /\ forall j, (j < k)%nat -> stops listed (outs j) = false.

Definition never_stops (listed : exn -> bool) (outs : nat -> oc) : Prop :=
  forall j, stops listed (outs j) = false.

(* number of invocations demanded by the statement *)
Definition spec_calls (attempts : Z) (k : nat) : nat :=
  Z.to_nat (Z.min (Z.of_nat k + 1) (Z.max attempts 1)).
Definition spec_calls_never (attempts : Z) : nat := Z.to_nat (Z.max attempts 1).

(* the observable trace demanded by the statement: n invocations, each with the caller's
   own argument objects, a wait strictly between consecutive invocations, nothing else *)
Fixpoint spec_trace_tail (m : nat) : list event :=
  match m with O => [] | S m' => ESleep :: ECall FwdSame :: spec_trace_tail m' end.
Definition spec_trace (n : nat) : list event :=
  match n with O => [] | S m => ECall FwdSame :: spec_trace_tail m end.

(* executable form used by the correspondence check: first stop among the first n outcomes *)
Fixpoint find_stop (listed : exn -> bool) (outs : nat -> oc) (n : nat) (from : nat) : option nat :=
  match n with
  | O => None
  | S n' => if stops listed (outs from) then Some from else find_stop listed outs n' (S from)
  end.

Definition spec_calls_exec (attempts : Z) (listed : exn -> bool) (outs : nat -> oc) : nat :=
  let m := Z.to_nat (Z.max attempts 1) in
  match find_stop listed outs m 0%nat with
  | Some k => S k
  | None => m
  end.

(* ---- exception groups ------------------------------------------------------------------
   "raises an exception outside the configured `exceptions`": whether a raised OBJECT is outside
   is isinstance(obj, exceptions) - a statement about the class of that object.  An exception group
   is an exception object like any other: it is listed iff its own class is, whatever it carries
   (a group of listed leaves whose own class is not listed is a foreign exception and ends the
   retrying; a group whose own class is listed - e.g. any ExceptionGroup under the default
   `exceptions=Exception` - is retried, whatever its leaves).                                   *)
Definition stops_x (listed : exn -> bool) (o : xoc) : bool :=
  match o with XRet => true | XRaise x => negb (listed (xcls x)) end.

Definition first_stop_x (listed : exn -> bool) (outs : nat -> xoc) (k : nat) : Prop :=
  stops_x listed (outs k) = true /\ forall j, (j < k)%nat -> stops_x listed (outs j) = false.

Definition never_stops_x (listed : exn -> bool) (outs : nat -> xoc) : Prop :=
  forall j, stops_x listed (outs j) = false.

(* executable form over object streams, written without reference to the class projection *)
Fixpoint find_stop_x (listed : exn -> bool) (outs : nat -> xoc) (n : nat) (from : nat) : option nat :=
  match n with
  | O => None
  | S n' => if stops_x listed (outs from) then Some from else find_stop_x listed outs n' (S from)
  end.

Definition spec_calls_exec_x (attempts : Z) (listed : exn -> bool) (outs : nat -> xoc) : nat :=
  let m := Z.to_nat (Z.max attempts 1) in
  match find_stop_x listed outs m 0%nat with
  | Some k => S k
  | None => m
  end.
