(* C17, written from the property text (properties.jsonl), not from the code.

   "Awaiting an @in_subprocess function yields exactly what the function returns or raises
    when run with the same arguments, computed in a different process; [...] any number of
    concurrent invocations each receive their own result.  Every invocation terminates -
    including when the child process dies without reporting a result - and leaves no open
    pipe ends and no un-reaped child process behind."

   The vocabulary (behaviour of the callee `beh`, final outcome `pfinal`, the observable
   parts of a state) is that of Model/Subproc.v; nothing here refers to the programs.

   Reading of the statement that is made explicit here:
   * the child "reports a result" iff the callee returns a picklable value or raises a
     picklable exception that IS an Exception; "picklable" (the domain of the statement) means
     that the object survives the round trip: dumps in the child AND loads in the parent.  A BaseException that is not an Exception
     (KeyboardInterrupt, SystemExit, GeneratorExit ...) terminates the child process like
     os._exit does; then, and when the payload cannot be pickled, the child "dies without
     reporting" and the statement only demands termination and a clean exit - the awaiting
     task must get SOME exception that does not pretend to be the callee's outcome.
   * PEP 479: no coroutine can propagate StopIteration; `await` turns it into RuntimeError.
     "exactly what it raises" is unsatisfiable for that class by any implementation, so the
     demand is the language's RuntimeError (counted separately by the harness).
   * an external kill races with the transfer: either the complete outcome arrived before
     the death (then it must be delivered faithfully) or the child died without reporting.
   PARTIAL: real scheduling, pipe buffering, pickling and the asyncio reader machinery are
   not in this vocabulary; "non-blocking" is observable in the model only as "the parent
   coroutine is suspended (not running) while it waits" (`PSWait`).                        *)
From Coq Require Import List Arith Bool.
From PV Require Import Base.Exn Model.PipeKernel Model.Subproc.
Import ListNotations.

Definition callee_reports (b : beh) : bool :=
  b_pick b && negb (b_unp b) && match b_out b with COk => true | CRaise => b_isa b ExceptionC | CDie => false end.

Inductive demand :=
| DReturn          (* the callee's own return value *)
| DRaiseCallee     (* the callee's own exception *)
| DRaisePEP479     (* RuntimeError by the language rule for StopIteration *)
| DRaiseOther.     (* the child died without reporting: terminate with some other exception *)

Definition demanded (b : beh) : demand :=
  if callee_reports b then
    match b_out b with
    | COk => DReturn
    | _ => if b_isa b StopIterationC then DRaisePEP479 else DRaiseCallee
    end
  else DRaiseOther.

Fixpoint exn_eqb (a c : exn) : bool :=
  match a, c with
  | [], [] => true
  | x :: a', y :: c' => Nat.eqb x y && exn_eqb a' c'
  | _, _ => false
  end.

Definition final_dead (f : pfinal) : bool :=
  match f with FRaise (XCls _) => true | _ => false end.

Definition final_meets (d : demand) (f : pfinal) : bool :=
  match d, f with
  | DReturn, FReturnCallee => true
  | DRaiseCallee, FRaise XCallee => true
  | DRaisePEP479, FRaise (XCls c) => exn_eqb c RuntimeErrorC
  | DRaiseOther, f => final_dead f
  | _, _ => false
  end.

(* no end of this invocation's pipe is left in the parent process, no reader callback is
   left registered, the child has exited and has been reaped *)
Definition clean_exit (s : lst) : bool :=
  negb (holds_any (p_ends (ps s))) && negb (p_reader (ps s)) &&
  match c_stat (cs s) with
  | CNotStarted => true                    (* no child was ever created *)
  | CRunning => false
  | CExited => p_joined (ps s)             (* exited AND reaped: not a zombie *)
  end.

(* the outcome the awaiting task may see; `killed` = the child was killed from outside *)
(* the awaiting task was cancelled (task.cancel(), asyncio.wait_for timeout): it gets CancelledError.
   The statement says nothing else about the outcome of a cancelled await, but "leaves no open
   pipe ends and no un-reaped child process behind" (clean_exit) holds for this exit path like
   for every other. *)
Definition is_cancel (f : pfinal) : bool :=
  match f with FRaise (XCls c) => exn_eqb c CancelledErrorC | _ => false end.
Definition outcome_ok (b : beh) (killed : bool) (f : pfinal) : bool :=
  final_meets (demanded b) f || (killed && final_dead f) || is_cancel f.

(* "Every invocation terminates - including when the child process dies without reporting a
   result": the caller learns of the death through the exception it gets, so that report may
   not depend on WHERE the child died (before sending anything, inside the callee, in the
   middle of writing a large result, killed from outside ...).  `ref` is the report for the
   plainest death - the child exits before sending anything; every other unreported death must
   be reported by an exception of the same class.  (Not a death: the child reported and the
   outcome got through; the message arrived but cannot be unpickled - b_unp.) *)
Definition child_died_unreported (b : beh) (killed : bool) (f : pfinal) : bool :=
  negb (b_unp b) && final_dead f && negb (is_cancel f) && negb (callee_reports b && final_meets (demanded b) f) &&
  (killed || negb (callee_reports b)).
Definition same_report (ref f : pfinal) : bool :=
  match ref, f with FRaise (XCls a), FRaise (XCls c) => exn_eqb a c | _, _ => false end.
Definition report_uniform (ref : pfinal) (b : beh) (killed : bool) (f : pfinal) : bool :=
  negb (child_died_unreported b killed f) || same_report ref f.

(* what the statement demands of a state in which the awaiting task has got its outcome *)
Definition spec_ok (b : beh) (s : lst) : bool :=
  match p_stat (ps s) with
  | PSDone f => outcome_ok b (c_killed (cs s)) f && clean_exit s
  | _ => false
  end.
