(* C09, written from the property text only.

   "With ENABLE_PEDANTIC=0 (or after disable_pedantic()) at decoration time, [the seven
   decorators] return the very object they were given, unmodified, and impose no checks; with
   the variable unset or set to 1 (or after enable_pedantic()) they check.  The switch is read
   only when a decorator is applied: toggling it afterwards never changes the behaviour of
   already decorated callables."   Domain: the variable is unset, "0" or "1".              *)
From Coq Require Import List Bool String.
From PV Require Import Base.Exn Model.EnvSwitch.
Import ListNotations.
Open Scope list_scope.

Definition in_domain (e : envv) : bool :=
  match e with
  | Unset => true
  | Val s => String.eqb s "0" || String.eqb s "1"
  end.

(* the decorators check iff the variable is unset or "1" *)
Definition spec_enabled (e : envv) : bool :=
  match e with
  | Unset => true
  | Val s => String.eqb s "1"
  end.

Definition op_in_domain (o : op) : bool :=
  match o with OSetenv s => in_domain (Val s) | _ => true end.

(* the specification as a machine: what was decided at decoration time is all that matters *)
Record sstate := { s_env : envv; s_objs : list bool }.      (* true = decorated while enabled *)

Definition spec_step (s : sstate) (o : op) : sstate * obs :=
  match o with
  | OSetenv v => ({| s_env := Val v; s_objs := s_objs s |}, ONone)
  | OUnsetenv => ({| s_env := Unset; s_objs := s_objs s |}, ONone)
  | OEnable => ({| s_env := Val "1"; s_objs := s_objs s |}, ONone)
  | ODisable => ({| s_env := Val "0"; s_objs := s_objs s |}, ONone)
  | ODecorate _ _ =>
    let en := spec_enabled (s_env s) in
    ({| s_env := s_env s; s_objs := s_objs s ++ [en] |}, ODeco (negb en))      (* identity iff disabled *)
  | OCall i =>
    match nth_error (s_objs s) i with
    | Some true => (s, OCalled Checked)
    | Some false => (s, OCalled Plain)
    | None => (s, ONone)
    end
  end.

Fixpoint spec_run (s : sstate) (h : list op) : sstate * list obs :=
  match h with
  | [] => (s, [])
  | o :: h' => let (s1, b) := spec_step s o in let (s2, bs) := spec_run s1 h' in (s2, b :: bs)
  end.
