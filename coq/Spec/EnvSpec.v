(* C09, written from the property text only.

   "With ENABLE_PEDANTIC=0 (or after disable_pedantic()) at decoration time, [the seven
   decorators] return the very object they were given, unmodified, and impose no checks; with
   the variable unset or set to 1 (or after enable_pedantic()) they check.  The switch is read
   only when a decorator is applied: toggling it afterwards never changes the behaviour of
   already decorated callables."   Domain: the variable is unset, "0" or "1".

   The object handed to a decorator need not be fresh: it may be an object that went through a decorator earlier in
   the history (the object that was given then, or the result), or a new subclass of a class that did.  The statement
   reads the same: while the variable is "0" the result IS the given object and nothing about it (or anything else)
   changes; otherwise the result checks.  What becomes of the GIVEN object when an enabled decorator is applied to it
   (is it wrapped in place, is it left alone) the statement does not say: from then on nothing is demanded of calls
   made through that object (OUnspec).                                                                                *)
From Coq Require Import List Bool String Arith.
From PV Require Import Base.Exn Model.EnvSwitch.
Import ListNotations.
Open Scope list_scope.

Definition in_domain (e : envv) : bool :=
  match e with
  | Unset => true
  | Val s => String.eqb s "0" || String.eqb s "1"
  end.

(* the decorators check iff the variable is unset or "1" *)
Definition spec_enabled (e : envv) : bool :=
  match e with
  | Unset => true
  | Val s => String.eqb s "1"
  end.

Definition op_in_domain (o : op) : bool :=
  match o with OSetenv s => in_domain (Val s) | _ => true end.

(* pedantic and pedantic_require_docstring are put on functions, the other five on classes *)
Definition spec_fam (d : dkind) : family :=
  match d with
  | DPedantic | DPedanticReqDoc => FFn
  | DPedanticClass | DPedanticClassReqDoc | DTraceClass | DTimerClass | DForAllMethods => FCls
  end.

(* the specification as a machine: what was decided at decoration time is all that matters.
   Objects have identities (numbers).  s_beh: per identity what calling it does - Some true: it checks, Some false: it
   behaves like the undecorated callable, None: the statement does not determine it.  s_objs: per decoration the
   identity that was given and the identity that came back.  s_decos: the decorator objects that have been created;
   nothing but their kind matters ("the switch is read only when a decorator is applied") *)
Record sobj := { so_fam : family; so_given : nat; so_res : nat }.
Record sstate := { s_env : envv; s_beh : list (option bool); s_objs : list sobj; s_decos : list dkind }.

Definition s_with_env (s : sstate) (e : envv) : sstate :=
  {| s_env := e; s_beh := s_beh s; s_objs := s_objs s; s_decos := s_decos s |}.

(* applying a decorator to the object with identity g: the very object, nothing changed, iff the variable is "0" NOW;
   otherwise a result that checks (given a new identity: whether it is the given object is not stated) *)
Definition spec_decorate_on (s : sstate) (f : family) (g : nat) : sstate * obs :=
  if spec_enabled (s_env s) then
    ({| s_env := s_env s; s_beh := set_nth (s_beh s) g None ++ [Some true];
        s_objs := s_objs s ++ [{| so_fam := f; so_given := g; so_res := List.length (s_beh s) |}];
        s_decos := s_decos s |}, ODeco false)
  else
    ({| s_env := s_env s; s_beh := s_beh s;
        s_objs := s_objs s ++ [{| so_fam := f; so_given := g; so_res := g |}];
        s_decos := s_decos s |}, ODeco true).

(* a fresh target (a new function, a new class, a new subclass: what it defines itself is undecorated) *)
Definition spec_decorate_fresh (s : sstate) (f : family) : sstate * obs :=
  spec_decorate_on {| s_env := s_env s; s_beh := s_beh s ++ [Some false]; s_objs := s_objs s; s_decos := s_decos s |}
                   f (List.length (s_beh s)).

Definition spec_src (s : sstate) (src : dsrc) : option dkind :=
  match src with Direct d => Some d | Kept k => nth_error (s_decos s) k end.

Definition spec_step (s : sstate) (o : op) : sstate * obs :=
  match o with
  | OSetenv v => (s_with_env s (Val v), ONone)
  | OUnsetenv => (s_with_env s Unset, ONone)
  | OEnable => (s_with_env s (Val "1"), ONone)
  | ODisable => (s_with_env s (Val "0"), ONone)
  | ODecorate d => spec_decorate_fresh s (spec_fam d)
  | OCall i =>
    match nth_error (s_objs s) i with
    | Some so => (s, match nth_error (s_beh s) (so_res so) with
                     | Some (Some true) => OCalled Checked
                     | Some (Some false) => OCalled Plain
                     | _ => OUnspec
                     end)
    | None => (s, ONone)
    end
  | OCreate d => ({| s_env := s_env s; s_beh := s_beh s; s_objs := s_objs s; s_decos := s_decos s ++ [d] |}, ONone)   (* creating reads nothing *)
  | OApply k => match nth_error (s_decos s) k with Some d => spec_decorate_fresh s (spec_fam d) | None => (s, ONone) end
  | ORedecorate src i again =>
    match nth_error (s_objs s) i, spec_src s src with
    | Some so, Some d =>
      if family_eqb (spec_fam d) (so_fam so)
      then spec_decorate_on s (so_fam so) (if again then so_res so else so_given so)
      else (s, ONone)                                        (* a class decorator on a function or vice versa: not an input *)
    | _, _ => (s, ONone)
    end
  | OSubDecorate src i =>
    match nth_error (s_objs s) i, spec_src s src with
    | Some so, Some d =>
      match so_fam so, spec_fam d with
      | FCls, FCls => spec_decorate_fresh s FCls
      | _, _ => (s, ONone)
      end
    | _, _ => (s, ONone)
    end
  end.

Fixpoint spec_run (s : sstate) (h : list op) : sstate * list obs :=
  match h with
  | [] => (s, [])
  | o :: h' => let (s1, b) := spec_step s o in let (s2, bs) := spec_run s1 h' in (s2, b :: bs)
  end.

(* an observation meets the demand of the statement *)
Definition obs_meets (observed demanded : obs) : Prop := demanded = OUnspec \/ observed = demanded.
