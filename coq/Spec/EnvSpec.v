(* C09, written from the property text only.

   "With ENABLE_PEDANTIC=0 (or after disable_pedantic()) at decoration time, [the seven
   decorators] return the very object they were given, unmodified, and impose no checks; with
   the variable unset or set to 1 (or after enable_pedantic()) they check.  The switch is read
   only when a decorator is applied: toggling it afterwards never changes the behaviour of
   already decorated callables."   Domain: the variable is unset, "0" or "1".              *)
From Coq Require Import List Bool String Arith.
From PV Require Import Base.Exn Model.EnvSwitch.
Import ListNotations.
Open Scope list_scope.

Definition in_domain (e : envv) : bool :=
  match e with
  | Unset => true
  | Val s => String.eqb s "0" || String.eqb s "1"
  end.

(* the decorators check iff the variable is unset or "1" *)
Definition spec_enabled (e : envv) : bool :=
  match e with
  | Unset => true
  | Val s => String.eqb s "1"
  end.

Definition op_in_domain (o : op) : bool :=
  match o with OSetenv s => in_domain (Val s) | _ => true end.

(* the specification as a machine: what was decided at decoration time is all that matters *)
(* s_objs: true = decorated while enabled.  s_decos: how many decorator objects have been created; nothing else about
   them matters ("the switch is read only when a decorator is applied") *)
Record sstate := { s_env : envv; s_objs : list bool; s_decos : nat }.

Definition s_with_env (s : sstate) (e : envv) : sstate := {| s_env := e; s_objs := s_objs s; s_decos := s_decos s |}.

(* applying a decorator: identity iff the variable is "0" NOW *)
Definition spec_decorate (s : sstate) : sstate * obs :=
  let en := spec_enabled (s_env s) in
  ({| s_env := s_env s; s_objs := s_objs s ++ [en]; s_decos := s_decos s |}, ODeco (negb en)).

Definition spec_step (s : sstate) (o : op) : sstate * obs :=
  match o with
  | OSetenv v => (s_with_env s (Val v), ONone)
  | OUnsetenv => (s_with_env s Unset, ONone)
  | OEnable => (s_with_env s (Val "1"), ONone)
  | ODisable => (s_with_env s (Val "0"), ONone)
  | ODecorate _ _ => spec_decorate s
  | OCall i =>
    match nth_error (s_objs s) i with
    | Some true => (s, OCalled Checked)
    | Some false => (s, OCalled Plain)
    | None => (s, ONone)
    end
  | OCreate _ => ({| s_env := s_env s; s_objs := s_objs s; s_decos := S (s_decos s) |}, ONone)   (* creating reads nothing *)
  | OApply k _ => if Nat.ltb k (s_decos s) then spec_decorate s else (s, ONone)
  end.

Fixpoint spec_run (s : sstate) (h : list op) : sstate * list obs :=
  match h with
  | [] => (s, [])
  | o :: h' => let (s1, b) := spec_step s o in let (s2, bs) := spec_run s1 h' in (s2, b :: bs)
  end.
