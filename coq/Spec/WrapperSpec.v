(* C18 - specification, written from the property text (properties.jsonl) and the decorators'
   docstrings, not from the wrapper bodies.  It only shares the data vocabulary (values, results,
   states) with Model/WrapperSem.v.  No proofs.

   The undecorated twin is an ARBITRARY state transformer `g : base` over an ARBITRARY world Sigma
   (take Sigma = journal of invocations to read "exactly one invocation with the same arguments").
   A decorated callable `h` may additionally touch the wrapper's own journal (prints, warnings,
   the call counter), which is a separate component of the state.                                   *)
From Coq Require Import List ZArith Bool String.
From PV Require Import Base.Exn Model.WrapperSem.
Import ListNotations.
Open Scope list_scope.

Section Spec.
  Variable Sigma : Type.

  Definition base := args -> kwargs -> Sigma -> res * Sigma.

  (* "does not alter the observable behaviour": same result object or same exception instance,
     same effect on the world as ONE run of the twin on the SAME arguments *)
  Definition same_as_at (g : base) (h : csem Sigma) (a : args) (k : kwargs) : Prop :=
    forall s, exists w', h a k s = (fst (g a k (cs s)), Build_st (snd (g a k (cs s))) w').
  Definition same_as (g : base) (h : csem Sigma) : Prop := forall a k, same_as_at g h a k.
  Definition same_as_on (P : args -> kwargs -> Prop) (g : base) (h : csem Sigma) : Prop :=
    forall a k, P a k -> same_as_at g h a k.

  (* "f behaves as g": a plain function does all of g when it is called.  A coroutine function (c_mode) either
     fails when it is called, exactly as g fails and without touching the world (argument binding), or hands back
     a coroutine object without touching the world, and awaiting that object does g *)
  Definition is_final (r : res) : bool := match r with ROk _ => false | _ => true end.
  Definition behaves_as (g : base) (f : cdesc Sigma) : Prop :=
    if c_mode f then
      forall a k s, exists w1,
        (c_call f a k s = (fst (g a k (cs s)), Build_st (cs s) w1) /\ snd (g a k (cs s)) = cs s
         /\ is_final (fst (g a k (cs s))) = true)
        \/ (exists v a' k', tok_args v = Some (a', k') /\ c_call f a k s = (ROk v, Build_st (cs s) w1) /\
              forall s2, cs s2 = cs s ->
                exists w2, c_resume f a' k' s2 = (fst (g a k (cs s)), Build_st (snd (g a k (cs s))) w2))
    else same_as g (c_call f).

  (* the same for does_same_as_function's OTHER function: its coroutine objects are its own (VPending COther) *)
  Definition tok_args_other (v : val) : option (args * kwargs) :=
    match v with VPending COther a k => Some (a, k) | _ => None end.
  Definition behaves_as_other (g : base) (f : cdesc Sigma) : Prop :=
    if c_mode f then
      forall a k s, exists w1,
        (c_call f a k s = (fst (g a k (cs s)), Build_st (cs s) w1) /\ snd (g a k (cs s)) = cs s
         /\ is_final (fst (g a k (cs s))) = true)
        \/ (exists v a' k', tok_args_other v = Some (a', k') /\ c_call f a k s = (ROk v, Build_st (cs s) w1) /\
              forall s2, cs s2 = cs s ->
                exists w2, c_resume f a' k' s2 = (fst (g a k (cs s)), Build_st (snd (g a k (cs s))) w2))
    else same_as g (c_call f).

  (* producing the text of a value (repr / str) always succeeds and does nothing else: in particular the value's
     __repr__ is not itself a decorated callable (that would print), does not raise, does not touch the world *)
  Definition repr_harmless (cx : ctx Sigma) : Prop := forall v s, exists r, cx_repr cx v s = (ROk r, s).

  (* the name of a callable can be shown: it has __name__ / __qualname__, or - that is what the wrappers fall back to -
     its repr is harmless (repr of a functools.partial or of a callable object shows the receiver / the arguments) *)
  Definition name_readable (cx : ctx Sigma) (c : callee) : Prop :=
    c_named (cx_callee cx c) = true \/ (forall s, exists r, cx_repr cx (VCallable c) s = (ROk r, s)).

  (* how the callable is used: whoever holds something that reports itself as a coroutine function
     awaits what it returns (the twin of an `async def` is awaited) *)
  Definition awaited_if_coro (f : cdesc Sigma) : bool := implb (c_iscoro f) (c_mode f).
  (* a plain `def` or a plain `async def` *)
  Definition plain_function (f : cdesc Sigma) : bool := Bool.eqb (c_iscoro f) (c_mode f).
  Definition sync_function (f : cdesc Sigma) : bool := negb (c_iscoro f) && negb (c_mode f).

  (* ---- the decorators of the statement -------------------------------------------------------- *)
  Inductive dname := NTrace | NTimer | NCountCalls | NDeprecated | NTraceIfReturns | NDoesSame
                   | NRenameKwargs | NOverrides | NRequireKwargs | NMock | NUnimplemented.

  (* rename_kwargs(Rename(from_, to) ...): a keyword is listed when some rule names it; with several
     rules for one keyword the last one counts *)
  Definition rename_target (rules : list (string * string)) (key : string) : option string :=
    option_map snd (find (fun r => String.eqb (fst r) key) (rev rules)).
  Definition ren (rules : list (string * string)) (key : string) : string :=
    match rename_target rules key with Some t => t | None => key end.
  (* exactly the listed keywords are renamed, values and order untouched *)
  Definition spec_renamed (rules : list (string * string)) (k : kwargs) : kwargs :=
    map (fun kv => (ren rules (fst kv), snd kv)) k.
  (* Python builds the callee's keyword dict by successive assignment (a later assignment to the same
     name replaces the value in place) *)
  Definition dict_of_pairs (l : kwargs) : kwargs := fold_left (fun acc kv => dict_set acc (fst kv) (snd kv)) l [].
  Definition no_listed_key (rules : list (string * string)) (k : kwargs) : bool :=
    forallb (fun kv => match rename_target rules (fst kv) with None => true | Some _ => false end) k.
  Fixpoint keys_distinct (k : kwargs) : bool :=
    match k with [] => true | (n, _) :: k' => negb (existsb (fun kv => String.eqb (fst kv) n) k') && keys_distinct k' end.

  (* does_same_as_function: run both on the same arguments, raise AssertionError iff the results differ *)
  Definition spec_does_same (vne : val -> val -> bool) (g go : base) : base := fun a k c =>
    let (r, c1) := g a k c in
    match r with
    | ROk v =>
      let (r2, c2) := go a k c1 in
      match r2 with
      | ROk v2 => if vne v2 v then (RExc AssertionErrorC (XFresh 4), c2) else (ROk v, c2)
      | _ => (r2, c2)
      end
    | _ => (r, c1)
    end.

  (* the documented effect of one decorator on the behaviour of what it decorates.
     cx carries the decoration arguments (return_value, the Rename rules, `!=`, the keyword-only test) *)
  Definition spec_apply (n : dname) (cx : ctx Sigma) (go : base) (g : base) : base :=
    match n with
    | NTrace | NTimer | NCountCalls | NDeprecated | NTraceIfReturns | NOverrides => g
    | NRequireKwargs => fun a k c =>
        match cx_assert_kw cx a k with Some e => (RExc e (XFresh 1), c) | None => g a k c end
    | NRenameKwargs => fun a k c => g a (dict_of_pairs (spec_renamed (cx_rename cx) k)) c
    | NMock => fun _ _ c => (ROk (cx_param cx "return_value"%string), c)
    | NUnimplemented => fun _ _ c => (RExc NotImplementedExceptionC (XFresh 4), c)
    | NDoesSame => spec_does_same (cx_vne cx) g go
    end.

  (* decorators that, by the statement, provide a dedicated coroutine wrapper *)
  Definition keeps_coroutine (n : dname) : bool :=
    match n with NTrace | NTimer | NTraceIfReturns | NDoesSame | NMock | NOverrides => true | _ => false end.
  Definition spec_iscoro (n : dname) (callee_iscoro : bool) : bool := keeps_coroutine n && callee_iscoro.

  (* ---- histories -------------------------------------------------------------------------------- *)
  Fixpoint run_calls (h : csem Sigma) (calls : list (args * kwargs)) (s : st Sigma) : st Sigma :=
    match calls with
    | [] => s
    | (a, k) :: r => run_calls h r (snd (h a k s))
    end.
End Spec.

Arguments same_as_at {Sigma} _ _ _ _.
Arguments same_as {Sigma} _ _.
Arguments same_as_on {Sigma} _ _ _.
Arguments behaves_as {Sigma} _ _.
Arguments behaves_as_other {Sigma} _ _.
Arguments repr_harmless {Sigma} _.
Arguments name_readable {Sigma} _ _.
Arguments awaited_if_coro {Sigma} _.
Arguments plain_function {Sigma} _.
Arguments sync_function {Sigma} _.
Arguments spec_does_same {Sigma} _ _ _ _ _ _.
Arguments spec_apply {Sigma} _ _ _ _ _ _ _.
Arguments run_calls {Sigma} _ _ _.

(* number of DeprecationWarnings / prints in the wrapper's journal *)
Definition n_deprecation (l : list wevent) : nat :=
  List.length (filter (fun e => match e with EvWarn WDeprecation => true | _ => false end) l).

(* names of the package's decorators that return a wrapper, as listed in the statement *)
Definition wrapper_decorators : list string :=
  ["trace"; "timer"; "count_calls"; "deprecated"; "trace_if_returns"; "does_same_as_function"; "rename_kwargs";
   "require_kwargs"; "mock"; "unimplemented"; "pedantic"; "validate"; "in_subprocess"]%string.
Definition coroutine_wrapper_decorators : list string :=
  ["pedantic"; "validate"; "trace"; "timer"; "trace_if_returns"; "does_same_as_function"; "mock"]%string.

(* ---- classes: trace_class / timer_class --------------------------------------------------------- *)
(* receiving a member through `acc` and calling it with positional arguments a must hand the
   underlying function exactly what the undecorated class hands it *)
Definition class_transparent_at (cfg : forall_cfg) (m : member) (acc : access) (self cls0 sub : val) (a : args) : Prop :=
  match deco_args cfg m acc self cls0 sub a, orig_args m acc self cls0 sub a with
  | Some (pre, given), Some o => pre ++ given = o
  | None, None => True
  | _, _ => False
  end.

(* the accesses for which the statement is claimed (see C18_class_*_refuted for the others):
   everything except a static method through an instance and a class method through an instance
   or a subclass *)
Definition class_access_ok (m : member) (acc : access) : bool :=
  match m, acc with
  | MStatic, (AInst | ASubInst) => false
  | MClassM, (AInst | ASubInst | ASubClass) => false
  | _, _ => true
  end.
