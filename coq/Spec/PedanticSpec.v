(* C03 / C04 / C05: what the property texts demand of a call of a @pedantic (or @require_kwargs)
   callable, written from the texts, not from the code.  Everything is phrased over CPython's own
   binding of the call (Base/PyCall.v), the conformance relation of the checker properties
   (Spec/Conforms.v) and the ground-truth fields of `fn` / `call` (is it a setter, is there an
   implicit receiver, what would the undecorated callable receive); the text flags and the
   heuristics of the implementation do not occur here.  Executable, evaluated next to the model
   by the harness as the oracle.                                                              *)
From Coq Require Import List Arith Bool String.
From PV Require Import Base.Exn Base.Values Base.Ann Base.PyCall Spec.Conforms Model.CheckerCfg Model.Pedantic.
Import ListNotations.
Open Scope list_scope.

(* the documented list of dunder methods that must be called with keywords
   (docs of the package: "FUNCTIONS_THAT_REQUIRE_KWARGS") *)
Definition documented_kwargs_dunders : list string :=
  ["__new__"; "__init__"; "__str__"; "__del__"; "__int__"; "__float__"; "__complex__"; "__oct__"; "__hex__";
   "__index__"; "__trunc__"; "__repr__"; "__unicode__"; "__hash__"; "__nonzero__"; "__dir__"; "__sizeof__"]%string.

Definition is_dunder (s : string) : bool := String.prefix dunder s && ends_with s dunder.

(* C05: "Operator/dunder methods outside the documented list and property setters are exempt" *)
Definition exempt (f : fn) : bool :=
  f_setter f || (is_dunder (f_name f) && negb (existsb (String.eqb (f_name f)) documented_kwargs_dunders)).

(* all parameters of the undecorated callable, the implicit receiver first if there is one *)
Definition full_params (f : fn) : list param := func_params f.
Definition receiver_name (f : fn) : option pname :=
  if f_recv f then match full_params f with p :: _ => Some (p_name p) | [] => None end else None.
Definition declared (f : fn) : list param := if f_recv f then tl (full_params f) else full_params f.

Fixpoint find_param (n : pname) (ps : list param) : option param :=
  match ps with
  | [] => None
  | p :: ps' => if Nat.eqb (p_name p) n then Some p else find_param n ps'
  end.

Definition src_value (f : fn) (c : call) (s : src) : option value :=
  match s with
  | SObj v => Some v
  | SArg i => nth_error (c_args c) i
  | SKw k => kw_get k (c_kwargs c)
  | SDefault k => match find_param k (full_params f) with Some p => p_default p | None => None end
  end.

Definition opt_list {A} (o : option A) : list A := match o with Some a => [a] | None => [] end.

(* CPython's binding of the call as the caller wrote it, against the undecorated callable *)
Definition twin_binding (f : fn) (c : call) : outcome binding :=
  py_bind (full_params f) (twin_pos c) (kw_names c).

(* the supplied values the statement of C03 names: explicit keywords, omitted-but-defaulted
   parameters, elements of *args, values of **kwargs; each with the annotation it is declared under.
   (Positional values bound to named parameters are `positional_values` below: c03_positional_bad.) *)
Definition supplied_of (f : fn) (c : call) (b : binding) : list (option ann * value) :=
  flat_map (fun ns =>
    match find_param (fst ns) (declared f) with
    | None => []                                            (* the implicit receiver *)
    | Some p =>
        match snd ns with
        | BOne (SKw k) => map (fun v => (p_ann p, v)) (opt_list (kw_get k (c_kwargs c)))
        | BOne (SDefault _) => map (fun v => (p_ann p, v)) (opt_list (p_default p))
        | BOne _ => []
        | BStar l => flat_map (fun s => match s with
                                        | SArg i => map (fun v => (p_ann p, v)) (opt_list (nth_error (c_args c) i))
                                        | _ => []                     (* an implicit receiver is not a supplied argument *)
                                        end) l
        | BKws ks => flat_map (fun k => map (fun v => (p_ann p, v)) (opt_list (kw_get k (c_kwargs c)))) ks
        end
    end) b.

Section Spec.
  Variable ctx : nat -> option cls.

  Definition bad (oa : option ann) (v : value) : bool :=
    match oa with Some a => supported ctx a && is_mustnot (conforms ctx a v) | None => false end.
  Definition good (oa : option ann) (v : value) : bool :=
    match oa with Some a => supported ctx a && is_must (conforms ctx a v) | None => false end.

  (* the value assigned through a property (obj.p = x) is the one explicit argument of the setter *)
  Definition setter_value_bad (f : fn) (c : call) : bool :=
    f_setter f && match declared f, c_args c with
                  | [p], [x] => bad (p_ann p) x
                  | _, _ => false
                  end.

  (* C03, first sentence: some supplied value does not conform *)
  Definition c03_supplied_bad (f : fn) (c : call) : bool :=
    match twin_binding f c with
    | Ok b => existsb (fun av => bad (fst av) (snd av)) (supplied_of f c b)
    | Raise _ => false
    end.
  (* C03, second sentence: the produced value does not conform to the return annotation *)
  Definition c03_result_bad (f : fn) (v : value) : bool := bad (f_ret f) v.

  (* every declared parameter that has a name is passed by keyword (or left to its default): positional values
     written by the caller, if any, all land in *args *)
  Definition named_by_keyword (f : fn) (b : binding) : bool :=
    forallb (fun ns => match find_param (fst ns) (declared f), snd ns with
                       | Some _, BOne (SArg _) => false
                       | _, _ => true
                       end) b.

  (* C04: a conforming keyword call: CPython accepts it, no declared parameter is passed positionally (unless the function
     declares *args), every declared parameter is annotated and every value the caller supplied conforms *)
  (* positional values the caller wrote for declared parameters that have a name (only functions that declare *args, the
     exempt dunder methods and property setters may be called like that: C05) *)
  Definition positional_values (f : fn) (c : call) (b : binding) : list (option ann * value) :=
    flat_map (fun ns => match find_param (fst ns) (declared f), snd ns with
                        | Some p, BOne (SArg i) => map (fun v => (p_ann p, v)) (opt_list (nth_error (c_args c) i))
                        | _, _ => []
                        end) b.

  (* ... "whichever parameter position it is in": a positional value CPython binds to a named parameter counts as well *)
  Definition c03_positional_bad (f : fn) (c : call) : bool :=
    match twin_binding f c with
    | Ok b => existsb (fun av => bad (fst av) (snd av)) (positional_values f c b)
    | Raise _ => false
    end.
  (* any value of the call, whichever way it reaches its parameter *)
  Definition c03_values_bad (f : fn) (c : call) : bool := c03_supplied_bad f c || c03_positional_bad f c.
  Definition c03_args_bad (f : fn) (c : call) : bool := c03_supplied_bad f c || setter_value_bad f c || c03_positional_bad f c.

  Definition c04_args_ok (f : fn) (c : call) : bool :=
    match twin_binding f c with
    | Ok b => (named_by_keyword f b || has_varpos (full_params f) || exempt f)
              && forallb (fun av => good (fst av) (snd av)) (supplied_of f c b)
              && forallb (fun av => good (fst av) (snd av)) (positional_values f c b)
    | Raise _ => false
    end
    && forallb (fun p => match p_ann p with Some a => supported ctx a | None => false end) (declared f).
  (* ... and the return annotation is in the vocabulary (generator functions: the annotation is typing.Generator /
     Iterator / Iterable, judged by its yield / send / return types instead) *)
  Definition c04_call_ok (f : fn) (c : call) : bool :=
    c04_args_ok f c && match f_ret f with Some a => supported ctx a | None => false end.
  Definition c04_result_ok (f : fn) (r : outcome value) : bool :=
    match r with Ok v => good (f_ret f) v | Raise _ => true end.

  (* C05: no *args parameter, k >= 1 declared parameters passed positionally in an otherwise valid call,
     not exempt *)
  Definition c05_positional (f : fn) (c : call) : bool :=
    negb (has_varpos (full_params f)) && negb (is_nil (c_args c)) && negb (exempt f)
    && match twin_binding f c with Ok _ => true | Raise _ => false end.
End Spec.

(* no one-shot iterator anywhere in the values the caller wrote (guard of the K1 finding) *)
Fixpoint has_iter (v : value) : bool :=
  let fix any (l : list value) : bool := match l with [] => false | x :: l' => has_iter x || any l' end in
  let fix anyp (l : list (value * value)) : bool :=
    match l with [] => false | (a, b) :: l' => has_iter a || has_iter b || anyp l' end in
  match v with
  | VIter _ => true
  | VList l | VTuple l | VSet l | VFrozenSet l | VDeque l | VKeysView l | VValuesView l => any l
  | VDict kvs | VDefaultDict kvs | VOrderedDict kvs | VItemsView kvs => anyp kvs
  | _ => false
  end.
(* no supplied value contains a one-shot iterator the check under its annotation goes through, at any depth (guard of the K1
   finding; Model.Pedantic.consumes_model follows the traversal of the checker) *)
Definition no_iterator_consumed (cfg : checker_cfg) (f : fn) (c : call) : bool :=
  match twin_binding f c with
  | Ok b => forallb (fun av => match fst av with Some a => negb (consumes_model cfg a (snd av)) | None => true end)
                   (supplied_of f c b ++ positional_values f c b)
  | Raise _ => true
  end.
(* ... nor does the value the body returns, under the return annotation *)
Definition result_intact (cfg : checker_cfg) (f : fn) (r : outcome value) : bool :=
  match f_ret f, r with
  | Some a, Ok v => negb (consumes_model cfg a v)
  | _, _ => true
  end.

Definition no_oneshot_iter (f : fn) (c : call) : bool :=
  forallb (fun v => negb (has_iter v)) (c_args c)
  && forallb (fun kv => negb (has_iter (snd kv))) (c_kwargs c)
  && forallb (fun p => match p_default p with Some d => negb (has_iter d) | None => true end) (f_params f).
