(* C07: TypeVar consistency, written from the property text (not from the code).

   Per call: collect, for every TypeVar of the signature, the values matched against it -
   across parameters, nested positions and the return value.  All of one identical class:
   must be accepted (constraints: the exact class is one of the constraints; bound:
   isinstance).  Two of unrelated classes: must be rejected, with
   PedanticTypeVarMismatchException.  Subclass-related but not identical: no oracle.
   Per instance Cls[X]: a position annotated with the class's type variable T accepts v iff v
   conforms to X.  Histories: the verdict of a step is a function of that step and of the
   X's of the addressed instance only - the specification of a history never looks at
   earlier calls.                                                                        *)
From Coq Require Import List Arith Bool ZArith.
From PV Require Import Base.Exn Base.Values Base.Ann Spec.Conforms.
Import ListNotations.

Definition is_tv (a : ann) : bool := match a with ATypeVar _ => true | _ => false end.

(* the structural part of an annotation: every TypeVar is a wildcard *)
Fixpoint erase (a : ann) : ann :=
  match a with
  | ATypeVar _ => AAny
  | AUnion sp args => AUnion sp (map erase args)
  | AGeneric sp o args => AGeneric sp o (map erase args)
  | ATupleVar sp e => ATupleVar sp (erase e)
  | ANewType s => ANewType (erase s)
  | x => x
  end.

(* annotations that mention no TypeVar at a position the checker looks at *)
Fixpoint inert (a : ann) : bool :=
  match a with
  | ATypeVar _ => false
  | AUnion _ args => forallb inert args
  | AGeneric _ _ args => forallb inert args
  | ATupleVar _ e => inert e
  | ANewType s => inert s
  | _ => true
  end.

(* a value matched against a TypeVar; bare = the whole parameter / result is annotated with the
   TypeVar; under_union = the position is a member of a Union / Optional *)
Record mpos := { mp_tv : tvar; mp_val : value; mp_bare : bool; mp_union : bool }.

Definition plain_member (a : ann) : bool := match a with ACls c => plain_cls_ok c | _ => false end.

(* the vocabulary for which this specification gives an oracle: TypeVars occur bare, as
   arguments (to any depth) of the element-wise / mapping / tuple generics, or as the only TypeVar
   member of a Union / Optional whose other members are plain classes *)
Fixpoint tv_vocab (a : ann) : bool :=
  if inert a then true else
  match a with
  | ATypeVar _ => true
  | AGeneric _ o args =>
      match origin_kind o with
      | KElems | KMapping | KItems | KTuple => arity_ok o (List.length args) && forallb tv_vocab args
      | _ => false
      end
  | ATupleVar _ e => tv_vocab e
  | AUnion _ args =>
      Nat.eqb (List.length (filter is_tv args)) 1 && forallb (fun m => is_tv m || plain_member m) args
  | _ => false
  end.

(* a generic member of a Union that mentions TypeVars: Optional[List[T]], Union[Dict[str, T], int] *)
Definition generic_tv_member (a : ann) : bool :=
  negb (inert a) && match a with AGeneric _ _ _ | ATupleVar _ _ => true | _ => false end.

(* the wider vocabulary of the executable oracle: additionally Unions of plain classes and ONE generic
   member with TypeVars (the theorems of Props/C07.v cover tv_vocab; for this shape see
   C07_union_generic_member) *)
Fixpoint tv_vocab_x (a : ann) : bool :=
  if inert a then true else
  match a with
  | ATypeVar _ => true
  | AGeneric _ o args =>
      match origin_kind o with
      | KElems | KMapping | KItems | KTuple => arity_ok o (List.length args) && forallb tv_vocab_x args
      | _ => false
      end
  | ATupleVar _ e => tv_vocab_x e
  | AUnion _ args =>
      (Nat.eqb (List.length (filter is_tv args)) 1 && forallb (fun m => is_tv m || plain_member m) args)
      || (Nat.eqb (List.length (filter is_tv args)) 0 && Nat.eqb (List.length (filter generic_tv_member args)) 1
          && forallb (fun m => plain_member m || (generic_tv_member m && tv_vocab_x m)) args)
  | _ => false
  end.

Definition plain_match (v : value) (m : ann) : bool := match m with ACls c => isinstance v c | _ => false end.

Section Spec.
  Variable ctx : nat -> option cls.

  Fixpoint matched (bare : bool) (a : ann) (v : value) : list mpos :=
    let fix zipm (l : list ann) (vs : list value) : list mpos :=
      match l, vs with
      | a0 :: l', v0 :: vs' => matched false a0 v0 ++ zipm l' vs'
      | _, _ => []
      end in
    match a with
    | ATypeVar t => [{| mp_tv := t; mp_val := v; mp_bare := bare; mp_union := false |}]
    | AGeneric _ o args =>
        match origin_kind o, args with
        | KElems, [a0] =>
            if abc_instance o (class_of v)
            then match iter_values v with Some l => flat_map (matched false a0) l | None => [] end
            else []
        | KMapping, [ka; va] =>
            if abc_instance o (class_of v)
            then match items_of v with
                 | Some kvs => flat_map (fun kv => matched false ka (fst kv) ++ matched false va (snd kv)) kvs
                 | None => []
                 end
            else []
        | KItems, [ka; va] =>
            match pairs_of v with
            | Some kvs => flat_map (fun kv => matched false ka (fst kv) ++ matched false va (snd kv)) kvs
            | None => []
            end
        | KTuple, _ =>
            match v with
            | VTuple vs => if Nat.eqb (List.length vs) (List.length args) then zipm args vs else []
            | _ => []
            end
        | _, _ => []
        end
    | ATupleVar _ e => match v with VTuple vs => flat_map (matched false e) vs | _ => [] end
    | AUnion _ args =>
        (* a member that is a plain class takes the value if it is an instance; otherwise the
           value is matched against the TypeVar member *)
        if existsb (fun m => match m with ACls c => isinstance v c | _ => false end) args then []
        else match filter is_tv args with
             | [ATypeVar t] => [{| mp_tv := t; mp_val := v; mp_bare := false; mp_union := true |}]
             | [] =>
                 (* no TypeVar member: the positions of the one generic member that mentions TypeVars
                    (every member is tried; what it binds stays bound) *)
                 if Nat.eqb (List.length (filter generic_tv_member args)) 1
                 then flat_map (fun m => if generic_tv_member m then matched false m v else []) args
                 else []
             | _ => []
             end
    | _ => []
    end.

  (* Unions with a generic member: the oracle speaks only where the reading is unambiguous - the value
     reaches no TypeVar position of that member, or the member structurally accepts the value and no
     plain-class member accepts it as well (then the value IS matched against the member's TypeVars) *)
  Fixpoint union_clear (a : ann) (v : value) : bool :=
    let fix zipc (l : list ann) (vs : list value) : bool :=
      match l, vs with
      | a0 :: l', v0 :: vs' => union_clear a0 v0 && zipc l' vs'
      | _, _ => true
      end in
    match a with
    | AGeneric _ o args =>
        match origin_kind o, args with
        | KElems, [a0] =>
            if abc_instance o (class_of v)
            then match iter_values v with Some l => forallb (union_clear a0) l | None => true end
            else true
        | KMapping, [ka; va] =>
            if abc_instance o (class_of v)
            then match items_of v with
                 | Some kvs => forallb (fun kv => union_clear ka (fst kv) && union_clear va (snd kv)) kvs
                 | None => true
                 end
            else true
        | KItems, [ka; va] =>
            match pairs_of v with
            | Some kvs => forallb (fun kv => union_clear ka (fst kv) && union_clear va (snd kv)) kvs
            | None => true
            end
        | KTuple, _ =>
            match v with
            | VTuple vs => if Nat.eqb (List.length vs) (List.length args) then zipc args vs else true
            | _ => true
            end
        | _, _ => true
        end
    | ATupleVar _ e => match v with VTuple vs => forallb (union_clear e) vs | _ => true end
    | AUnion _ args =>
        match filter is_tv args with
        | [] =>
            forallb (fun m => if generic_tv_member m
                              then match matched false m v with
                                   | [] => true
                                   | _ => is_must (conforms ctx (erase m) v) && negb (existsb (plain_match v) args)
                                          && union_clear m v
                                   end
                              else true) args
        | _ => true
        end
    | _ => true
    end.

  Definition related (c d : cls) : bool := subclass c d || subclass d c.
  Fixpoint pairwise_related (l : list cls) : bool :=
    match l with [] => true | c :: l' => forallb (related c) l' && pairwise_related l' end.

  Definition tv_admits (t : tvar) (v : value) : bool :=
    (match tv_constraints t with [] => true | cs => existsb (cls_eqb (class_of v)) cs end)
    && (match tv_bound t with Some b => isinstance v b | None => true end).

  Definition all_same (l : list cls) : bool :=
    match l with [] => true | c :: cs => forallb (cls_eqb c) cs end.

  (* per call: the values matched against one TypeVar *)
  Definition call_rule (t : tvar) (vs : list value) : verdict :=
    if negb (forallb (tv_admits t) vs) then MustNot
    else if all_same (map class_of vs) then Must
    else if pairwise_related (map class_of vs) then Unspec else MustNot.

  (* per instance Cls[X]: the values matched against the class's type variable bound to X *)
  (* every value matched against the class's type variable - as the whole position or nested in it -
     must conform to X; where all do: positions that are T as a whole are independent of each other,
     values nested in containers additionally fall under the per-call rule (identical classes: Must,
     otherwise no oracle) *)
  Definition inst_rule (x : ann) (t : tvar) (ps : list mpos) : verdict :=
    match all3 (map (fun p => conforms ctx x (mp_val p)) ps) with
    | MustNot => MustNot
    | Must =>
        if negb (forallb (fun p => tv_admits t (mp_val p)) ps) then Unspec      (* X outside T's own constraints *)
        else if forallb mp_bare ps then Must
        else if all_same (map (fun p => class_of (mp_val p)) ps) then Must else Unspec
    | Unspec => Unspec
    end.

  Fixpoint nodup_ids (l : list nat) : list nat :=
    match l with [] => [] | x :: l' => x :: filter (fun y => negb (Nat.eqb x y)) (nodup_ids l') end.

  Fixpoint zip_av (l : list ann) (vs : list value) : list (ann * value) :=
    match l, vs with a :: l', v :: vs' => (a, v) :: zip_av l' vs' | _, _ => [] end.

  Definition first_tv (ps : list mpos) (i : nat) : option tvar :=
    match filter (fun p => Nat.eqb (tv_id (mp_tv p)) i) ps with p :: _ => Some (mp_tv p) | [] => None end.

  (* verdict of one call.  `xenv i` = the X the class-level TypeVar i of the addressed generic
     instance stands for (None: a TypeVar of the call).  positions = parameters and result. *)
  Definition call_spec (xenv : nat -> option ann) (positions : list ann) (vals : list value) : verdict :=
    if negb (Nat.eqb (List.length positions) (List.length vals)) then Unspec else
    let pv := zip_av positions vals in
    let structure := all3 (map (fun p => conforms ctx (erase (fst p)) (snd p)) pv) in
    let vocab := if forallb tv_vocab positions then Must
                 else if forallb tv_vocab_x positions && forallb (fun p => union_clear (fst p) (snd p)) pv then Must else Unspec in
    let ms := flat_map (fun p => matched true (fst p) (snd p)) pv in
    let per_tv := map (fun i =>
                         let mine := filter (fun p => Nat.eqb (tv_id (mp_tv p)) i) ms in
                         match first_tv ms i with
                         | None => Must
                         | Some t => match xenv i with
                                     | Some x => inst_rule x t mine
                                     | None => call_rule t (map mp_val mine)
                                     end
                         end) (nodup_ids (map (fun p => tv_id (mp_tv p)) ms)) in
    all3 (structure :: vocab :: per_tv).

  (* must the rejection be a PedanticTypeVarMismatchException?  Only claimed where nothing else is
     wrong: structure conforms, constraints and bounds hold, no class-level TypeVar and no Union
     position is involved *)
  Definition must_be_mismatch (xenv : nat -> option ann) (positions : list ann) (vals : list value) : bool :=
    let pv := zip_av positions vals in
    let ms := flat_map (fun p => matched true (fst p) (snd p)) pv in
    Nat.eqb (List.length positions) (List.length vals)
    && forallb tv_vocab positions
    && is_must (all3 (map (fun p => conforms ctx (erase (fst p)) (snd p)) pv))
    && forallb (fun p => tv_admits (mp_tv p) (mp_val p) && negb (mp_union p)
                         && match xenv (tv_id (mp_tv p)) with None => true | Some _ => false end) ms
    && is_mustnot (call_spec xenv positions vals).
End Spec.

(* ---- histories: only the creation step of an instance is remembered (its class and X's) ------- *)
From PV Require Import Model.GenericInstance.

Section HistorySpec.
  Variable ctx : nat -> option cls.

  Definition xenv_none : nat -> option ann := fun _ => None.
  Fixpoint xenv_of (ids : list nat) (xs : list ann) : nat -> option ann :=
    match ids, xs with
    | i :: ids', x :: xs' => fun j => if Nat.eqb i j then Some x else xenv_of ids' xs' j
    | _, _ => fun _ => None
    end.

  Definition created := list (nat * (nat * list ann)).     (* slot -> (class, X's) *)
  Fixpoint cr_get (c : created) (s : nat) : option (nat * list ann) :=
    match c with [] => None | (k, x) :: c' => if Nat.eqb s k then Some x else cr_get c' s end.

  Definition sig_positions (sg : msig) : list ann := ms_params sg ++ [ms_ret sg].

  (* verdict of a step; None = the step addresses something that does not exist *)
  Definition step_spec (w : world) (c : created) (s : step) : option (verdict * bool) :=
    match s with
    | SFun f args ret =>
        match nth_error (w_funs w) f with
        | Some sg => Some (call_spec ctx xenv_none (sig_positions sg) (args ++ [ret]),
                           must_be_mismatch ctx xenv_none (sig_positions sg) (args ++ [ret]))
        | None => None
        end
    | SNew _ k _ args =>
        match nth_error (w_classes w) k with
        | Some cd =>
            match cd_init cd with
            | Some sg => Some (call_spec ctx xenv_none (sig_positions sg) (args ++ [VNone]),
                               must_be_mismatch ctx xenv_none (sig_positions sg) (args ++ [VNone]))
            | None => Some (Must, false)
            end
        | None => None
        end
    | SCall slot m args ret =>
        match cr_get c slot with
        | Some (k, xs) =>
            match nth_error (w_classes w) k with
            | Some cd =>
                match nth_error (cd_methods cd) m with
                | Some sg =>
                    let xenv := xenv_of (cd_tparams cd) xs in
                    Some (call_spec ctx xenv (sig_positions sg) (args ++ [ret]),
                          must_be_mismatch ctx xenv (sig_positions sg) (args ++ [ret]))
                | None => None
                end
            | None => None
            end
        | None => None
        end
    end.
End HistorySpec.
