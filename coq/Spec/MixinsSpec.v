(* C20 - specification, written from the property text (properties.jsonl), not from the code.

   "For a class that declares Generic[T1..Tn] together with GenericMixin and is instantiated as
    Cls[X1..Xn](), type_vars is exactly {Ti: Xi} (type_var is X1 when n = 1); the same holds for
    subclasses that bind all parameters of their generic base, including under multiple
    inheritance, and use on a non-generic class or an unparametrised instance raises
    AssertionError instead of returning wrong data.  get_decorated_functions returns, for every
    member of the DecoratorType enum, exactly the bound methods that were decorated through
    create_decorator together with the decorator argument - nothing missing, nothing extra - and
    a custom transformation receives (function, type, value)."

   The vocabulary of type arguments is irrelevant to the statement: type arguments and TypeVars
   are opaque values that are only compared for equality.                                       *)
From Coq Require Import List ZArith Bool String.
From PV Require Import Base.Exn Model.Mixins.
Import ListNotations.
Open Scope string_scope.
Open Scope list_scope.

(* ------------------------------------------------------------------------------------------ *)
(* Part A: type arguments                                                                     *)

(* what the class statement looked like, and how the instance was made *)
Inductive shape :=
| ShDirect (tvs : list val) (args : option (list val))
    (* class C(<mixins>, Generic[tvs], GenericMixin, <mixins>), or a plain subclass of it;
       Some xs: the instance is C[xs]();  None: C() or still inside __init__ *)
| ShBinding (tvs xs : list val)
    (* class S(<mixins>, D[xs], <mixins>) where D declares Generic[tvs] (or a plain subclass of S,
       with further mixin bases); any way of making the instance, also inside __init__ *)
| ShNonGeneric
    (* GenericMixin used without any generic base *)
| ShOther.
    (* everything the statement does not speak about (partially binding subclasses ...) *)

Inductive expect :=
| ExpDict (kvs : list (val * val))    (* exactly this mapping *)
| ExpAssertion                        (* AssertionError *)
| ExpNothing.                         (* the statement is silent *)

Definition spec_type_vars (s : shape) : expect :=
  match s with
  | ShDirect tvs (Some xs) => ExpDict (combine tvs xs)
  | ShDirect _ None => ExpAssertion
  | ShBinding tvs xs => ExpDict (combine tvs xs)
  | ShNonGeneric => ExpAssertion
  | ShOther => ExpNothing
  end.

(* dict equality, independent of order: same size, every expected key maps to the expected value *)
Definition same_dict (d e : list (val * val)) : bool :=
  Nat.eqb (List.length d) (List.length e) &&
  forallb (fun kv => match dict_get (fst kv) d with Some v => val_eqb v (snd kv) | None => false end) e.

Definition meets (r : outcome val) (e : expect) : bool :=
  match e, r with
  | ExpNothing, _ => true
  | ExpDict kvs, Ok (VDict d) => same_dict d kvs
  | ExpAssertion, Raise ex => derives ex AssertionErrorC
  | _, _ => false
  end.

(* type_var: X1 when n = 1; with several parameters it is documented to refuse ("Use this for convenience if
   your class has only one type parameter", an assert): AssertionError, never one of the arguments;
   AssertionError also where type_vars has to raise it *)
Inductive expect1 := Exp1Val (x : val) | Exp1Assertion | Exp1Nothing.

Definition spec_type_var (s : shape) : expect1 :=
  match spec_type_vars s with
  | ExpDict [(_, x)] => Exp1Val x
  | ExpDict _ => Exp1Assertion
  | ExpAssertion => Exp1Assertion
  | ExpNothing => Exp1Nothing
  end.

Definition meets1 (r : outcome val) (e : expect1) : bool :=
  match e, r with
  | Exp1Nothing, _ => true
  | Exp1Val x, Ok v => val_eqb v x
  | Exp1Assertion, Raise ex => derives ex AssertionErrorC
  | _, _ => false
  end.

(* The supported class shapes as facts about a world (what CPython leaves behind after the class
   statements).  `lookup_ob w c` is the value of the attribute lookup C.__orig_bases__ through
   the MRO. *)
Definition is_plain (v : val) : bool := match v with VCls _ => true | _ => false end.
Definition is_base (v : val) : bool := match v with VCls _ | VAlias _ _ => true | _ => false end.
Definition is_generic_alias (v : val) : bool := match v with VAlias VGeneric _ => true | _ => false end.

(* TypeVars of one Generic[...] are pairwise distinct (typing enforces it) *)
Fixpoint distinct_keys (seen ks : list val) : bool :=
  match ks with
  | [] => true
  | k :: r => forallb (fun k' => negb (val_eqb k' k)) seen && distinct_keys (seen ++ [k]) r
  end.

(* bases = <anything but Generic[..]> ++ Generic[ts] :: <anything> *)
Definition declares_generic (bases : list val) (ts : list val) : Prop :=
  exists pre post, bases = pre ++ VAlias VGeneric ts :: post /\
                   forallb is_base (pre ++ post) = true /\ existsb is_generic_alias pre = false.

(* shape 1: the class (or the first class on its MRO that has __orig_bases__) declares Generic[ts] *)
Definition direct_generic (w : world) (c : nat) (ts : list val) : Prop :=
  exists bases, lookup_ob w c = Some bases /\ declares_generic bases ts /\ distinct_keys [] ts = true.

(* shapes 2 and 3 ("subclasses that bind all parameters of their generic base, including under multiple
   inheritance").  The __orig_bases__ found for the class are
     <extra bases> ++ D[xs] :: <further bases, none of them Generic[..]>
   where D[xs] is the first parametrised base whose origin uses the mixin (the mixin class is on D's MRO) and every
   extra base in front of it is a class or a parametrised base that has nothing to do with the mixin (List[int],
   P[int] with a generic class P that does not use the mixin; "extra mixin bases in any order").  D got its
   parameters either by declaring Generic[ts] itself, or through a chain of forwarding / partially binding classes
       class A(Generic[T, U], GenericMixin);  class Half(A[int, U]);  class Full(Half[str])
   and the demanded mapping is the one of the declaring class with the alias arguments substituted along the
   chain ({T: int, U: str} for Full).  `resolve` computes it: the parameters of an intermediate class are its
   __parameters__ (CPython: the TypeVars among the arguments of its parametrised bases, in order of first
   appearance; read back from the real classes).  Out of fuel / any other layout: no claim (None).
   (False before fix 645b1a0 for chains of length >= 2: findings K-C20-forwarding-chain,
   K-C20-partially-binding-chain.) *)
Definition foreign (w : world) (v : val) : bool :=
  match v with VAlias (VCls p) _ => negb (uses_mixin w p) | _ => false end.

Definition front_ok (w : world) (v : val) : bool :=
  match v with VCls _ => true | _ => foreign w v end.

Fixpoint first_generic_args (bases : list val) : option (list val) :=
  match bases with
  | [] => None
  | VAlias VGeneric ts :: _ => Some ts
  | _ :: r => first_generic_args r
  end.

(* the first parametrised base whose origin uses the mixin: (origin, arguments, bases in front, bases behind) *)
Fixpoint binding_base (w : world) (front bases : list val) : option (nat * list val * list val * list val) :=
  match bases with
  | VAlias (VCls d) xs :: post =>
      if uses_mixin w d then Some (d, xs, front, post) else binding_base w (front ++ [VAlias (VCls d) xs]) post
  | b :: r => binding_base w (front ++ [b]) r
  | [] => None
  end.

Section Resolve.
  Variable w : world.

  Definition subst (ps zs : list val) (y : val) : val :=
    match dict_get y (combine ps zs) with Some z => z | None => y end.

  (* (TypeVars of the declaring class, arguments resolved along the chain) *)
  Fixpoint resolve (fuel : nat) (d : nat) (xs : list val) : option (list val * list val) :=
    match fuel with
    | O => None
    | S f =>
      match lookup_ob w d with
      | None => None
      | Some bases =>
        if negb (forallb is_base bases) then None else
        match first_generic_args bases with
        | Some ts => Some (ts, xs)
        | None =>
            match binding_base w [] bases, class_params w d with
            | Some (d', ys, front, post), Some ps =>
                if forallb is_plain front && forallb is_plain post && Nat.eqb (List.length ps) (List.length xs) &&
                   distinct_keys [] ps
                then resolve f d' (map (subst ps xs) ys) else None
            | _, _ => None
            end
        end
      end
    end.
End Resolve.

(* the TypeVars of the world: the type parameters (__parameters__) of its classes *)
Definition is_param (w : world) (v : val) : bool :=
  existsb (fun cr => existsb (fun p => val_eqb p v) (c_params (snd cr))) (w_classes w).

(* `fuel`: the length of the chain (1: D declares Generic[..] itself).  The subclass binds all parameters: no resolved
   argument is a TypeVar of the world *)
Definition chain_binding (w : world) (fuel : nat) (c : nat) (ts xs : list val) : Prop :=
  exists pre d zs post, lookup_ob w c = Some (pre ++ VAlias (VCls d) zs :: post) /\
    forallb (front_ok w) pre = true /\ uses_mixin w d = true /\
    forallb is_base post = true /\ existsb is_generic_alias post = false /\
    resolve w fuel d zs = Some (ts, xs) /\ distinct_keys [] ts = true /\ forallb (fun x => negb (is_param w x)) xs = true.

(* chains of length 1: the binding base declares Generic[ts] itself *)
Definition binding_subclass (w : world) (c : nat) (ts xs : list val) : Prop :=
  exists pre d post, lookup_ob w c = Some (pre ++ VAlias (VCls d) xs :: post) /\
                     forallb (front_ok w) pre = true /\ uses_mixin w d = true /\
                     forallb is_base post = true /\ existsb is_generic_alias post = false /\ direct_generic w d ts.

(* multiple inheritance / plain subclasses: class c has no __orig_bases__ of its own, classes
   `before` precede class s on its MRO and have none either (plain mixins), s has `bases` *)
Definition inherits_bases_of (w : world) (c s : nat) (before after : list nat) : Prop :=
  exists r, find_cls c (w_classes w) = Some r /\ c_mro r = before ++ s :: after /\
            forallb (fun m => match own_ob w m with None => true | Some _ => false end) before = true.

(* Executable forms of the shape facts (the harness evaluates them on the class layout it reads
   back from CPython; Proofs/MixinsProofs.v proves each of them sufficient for its Prop).
   Type arguments and TypeVars are tokens there. *)
Definition tok_eqb (a b : val) : bool := match a, b with VTok x, VTok y => Nat.eqb x y | _, _ => false end.
Definition toks_eqb (a b : list val) : bool := list_eqb tok_eqb a b.


Definition direct_generic_b (w : world) (c : nat) (ts : list val) : bool :=
  match lookup_ob w c with
  | Some bases => forallb is_base bases && distinct_keys [] ts &&
                  match first_generic_args bases with Some ts' => toks_eqb ts' ts | None => false end
  | None => false
  end.

Fixpoint binding_scan (w : world) (bases : list val) (ts xs : list val) : bool :=
  match bases with
  | VCls _ :: r => binding_scan w r ts xs
  | VAlias (VCls d) xs' :: post =>
      if foreign w (VAlias (VCls d) xs') then binding_scan w post ts xs
      else toks_eqb xs' xs && forallb is_base post && negb (existsb is_generic_alias post) && direct_generic_b w d ts
  | _ => false
  end.

Definition binding_subclass_b (w : world) (c : nat) (ts xs : list val) : bool :=
  match lookup_ob w c with Some bases => binding_scan w bases ts xs | None => false end.

(* executable form of chain_binding: the mapping `resolve` yields is the one the driver expects *)
Definition chain_bases_b (w : world) (fuel : nat) (bases : list val) (ts xs : list val) : bool :=
  match binding_base w [] bases with
  | Some (d, zs, front, post) =>
      forallb (front_ok w) front && forallb is_base post && negb (existsb is_generic_alias post) &&
      match resolve w fuel d zs with
      | Some (ts', xs') => toks_eqb ts' ts && toks_eqb xs' xs && distinct_keys [] ts && forallb (fun x => negb (is_param w x)) xs
      | None => false
      end
  | None => false
  end.

Definition chain_binding_b (w : world) (fuel : nat) (c : nat) (ts xs : list val) : bool :=
  match lookup_ob w c with Some bases => chain_bases_b w fuel bases ts xs | None => false end.

(* ----- full statements that are FALSE on the pinned tree (open findings), as executable predicates ----- *)

(* "non-generic class": neither Generic[..] nor a parametrised base that uses the mixin among the __orig_bases__ found
   (none found at all, or only classes and parametrised bases that have nothing to do with the mixin).
   Demanded: AssertionError.  Proved for "none found" (lookup_ob = None); with a foreign parametrised base
   (class N1(List[int], GenericMixin)) _get_types raises AttributeError: K-C20-nongeneric-foreign-base *)
Definition non_generic_b (w : world) (c : nat) : bool :=
  match lookup_ob w c with None => true | Some bs => forallb (front_ok w) bs end.

(* "unparametrised instance": the class of the instance has type parameters and the instance no __orig_class__.
   Demanded: AssertionError.  Proved for a class that declares Generic[..] (direct_generic); for a forwarding /
   partially binding class (class Mid(A[T]); Mid()) type_vars returns {T: T}: K-C20-unparametrised-forwarding *)
Definition has_params_b (w : world) (c : nat) : bool :=
  match class_params w c with Some (_ :: _) => true | _ => false end.

(* "extra mixin bases in any order", one inheritance level lower: on the MRO of the class, in front of the class s
   whose class statement binds the parameters, there may be classes without __orig_bases__ of their own and classes
   all of whose __orig_bases__ are classes or parametrised bases that have nothing to do with the mixin
   (class Extra(List[int]); class S(D[str]); class S2(Extra, S)).  Demanded: the mapping of s.
   Proved when the classes in front have no __orig_bases__ (inherits_bases_of); with Extra in front _get_types raises
   AttributeError: K-C20-foreign-subclass-first-on-mro *)
Fixpoint mro_chain_b (w : world) (fuel : nat) (mro : list nat) (ts xs : list val) : bool :=
  match mro with
  | [] => false
  | m :: r =>
      match own_ob w m with
      | None => mro_chain_b w fuel r ts xs
      | Some bs => if forallb (front_ok w) bs then mro_chain_b w fuel r ts xs else chain_bases_b w fuel bs ts xs
      end
  end.
Definition mro_chain_binding_b (w : world) (fuel : nat) (c : nat) (ts xs : list val) : bool :=
  match find_cls c (w_classes w) with Some r => mro_chain_b w fuel (c_mro r) ts xs | None => false end.

(* the instance was made as C[xs]() / as C() *)
Definition oc_matches (oc : option val) (args : option (list val)) : Prop :=
  match oc, args with
  | None, None => True
  | Some (VAlias _ xs), Some ys => xs = ys
  | _, _ => False
  end.

Definition oc_matches_b (oc : option val) (args : option (list val)) : bool :=
  match oc, args with
  | None, None => true
  | Some (VAlias _ xs), Some ys => toks_eqb xs ys
  | _, _ => false
  end.

(* "class c, instantiated like oc, has shape s" *)
Inductive shape_holds (w : world) (c : nat) (oc : option val) : shape -> Prop :=
| SH_direct : forall ts args, direct_generic w c ts -> oc_matches oc args -> shape_holds w c oc (ShDirect ts args)
| SH_binding : forall ts xs, binding_subclass w c ts xs -> shape_holds w c oc (ShBinding ts xs)
| SH_non_generic : lookup_ob w c = None -> shape_holds w c oc ShNonGeneric
| SH_other : shape_holds w c oc ShOther.

Definition shape_holds_b (w : world) (c : nat) (oc : option val) (s : shape) : bool :=
  match s with
  | ShDirect ts args => direct_generic_b w c ts && oc_matches_b oc args
  | ShBinding ts xs => binding_subclass_b w c ts xs
  | ShNonGeneric => match lookup_ob w c with None => true | Some _ => false end
  | ShOther => true
  end.

(* ------------------------------------------------------------------------------------------ *)
(* Part B: decorated methods                                                                  *)

(* a class body as a list of definitions (Model.Mixins.mdef).  A definition is a *method* unless
   it is a property / a non-function attribute. *)
Definition is_method (m : mdef) : bool := match m_wrap m with WGetter _ | WProperty _ => false | _ => true end.
Definition all_decos (m : mdef) : list deco := m_inner m ++ m_outer m.

(* {(method, value) | method decorated with t and value} *)
Definition decorated (cd : list mdef) (t : string) : list (nat * val) :=
  flat_map (fun m => map (fun d => (m_id m, d_val d)) (filter (fun d => String.eqb (d_type d) t) (all_decos m)))
           (filter is_method cd).

(* the part of the result that belongs to member t, as (identity of the callable, value) pairs *)
Definition obj_id (v : val) : nat := match v with VObj id _ => id | _ => 0 end.
Definition pairs_of (inner : list (val * val)) : list (nat * val) := map (fun kv => (obj_id (fst kv), snd kv)) inner.

Definition pair_eqb (a b : nat * val) : bool := Nat.eqb (fst a) (fst b) && val_eqb (snd a) (snd b).
Definition subset (a b : list (nat * val)) : bool := forallb (fun x => existsb (pair_eqb x) b) a.

(* executable oracle: every member is a key, nothing else is; per member the reported callables are
   objects (not stray values), and as a set of (callable, value) pairs they are exactly `decorated` *)
Definition spec_decorated_ok (ms : list string) (cd : list mdef) (r : outcome val) : bool :=
  match r with
  | Ok (VDict d) =>
      list_eqb val_eqb (map fst d) (map VStr ms) &&
      forallb (fun t => match dict_get (VStr t) d with
                        | Some (VDict inner) =>
                            forallb (fun kv => match fst kv with VObj _ _ => true | _ => false end) inner &&
                            subset (pairs_of inner) (decorated cd t) && subset (decorated cd t) (pairs_of inner)
                        | _ => false
                        end) ms
  | _ => false
  end.

(* the domain in which the statement makes its claim.  Per definition of the class body:
   - a decoration is an assignment of at most one (hashable) value per member to a method;
   - transformations (if any) hand back something that still is the decorated function;
   - decorators made by create_decorator are applied to functions (their parameter is typed
     C bound=Callable): not written above @classmethod / @staticmethod / @property;
   - properties are arbitrary (their getters may raise or hand out anything); the other non-function class attributes
     are ordinary data that can be read, not objects that carry decorator attributes;
   - `type_var` / `type_vars` are the properties of GenericMixin (not overridden by a method).
   Over the whole body: dir() lists every name once. *)
Definition tr_keeps (d : deco) : bool := match d_tr d with TrNone | TrKeep => true | _ => false end.
Fixpoint nodup_str (l : list string) : bool :=
  match l with [] => true | x :: r => negb (existsb (String.eqb x) r) && nodup_str r end.
Definition simple_val (v : val) : bool :=
  match v with
  | VNone | VBool _ | VInt _ | VStr _ | VTok _ | VTuple _ | VList _ | VDict _ | VObj _ [] => true
  | _ => false
  end.
Definition no_outer (m : mdef) : bool := match m_outer m with [] => true | _ => false end.
(* a property may do anything when read, also raise, and may hand out any object (get_decorated_functions does not
   evaluate properties since fix 3728f44; before: finding K-C20-raising-property).  Other non-function attributes are
   read: ordinary data in the domain; a descriptor that raises when read (functools.cached_property, a custom
   descriptor) is in the domain of the statement as well, but makes get_decorated_functions raise: open finding
   K-C20-raising-descriptor, guard no_raising_getter *)
Definition getter_dom (m : mdef) : bool :=
  match m_wrap m with
  | WProperty _ => no_outer m
  | WGetter (AVal v) => simple_val v && no_outer m
  | WGetter (ARaise _) => no_outer m
  | WGetter (AProp _) => false
  | WClassMethod | WStaticMethod => no_outer m
  | WPlain => true
  end.
Definition raising_getter (m : mdef) : bool := match m_wrap m with WGetter (ARaise _) => true | _ => false end.
Definition getter_ok (m : mdef) : bool := getter_dom m && negb (raising_getter m).
Definition reserved (name : string) : bool := String.eqb name "type_var" || String.eqb name "type_vars".
Definition reserved_ok (m : mdef) : bool := negb (reserved (m_name m)) || negb (is_method m).

Definition value_ok (d : deco) : bool := val_eqb (d_val d) (d_val d).    (* the value can be compared (not a dict) *)

Definition claimed_def (m : mdef) : bool :=
  forallb tr_keeps (all_decos m) && forallb value_ok (all_decos m) && nodup_str (map d_type (all_decos m)) &&
  getter_ok m && reserved_ok m.

Definition claimed (cd : list mdef) : bool :=
  forallb claimed_def cd && nodup_str (map m_name cd).

(* the domain of the statement (claimed = in_domain + no descriptor that raises when read) *)
Definition in_domain_def (m : mdef) : bool :=
  forallb tr_keeps (all_decos m) && forallb value_ok (all_decos m) && nodup_str (map d_type (all_decos m)) &&
  getter_dom m && reserved_ok m.
Definition in_domain (cd : list mdef) : bool := forallb in_domain_def cd && nodup_str (map m_name cd).
Definition no_raising_getter (cd : list mdef) : bool := forallb (fun m => negb (raising_getter m)) cd.

(* two names for one object (alias = m1 in the class body) describe the same object *)
Definition alias_consistent (cd : list mdef) : Prop :=
  forall m1 m2, In m1 cd -> In m2 cd -> is_method m1 = true -> is_method m2 = true -> m_id m1 = m_id m2 ->
    all_decos m1 = all_decos m2.

Fixpoint nodup_nat (l : list nat) : bool :=
  match l with [] => true | x :: r => negb (existsb (Nat.eqb x) r) && nodup_nat r end.

(* known finding K9: get_decorated_functions skips every attribute whose name starts with "__", so a
   decorated method with such a name (__call__, __enter__, a name like __x__) is never reported.
   The guard of the _partial theorem: no decorated method has such a name. *)
Definition dunder (name : string) : bool := String.prefix "__" name.
Definition decorated_dunder (m : mdef) : bool :=
  dunder (m_name m) && is_method m && match all_decos m with [] => false | _ => true end.
Definition no_decorated_dunder (cd : list mdef) : bool := forallb (fun m => negb (decorated_dunder m)) cd.
