(* C01/C02: what it means for a value to conform to an annotation "under runtime typing
   semantics", written from the property text.  Three-valued: `Unspec` exactly where the
   text gives no oracle (a Literal member that is equal but of another class, lambdas /
   built-ins / coroutine functions / partially annotated functions under Callable, names the
   context does not resolve, annotations outside the vocabulary).                          *)
From Coq Require Import List Arith Bool ZArith.
From PV Require Import Base.Exn Base.Values Base.Ann.
Import ListNotations.

Inductive verdict := Must | MustNot | Unspec.

Definition v_of_bool (b : bool) : verdict := if b then Must else MustNot.
Definition is_must (x : verdict) : bool := match x with Must => true | _ => false end.
Definition is_mustnot (x : verdict) : bool := match x with MustNot => true | _ => false end.

(* every element must conform *)
Definition all3 (l : list verdict) : verdict :=
  if existsb is_mustnot l then MustNot else if forallb is_must l then Must else Unspec.
(* some member must conform *)
Definition any3 (l : list verdict) : verdict :=
  if existsb is_must l then Must else if forallb is_mustnot l then MustNot else Unspec.
Definition and3 (a b : verdict) : verdict := all3 [a; b].

Definition bare_builtin_cls (c : cls) : bool :=
  match c with CList | CSet | CDict | CFrozenSet | CTuple | CType => true | _ => false end.

Inductive okind := KElems | KMapping | KItems | KTuple | KType | KNone.
(* how the property text reads each generic of the vocabulary *)
Definition origin_kind (o : tname) : okind :=
  match o with
  | TList | TSet | TFrozenSet | TDeque | TIterable | TCollection | TContainer | TSequence | TMutableSequence
  | TAbstractSet | TMutableSet | TKeysView | TValuesView => KElems
  | TDict | TDefaultDict | TMapping | TMutableMapping => KMapping
  | TItemsView => KItems
  | TTuple => KTuple
  | TType => KType
  | _ => KNone
  end.

Definition exact_ann (a : option (option cls)) (e : ann) : bool :=
  match a, e with
  | Some (Some c), ACls d => cls_eqb c d
  | _, _ => false
  end.

Fixpoint exact_params (ps : list (option (option cls) * bool)) (l : list ann) : bool :=
  match ps, l with
  | [], [] => true
  | p :: ps', a :: l' => negb (snd p) && exact_ann (fst p) a && exact_params ps' l'
  | _, _ => false
  end.

(* a declared class that cannot stand for the expected one: parameters are compared by class in either direction
   (a parameter declared `str` never takes the `int` the Callable promises, whatever the variance reading), results
   covariantly (a function declared to return c returns a d only if c is a subclass of d) *)
Definition param_clash (a : option (option cls)) (e : ann) : bool :=
  match a, e with Some (Some c), ACls d => negb (subclass c d) && negb (subclass d c) | _, _ => false end.
Definition ret_clash (a : option (option cls)) (e : ann) : bool :=
  match a, e with Some (Some c), ACls d => negb (subclass c d) | _, _ => false end.
Fixpoint params_clash (ps : list (option (option cls) * bool)) (l : list ann) : bool :=
  match ps, l with
  | p :: ps', a :: l' => param_clash (fst p) a || params_clash ps' l'
  | _, _ => false
  end.

Definition conforms_callable (ps : option (list ann)) (r : ann) (v : value) : verdict :=
  match v with
  | VFun s =>
      if fs_coroutine s then Unspec else
      match ps with
      | Some l =>
          if negb (Nat.eqb (List.length l) (List.length (filter (fun p => negb (snd p)) (fs_params s)))) then MustNot
          else if params_clash (fs_params s) l || ret_clash (fs_ret s) r then MustNot
          else if exact_params (fs_params s) l && exact_ann (fs_ret s) r then Must else Unspec
      | None => if ret_clash (fs_ret s) r then MustNot else if exact_ann (fs_ret s) r then Must else Unspec
      end
  | VLambda | VBuiltinFn | VClass _ => Unspec
  | _ => MustNot
  end.

Section Conforms.
  Variable ctx : nat -> option cls.

  Fixpoint conforms (a : ann) (v : value) : verdict :=
    let fix zip3 (l : list ann) (vs : list value) : list verdict :=
      match l, vs with
      | a0 :: l', v0 :: vs' => conforms a0 v0 :: zip3 l' vs'
      | _, _ => []
      end in
    match a with
    | ANone => v_of_bool (match v with VNone => true | _ => false end)
    | ACls c => v_of_bool (isinstance v c)
    | AAny => Must
    | AUnion _ args => any3 (map (fun m => conforms m v) args)
    | ALiteral vals =>
        if existsb (same_class_eq v) vals then Must else if py_in_scalar v vals then Unspec else MustNot
    | ANewType s => conforms s v
    | AFwdRef n | AStr n => match ctx n with Some c => v_of_bool (isinstance v c) | None => Unspec end
    | AGeneric _ o args =>
        match origin_kind o, args with
        | KElems, [a0] =>
            if abc_instance o (class_of v) then
              match iter_values v with Some l => all3 (map (conforms a0) l) | None => Unspec end
            else MustNot
        | KMapping, [ka; va] =>
            if abc_instance o (class_of v) then
              match items_of v with
              | Some kvs => all3 (map (fun kv => and3 (conforms ka (fst kv)) (conforms va (snd kv))) kvs)
              | None => Unspec
              end
            else MustNot
        | KItems, [ka; va] =>
            match pairs_of v with
            | Some kvs => all3 (map (fun kv => and3 (conforms ka (fst kv)) (conforms va (snd kv))) kvs)
            | None => MustNot
            end
        | KTuple, _ :: _ =>
            match v with
            | VTuple vs => if Nat.eqb (List.length vs) (List.length args) then all3 (zip3 args vs) else MustNot
            | _ => MustNot
            end
        | KType, [a0] =>
            match v with
            | VClass d => match a0 with AAny => Must | ACls c => v_of_bool (subclass d c) | _ => Unspec end
            | _ => MustNot
            end
        | _, _ => Unspec
        end
    | ATupleVar _ e => match v with VTuple vs => all3 (map (conforms e) vs) | _ => MustNot end
    | ATupleEmpty _ => match v with VTuple [] => Must | _ => MustNot end
    | ACallable ps r => conforms_callable ps r v
    | ABare _ | ATypeVar _ | AOther _ => Unspec
    end.

  (* the vocabulary of the property statement *)
  Definition scalar_value (v : value) : bool :=
    match v with VNone | VBool _ | VInt _ | VStr _ | VBytes _ => true | _ => false end.
  Definition simple_ann (a : ann) : bool := match a with ACls c => negb (bare_builtin_cls c) | AAny => true | _ => false end.
  Definition plain_cls_ok (c : cls) : bool :=
    negb (bare_builtin_cls c) && negb (cls_eqb c CInspectEmpty).

  Definition arity_ok (o : tname) (n : nat) : bool :=
    match origin_kind o with
    | KElems | KType => Nat.eqb n 1
    | KMapping | KItems => Nat.eqb n 2
    | KTuple => Nat.leb 1 n
    | KNone => false
    end.
  Definition builtin_spellable (o : tname) : bool :=
    match o with TList | TSet | TFrozenSet | TDict | TTuple | TType => true | _ => false end.

  Fixpoint supported_in (a : ann) : bool :=
    match a with
    | ACls c => plain_cls_ok c
    | AAny => true
    | AUnion _ args => Nat.leb 2 (List.length args) && forallb supported_in args
    | ALiteral vals => negb (Nat.eqb (List.length vals) 0) && forallb scalar_value vals
    | ANewType s => match s with ACls c => negb (cls_eqb c CInspectEmpty) | _ => supported_in s end
    | AFwdRef n => match ctx n with Some c => plain_cls_ok c | None => false end
    | AGeneric sp o args =>
        arity_ok o (List.length args)
        && match sp with SpBuiltin => builtin_spellable o | SpTyping => true | SpAbc => false end
        && match o with TType => match args with [ACls c] => negb (cls_eqb c CInspectEmpty) | [AAny] => true | _ => false end
                      | _ => forallb supported_in args end
    | ATupleVar sp e => negb (is_abc sp) && supported_in e
    | ATupleEmpty sp => negb (is_abc sp)
    | ACallable ps r =>
        simple_ann r && match ps with Some l => forallb simple_ann l | None => true end
    | _ => false
    end.

  Definition supported (a : ann) : bool :=
    match a with
    | ANone => true
    | AStr n => match ctx n with Some _ => true | None => false end
    | _ => supported_in a
    end.
End Conforms.
