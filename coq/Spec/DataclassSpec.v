(* Specification of C10 / C11, written from the property text (properties.jsonl), not from the code.
   It only uses the vocabulary of the model (heap, value, field, chain); no decorator program.

   C10  "an instance can be obtained - constructor, copy_with, deep_copy_with - iff every field value
        conforms to its field annotation; otherwise PedanticTypeCheckException and no instance.
        validate_types() raises iff some field currently does not conform; a user __post_init__ still
        runs (before the check)."
   C11  "instances reject every attribute assignment and deletion.  copy_with / deep_copy_with return a
        new instance of the same class whose fields equal kw where given and the original's values
        otherwise, and leave the original unchanged; copy_with shares the un-replaced field objects,
        deep_copy_with shares no mutable field object.  Equality, hash, ordering are those of the
        tuple of fields."                                                                         *)
From Coq Require Import List ZArith Bool Arith.
From PV Require Import Base.Exn Model.Dataclass.
Import ListNotations.

(* ---- C10: "every field value conforms to its field annotation" (for an arbitrary checker:
   `check h a v` is `Ok tt` when v is accepted for a, and the exception otherwise) *)
Definition accepts (x : outcome unit) : bool := match x with Ok _ => true | Raise _ => false end.
Definition all_conform (check : heap -> ann -> value -> outcome unit) (h : heap) (fs : list field) (r : nat) : bool :=
  forallb (fun f => match getattr h r (f_name f) with Some v => accepts (check h (f_ann f) v) | None => false end) fs.
(* the exception of the first field (declaration order) that does not conform *)
Fixpoint first_reject (check : heap -> ann -> value -> outcome unit) (h : heap) (fs : list field) (r : nat) : option exn :=
  match fs with
  | [] => None
  | f :: rest =>
    match getattr h r (f_name f) with
    | Some v => match check h (f_ann f) v with Ok _ => first_reject check h rest r | Raise e => Some e end
    | None => Some PTypeCheckC          (* a field without value does not conform *)
    end
  end.

(* the value the property text gives field f of the object a construction path is about to build:
   the keyword value where given; otherwise, for copy_with / deep_copy_with (orig = the receiver), the
   original's value (a deep copy has the same content); otherwise the default.  No decorator program involved. *)
Definition spec_value (h : heap) (orig : option nat) (kw : list (name * value)) (f : field) : option (heap * value) :=
  match (if f_init f then lookup kw (f_name f) else None) with
  | Some v => Some (h, v)
  | None =>
    match (if f_init f then match orig with Some r0 => getattr h r0 (f_name f) | None => None end else None) with
    | Some v => Some (h, v)
    | None =>
      match f_default f with
      | DVal v => Some (h, v)
      | DFactory k => Some (h ++ [mkObj k [] []], VRef (List.length h))
      | DNone => None
      end
    end
  end.
(* "a user-defined __post_init__ still runs (before the check)": what the user-written hooks do to the object, by
   Python's rules alone (the first class along the MRO that defines __post_init__ provides it; super().__post_init__()
   continues with the rest of the MRO) - the assignments object.__setattr__(self, n, v) they perform, in order *)
Fixpoint spec_hook_sets (C : chain) : list (name * value) :=
  match C with
  | [] => []
  | L :: rest =>
    match l_pi L with
    | None => spec_hook_sets rest
    | Some b => flat_map (fun s => match s with PSet n v => [(n, v)] | PSuper => spec_hook_sets rest end) (pb_body b)
    end
  end.
Fixpoint last_set (sets : list (name * value)) (n : name) : option value :=
  match sets with
  | [] => None
  | (k, v) :: rest => match last_set rest n with Some w => Some w | None => if Nat.eqb k n then Some v else None end
  end.
(* ... and the value of field f when the check runs: what the hooks assigned last, else what __init__ stored *)
Definition spec_final_value (C : chain) (h : heap) (orig : option nat) (kw : list (name * value)) (f : field)
  : option (heap * value) :=
  match last_set (spec_hook_sets C) (f_name f) with
  | Some v => Some (h, v)
  | None => spec_value h orig kw f
  end.
(* the names the user-written hooks that RUN for instances of C assign (a hook that is overridden without super() never runs) *)
Definition hook_set_names (C : chain) : list name := map fst (spec_hook_sets C).

(* where the property text takes the value of field f from, and the assignments applied in order *)
Inductive fsource := SKw (v : value) | SOrig (v : value) | SDefault (v : value) | SFactory (k : okind) | SNone.
Definition spec_source (h : heap) (orig : option nat) (kw : list (name * value)) (f : field) : fsource :=
  match (if f_init f then lookup kw (f_name f) else None) with
  | Some v => SKw v
  | None =>
    match (if f_init f then match orig with Some r0 => getattr h r0 (f_name f) | None => None end else None) with
    | Some v => SOrig v
    | None => match f_default f with DVal v => SDefault v | DFactory k => SFactory k | DNone => SNone end
    end
  end.
Definition path_orig (p : path) : option nat := match p with ByCtor _ => None | ByCopy r0 _ | ByDeep r0 _ => Some r0 end.

(* the request is one the property speaks about: every keyword names a field that takes part in __init__ *)
Definition request_ok (fs : list field) (kw : list (name * value)) : bool :=
  forallb (fun nv => existsb (fun f => Nat.eqb (f_name f) (fst nv) && f_init f) fs) kw.

(* ... every field of __init__ without a default is given (constructor) ... *)
Definition required_given (fs : list field) (kw : list (name * value)) : bool :=
  forallb (fun f => negb (f_init f) || negb (is_dnone (f_default f)) || mem (f_name f) (map fst kw)) fs.
(* ... the receiver of copy_with / deep_copy_with holds a value for every field of __init__ *)
Definition receiver_ok (fs : list field) (h : heap) (r : nat) : bool :=
  forallb (fun f => negb (f_init f) || is_some (getattr h r (f_name f))) fs.
(* a well-formed request on one of the three construction paths *)
Definition path_request_ok (fs : list field) (p : path) (h : heap) : bool :=
  match p with
  | ByCtor kw => request_ok fs kw && required_given fs kw
  | ByCopy r0 kw | ByDeep r0 kw => request_ok fs kw && receiver_ok fs h r0
  end.

Definition is_check (e : event) : bool := match e with ECheck _ _ => true | EPi _ => false end.

(* ---- C11: the field of the copy named n: kw where given, the original's otherwise *)
Definition expected_field (kw : list (name * value)) (h : heap) (r : nat) (n : name) : option value :=
  match lookup kw n with Some v => Some v | None => getattr h r n end.

(* the original is unchanged: the heap only grows, nothing that existed is touched *)
Definition preserved (h h' : heap) : Prop := exists ext, h' = h ++ ext.
Definition preservedb (h h' : heap) (eqb : obj -> obj -> bool) : bool :=
  (List.length h <=? List.length h') && forallb (fun p => eqb (fst p) (snd p)) (combine h h').

(* reachability through containers and attributes *)
Definition children (o : obj) : list value := o_items o ++ map snd (o_attrs o).
Inductive reach (h : heap) : value -> nat -> Prop :=
| reach_here : forall r, reach h (VRef r) r
| reach_step : forall r o c q, nth_error h r = Some o -> In c (children o) -> reach h c q -> reach h (VRef r) q.

(* executable form of reach (used as oracle by the harness): the references reachable from a work list *)
Fixpoint reach_list (fuel : nat) (h : heap) (work : list value) (seen : list nat) : option (list nat) :=
  match fuel with
  | O => match work with [] => Some seen | _ => None end
  | S fuel' =>
    match work with
    | [] => Some seen
    | VAtom _ :: w => reach_list fuel' h w seen
    | VRef r :: w =>
      if existsb (Nat.eqb r) seen then reach_list fuel' h w seen
      else match nth_error h r with
           | Some o => reach_list fuel' h (children o ++ w) (r :: seen)
           | None => reach_list fuel' h w (r :: seen)
           end
    end
  end.

(* "equal" for values that live at different addresses: a renaming of references that maps the graph
   below v onto the graph below v'; an object that is literally shared counts as equal to itself *)
Definition rename (rho : nat -> nat) (v : value) : value :=
  match v with VAtom a => VAtom a | VRef r => VRef (rho r) end.
Definition rename_obj (rho : nat -> nat) (o : obj) : obj :=
  mkObj (o_kind o) (map (rename rho) (o_items o)) (map (fun nv => (fst nv, rename rho (snd nv))) (o_attrs o)).
Definition deep_equal (h : heap) (v : value) (h' : heap) (v' : value) : Prop :=
  exists rho, rename rho v = v' /\
    forall q, reach h v q ->
      nth_error h' (rho q) = option_map (rename_obj rho) (nth_error h q)
      \/ (rho q = q /\ nth_error h' q = nth_error h q).

(* ---- the tuple of fields (those taking part in comparisons) *)
Fixpoint fields_tuple (h : heap) (r : nat) (fs : list field) : option (list value) :=
  match fs with
  | [] => Some []
  | f :: rest =>
    if f_compare f then
      match getattr h r (f_name f), fields_tuple h r rest with
      | Some v, Some tl => Some (v :: tl)
      | _, _ => None
      end
    else fields_tuple h r rest
  end.

(* a "rejected" operation: raises, and the whole state is as before *)
Definition rejected {A} (st : state) (res : state * outcome A) : Prop :=
  fst res = st /\ exists e, snd res = Raise e.
