(* Specification of C12 / C13, written from the property text (properties.jsonl), not from the code.
   It shares only the vocabulary (param, signature, call, deco) with the model.

   The specification never looks at the order in which arguments arrive: it turns a call into its
   *named assignment* (which parameter name is given which value) and states, name by name, what the
   decorated function has to receive:

     - a declared Parameter whose value is supplied (by the caller, else by its external source):
       the output of the full chain  convert ; v1 ; v2 ; ... (each step fed with its predecessor's
       output); a rejecting step demands a ParameterException carrying the name;
       None: required -> rejected, not required -> passes unvalidated;
     - a declared Parameter without value: required -> an exception of the validate package; otherwise the
       Parameter default, else the signature default, else ValidateException;
     - an argument without declared Parameter: strict -> TooManyArguments, otherwise the caller's value;
     - ignore_input: the caller's input counts as not supplied;
     - KWARGS_WITHOUT_NONE: None values are omitted so that signature defaults apply.

   If any name demands an exception the body must not run and the exception raised must be one of the
   demanded ones; otherwise the body runs exactly once and sees exactly the demanded binding.       *)
From Coq Require Import List Arith Bool.
From PV Require Import Base.Exn Model.ValidateSem.
Import ListNotations.

Section Spec.
Variable value : Type.
Variable is_none : value -> bool.

Notation param := (param value).
Notation signature := (signature value).
Notation call := (call value).
Notation deco := (deco value).
Notation dict := (dict value).

Inductive verdict := VPass (v : value) | VReject | VForeign (e : exn).

(* validators in order, each receiving its predecessor's output; rejection = ValidatorException *)
Fixpoint spec_chain (fs : list (vfun value)) (v : value) : verdict :=
  match fs with
  | [] => VPass v
  | f :: fs' =>
      match f v with
      | Ok v' => spec_chain fs' v'
      | Raise e => if derives e ValidatorExceptionC then VReject else VForeign e
      end
  end.

(* inputs the validators have to be called with (up to and including the first that does not return) *)
Fixpoint spec_chain_inputs (fs : list (vfun value)) (v : value) : list value :=
  match fs with
  | [] => []
  | f :: fs' => v :: match f v with Ok v' => spec_chain_inputs fs' v' | Raise _ => [] end
  end.

(* a Parameter that declares a default cannot be required (otherwise its default could never apply) *)
Definition spec_required (p : param) : bool :=
  match p_default p with Some _ => false | None => p_required p end.

Definition spec_convert (p : param) (w : value) : verdict :=
  match p_convert p with
  | None => VPass w
  | Some c => match c w with
              | Ok v => VPass v
              | Raise e => if derives e ConversionErrorC then VReject else VForeign e
              end
  end.

Definition spec_param (p : param) (w : value) : verdict :=
  if is_none w then (if spec_required p then VReject else VPass w)
  else match spec_convert p w with
       | VPass v0 => spec_chain (p_chain p) v0
       | r => r
       end.

Definition spec_journal (p : param) (w : value) : list (jentry value) :=
  if is_none w then []
  else match spec_convert p w with
       | VPass v0 =>
           let ins := spec_chain_inputs (p_chain p) v0 in
           combine (combine (repeat (p_name p) (List.length ins)) (seq 0 (List.length ins))) ins
       | _ => []
       end.

(* ---- what is demanded for one name ---- *)
Inductive expect :=
| EValue (v : value)
| EAbsent
| ERaise (cls : exn) (pn : option name).

Variable sg : signature.
Variable dc : deco.

Definition sig_names : list name := map sp_name (s_params sg).
Definition positional_names : list name := map sp_name (filter (fun sp => negb (sp_kwonly sp)) (s_params sg)).
Definition spec_sig_default (n : name) : option value :=
  match find (fun sp => Nat.eqb (sp_name sp) n) (s_params sg) with Some sp => sp_default sp | None => None end.

(* the named assignment of a call *)
Definition supplied (c : call) : dict :=
  if d_ignore_input dc then [] else combine positional_names (c_args c) ++ c_kwargs c.

Fixpoint assoc (n : name) (d : dict) : option value :=
  match d with [] => None | (k, v) :: d' => if Nat.eqb k n then Some v else assoc n d' end.

Definition drop_none (e : expect) : expect :=
  match d_mode dc, e with
  | KWARGS_WITHOUT_NONE, EValue v => if is_none v then EAbsent else e
  | _, _ => e
  end.

Definition of_verdict (n : name) (r : verdict) : expect :=
  match r with
  | VPass v => drop_none (EValue v)
  | VReject => ERaise ParameterExceptionC (Some n)
  | VForeign e => ERaise e None
  end.

(* where the value of a declared Parameter comes from: the caller, else the external source *)
Inductive source := SValue (w : value) | SNothing | SBroken (e : exn).
Definition spec_source (c : call) (p : param) : source :=
  match assoc (p_name p) (supplied c) with
  | Some w => SValue w
  | None =>
      match p_ext p with
      | Some e => if e_has e then match e_load e with Ok w => SValue w | Raise x => SBroken x end else SNothing
      | None => SNothing
      end
  end.

Definition spec_declared (c : call) (p : param) : expect :=
  match spec_source c p with
  | SValue w => of_verdict (p_name p) (spec_param p w)
  | SBroken x => ERaise x None
  | SNothing =>
      if spec_required p then ERaise ValidateExceptionC None
      else match p_default p with
           | Some d => drop_none (EValue d)
           | None => match spec_sig_default (p_name p) with
                     | Some d => drop_none (EValue d)
                     | None => ERaise ValidateExceptionC None
                     end
           end
  end.

Definition is_declared (n : name) : bool := existsb (fun p => Nat.eqb (p_name p) n) (d_params dc).

Definition spec_undeclared (n : name) (w : value) : expect :=
  if d_strict dc && negb (Nat.eqb n self_name) then ERaise TooManyArgumentsC None
  else drop_none (EValue w).

(* all demands: declared Parameters, then supplied names without Parameter *)
Definition demands (c : call) : list (name * expect) :=
  map (fun p => (p_name p, spec_declared c p)) (d_params dc)
  ++ map (fun kv => (fst kv, spec_undeclared (fst kv) (snd kv)))
         (filter (fun kv => negb (is_declared (fst kv))) (supplied c)).

Definition demanded_raises (c : call) : list (exn * option name) :=
  flat_map (fun ne => match snd ne with ERaise e pn => [(e, pn)] | _ => [] end) (demands c).

Fixpoint demand_of (n : name) (ds : list (name * expect)) : expect :=
  match ds with [] => EAbsent | (k, e) :: ds' => if Nat.eqb k n then e else demand_of n ds' end.

(* the binding the body has to see; None: Python itself rejects the call (an argument is missing) *)
Fixpoint demanded_binding (ds : list (name * expect)) (ps : list (sigparam value)) : option dict :=
  match ps with
  | [] => Some []
  | sp :: ps' =>
      match (match demand_of (sp_name sp) ds with EValue v => Some v | _ => sp_default sp end) with
      | None => None
      | Some v => match demanded_binding ds ps' with Some b => Some ((sp_name sp, v) :: b) | None => None end
      end
  end.

Definition in_sig (n : name) : bool := existsb (Nat.eqb n) sig_names.

(* values demanded for names the signature does not have (they end up in **kwargs) *)
Definition demanded_extras (ds : list (name * expect)) : dict :=
  flat_map (fun ne => match snd ne with EValue v => if in_sig (fst ne) then [] else [(fst ne, v)] | _ => [] end) ds.

Inductive demanded :=
| DRaise (allowed : list (exn * option name))     (* body must not run, exception is one of these *)
| DPythonRejects                                   (* body must not run, Python's TypeError *)
| DBody (b : dict).                                (* body runs once with this binding *)

Definition spec_outcome (c : call) : demanded :=
  match demanded_raises c with
  | (_ :: _) as rs => DRaise rs
  | [] =>
      match demanded_binding (demands c) (s_params sg) with
      | None => DPythonRejects
      | Some b => DBody (b ++ demanded_extras (demands c))
      end
  end.

(* validator inputs demanded for each declared Parameter that has a value *)
Definition spec_journals (c : call) : list (list (jentry value)) :=
  map (fun p => match spec_source c p with SValue w => spec_journal p w | _ => [] end) (d_params dc).

(* ---- domain of the statement ---- *)
Fixpoint nodup_names (l : list name) : bool :=
  match l with [] => true | x :: l' => negb (existsb (Nat.eqb x) l') && nodup_names l' end.

Definition all_in_sig (l : list name) : bool := forallb in_sig l.

(* a call the undecorated function could be given: no parameter twice, not more positionals than
   positional parameters, `self` (if any) only as the implicit first positional *)
Definition call_wellformed (c : call) : bool :=
  Nat.leb (List.length (c_args c)) (List.length positional_names)
  && nodup_names (map fst (combine positional_names (c_args c) ++ c_kwargs c))
  && negb (existsb (Nat.eqb self_name) (map fst (c_kwargs c)))
  && (negb (in_sig self_name) || match positional_names with n :: _ => Nat.eqb n self_name | [] => false end).

Definition decl_wellformed : bool :=
  nodup_names (map (@p_name value) (d_params dc)) && nodup_names sig_names.

(* every name that reaches the function is a parameter of the function (or the function takes **kwargs) *)
Definition names_fit (c : call) : bool :=
  s_varkw sg || (all_in_sig (map (@p_name value) (d_params dc)) && all_in_sig (map fst (c_kwargs c))).

(* ---- functions with *args, in their principal use: return_as=ARGS, a purely positional call, the Parameters of the
   named parameters declared first and in signature order, the remaining Parameters (their names are no parameters of
   the function) standing for the positions of *args.
   The i-th surplus positional belongs to the i-th of those Parameters (declaration order; repository test
   test_return_multiple_args); the body receives the chain outputs in *args, followed by the defaults of the
   Parameters that got no value; a positional beyond the last Parameter has no Parameter: strict -> TooManyArguments,
   otherwise it is passed on unchanged.                                                                       *)
Fixpoint names_eqb (a b : list name) : bool :=
  match a, b with
  | [], [] => true
  | x :: a', y :: b' => Nat.eqb x y && names_eqb a' b'
  | _, _ => false
  end.

Definition star_params : list param := filter (fun p => negb (in_sig (p_name p))) (d_params dc).

Definition spec_star_domain (c : call) : bool :=
  s_varpos sg && match d_mode dc with ARGS => true | _ => false end && negb (d_ignore_input dc)
  && match c_kwargs c with [] => true | _ => false end
  && forallb (fun sp => negb (sp_kwonly sp)) (s_params sg) && negb (in_sig self_name)
  && decl_wellformed
  && names_eqb (map (@p_name value) (d_params dc)) (positional_names ++ map (@p_name value) star_params)
  && Nat.leb (List.length positional_names) (List.length (c_args c))          (* every named parameter is passed *)
  && negb (is_declared self_name)
  && forallb (fun p => Nat.ltb (p_name p) 1000) (d_params dc).                 (* names below the keys of passed-through positionals *)

Inductive demanded_star :=
| DSRaise (allowed : list (exn * option name))
| DSPythonRejects
| DSBody (b : dict) (star : list value).

Definition spec_star_outcome (c : call) : demanded_star :=
  let extras := skipn (List.length positional_names) (c_args c) in
  let named := map (fun p => (p_name p, spec_declared c p)) (filter (fun p => in_sig (p_name p)) (d_params dc)) in
  let paired := map (fun ap => (p_name (snd ap), of_verdict (p_name (snd ap)) (spec_param (snd ap) (fst ap)))) (combine extras star_params) in
  let rest := map (fun p => (p_name p, spec_declared c p)) (skipn (List.length extras) star_params) in
  let surplus := skipn (List.length star_params) extras in
  let surplus_raises := match surplus with _ :: _ => if d_strict dc then [(TooManyArgumentsC, @None name)] else [] | [] => [] end in
  let raises := flat_map (fun ne => match snd ne with ERaise e pn => [(e, pn)] | _ => [] end) (named ++ paired ++ rest) ++ surplus_raises in
  match raises with
  | _ :: _ => DSRaise raises
  | [] =>
      match demanded_binding named (s_params sg) with
      | None => DSPythonRejects
      | Some b => DSBody b (flat_map (fun ne => match snd ne with EValue v => [v] | _ => [] end) (paired ++ rest) ++ surplus)
      end
  end.

End Spec.


Arguments VPass {value} _.
Arguments VReject {value}.
Arguments VForeign {value} _.
Arguments EValue {value} _.
Arguments EAbsent {value}.
Arguments ERaise {value} _ _.
Arguments DRaise {value} _.
Arguments DPythonRejects {value}.
Arguments DBody {value} _.
Arguments DSRaise {value} _.
Arguments DSPythonRejects {value}.
Arguments DSBody {value} _ _.
