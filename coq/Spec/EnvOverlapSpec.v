(* C09 for overlapping decorations, from the property text only: "With ENABLE_PEDANTIC=0 ... AT DECORATION TIME [the
   decorators] return the very object they were given ...; with the variable unset or set to 1 they check.  The switch is
   read only when a decorator is applied."  Whatever else is going on - a class decoration that was started earlier and is
   not finished yet, in this thread or another one - a decoration is governed by the value of the variable at the moment
   the decorator is applied; for a decoration that takes a while that is the moment it is started.
   xdemand e st h: per operation of h the identity bit the statement demands of the decorator result (None: nothing is
   demanded here); e the value of the variable, st the values under which the decorations in progress were started.     *)
From Coq Require Import List Bool String Arith.
From PV Require Import Base.Exn Model.EnvSwitch Spec.EnvSpec Model.EnvOverlap.
Import ListNotations.
Open Scope list_scope.

Definition spec_env_after (e : envv) (o : op) : envv :=
  match o with
  | OSetenv v => Val v | OUnsetenv => Unset | OEnable => Val "1" | ODisable => Val "0"
  | _ => e
  end.

Fixpoint xdemand (e : envv) (st : list envv) (h : list xop) : list (option bool) :=
  match h with
  | [] => []
  | XOp (ODecorate d) :: h' => Some (negb (spec_enabled e)) :: xdemand e st h'
  | XOp o :: h' => None :: xdemand (spec_env_after e o) st h'
  | XBegin d :: h' => None :: xdemand e (match spec_fam d with FCls => e :: st | FFn => st end) h'
  | XNext :: h' => None :: xdemand e st h'
  | XEnd :: h' => match st with
                  | [] => None :: xdemand e [] h'
                  | e0 :: st' => Some (negb (spec_enabled e0)) :: xdemand e st' h'
                  end
  end.

Definition deco_meets (observed : obs) (demanded : option bool) : Prop :=
  match demanded with None => True | Some b => observed = ODeco b end.

Definition xop_in_domain (o : xop) : bool := match o with XOp o' => op_in_domain o' | _ => true end.
