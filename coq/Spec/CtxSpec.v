(* C16, written from the property text (properties.jsonl), not from the code.

   A *use* is `with decorated(args) as x:` around a generator <setup>; yield x; <cleanup>.
   Uses nest (outermost first) around one body.  The property demands of the observable
   journal and of the exception that leaves the outermost with statement:

     - every generator receives the caller's arguments                 ("forwarded unchanged")
     - a failing setup: its exception propagates, no body, no cleanup of *that* generator
     - otherwise the body runs with `as` bound to the yielded value,
       then the code after the yield runs exactly once, after the body,
       whatever the body did (normal, exception of any class, early exit)
     - the body's exception leaves unchanged (the same object) unless a cleanup raises;
       then the cleanup's exception leaves.
   For nested uses the inner with statement is the body of the outer one, so the rule applies
   level by level, inside out.

   "Its exception propagates": Python itself (PEP 479) replaces a StopIteration - in async
   generators also a StopAsyncIteration - raised *inside a generator* by a RuntimeError whose
   __cause__ is that object, before any caller of the generator (decorated or not) sees it.
   That is a fact about the user's generator function, not about the decorator, so for those
   classes the demanded outcome is that chained RuntimeError (`LGenWrapped`).

   Outside the property's domain (stated here only so that the oracle is total; the harness
   compares these cases with the model, not with the property): a generator that never
   yields (`SetupReturn`) makes the with statement raise a new RuntimeError; a generator
   that yields a second time (`CleanYield`) is treated as a cleanup that returned.        *)
From Coq Require Import List Arith Bool.
From PV Require Import Base.Exn Model.Generator Model.SafeCtx.
Import ListNotations.

(* which object leaves the with statement *)
Inductive leaves :=
| LNormal
| LEarly                          (* the return / break goes on *)
| LBody (tag : nat)               (* the very object the body raised *)
| LGen (use site : nat)           (* the very object generator `use` raised in setup (0) / cleanup (1) *)
| LGenWrapped (use site : nat)    (* RuntimeError whose __cause__ is that object (PEP 479) *)
| LOther (c : exn).               (* an object created by the machinery *)

(* PEP 479, restated *)
Definition spec_pep479 (var : variant) (c : exn) : bool :=
  match var with
  | Sync => derives c StopIterationC
  | Async => derives c StopIterationC || derives c StopAsyncIterationC
  end.

Definition spec_delivered (var : variant) (c : exn) (use site : nat) : leaves :=
  if spec_pep479 var c then LGenWrapped use site else LGen use site.

Definition spec_body (tag : nat) (o : body_oc) : leaves :=
  match o with BodyNormal => LNormal | BodyEarly => LEarly | BodyRaise _ => LBody tag end.

Definition ev_setup (u : use_t) : event := EvGen (u_id u) 0 (Some (u_args u)).
Definition ev_cleanup (u : use_t) : event := EvGen (u_id u) 1 (Some (u_args u)).

(* journal (oldest first) and what leaves, for uses `us` (outermost first) around a body;
   x0: what the body sees as bound when there is no use at all *)
Fixpoint spec_nest (var : variant) (us : list use_t) (tag : nat) (o : body_oc) (x0 : val) : list event * leaves :=
  match us with
  | [] => ([EvBody tag x0], spec_body tag o)
  | u :: us' =>
      match u_setup u with
      | SetupRaise c => ([ev_setup u], spec_delivered var c (u_id u) 0)
      | SetupReturn => ([ev_setup u], LOther RuntimeErrorC)
      | SetupOk =>
          let (j, l) := spec_nest var us' tag o (u_val u) in
          (ev_setup u :: j ++ [ev_cleanup u],
           match u_cleanup u with
           | CleanRaise c => spec_delivered var c (u_id u) 1
           | CleanOk | CleanYield _ => l
           end)
      end
  end.

Definition in_domain_use (u : use_t) : bool :=
  match u_setup u, u_cleanup u with
  | SetupReturn, _ => false
  | _, CleanYield _ => false
  | _, _ => true
  end.

(* repeated use: every statement on its own (independence: no state carried over) *)
Definition spec_seq (var : variant) (items : list (list use_t * body_oc)) : list event * list leaves :=
  fold_right (fun it acc =>
                let '(us, o) := it in
                let (j, l) := spec_nest var us (match us with u :: _ => u_id u | [] => 0 end) o 0 in
                (j ++ fst acc, l :: snd acc))
             ([], []) items.

(* count of cleanup events of one generator: the "exactly once" of the title *)
Definition is_cleanup_of (id : nat) (e : event) : bool :=
  match e with EvGen u 1 _ => Nat.eqb u id | _ => false end.
Definition cleanups_of (id : nat) (j : list event) : nat := List.length (filter (is_cleanup_of id) j).

(* how many of the generators with journal id `id` get as far as their yield in
   `with u1: with u2: ...` (outermost first; a failing setup stops everything further in):
   that many times the statement demands the code after the yield of `id` to run *)
Fixpoint reached_count (us : list use_t) (id : nat) : nat :=
  match us with
  | [] => 0
  | u :: us' =>
      match u_setup u with
      | SetupOk => (if Nat.eqb (u_id u) id then 1 else 0) + reached_count us' id
      | _ => 0
      end
  end.

Definition reached_count_seq (items : list (list use_t * body_oc)) (id : nat) : nat :=
  fold_right (fun it acc => reached_count (fst it) id + acc) 0 items.

(* decoration time: only a generator function (sync decorator) / an async generator function
   (async decorator) is accepted *)
Definition spec_accepts (var : variant) (k : fkind) : bool :=
  match var, k with
  | Sync, FGenerator => true
  | Async, FAsyncGenerator => true
  | _, _ => false
  end.
