(* C20 part A - the rest of the symbolic execution of _get_types / type_vars / type_var and the
   theorems about the class shapes.                                                        *)
From Coq Require Import List ZArith Bool String Lia.
From PV Require Import Base.Exn Model.Mixins Spec.MixinsSpec Gen.Mixins Proofs.MixinsExec.
Import ListNotations.
Open Scope string_scope.
Open Scope list_scope.

Arguments comp_list : simpl never.
Arguments comp_dict : simpl never.
Arguments for_loop : simpl never.
Arguments call_n : simpl never.
Arguments lookup_ob : simpl never.

(* ----- the dict built from distinct keys is the zip itself, in order ------------------------ *)

Lemma dict_set_fresh : forall k v d,
  forallb (fun k' => negb (val_eqb k' k)) (map fst d) = true -> dict_set k v d = d ++ [(k, v)].
Proof.
  induction d as [|[k' v'] d IH]; [reflexivity|]. cbn [map fst forallb dict_set app]. intro H.
  apply andb_true_iff in H as [H1 H2]. apply negb_true_iff in H1. rewrite H1. now rewrite IH.
Qed.

Lemma fold_zip : forall ts xs acc,
  distinct_keys (map fst acc) ts = true ->
  fold_left (fun a p => dict_set (fst p) (snd p) a) (combine ts xs) acc = acc ++ combine ts xs.
Proof.
  induction ts as [|t ts IH]; intros xs acc H; [now rewrite app_nil_r|].
  destruct xs as [|x xs]; [now rewrite app_nil_r|].
  cbn [combine fold_left fst snd]. cbn [distinct_keys] in H. apply andb_true_iff in H as [H1 H2].
  rewrite (dict_set_fresh _ _ _ H1), IH.
  - now rewrite <- app_assoc.
  - now rewrite map_app.
Qed.

Lemma zipdict_distinct : forall ts xs, distinct_keys [] ts = true -> zipdict ts xs = combine ts xs.
Proof. intros. unfold zipdict. now rewrite fold_zip. Qed.

(* ----- loops that move on over `pre` (the environment changes only in slots whose content does not matter) and
   leave at x ------------------------------------------------------------------------------------------ *)
Lemma for_loop_until : forall (J : Type) (body : val -> env -> journal -> res) (E : J -> env) pre x post j r,
  (forall i b, In i pre -> exists b', body i (E b) j = RContinue (E b') j \/ body i (E b) j = RNormal (E b') j) ->
  (forall b, body x (E b) j = r) ->
  (match r with RNormal _ _ | RContinue _ _ => False | _ => True end) ->
  forall b0, for_loop body (pre ++ x :: post) (E b0) j = match r with RBreak en j' => RNormal en j' | o => o end.
Proof.
  intros J body E pre x post j r Hpre Hx Hr.
  induction pre as [|i pre IH]; intro b0.
  - cbn [app]. rewrite for_loop_cons, Hx. destruct r; try contradiction; reflexivity.
  - cbn [app]. rewrite for_loop_cons.
    destruct (Hpre i b0 (or_introl eq_refl)) as [b' [H|H]]; rewrite H; apply IH; intros; apply Hpre; now right.
Qed.

Lemma comp_list_cons : forall fc fe i r,
  comp_list fc fe (i :: r) =
  bind (fc i) (fun c => if truthy c then bind (fe i) (fun x => bind (comp_list fc fe r) (fun l => Ok (x :: l)))
                        else comp_list fc fe r).
Proof. reflexivity. Qed.

Lemma comp_list_map : forall fc fe (g : val -> val) items,
  (forall i, In i items -> fc i = Ok (VBool true) /\ fe i = Ok (g i)) ->
  comp_list fc fe items = Ok (map g items).
Proof.
  intros fc fe g. induction items as [|i r IH]; intro H; [reflexivity|].
  destruct (H i (or_introl eq_refl)) as [Hc He].
  rewrite comp_list_cons, Hc. cbn [bind truthy map]. rewrite He. cbn [bind].
  rewrite IH by (intros; apply H; now right). reflexivity.
Qed.

Lemma front_ok_not_generic : forall w l, forallb (front_ok w) l = true -> existsb is_generic_alias l = false.
Proof.
  induction l as [|x l IH]; [reflexivity|]. cbn [forallb existsb]. intro H.
  apply andb_true_iff in H as [H1 H2]. rewrite (IH H2), orb_false_r.
  destruct x; try discriminate H1; try reflexivity. destruct x; try discriminate H1; reflexivity.
Qed.

Lemma front_ok_is_base : forall w l, forallb (front_ok w) l = true -> forallb is_base l = true.
Proof.
  induction l as [|x l IH]; [reflexivity|]. cbn [forallb]. intro H.
  apply andb_true_iff in H as [H1 H2]. rewrite (IH H2), andb_true_r. destruct x; try discriminate H1; reflexivity.
Qed.

Lemma first_generic_none : forall l, existsb is_generic_alias l = false -> first_generic l = VNone.
Proof. intros l H. unfold first_generic. now rewrite (filter_none _ H). Qed.

Lemma first_generic_of_args : forall bases,
  first_generic bases = match first_generic_args bases with Some ts => VAlias VGeneric ts | None => VNone end.
Proof.
  unfold first_generic. induction bases as [|b bases IH]; [reflexivity|].
  destruct b; try exact IH. destruct b; try exact IH. reflexivity.
Qed.

Lemma binding_base_split : forall w bases front d xs fr post,
  binding_base w front bases = Some (d, xs, fr, post) ->
  front ++ bases = fr ++ VAlias (VCls d) xs :: post /\ uses_mixin w d = true.
Proof.
  induction bases as [|b bases IH]; intros front d xs fr post H; [discriminate|].
  assert (Hstep : binding_base w (front ++ [b]) bases = Some (d, xs, fr, post) ->
                  front ++ b :: bases = fr ++ VAlias (VCls d) xs :: post /\ uses_mixin w d = true).
  { intro H'. destruct (IH _ _ _ _ _ H') as [E U]. split; [|exact U]. rewrite <- E, <- app_assoc. reflexivity. }
  destruct b; try (apply Hstep; exact H).
  destruct b; try (apply Hstep; exact H).
  cbn [binding_base] in H. destruct (uses_mixin w c) eqn:Eu; [|apply Hstep; exact H].
  inversion H; subst. split; [reflexivity|exact Eu].
Qed.

#[local] Arguments class_params : simpl never.
#[local] Arguments uses_mixin : simpl never.

(* ----- _resolve_generic_base: the recursion through forwarding / partially binding classes.  The call depth
   needed grows with the length of the chain: `f + S k` ------------------------------------------------------ *)
Lemma resolve_run : forall w f d xs ts xs',
  resolve w f d xs = Some (ts, xs') ->
  forall k, call_n P w no_ext (f + S k) "_resolve_generic_base" [VCls d; VTuple xs] =
            Ok (VTuple [VAlias VGeneric ts; VTuple xs']).
Proof.
  intros w. induction f as [|f IH]; intros d xs ts xs' H k; [discriminate|].
  cbn [resolve] in H. destruct (lookup_ob w d) as [bases|] eqn:Hl; [|discriminate].
  destruct (forallb is_base bases) eqn:Hb; [|discriminate]. cbn [negb] in H.
  cbn [plus]. rewrite Nat.add_succ_r.
  rewrite call_S; cbn [assoc String.eqb Ascii.eqb Bool.eqb progs].
  unfold run_fundef; cbn.
  rewrite (ggb_ok w (f + k) _ bases) by (try assumption; now rewrite get_cls_ob, Hl).
  rewrite first_generic_of_args.
  destruct (first_generic_args bases) as [ts0|] eqn:Hg.
  { inversion H; subst. reflexivity. }
  destruct (binding_base w [] bases) as [[[[d' ys] front] post]|] eqn:Eb; [|discriminate].
  destruct (class_params w d) as [ps|] eqn:Ep; [|discriminate].
  destruct (forallb is_plain front && forallb is_plain post && Nat.eqb (List.length ps) (List.length xs) && distinct_keys [] ps) eqn:Ec;
    [|discriminate].
  apply andb_true_iff in Ec as [Ec Hdist]. apply andb_true_iff in Ec as [Ec _]. apply andb_true_iff in Ec as [Hfront _].
  destruct (binding_base_split _ _ _ _ _ _ _ Eb) as [Esplit Hmx]. cbn [app] in Esplit. subst bases.
  cbn. rewrite Ep. cbn.
  erewrite zip_items; [|exact []|intros a b; reflexivity]. rewrite (zipdict_distinct _ _ Hdist). cbn.
  rewrite Hl. cbn.
  match goal with |- context [for_loop ?b ?l ?e ?j] =>
    assert (HL : for_loop b l e j = RReturn (VTuple [VAlias VGeneric ts; VTuple xs']) j) end.
  { apply (for_loop_until (option val * option val) _
      (fun b => [("origin", Some (VCls d)); ("args", Some (VTuple xs)); ("generic_base", Some VNone);
                 ("binding", Some (VDict (combine ps xs))); ("base", fst b); ("base_origin", snd b)])
      front _ post _ (RReturn (VTuple [VAlias VGeneric ts; VTuple xs']) [])) with (b0 := (None, None)).
    - intros i b Hi. exists (Some i, Some VNone). right.
      assert (Hp : is_plain i = true) by (rewrite forallb_forall in Hfront; auto).
      destruct i; try discriminate Hp. reflexivity.
    - intro b. cbn. rewrite Hmx. cbn.
      erewrite (comp_list_map _ _ (subst ps xs)).
      2:{ intros i _. split; [reflexivity|]. cbn. unfold subst. destruct (dict_get i (combine ps xs)); reflexivity. }
      cbn. specialize (IH _ _ _ _ H k). rewrite Nat.add_succ_r in IH. rewrite IH. reflexivity.
    - exact I. }
  rewrite HL. reflexivity.
Qed.

(* ----- _get_types on a subclass that binds the parameters of its (first mixin-using) generic base ------------ *)
Lemma gt_chain : forall w f k c oc pre d zs post ts xs,
  lookup_ob w c = Some (pre ++ VAlias (VCls d) zs :: post) ->
  forallb (front_ok w) pre = true -> uses_mixin w d = true ->
  forallb is_base post = true -> existsb is_generic_alias post = false ->
  resolve w f d zs = Some (ts, xs) ->
  call_n P w no_ext (S (f + S k)) "_get_types" [VInst c oc] = Ok (VDict (zipdict ts xs)).
Proof.
  intros w f k c oc pre d zs post ts xs Hl Hpre Hmx Hpost Hng Hres.
  assert (Hall : forallb is_base (pre ++ VAlias (VCls d) zs :: post) = true).
  { rewrite forallb_app. cbn [forallb is_base]. now rewrite (front_ok_is_base _ _ Hpre), Hpost. }
  assert (Hnone : first_generic (pre ++ VAlias (VCls d) zs :: post) = VNone).
  { unfold first_generic. rewrite filter_app. cbn [filter is_generic_alias].
    now rewrite (filter_none _ (front_ok_not_generic _ _ Hpre)), (filter_none _ Hng). }
  rewrite Nat.add_succ_r.
  rewrite call_S; cbn [assoc String.eqb Ascii.eqb Bool.eqb progs].
  unfold run_fundef; cbn; unfold has_attr; rewrite get_inst_ob, Hl; cbn.
  rewrite (ggb_ok w (f + k) _ _) by (try eassumption; now rewrite get_inst_ob, Hl).
  rewrite Hnone. cbn. rewrite Hl. cbn.
  match goal with |- context [for_loop ?b ?l ?e ?j] =>
    assert (HL : for_loop b l e j = RNormal
      [("self", Some (VInst c oc)); ("non_generic_error", Some (VExn AssertionErrorC));
       ("generic_base", Some (VAlias VGeneric ts)); ("base", Some (VAlias (VCls d) zs));
       ("types", Some (VTuple xs)); ("type_vars", None)] j) end.
  { apply (for_loop_until (option val) _ (fun b => [("self", Some (VInst c oc)); ("non_generic_error", Some (VExn AssertionErrorC));
       ("generic_base", Some VNone); ("base", b); ("types", None); ("type_vars", None)])
       pre _ post _ (RBreak [("self", Some (VInst c oc)); ("non_generic_error", Some (VExn AssertionErrorC));
       ("generic_base", Some (VAlias VGeneric ts)); ("base", Some (VAlias (VCls d) zs));
       ("types", Some (VTuple xs)); ("type_vars", None)] [])) with (b0 := None).
    - intros i b Hi. exists (Some i). left.
      assert (Hp : front_ok w i = true) by (rewrite forallb_forall in Hpre; auto).
      destruct i; try discriminate Hp; [reflexivity|].
      destruct i; try discriminate Hp. cbn [front_ok foreign] in Hp. apply negb_true_iff in Hp.
      cbn. unfold has_attr. cbn. rewrite Hp. reflexivity.
    - intro b. cbn. unfold has_attr. cbn. rewrite Hmx. cbn.
      pose proof (resolve_run w f d zs ts xs Hres k) as Hr. rewrite Nat.add_succ_r in Hr. rewrite Hr. reflexivity.
    - exact I. }
  rewrite HL. cbn.
  erewrite zip_items; [reflexivity|exact []|]. intros x y. reflexivity.
Qed.

(* ----- type_vars / type_var on top of _get_types ---------------------------------------------- *)

Lemma type_vars_eq : forall w k self,
  call_n P w no_ext (S (S (S k))) "type_vars" [self] = call_n P w no_ext (S (S k)) "_get_types" [self].
Proof.
  intros. rewrite call_S. cbn [assoc String.eqb Ascii.eqb Bool.eqb progs].
  unfold run_fundef. cbn. destruct (call_n P w no_ext (S (S k)) "_get_types" [self]); reflexivity.
Qed.

Definition type_var_of (r : outcome val) : outcome val :=
  match r with
  | Ok (VDict [(_, x)]) => Ok x
  | Ok (VDict _) => Raise AssertionErrorC
  | Ok _ => Raise TypeErrorC
  | Raise e => Raise e
  end.

Lemma type_var_eq : forall w k self r,
  call_n P w no_ext (S (S k)) "_get_types" [self] = r ->
  (match r with Ok (VDict _) | Raise _ => True | _ => False end) ->
  call_n P w no_ext (S (S (S k))) "type_var" [self] = type_var_of r.
Proof.
  intros w k self r Hr Hshape. rewrite call_S. cbn [assoc String.eqb Ascii.eqb Bool.eqb progs].
  unfold run_fundef. cbn. rewrite Hr.
  destruct r as [v|e]; [|reflexivity]. destruct v; try contradiction.
  destruct kvs as [|[k1 x1] [|kv2 rest]]; cbn; try reflexivity.
  destruct (Pos.of_succ_nat (List.length rest)); reflexivity.
Qed.

(* ----- the three supported shapes ---------------------------------------------------------------- *)

Definition type_vars_at (w : world) (k c : nat) (oc : option val) : outcome val :=
  call_n P w no_ext (S (S (S (S k)))) "type_vars" [VInst c oc].
Definition type_var_at (w : world) (k c : nat) (oc : option val) : outcome val :=
  call_n P w no_ext (S (S (S (S k)))) "type_var" [VInst c oc].

Lemma get_types_direct : forall w k c o xs ts,
  direct_generic w c ts ->
  call_n P w no_ext (S (S k)) "_get_types" [VInst c (Some (VAlias o xs))] = Ok (VDict (combine ts xs)).
Proof.
  intros w k c o xs ts (bases & Hl & Hd & Hk). destruct (declares_first_generic _ _ Hd) as [Hb Hg].
  rewrite (gt_direct w k c _ bases ts Hl Hb Hg). now rewrite zipdict_distinct.
Qed.

Lemma get_types_unparam : forall w k c ts,
  direct_generic w c ts -> call_n P w no_ext (S (S k)) "_get_types" [VInst c None] = Raise AssertionErrorC.
Proof.
  intros w k c ts (bases & Hl & Hd & Hk). destruct (declares_first_generic _ _ Hd) as [Hb Hg].
  now rewrite (gt_direct w k c _ bases ts Hl Hb Hg).
Qed.

(* the chain of length S f0 needs f0 more levels of call depth *)
Lemma get_types_chain : forall w f0 k c oc pre d zs post ts xs,
  lookup_ob w c = Some (pre ++ VAlias (VCls d) zs :: post) ->
  forallb (front_ok w) pre = true -> uses_mixin w d = true ->
  forallb is_base post = true -> existsb is_generic_alias post = false ->
  resolve w (S f0) d zs = Some (ts, xs) -> distinct_keys [] ts = true ->
  call_n P w no_ext (S (S (S (f0 + k)))) "_get_types" [VInst c oc] = Ok (VDict (combine ts xs)).
Proof.
  intros w f0 k c oc pre d zs post ts xs Hl Hpre Hmx Hpost Hng Hr Hd.
  pose proof (gt_chain w (S f0) k c oc pre d zs post ts xs Hl Hpre Hmx Hpost Hng Hr) as H.
  cbn [plus] in H. rewrite Nat.add_succ_r in H. rewrite H. now rewrite zipdict_distinct.
Qed.

Lemma first_generic_args_app : forall pre ts post,
  existsb is_generic_alias pre = false -> first_generic_args (pre ++ VAlias VGeneric ts :: post) = Some ts.
Proof.
  induction pre as [|b pre IH]; intros ts post H; [reflexivity|].
  cbn [existsb] in H. apply orb_false_iff in H as [H1 H2]. cbn [app].
  destruct b; try (cbn [first_generic_args]; now apply IH).
  destruct b; try (cbn [first_generic_args]; now apply IH). discriminate H1.
Qed.

Lemma resolve_direct : forall w d ts xs, direct_generic w d ts -> resolve w 1 d xs = Some (ts, xs).
Proof.
  intros w d ts xs (bases & Hld & Hdecl & Hdist).
  destruct (declares_first_generic _ _ Hdecl) as [Hb _]. destruct Hdecl as (p & q & -> & _ & Hp).
  cbn [resolve]. rewrite Hld, Hb. cbn [negb]. now rewrite (first_generic_args_app _ _ _ Hp).
Qed.

Lemma get_types_binding : forall w k c oc ts xs,
  binding_subclass w c ts xs ->
  call_n P w no_ext (S (S (S k))) "_get_types" [VInst c oc] = Ok (VDict (combine ts xs)).
Proof.
  intros w k c oc ts xs (pre & d & post & Hl & Hpre & Hmx & Hpost & Hng & Hd).
  pose proof Hd as (b & _ & _ & Hk).
  exact (get_types_chain w 0 k c oc pre d xs post ts xs Hl Hpre Hmx Hpost Hng (resolve_direct w d ts xs Hd) Hk).
Qed.

Lemma tv_direct : forall w k c o xs ts,
  direct_generic w c ts -> type_vars_at w k c (Some (VAlias o xs)) = Ok (VDict (combine ts xs)).
Proof. intros. unfold type_vars_at. rewrite type_vars_eq. now apply get_types_direct. Qed.

Lemma tv_unparam : forall w k c ts,
  direct_generic w c ts -> type_vars_at w k c None = Raise AssertionErrorC.
Proof. intros. unfold type_vars_at. rewrite type_vars_eq. now apply get_types_unparam with ts. Qed.

Lemma tv_binding : forall w k c oc ts xs,
  binding_subclass w c ts xs -> type_vars_at w k c oc = Ok (VDict (combine ts xs)).
Proof. intros. unfold type_vars_at. rewrite type_vars_eq. now apply get_types_binding. Qed.

Lemma tv_non_generic : forall w k c oc,
  lookup_ob w c = None -> type_vars_at w k c oc = Raise AssertionErrorC.
Proof. intros. unfold type_vars_at. rewrite type_vars_eq. now apply gt_non_generic. Qed.

Lemma tvar_direct : forall w k c o xs ts,
  direct_generic w c ts -> type_var_at w k c (Some (VAlias o xs)) = type_var_of (Ok (VDict (combine ts xs))).
Proof. intros. unfold type_var_at. apply type_var_eq; [now apply get_types_direct|exact I]. Qed.

Lemma tvar_unparam : forall w k c ts,
  direct_generic w c ts -> type_var_at w k c None = Raise AssertionErrorC.
Proof.
  intros. unfold type_var_at.
  rewrite (type_var_eq w (S k) _ (Raise AssertionErrorC)); [reflexivity|now apply get_types_unparam with ts|exact I].
Qed.

Lemma tvar_binding : forall w k c oc ts xs,
  binding_subclass w c ts xs -> type_var_at w k c oc = type_var_of (Ok (VDict (combine ts xs))).
Proof. intros. unfold type_var_at. apply type_var_eq; [now apply get_types_binding|exact I]. Qed.

Lemma tv_chain : forall w f0 k c oc ts xs,
  chain_binding w (S f0) c ts xs -> type_vars_at w (f0 + k) c oc = Ok (VDict (combine ts xs)).
Proof.
  intros w f0 k c oc ts xs (pre & d & zs & post & Hl & Hpre & Hmx & Hpost & Hng & Hr & Hd & _).
  unfold type_vars_at. rewrite type_vars_eq. now apply get_types_chain with pre d zs post.
Qed.

Lemma tvar_chain : forall w f0 k c oc ts xs,
  chain_binding w (S f0) c ts xs -> type_var_at w (f0 + k) c oc = type_var_of (Ok (VDict (combine ts xs))).
Proof.
  intros w f0 k c oc ts xs (pre & d & zs & post & Hl & Hpre & Hmx & Hpost & Hng & Hr & Hd & _).
  unfold type_var_at. apply type_var_eq; [now apply get_types_chain with pre d zs post|exact I].
Qed.

Lemma tvar_non_generic : forall w k c oc,
  lookup_ob w c = None -> type_var_at w k c oc = Raise AssertionErrorC.
Proof.
  intros. unfold type_var_at.
  rewrite (type_var_eq w (S k) _ (Raise AssertionErrorC)); [reflexivity|now apply gt_non_generic|exact I].
Qed.

(* type_var_of on a zip: the single argument when there is one parameter, AssertionError otherwise *)
Lemma type_var_of_one : forall t x, type_var_of (Ok (VDict (combine [t] [x]))) = Ok x.
Proof. reflexivity. Qed.

Lemma type_var_of_many : forall ts xs,
  List.length ts = List.length xs -> List.length ts <> 1 ->
  type_var_of (Ok (VDict (combine ts xs))) = Raise AssertionErrorC.
Proof.
  intros ts xs Hl Hn. destruct ts as [|t [|t2 ts]]; destruct xs as [|x [|x2 xs]]; try discriminate Hl; try reflexivity.
  now contradiction Hn.
Qed.

(* ----- val_eqb is reflexive; the result meets the executable oracle ------------------------- *)

(* Python's == is reflexive on hashable objects; the model's val_eqb is on everything but dicts.  The
   oracle compares with val_eqb, so the values of a shape have to be equal to themselves. *)
Definition self_eq (v : val) : bool := val_eqb v v.
Definition shape_vals_ok (s : shape) : bool :=
  match s with
  | ShDirect ts (Some xs) | ShBinding ts xs => forallb self_eq ts && forallb self_eq xs
  | _ => true
  end.

Lemma dict_get_zip : forall ts xs seen,
  distinct_keys seen ts = true -> forallb self_eq ts = true ->
  forall k v, In (k, v) (combine ts xs) ->
    dict_get k (combine ts xs) = Some v /\ forallb (fun s => negb (val_eqb s k)) seen = true.
Proof.
  induction ts as [|t ts IH]; intros xs seen H Hs k v Hin; [contradiction|].
  destruct xs as [|x xs]; [contradiction|].
  cbn [distinct_keys] in H. apply andb_true_iff in H as [H1 H2].
  cbn [forallb] in Hs. apply andb_true_iff in Hs as [Ht Hs].
  cbn [combine] in Hin |- *. destruct Hin as [E|Hin].
  - inversion E; subst. cbn [dict_get]. unfold self_eq in Ht. rewrite Ht. now split.
  - destruct (IH xs _ H2 Hs k v Hin) as [Hg Hs']. rewrite forallb_app in Hs'. apply andb_true_iff in Hs' as [Hs1 Hs2].
    cbn [forallb] in Hs2. apply andb_true_iff in Hs2 as [Hs2 _]. apply negb_true_iff in Hs2.
    cbn [dict_get]. rewrite Hs2. now split.
Qed.

Lemma in_combine_snd : forall (ts xs : list val) k v, In (k, v) (combine ts xs) -> In v xs.
Proof. intros. eapply in_combine_r; eauto. Qed.

Lemma same_dict_zip : forall ts xs,
  distinct_keys [] ts = true -> forallb self_eq ts = true -> forallb self_eq xs = true ->
  same_dict (combine ts xs) (combine ts xs) = true.
Proof.
  intros ts xs H Hs Hx. unfold same_dict. rewrite Nat.eqb_refl. cbn [andb].
  apply forallb_forall. intros [k v] Hin. cbn [fst snd].
  destruct (dict_get_zip ts xs [] H Hs k v Hin) as [Hg _]. rewrite Hg.
  rewrite forallb_forall in Hx. apply (Hx v). eapply in_combine_snd; eauto.
Qed.

Lemma oc_matches_cases : forall oc args, oc_matches oc args ->
  (oc = None /\ args = None) \/ (exists o xs, oc = Some (VAlias o xs) /\ args = Some xs).
Proof.
  intros [v|] [a|] H; cbn in H; try contradiction; [| |now left]; destruct v; try contradiction.
  subst. right. eauto.
Qed.

Lemma tv_meets_spec : forall w k c oc s,
  shape_holds w c oc s -> shape_vals_ok s = true -> meets (type_vars_at w k c oc) (spec_type_vars s) = true.
Proof.
  intros w k c oc s H Hv. destruct H as [ts args Hd Hoc|ts xs Hb|Hn|].
  - destruct (oc_matches_cases _ _ Hoc) as [[-> ->]|(o & xs & -> & ->)]; cbn [spec_type_vars].
    + now rewrite (tv_unparam w k c ts Hd).
    + rewrite (tv_direct w k c o xs ts Hd). cbn [meets]. destruct Hd as (b & _ & _ & Hk).
      cbn in Hv. apply andb_true_iff in Hv as [Hv1 Hv2]. now apply same_dict_zip.
  - cbn [spec_type_vars]. rewrite (tv_binding w k c oc ts xs Hb). cbn [meets].
    destruct Hb as (pre & d & post & _ & _ & _ & _ & _ & b & _ & _ & Hk).
    cbn in Hv. apply andb_true_iff in Hv as [Hv1 Hv2]. now apply same_dict_zip.
  - cbn [spec_type_vars]. now rewrite (tv_non_generic w k c oc Hn).
  - reflexivity.
Qed.

Lemma type_var_of_meets : forall kvs : list (val * val), forallb self_eq (map snd kvs) = true ->
  meets1 (type_var_of (Ok (VDict kvs))) (match kvs with [(_, x)] => Exp1Val x | _ => Exp1Assertion end) = true.
Proof.
  intros [|[k x] [|kv r]] H; try reflexivity. cbn [map snd forallb] in H. apply andb_true_iff in H as [H _].
  exact H.
Qed.

Lemma self_eq_combine : forall ts xs : list val, forallb self_eq xs = true -> forallb self_eq (map snd (combine ts xs)) = true.
Proof.
  induction ts as [|t ts IH]; intros [|x xs] H; try reflexivity. cbn [combine map snd forallb] in *.
  apply andb_true_iff in H as [H1 H2]. now rewrite H1, IH.
Qed.

Lemma tvar_meets_spec : forall w k c oc s,
  shape_holds w c oc s -> shape_vals_ok s = true -> meets1 (type_var_at w k c oc) (spec_type_var s) = true.
Proof.
  intros w k c oc s H Hv. destruct H as [ts args Hd Hoc|ts xs Hb|Hn|].
  - destruct (oc_matches_cases _ _ Hoc) as [[-> ->]|(o & xs & -> & ->)]; unfold spec_type_var; cbn [spec_type_vars].
    + now rewrite (tvar_unparam w k c ts Hd).
    + rewrite (tvar_direct w k c o xs ts Hd). cbn in Hv. apply andb_true_iff in Hv as [Hv1 Hv2].
      apply type_var_of_meets. now apply self_eq_combine.
  - unfold spec_type_var; cbn [spec_type_vars]. rewrite (tvar_binding w k c oc ts xs Hb).
    cbn in Hv. apply andb_true_iff in Hv as [Hv1 Hv2]. apply type_var_of_meets. now apply self_eq_combine.
  - unfold spec_type_var; cbn [spec_type_vars]. now rewrite (tvar_non_generic w k c oc Hn).
  - reflexivity.
Qed.

(* ----- the executable shape checks are sufficient -------------------------------------------- *)

Lemma tok_eqb_eq : forall a b, tok_eqb a b = true -> a = b.
Proof. intros [] []; cbn; try discriminate. intro H. apply Nat.eqb_eq in H. now subst. Qed.

Lemma toks_eqb_eq : forall a b, toks_eqb a b = true -> a = b.
Proof.
  unfold toks_eqb. induction a as [|x a IH]; intros [|y b] H; cbn in H; try discriminate; [reflexivity|].
  apply andb_true_iff in H as [H1 H2]. apply tok_eqb_eq in H1. apply IH in H2. now subst.
Qed.

Lemma first_generic_args_split : forall bases ts,
  first_generic_args bases = Some ts ->
  exists pre post, bases = pre ++ VAlias VGeneric ts :: post /\ existsb is_generic_alias pre = false.
Proof.
  induction bases as [|b bases IH]; intros ts H; [discriminate|].
  assert (D : (exists a, b = VAlias VGeneric a) \/ (is_generic_alias b = false /\ first_generic_args (b :: bases) = first_generic_args bases)).
  { destruct b; try (right; split; reflexivity). destruct b; try (right; split; reflexivity). left; eauto. }
  destruct D as [[a ->]|[Hb Hf]].
  - cbn in H. inversion H; subst. exists [], bases. split; reflexivity.
  - rewrite Hf in H. destruct (IH ts H) as (pre & post & -> & Hp). exists (b :: pre), post. split; [reflexivity|].
    cbn [existsb]. now rewrite Hb, Hp.
Qed.

Lemma direct_generic_b_sound : forall w c ts, direct_generic_b w c ts = true -> direct_generic w c ts.
Proof.
  unfold direct_generic_b, direct_generic. intros w c ts H.
  destruct (lookup_ob w c) as [bases|]; [|discriminate].
  apply andb_true_iff in H as [H H3]. apply andb_true_iff in H as [H1 H2].
  destruct (first_generic_args bases) as [ts'|] eqn:E; [|discriminate].
  apply toks_eqb_eq in H3. subst ts'.
  destruct (first_generic_args_split _ _ E) as (pre & post & -> & Hp).
  exists (pre ++ VAlias VGeneric ts :: post). split; [reflexivity|]. split; [|assumption].
  exists pre, post. split; [reflexivity|]. split; [|assumption].
  rewrite forallb_app in H1 |- *. apply andb_true_iff in H1 as [Ha Hb]. cbn [forallb] in Hb.
  apply andb_true_iff in Hb as [_ Hb]. now rewrite Ha, Hb.
Qed.

Lemma binding_scan_sound : forall w bases ts xs, binding_scan w bases ts xs = true ->
  exists pre d post, bases = pre ++ VAlias (VCls d) xs :: post /\
    forallb (front_ok w) pre = true /\ uses_mixin w d = true /\
    forallb is_base post = true /\ existsb is_generic_alias post = false /\ direct_generic w d ts.
Proof.
  induction bases as [|b bases IH]; intros ts xs H; [discriminate|].
  destruct b; try discriminate H.
  - cbn [binding_scan] in H. destruct (IH _ _ H) as (pre & d & post & -> & Hp & R).
    exists (VCls c :: pre), d, post. split; [reflexivity|]. split; [|exact R]. cbn. exact Hp.
  - destruct b; try discriminate H. cbn [binding_scan] in H.
    destruct (foreign w (VAlias (VCls c) args)) eqn:Ep.
    + destruct (IH _ _ H) as (pre & d & post & -> & Hp & R).
      exists (VAlias (VCls c) args :: pre), d, post. split; [reflexivity|]. split; [|exact R].
      cbn [forallb front_ok]. now rewrite Ep, Hp.
    + cbn [foreign] in Ep. apply negb_false_iff in Ep.
      apply andb_true_iff in H as [H H4]. apply andb_true_iff in H as [H H3]. apply andb_true_iff in H as [H1 H2].
      apply toks_eqb_eq in H1. subst args. apply negb_true_iff in H3. apply direct_generic_b_sound in H4.
      exists [], c, bases. repeat split; assumption.
Qed.

Lemma binding_subclass_b_sound : forall w c ts xs, binding_subclass_b w c ts xs = true -> binding_subclass w c ts xs.
Proof.
  unfold binding_subclass_b, binding_subclass. intros w c ts xs H.
  destruct (lookup_ob w c) as [bases|]; [|discriminate].
  destruct (binding_scan_sound _ _ _ _ H) as (pre & d & post & -> & R). exists pre, d, post. split; [reflexivity|exact R].
Qed.

Lemma oc_matches_b_sound : forall oc args, oc_matches_b oc args = true -> oc_matches oc args.
Proof.
  intros [v|] [a|]; cbn; try discriminate; try trivial; destruct v; try discriminate. apply toks_eqb_eq.
Qed.

Lemma shape_holds_b_sound : forall w c oc s, shape_holds_b w c oc s = true -> shape_holds w c oc s.
Proof.
  intros w c oc [ts args|ts xs| |] H; cbn [shape_holds_b] in H.
  - apply andb_true_iff in H as [H1 H2]. constructor; [now apply direct_generic_b_sound|now apply oc_matches_b_sound].
  - constructor. now apply binding_subclass_b_sound.
  - constructor. destruct (lookup_ob w c); [discriminate|reflexivity].
  - constructor.
Qed.

(* ----- plain subclasses and mixins: the class has no __orig_bases__ of its own and finds those of the
   first class on its MRO that has some ---------------------------------------------------------- *)
Lemma first_ob_skip : forall w before s after bases,
  forallb (fun m => match own_ob w m with None => true | Some _ => false end) before = true ->
  own_ob w s = Some bases -> first_ob w (before ++ s :: after) = Some bases.
Proof.
  induction before as [|m before IH]; intros s after bases Hb Hs.
  - cbn [app first_ob]. now rewrite Hs.
  - cbn [forallb] in Hb. apply andb_true_iff in Hb as [H1 H2]. cbn [app first_ob].
    destruct (own_ob w m); [discriminate H1|]. now apply IH.
Qed.

Lemma lookup_inherits : forall w c s before after bases,
  inherits_bases_of w c s before after -> own_ob w s = Some bases -> lookup_ob w c = Some bases.
Proof.
  intros w c s before after bases (r & Hf & Hm & Hb) Hs. unfold lookup_ob. rewrite Hf, Hm.
  now apply first_ob_skip.
Qed.



Lemma chain_bases_b_sound : forall w f bases ts xs,
  chain_bases_b w f bases ts xs = true ->
  exists pre d zs post, bases = pre ++ VAlias (VCls d) zs :: post /\
    forallb (front_ok w) pre = true /\ uses_mixin w d = true /\
    forallb is_base post = true /\ existsb is_generic_alias post = false /\
    resolve w f d zs = Some (ts, xs) /\ distinct_keys [] ts = true /\ forallb (fun x => negb (is_param w x)) xs = true.
Proof.
  unfold chain_bases_b. intros w f bases ts xs H.
  destruct (binding_base w [] bases) as [[[[d zs] front] post]|] eqn:Eb; [|discriminate].
  destruct (binding_base_split _ _ _ _ _ _ _ Eb) as [E U]. cbn [app] in E. subst bases.
  apply andb_true_iff in H as [H H4]. apply andb_true_iff in H as [H H3]. apply andb_true_iff in H as [H1 H2].
  destruct (resolve w f d zs) as [[ts' xs']|] eqn:Er; [|discriminate].
  apply andb_true_iff in H4 as [H4 H7]. apply andb_true_iff in H4 as [H4 H6]. apply andb_true_iff in H4 as [H4 H5].
  apply toks_eqb_eq in H4. apply toks_eqb_eq in H5. apply negb_true_iff in H3. subst ts' xs'.
  exists front, d, zs, post. repeat split; assumption.
Qed.

Lemma chain_binding_b_sound : forall w f c ts xs,
  chain_binding_b w f c ts xs = true -> chain_binding w f c ts xs.
Proof.
  unfold chain_binding_b, chain_binding. intros w f c ts xs H.
  destruct (lookup_ob w c) as [bases|]; [|discriminate].
  destruct (chain_bases_b_sound _ _ _ _ _ H) as (pre & d & zs & post & -> & R). exists pre, d, zs, post. split; [reflexivity|exact R].
Qed.

(* a binding base that declares Generic[..] itself is a chain of length 1 *)
Lemma binding_is_chain : forall w c ts xs,
  binding_subclass w c ts xs -> forallb (fun x => negb (is_param w x)) xs = true -> chain_binding w 1 c ts xs.
Proof.
  intros w c ts xs (pre & d & post & Hl & Hpre & Hmx & Hpost & Hng & Hd) Hcl.
  pose proof Hd as (b & _ & _ & Hk).
  exists pre, d, xs, post. repeat split; try assumption. now apply resolve_direct.
Qed.

(* the class statement that binds the parameters is found behind classes without __orig_bases__ on the MRO *)
Lemma chain_inherited : forall w f c s before after bases ts xs,
  inherits_bases_of w c s before after -> own_ob w s = Some bases -> lookup_ob w s = Some bases ->
  chain_binding w f s ts xs -> chain_binding w f c ts xs.
Proof.
  intros w f c s before after bases ts xs Hi Ho Hs (pre & d & zs & post & Hl & R).
  exists pre, d, zs, post. split; [|exact R]. rewrite (lookup_inherits _ _ _ _ _ _ Hi Ho). congruence.
Qed.
