(* C11: frozen instances, copy_with / deep_copy_with, comparison.  Heap facts (growth, what a deep
   copy reaches) are independent of the decorator program; the statements about the two copy methods
   are for the reference member of the family (Proofs/DataclassRef.v) and an arbitrary checker. *)
From Coq Require Import List ZArith Bool Arith Lia.
From PV Require Import Base.Exn Model.Dataclass Spec.DataclassSpec Proofs.DataclassBase Proofs.DataclassRef
  Proofs.DataclassC10.
Import ListNotations.

(* ---------------------------------------------------------------- operations that leave the heap alone *)
Definition heap_const {A} (m : M A) : Prop := forall st st' o, m st = (st', o) -> s_heap st' = s_heap st.

Lemma hc_ret : forall A (a : A), heap_const (ret a).
Proof. intros A a st st' o H. now inversion H. Qed.
Lemma hc_raise : forall A e, heap_const (@raise A e).
Proof. intros A a st st' o H. now inversion H. Qed.
Lemma hc_bind : forall A B (m : M A) (f : A -> M B), heap_const m -> (forall a, heap_const (f a)) -> heap_const (bindM m f).
Proof.
  intros A B m f Hm Hf st st' o H. unfold bindM in H. destruct (m st) as [s1 [a|e]] eqn:E.
  - rewrite (Hf a _ _ _ H). eapply Hm. eassumption.
  - inversion H. subst. eapply Hm. eassumption.
Qed.
Lemma hc_emit : forall e, heap_const (emit e).
Proof. intros e st st' o H. now inversion H. Qed.
Lemma hc_getattrM : forall r n, heap_const (getattrM r n).
Proof. intros r n st st' o H. unfold getattrM in H. destruct (getattr (s_heap st) r n); now inversion H. Qed.
Lemma hc_checked_getattrM : forall r n, heap_const (checked_getattrM r n).
Proof. intros r n st st' o H. unfold checked_getattrM in H. destruct (getattr (s_heap st) r n); now inversion H. Qed.
Lemma hc_get_heap : heap_const get_heap.
Proof. intros st st' o H. now inversion H. Qed.

Lemma heap_const_grows : forall A (m : M A), heap_const m -> grows m.
Proof. intros A m H st st' o E. exists []. rewrite app_nil_r. eapply H. eassumption. Qed.

(* ---------------------------------------------------------------- operations that touch one object only
   (object.__setattr__ in a user __post_init__ on the object under construction): every other cell is as before, the
   cell keeps its kind and items, and its attributes outside N are as before *)
Definition touched (r : nat) (N : list name) (h h' : heap) : Prop :=
  List.length h' = List.length h /\
  (forall q, q <> r -> nth_error h' q = nth_error h q) /\
  (forall o, nth_error h r = Some o -> exists o', nth_error h' r = Some o' /\ o_kind o' = o_kind o /\ o_items o' = o_items o /\
     forall n, ~ In n N -> lookup (o_attrs o') n = lookup (o_attrs o) n).
Definition touches (r : nat) (N : list name) {A} (m : M A) : Prop :=
  forall st st' o, m st = (st', o) -> touched r N (s_heap st) (s_heap st').

Lemma touched_refl : forall r N h, touched r N h h.
Proof. intros. split; [reflexivity|]. split; [reflexivity|]. intros o Ho. exists o. repeat split; auto. Qed.
Lemma touched_trans : forall r N h1 h2 h3, touched r N h1 h2 -> touched r N h2 h3 -> touched r N h1 h3.
Proof.
  intros r N h1 h2 h3 [A1 [A2 A3]] [B1 [B2 B3]]. split; [congruence|]. split.
  - intros q Hq. rewrite B2, A2; auto.
  - intros o Ho. destruct (A3 o Ho) as [o2 [H1 [H2 [H3 H4]]]]. destruct (B3 o2 H1) as [o3 [G1 [G2 [G3 G4]]]].
    exists o3. split; [assumption|]. split; [congruence|]. split; [congruence|]. intros n Hn. rewrite G4, H4; auto.
Qed.
Lemma touched_mono : forall r N N' h h', incl N N' -> touched r N h h' -> touched r N' h h'.
Proof.
  intros r N N' h h' Hi [A1 [A2 A3]]. split; [assumption|]. split; [assumption|].
  intros o Ho. destruct (A3 o Ho) as [o2 [H1 [H2 [H3 H4]]]]. exists o2. repeat split; try assumption.
  intros n Hn. apply H4. intro X. apply Hn. now apply Hi.
Qed.

Lemma touches_ret : forall r N A (a : A), touches r N (ret a).
Proof. intros r N A a st st' o H. inversion H. apply touched_refl. Qed.
Lemma touches_raise : forall r N A e, touches r N (@raise A e).
Proof. intros r N A e st st' o H. inversion H. apply touched_refl. Qed.
Lemma touches_bind : forall r N A B (m : M A) (f : A -> M B),
  touches r N m -> (forall a, touches r N (f a)) -> touches r N (bindM m f).
Proof.
  intros r N A B m f Hm Hf st st' o H. unfold bindM in H. destruct (m st) as [s1 [a|e]] eqn:E.
  - eapply touched_trans; [eapply Hm; eassumption|eapply Hf; eassumption].
  - inversion H. subst. eapply Hm. eassumption.
Qed.
Lemma touches_heap_const : forall r N A (m : M A), heap_const m -> touches r N m.
Proof. intros r N A m H st st' o E. rewrite (H _ _ _ E). apply touched_refl. Qed.
Lemma touches_mono : forall r N N' A (m : M A), incl N N' -> touches r N m -> touches r N' m.
Proof. intros r N N' A m Hi H st st' o E. eapply touched_mono; [eassumption|eapply H; eassumption]. Qed.

Lemma heap_upd_length : forall h r g, List.length (heap_upd h r g) = List.length h.
Proof. induction h as [|o h IH]; intros [|r] g; simpl; auto. Qed.
Lemma heap_upd_other : forall h r g q, q <> r -> nth_error (heap_upd h r g) q = nth_error h q.
Proof.
  induction h as [|o h IH]; intros [|r] g [|q] Hq; simpl; try reflexivity; try congruence.
  apply IH. congruence.
Qed.
Lemma heap_upd_same : forall h r g, nth_error (heap_upd h r g) r = option_map g (nth_error h r).
Proof. induction h as [|o h IH]; intros [|r] g; simpl; try reflexivity. apply IH. Qed.

Lemma touches_set_attr_raw : forall r n v, touches r [n] (set_attr_raw r n v).
Proof.
  intros r n v st st' o H. unfold set_attr_raw in H. inversion H. subst. clear H. cbn [s_heap].
  split; [apply heap_upd_length|]. split; [intros q Hq; now apply heap_upd_other|].
  intros o1 Ho. rewrite heap_upd_same, Ho. simpl. eexists. split; [reflexivity|]. repeat split.
  intros m Hm. simpl. rewrite lookup_dict_set. destruct (Nat.eqb n m) eqn:E; [|reflexivity].
  apply Nat.eqb_eq in E. subst. exfalso. apply Hm. now left.
Qed.

(* two lists with the same cells are the same list *)
Lemma nth_error_all_eq : forall A (a b : list A), (forall q, nth_error a q = nth_error b q) -> a = b.
Proof.
  induction a as [|x a IH]; intros [|y b] H.
  - reflexivity.
  - specialize (H O). discriminate.
  - specialize (H O). discriminate.
  - pose proof (H O) as H0. simpl in H0. inversion H0. subst. f_equal. apply IH. intro q. exact (H (S q)).
Qed.

(* the touched object is the last cell *)
Lemma touched_last : forall N H o h',
  touched (List.length H) N (H ++ [o]) h' ->
  exists o', h' = H ++ [o'] /\ o_kind o' = o_kind o /\ o_items o' = o_items o /\
             forall n, ~ In n N -> lookup (o_attrs o') n = lookup (o_attrs o) n.
Proof.
  intros N H o h' [A1 [A2 A3]].
  assert (Ho : nth_error (H ++ [o]) (List.length H) = Some o) by (rewrite nth_error_app2, Nat.sub_diag by lia; reflexivity).
  destruct (A3 o Ho) as [o' [H1 [H2 [H3 H4]]]]. exists o'. split; [|repeat split; assumption].
  apply nth_error_all_eq. intro q. destruct (Nat.eq_dec q (List.length H)) as [->|Hq].
  - rewrite H1. rewrite nth_error_app2, Nat.sub_diag by lia. reflexivity.
  - rewrite (A2 q Hq). destruct (Nat.lt_ge_cases q (List.length H)) as [Hlt|Hge].
    + now rewrite !nth_error_app1 by assumption.
    + assert (q > List.length H) by lia.
      transitivity (@None obj); [|symmetry]; apply nth_error_None; rewrite app_length; simpl; lia.
Qed.

(* the names a __post_init__ attribute can assign *)
Fixpoint pi_sets (f : pifun) : list name :=
  match f with
  | PFUser _ b _ sup => flat_map (fun s => match s with PSet n _ => [n] | PSuper => pi_sets sup end) (pb_body b)
  | PFNew old => pi_sets old
  | _ => []
  end.

Section Generic.
  Variable P : prog.
  Variable check : bool -> heap -> ann -> value -> outcome unit.

  Lemma hc_check_loop : forall vis fs r, heap_const (check_loop check vis fs r).
  Proof.
    induction fs as [|f fs IH]; intro r; simpl; [apply hc_ret|].
    apply hc_bind; [apply hc_checked_getattrM|intro v]. apply hc_bind; [apply hc_emit|intros _].
    intros st st' o H. unfold bindM, get_heap in H.
    destruct (check vis (s_heap st) (f_ann f) v); [eapply IH; eassumption|now inversion H].
  Qed.
  Lemma hc_validate : forall vis C r, heap_const (validate_types P check vis C r).
  Proof.
    intros. unfold validate_types. destruct (has_meth P MValidateTypes); [|apply hc_raise].
    destruct (nearest_deco C); [apply hc_check_loop|apply hc_raise].
  Qed.

  Lemma flat_map_names_incl : forall (A : list name) (B : list (name * value)) body, incl A (map fst B) ->
    incl (flat_map (fun s => match s with PSet n _ => [n] | PSuper => A end) body)
         (map fst (flat_map (fun s => match s with PSet n v => [(n, v)] | PSuper => B end) body)).
  Proof.
    intros A B body Hi. induction body as [|[n v|] body IH]; simpl; [intros x []| |].
    - intros x [<-|Hx]; [now left|right; now apply IH].
    - rewrite map_app. apply incl_app; [apply incl_appl, Hi|apply incl_appr, IH].
  Qed.
  Lemma pi_sets_resolve : forall C, incl (pi_sets (resolve_pi P C)) (hook_set_names C).
  Proof.
    unfold hook_set_names. induction C as [|L C IH]; [intros x []|]. cbn [resolve_pi spec_hook_sets].
    assert (H : incl (pi_sets (match l_pi L with
                               | Some b => PFUser (l_id L) b (decorated L && eff_slots P L) (resolve_pi P C)
                               | None => resolve_pi P C end))
                     (map fst (match l_pi L with
                               | None => spec_hook_sets C
                               | Some b => flat_map (fun s => match s with PSet n v => [(n, v)] | PSuper => spec_hook_sets C end) (pb_body b)
                               end))).
    { destruct (l_pi L) as [b|]; cbn [pi_sets]; [now apply flat_map_names_incl|exact IH]. }
    destruct (ts_installed P L); [|exact H]. cbn [pi_sets].
    destruct (l_pi L) as [b|]; [exact H|]. destruct (resolve_pi P C); exact H.
  Qed.

  Lemma touches_obj_setattr : forall C r n v N, In n N -> touches r N (obj_setattr P C r n v).
  Proof.
    intros C r n v N Hn. unfold obj_setattr. destruct (has_dict P C || mem n (field_names C)); [|apply touches_raise].
    eapply touches_mono; [|apply touches_set_attr_raw]. intros x [<-|[]]. assumption.
  Qed.
  Lemma touches_run_body : forall C r N (sup : M unit) slots body,
    (In PSuper body -> touches r N sup) -> (forall n v, In (PSet n v) body -> In n N) ->
    touches r N (run_body (obj_setattr P C r) sup slots body).
  Proof.
    intros C r N sup slots. induction body as [|s body IH]; intros Hs Hn; [apply touches_ret|].
    destruct s as [n v|]; cbn [run_body].
    - apply touches_bind.
      + apply touches_obj_setattr. apply (Hn n v). now left.
      + intros _. apply IH; [intro X; apply Hs; now right|intros m w X; apply (Hn m w); now right].
    - apply touches_bind; [destruct slots; [apply touches_raise|apply Hs; now left]|].
      intros _. apply IH; [intro X; apply Hs; now right|intros m w X; apply (Hn m w); now right].
  Qed.
  Lemma touches_run_steps : forall r N old (val : bool -> M unit) vis, touches r N old -> (forall b, heap_const (val b)) ->
    forall steps ctxv, touches r N (run_steps old val vis ctxv steps).
  Proof.
    intros r N old val vis Ho Hv. induction steps as [|s steps IH]; intro ctxv; simpl; [apply touches_ret|].
    destruct s.
    - apply touches_bind; [assumption|intro; apply IH].
    - apply IH.
    - destruct ctxv; [|apply touches_raise]. apply touches_bind; [apply touches_heap_const, Hv|intro; apply IH].
  Qed.
  Lemma touches_run_pi : forall C r (val : bool -> M unit), (forall b, heap_const (val b)) ->
    forall f v outer, touches r (pi_sets f) (run_pi P f v outer val (obj_setattr P C r)).
  Proof.
    intros C r val Hv. induction f as [| |c b slots sup IH|old IH]; intros v outer; cbn [run_pi pi_sets].
    - apply touches_raise.
    - apply touches_ret.
    - apply touches_bind; [apply touches_heap_const, hc_emit|intros _].
      apply touches_bind.
      + apply touches_run_body.
        * intro Hin. eapply touches_mono; [|apply IH]. intros x Hx. apply in_flat_map. exists PSuper. now split.
        * intros n w Hin. apply in_flat_map. exists (PSet n w). split; [assumption|now left].
      + intros _. unfold end_of. destruct (pb_raise b); [apply touches_raise|apply touches_ret].
    - destruct (p_ts P); [|apply touches_ret]. apply touches_run_steps; [apply IH|assumption].
  Qed.

  (* construction: __init__ allocates (the candidate is the last cell), __post_init__ touches the candidate only *)
  Lemma construct_shape : forall v C kw st st' o,
    construct P check v C kw st = (st', o) ->
    (exists e, o = Raise e /\ exists ext, s_heap st' = s_heap st ++ ext) \/
    exists attrs attrs' ext,
      build_attrs (dc_fields C) kw st = (mkSt (s_heap st ++ ext) (s_journal st), Ok attrs) /\
      s_heap st' = (s_heap st ++ ext) ++ [mkObj (KData (class_id C)) [] attrs'] /\
      (forall r', o = Ok r' -> r' = List.length (s_heap st ++ ext)) /\
      (forall n, ~ In n (hook_set_names C) -> lookup attrs' n = lookup attrs n) /\
      kw_unexpected (dc_fields C) kw = false /\ kw_missing (dc_fields C) kw = false.
  Proof.
    intros v C kw st st' o H. unfold construct in H. unfold bindM at 1 in H.
    destruct (candidate C kw st) as [s1 [r|e]] eqn:Ec.
    - right. destruct (candidate_spec _ _ _ _ _ Ec) as [D [attrs [ext [HD [HB [Hh [Hr [Hj [Hu Hm]]]]]]]]].
      rewrite HD in H.
      assert (Ht : touched r (hook_set_names C) (s_heap s1) (s_heap st') /\ (forall r', o = Ok r' -> r' = r)).
      { destruct (init_calls_pi P D).
        - unfold bindM in H.
          destruct (run_pi P (resolve_pi P C) v 0 (fun vis => validate_types P check vis C r) (obj_setattr P C r) s1)
            as [s2 [[]|e]] eqn:Er.
          + unfold ret in H. inversion H as [[Ha Hb]]. split; [|intros r' X; now inversion X].
            rewrite <- Ha. eapply touched_mono; [apply pi_sets_resolve|].
            eapply (touches_run_pi C r (fun vis => validate_types P check vis C r)); [intro; apply hc_validate|eassumption].
          + inversion H as [[Ha Hb]]. split; [|intros r' X; discriminate].
            rewrite <- Ha. eapply touched_mono; [apply pi_sets_resolve|].
            eapply (touches_run_pi C r (fun vis => validate_types P check vis C r)); [intro; apply hc_validate|eassumption].
        - unfold ret in H. inversion H as [[Ha Hb]]. split; [apply touched_refl|intros r' X; now inversion X]. }
      destruct Ht as [Ht Hr'].
      rewrite Hh, Hr in Ht. destruct (touched_last _ _ _ _ Ht) as [o' [E1 [E2 [E3 E4]]]].
      destruct o' as [k' it' attrs']. simpl in *. subst k' it'.
      exists attrs, attrs', ext. split; [assumption|]. split; [assumption|].
      split; [intros r' X; rewrite (Hr' r' X); assumption|]. repeat split; assumption.
    - left. inversion H. subst. exists e. split; [reflexivity|]. eapply grows_candidate. eassumption.
  Qed.

  Lemma grows_construct : forall v C kw, grows (construct P check v C kw).
  Proof.
    intros v C kw st st' o H. destruct (construct_shape _ _ _ _ _ _ H) as [[e [_ Hx]]|[attrs [attrs' [ext [_ [Hh _]]]]]].
    - exact Hx.
    - rewrite Hh, <- app_assoc. eexists. reflexivity.
  Qed.
  Lemma hc_replace_changes : forall fs r kw ch, heap_const (replace_changes fs r kw ch).
  Proof.
    induction fs as [|f fs IH]; intros; simpl; [apply hc_ret|].
    destruct (negb (f_init f)).
    - destruct (mem _ _); [apply hc_raise|apply IH].
    - destruct (lookup ch (f_name f)); [apply IH|]. apply hc_bind; [apply hc_getattrM|intro; apply IH].
  Qed.
  Lemma grows_copy_with : forall C r kw, grows (copy_with P check C r kw).
  Proof.
    intros. unfold copy_with. destruct (has_meth P MCopyWith); [|apply grows_raise].
    destruct (nearest_deco C); [|apply grows_raise].
    apply grows_bind; [apply heap_const_grows, hc_replace_changes|intro; apply grows_construct].
  Qed.
  Lemma grows_current_values : forall fs r, grows (current_values P fs r).
  Proof.
    induction fs as [|f fs IH]; intro r; simpl; [apply grows_ret|].
    apply grows_bind; [apply grows_getattrM|intro v]. apply grows_bind.
    - destruct (d_deepcopy (p_deep P)); [apply grows_deepcopyM|apply grows_ret].
    - intro. apply grows_bind; [apply IH|intro; apply grows_ret].
  Qed.
  Lemma grows_deep_args : forall C r kw, grows (deep_args P C r kw).
  Proof.
    intros. unfold deep_args. destruct (nearest_deco C); [|apply grows_raise].
    apply grows_bind; [apply grows_current_values|intro; apply grows_ret].
  Qed.
  Lemma grows_deep_copy_with : forall C r kw, grows (deep_copy_with P check C r kw).
  Proof.
    intros. unfold deep_copy_with. destruct (has_meth P MDeepCopyWith); [|apply grows_raise].
    apply grows_bind; [apply grows_deep_args|intro; apply grows_construct].
  Qed.
  Lemma grows_run_path : forall C p, grows (run_path P check C p).
  Proof. intros C [kw|r kw|r kw]; simpl; [apply grows_construct|apply grows_copy_with|apply grows_deep_copy_with]. Qed.

  (* the instance a successful construction returns: fresh, of class C, attributes as built by __init__ except
     for the names a user-written __post_init__ of the hierarchy assigns *)
  Lemma construct_result : forall v C kw st st' r',
    construct P check v C kw st = (st', Ok r') ->
    exists attrs attrs' ext,
      build_attrs (dc_fields C) kw st = (mkSt (s_heap st ++ ext) (s_journal st), Ok attrs) /\
      s_heap st' = (s_heap st ++ ext) ++ [mkObj (KData (class_id C)) [] attrs'] /\
      r' = List.length (s_heap st ++ ext) /\
      (forall n, ~ In n (hook_set_names C) -> lookup attrs' n = lookup attrs n) /\
      kw_unexpected (dc_fields C) kw = false /\ kw_missing (dc_fields C) kw = false.
  Proof.
    intros v C kw st st' r' H. destruct (construct_shape _ _ _ _ _ _ H) as [[e [X _]]|[attrs [attrs' [ext [A [B [C0 [D0 [E0 F0]]]]]]]]].
    - discriminate.
    - exists attrs, attrs', ext. repeat split; try assumption. now apply C0.
  Qed.
End Generic.

(* ---------------------------------------------------------------- dataclasses.replace: the keyword arguments *)
Lemma replace_changes_spec : forall fs r kw changes st st' ch,
  replace_changes fs r kw changes st = (st', Ok ch) ->
  st' = st /\
  (forall n, lookup changes n <> None -> lookup ch n = lookup changes n) /\
  (forall f, In f fs -> f_init f = true -> lookup changes (f_name f) = None ->
     lookup ch (f_name f) = getattr (s_heap st) r (f_name f) /\ lookup ch (f_name f) <> None) /\
  (forall n, lookup ch n <> None -> lookup changes n <> None \/ exists f, In f fs /\ f_init f = true /\ f_name f = n) /\
  (forall f, In f fs -> f_init f = false -> mem (f_name f) (map fst kw) = false).
Proof.
  induction fs as [|f fs IH]; intros r kw changes st st' ch H.
  - simpl in H. inversion H. subst. split; [reflexivity|]. split; [reflexivity|]. split; [intros f []|].
    split; [intros n Hn; now left|intros f []].
  - simpl in H. destruct (f_init f) eqn:Ei; simpl in H.
    + destruct (lookup changes (f_name f)) as [w|] eqn:El.
      * destruct (IH _ _ _ _ _ _ H) as [A [B [C0 [D0 E0]]]]. split; [assumption|]. split; [assumption|]. split; [|split].
        -- intros g [Hg|Hg] Hgi Hgl; [subst g; congruence|now apply C0].
        -- intros n Hn. destruct (D0 n Hn) as [X|[g [G1 [G2 G3]]]]; [now left|right]. exists g. split; [now right|tauto].
        -- intros g [Hg|Hg] Hgi; [subst g; congruence|now apply E0].
      * unfold bindM at 1 in H. unfold getattrM in H.
        destruct (getattr (s_heap st) r (f_name f)) as [v|] eqn:Eg; [|discriminate].
        destruct (IH _ _ _ _ _ _ H) as [A [B [C0 [D0 E0]]]]. split; [assumption|].
        assert (Hnew : lookup (changes ++ [(f_name f, v)]) (f_name f) = Some v).
        { rewrite lookup_app, El. simpl. unfold lookup. simpl. now rewrite Nat.eqb_refl. }
        split; [|split; [|split]].
        -- intros n Hn. rewrite B; [|rewrite lookup_app; destruct (lookup changes n); [discriminate|congruence]].
           rewrite lookup_app. destruct (lookup changes n); [reflexivity|congruence].
        -- intros g [Hg|Hg] Hgi Hgl.
           ++ subst g. rewrite B by (rewrite Hnew; discriminate). rewrite Hnew, Eg. split; [reflexivity|discriminate].
           ++ destruct (Nat.eqb (f_name f) (f_name g)) eqn:En.
              ** apply Nat.eqb_eq in En. rewrite <- En. rewrite B by (rewrite Hnew; discriminate).
                 rewrite Hnew, Eg. split; [reflexivity|discriminate].
              ** apply C0; [assumption|assumption|]. rewrite lookup_app, Hgl. unfold lookup. simpl. now rewrite En.
        -- intros n Hn. destruct (D0 n Hn) as [X|[g [G1 [G2 G3]]]].
           ++ rewrite lookup_app in X. destruct (lookup changes n) eqn:En; [left; discriminate|].
              right. exists f. split; [now left|]. split; [assumption|].
              unfold lookup in X. simpl in X. destruct (Nat.eqb (f_name f) n) eqn:E2; [now apply Nat.eqb_eq|congruence].
           ++ right. exists g. split; [now right|tauto].
        -- intros g [Hg|Hg] Hgi; [subst g; congruence|now apply E0].
    + destruct (mem (f_name f) (map fst kw)) eqn:Em; [discriminate|].
      destruct (IH _ _ _ _ _ _ H) as [A [B [C0 [D0 E0]]]]. split; [assumption|]. split; [assumption|]. split; [|split].
      * intros g [Hg|Hg] Hgi Hgl; [subst g; congruence|now apply C0].
      * intros n Hn. destruct (D0 n Hn) as [X|[g [G1 [G2 G3]]]]; [now left|right]. exists g. split; [now right|tauto].
      * intros g [Hg|Hg] Hgi; [subst g; assumption|now apply E0].
Qed.

(* ---------------------------------------------------------------- well-formed heaps, reachability *)
Definition ref_ok (n : nat) (v : value) : Prop := match v with VRef q => q < n | VAtom _ => True end.
Definition heap_wf (h : heap) : Prop :=
  forall r o, nth_error h r = Some o -> forall c, In c (children o) -> ref_ok (List.length h) c.
Definition ref_okb (n : nat) (v : value) : bool := match v with VRef q => q <? n | VAtom _ => true end.
Definition heap_wfb (h : heap) : bool := forallb (fun o => forallb (ref_okb (List.length h)) (children o)) h.

Lemma heap_wfb_sound : forall h, heap_wfb h = true -> heap_wf h.
Proof.
  intros h H r o Hr c Hc. unfold heap_wfb in H. rewrite forallb_forall in H.
  specialize (H o (nth_error_In _ _ Hr)). rewrite forallb_forall in H. specialize (H c Hc).
  destruct c; simpl in *; [exact I|now apply Nat.ltb_lt].
Qed.

(* inside a well-formed heap, reachability does not see later allocations *)
Lemma reach_in_prefix : forall h ext v q, heap_wf h -> ref_ok (List.length h) v ->
  reach (h ++ ext) v q -> reach h v q /\ q < List.length h.
Proof.
  intros h ext v q Hwf Hv H. induction H as [r|r o c q Hn Hc Hr IH].
  - split; [constructor|exact Hv].
  - simpl in Hv. rewrite nth_error_app1 in Hn by assumption.
    assert (Hok : ref_ok (List.length h) c) by (eapply Hwf; eassumption).
    destruct (IH Hok) as [I1 I2]. split; [|assumption]. econstructor; eassumption.
Qed.

Lemma reach_lt : forall h v q, heap_wf h -> ref_ok (List.length h) v -> reach h v q -> q < List.length h.
Proof.
  intros h v q Hwf Hv H. rewrite <- (app_nil_r h) in H. now destruct (reach_in_prefix _ _ _ _ Hwf Hv H).
Qed.

Lemma reach_app : forall h ext v q, reach h v q -> reach (h ++ ext) v q.
Proof.
  intros h ext v q H. induction H as [r|r o c q Hn Hc Hr IH]; [constructor|].
  econstructor; [|eassumption|assumption]. rewrite nth_error_app1; [assumption|]. apply nth_error_Some. congruence.
Qed.

(* ---------------------------------------------------------------- copy.deepcopy *)
(* v' in heap h' is the result of deepcopy(v) performed at some moment after h (heap hk) *)
Definition is_deepcopy (h h' : heap) (v v' : value) : Prop :=
  exists e1 e2, let hk := h ++ e1 in
    h' = (hk ++ map (shift_o hk (List.length hk)) hk) ++ e2 /\ v' = shift_v hk (List.length hk) v.

Lemma selfcopy_app : forall h ext q, q < List.length h -> selfcopy (h ++ ext) q = selfcopy h q.
Proof. intros. unfold selfcopy. now rewrite nth_error_app1. Qed.

Lemma children_shift : forall hk off o, children (shift_o hk off o) = map (shift_v hk off) (children o).
Proof.
  intros. unfold children, shift_o. simpl. rewrite map_app, !map_map. reflexivity.
Qed.

(* what a deep copy reaches: fresh objects, or old ones only through an object that opted out
   of deep copying (its __deepcopy__ returns self) *)
Lemma deepcopy_reaches : forall h h' v v' q', heap_wf h -> ref_ok (List.length h) v ->
  is_deepcopy h h' v v' -> reach h' v' q' ->
  List.length h <= q' \/ exists q0, selfcopy h q0 = true /\ reach h v q0 /\ reach h (VRef q0) q'.
Proof.
  intros h h' v v' q' Hwf Hv [e1 [e2 [Hh' Hv']]] Hr. cbv zeta in *.
  set (hk := h ++ e1) in *. set (off := List.length hk) in *.
  assert (Hoff : List.length h <= off) by (unfold off, hk; rewrite app_length; lia).
  (* generalise over the original value *)
  assert (G : forall x q, reach h' x q -> forall x0, x = shift_v hk off x0 -> ref_ok (List.length h) x0 ->
              (forall s, reach h x0 s -> reach h v s) ->
              List.length h <= q \/ exists q0, selfcopy h q0 = true /\ reach h v q0 /\ reach h (VRef q0) q).
  { clear Hr Hv' v' q'. intros x q Hr. induction Hr as [r|r o c q Hn Hc Hr IH]; intros x0 Hx Hx0 Hsub.
    - destruct x0 as [a|r0]; simpl in Hx; [discriminate|].
      destruct (selfcopy hk r0) eqn:Es; inversion Hx; subst.
      + right. exists r0. rewrite <- (selfcopy_app h e1 r0 Hx0). split; [assumption|]. split; [apply Hsub|]; constructor.
      + left. lia.
    - destruct x0 as [a|r0]; simpl in Hx; [discriminate|]. simpl in Hx0.
      destruct (selfcopy hk r0) eqn:Es; inversion Hx; subst r.
      + (* shared object: everything below it lives in h *)
        right. exists r0. rewrite <- (selfcopy_app h e1 r0 Hx0). split; [assumption|]. split; [apply Hsub; constructor|].
        assert (Hn' : nth_error h r0 = Some o).
        { rewrite Hh' in Hn. unfold hk in Hn. rewrite <- !app_assoc in Hn. now rewrite nth_error_app1 in Hn. }
        assert (Hok : ref_ok (List.length h) c) by (eapply Hwf; eassumption).
        rewrite Hh' in Hr. unfold hk in Hr. rewrite <- !app_assoc in Hr.
        destruct (reach_in_prefix _ _ _ _ Hwf Hok Hr) as [R _]. econstructor; eassumption.
      + (* the relocated counterpart of r0 *)
        assert (Hlt : r0 < List.length hk) by (unfold hk; rewrite app_length; lia).
        destruct (nth_error hk r0) as [o0|] eqn:E0; [|apply nth_error_None in E0; lia].
        assert (Ho : o = shift_o hk off o0).
        { rewrite Hh' in Hn. rewrite nth_error_app1 in Hn by (rewrite app_length, map_length; fold off; lia).
          rewrite nth_error_app2 in Hn by (fold off; lia). fold off in Hn.
          replace (r0 + off - off) with r0 in Hn by lia.
          rewrite nth_error_map, E0 in Hn. simpl in Hn. congruence. }
        subst o. rewrite children_shift in Hc. apply in_map_iff in Hc as [c0 [Hc0 Hin]].
        assert (E0' : nth_error h r0 = Some o0) by (unfold hk in E0; now rewrite nth_error_app1 in E0).
        apply (IH c0 (eq_sym Hc0)).
        * eapply Hwf; eassumption.
        * intros s Hs. apply Hsub. econstructor; eassumption. }
  apply (G v' q' Hr v Hv' Hv). auto.
Qed.

(* the copy is equal to the original: the graphs are isomorphic *)
Lemma deepcopy_equal : forall h h' v v', heap_wf h -> ref_ok (List.length h) v ->
  is_deepcopy h h' v v' -> deep_equal h v h' v'.
Proof.
  intros h h' v v' Hwf Hv [e1 [e2 [Hh' Hv']]]. cbv zeta in *.
  set (hk := h ++ e1) in *. set (off := List.length hk) in *.
  exists (fun q => if selfcopy hk q then q else q + off). split.
  - subst v'. destruct v as [a|r]; simpl; [reflexivity|]. destruct (selfcopy hk r); reflexivity.
  - intros q Hq. pose proof (reach_lt _ _ _ Hwf Hv Hq) as Hlt.
    assert (Hlk : q < List.length hk) by (unfold hk; rewrite app_length; lia).
    destruct (selfcopy hk q) eqn:Es.
    + right. split; [reflexivity|]. rewrite Hh'. unfold hk. rewrite <- !app_assoc. now rewrite nth_error_app1.
    + left. rewrite Hh'. rewrite nth_error_app1 by (rewrite app_length, map_length; fold off; lia).
      rewrite nth_error_app2 by (fold off; lia). fold off. replace (q + off - off) with q by lia.
      rewrite nth_error_map. unfold hk at 2. rewrite nth_error_app1 by assumption.
      destruct (nth_error h q) as [o|]; [|reflexivity]. simpl. f_equal.
      unfold shift_o, rename_obj. f_equal.
      * apply map_ext. intros [a|r]; simpl; [reflexivity|]. destruct (selfcopy hk r); reflexivity.
      * apply map_ext. intros [n [a|r]]; simpl; [reflexivity|]. destruct (selfcopy hk r); reflexivity.
Qed.

Lemma is_deepcopy_later : forall h h' ext v v', is_deepcopy h h' v v' -> is_deepcopy h (h' ++ ext) v v'.
Proof.
  intros h h' ext v v' [e1 [e2 [A B]]]. exists e1, (e2 ++ ext). cbv zeta in *. split; [|assumption].
  rewrite A. now rewrite <- !app_assoc.
Qed.

(* the region in which every assignment / deletion is rejected: the instance's own class is decorated, or the name is a
   field, or some class of the hierarchy was decorated with slots=True (its __setattr__ fails in super(), CPython 3.12) *)
Definition frozen_guard (P : prog) (C : chain) (n : name) : bool :=
  match C with [] => false | L :: _ => decorated L end
  || mem n (field_names C) || existsb (fun L => decorated L && eff_slots P L) C.

(* ---------------------------------------------------------------- the two copy methods (reference program) *)
Section Copy.
  Variable defs : list (dparam * bool).
  Let P := ref_prog defs.
  Variable check : bool -> heap -> ann -> value -> outcome unit.

  Lemma lookup_attrs_of_new : forall h o n, getattr (h ++ [o]) (List.length h) n = lookup (o_attrs o) n.
  Proof. intros. apply getattr_new. Qed.

  (* ---- copy_with *)
  Lemma copy_with_result : forall C r kw st st' r',
    copy_with P check C r kw st = (st', Ok r') ->
    let h := s_heap st in let h' := s_heap st' in
    preserved h h' /\ List.length h <= r' /\ class_of h' r' = Some (class_id C) /\
    (forall f, In f (dc_fields C) -> f_init f = true -> ~ In (f_name f) (hook_set_names C) ->
       getattr h' r' (f_name f) = expected_field kw h r (f_name f) /\ getattr h' r' (f_name f) <> None) /\
    (forall f, In f (dc_fields C) -> f_init f = false ->
       lookup kw (f_name f) = None /\
       (~ In (f_name f) (hook_set_names C) ->
        (forall v, f_default f = DVal v -> getattr h' r' (f_name f) = Some v) /\
        (forall k, f_default f = DFactory k -> exists q, getattr h' r' (f_name f) = Some (VRef q) /\
             List.length h <= q /\ nth_error h' q = Some (mkObj k [] [])))) /\
    (forall n, lookup kw n <> None -> exists f, In f (dc_fields C) /\ f_init f = true /\ f_name f = n).
  Proof.
    intros C r kw st st' r' H h h'. subst h h'.
    destruct (grows_copy_with P check C r kw _ _ _ H) as [extT HT].
    unfold copy_with in H. change (has_meth P MCopyWith) with true in H. cbv iota in H.
    destruct (nearest_deco C) as [D|] eqn:HD; [|discriminate].
    rewrite (nearest_deco_fields _ _ HD) in H. unfold bindM at 1 in H.
    destruct (replace_changes (dc_fields C) r kw kw st) as [s1 [ch|e]] eqn:Er; [|discriminate].
    destruct (replace_changes_spec _ _ _ _ _ _ _ Er) as [Hs1 [RA [RB [RC RD]]]]. subst s1.
    destruct (construct_result P check _ _ _ _ _ _ H) as [attrs [attrs' [ext [HB [Hh [Hr [Hk [Hu Hm]]]]]]]].
    destruct (build_attrs_spec _ _ _ _ _ HB (dc_fields_nodup C)) as [BN BF].
    assert (Hget : forall n, ~ In n (hook_set_names C) -> getattr (s_heap st') r' n = lookup attrs n).
    { intros n Hn. rewrite Hh, Hr, getattr_new. simpl. now apply Hk. }
    split; [exists extT; exact HT|]. split; [subst r'; rewrite app_length; lia|]. split.
    { unfold class_of. rewrite Hh, Hr. rewrite nth_error_app2, Nat.sub_diag by lia. reflexivity. }
    split; [|split].
    - intros f Hf Hi Hnh. destruct (BF f Hf) as [B1 [B2 _]]. rewrite (Hget _ Hnh). unfold expected_field.
      destruct (lookup kw (f_name f)) as [v|] eqn:El.
      + assert (Hc : lookup ch (f_name f) = Some v) by (rewrite RA; [assumption|congruence]).
        rewrite (B1 Hi v Hc). split; [reflexivity|discriminate].
      + destruct (RB f Hf Hi El) as [R1 R2].
        destruct (lookup ch (f_name f)) as [v|] eqn:Ec; [|congruence].
        rewrite (B1 Hi v eq_refl). split; [congruence|discriminate].
    - intros f Hf Hi. destruct (BF f Hf) as [_ [_ [B3 B4]]].
      assert (Hn : f_init f && is_some (lookup ch (f_name f)) = false) by (rewrite Hi; reflexivity).
      specialize (RD f Hf Hi). apply mem_false in RD.
      split; [now apply lookup_none_notin|]. intro Hnh. split.
      + intros v Hv. rewrite (Hget _ Hnh). now apply B3.
      + intros k Hk'. destruct (B4 Hn k Hk') as [q [Q1 [Q2 Q3]]]. exists q. rewrite (Hget _ Hnh). split; [assumption|].
        split; [exact Q2|]. rewrite Hh. simpl in Q3. rewrite nth_error_app1; [assumption|].
        apply nth_error_Some. congruence.
    - intros n Hn. unfold kw_unexpected in Hu.
      assert (Hc : lookup ch n <> None) by (rewrite RA; assumption).
      destruct (lookup ch n) as [v|] eqn:Ec; [|congruence].
      apply lookup_some_in in Ec.
      destruct (existsb (fun f => Nat.eqb (f_name f) n && f_init f) (dc_fields C)) eqn:E1.
      + apply existsb_exists in E1 as [f [Hf Hb]]. apply andb_true_iff in Hb as [Hb1 Hb2].
        exists f. split; [assumption|]. split; [assumption|]. now apply Nat.eqb_eq in Hb1.
      + exfalso. assert (X : existsb (fun nv => negb (existsb (fun f => Nat.eqb (f_name f) (fst nv) && f_init f) (dc_fields C))) ch = true).
        { apply existsb_exists. exists (n, v). split; [assumption|]. simpl. now rewrite E1. }
        congruence.
  Qed.

  (* ---- deep_copy_with *)
  Lemma current_values_spec : forall h r sel st st1 cur,
    r < List.length h -> (exists e0, s_heap st = h ++ e0) ->
    current_values P sel r st = (st1, Ok cur) ->
    map fst cur = map f_name sel /\
    forall n v', In (n, v') cur -> exists v, getattr h r n = Some v /\ is_deepcopy h (s_heap st1) v v'.
  Proof.
    intros h r. induction sel as [|f sel IH]; intros st st1 cur Hr [e0 He0] H.
    - simpl in H. inversion H. subst. split; [reflexivity|intros n v' []].
    - simpl in H. unfold bindM at 1 in H. unfold getattrM in H.
      destruct (getattr (s_heap st) r (f_name f)) as [v|] eqn:Eg; [|discriminate].
      change (d_deepcopy (p_deep P)) with true in H. cbv iota in H.
      unfold bindM at 1 in H. unfold deepcopyM, deepcopy in H.
      remember (s_heap st) as hk eqn:Ehk.
      remember (mkSt (hk ++ map (shift_o hk (List.length hk)) hk) (s_journal st)) as s1 eqn:Es1.
      unfold bindM at 1 in H.
      destruct (current_values P sel r s1) as [s2 [tl|e]] eqn:Et; [|discriminate].
      unfold ret in H. inversion H. subst st1 cur. clear H.
      assert (Hs1 : exists e, s_heap s1 = h ++ e).
      { exists (e0 ++ map (shift_o hk (List.length hk)) hk). rewrite Es1. cbn [s_heap]. rewrite He0 at 1. now rewrite app_assoc. }
      destruct (IH _ _ _ Hr Hs1 Et) as [I1 I2].
      destruct (grows_current_values P sel r _ _ _ Et) as [e2 He2].
      split; [simpl; now rewrite I1|].
      intros n v' [Hin|Hin].
      + inversion Hin. subst n v'. exists v. split.
        * rewrite He0 in Eg. now rewrite getattr_app in Eg.
        * exists e0, e2. cbv zeta. rewrite <- He0. split; [|reflexivity]. rewrite He2, Es1. reflexivity.
      + now apply I2.
  Qed.

  Lemma deep_copy_with_result : forall C r kw st st' r',
    deep_copy_with P check C r kw st = (st', Ok r') ->
    r < List.length (s_heap st) -> NoDup (map fst kw) ->
    let h := s_heap st in let h' := s_heap st' in
    preserved h h' /\ List.length h <= r' /\ class_of h' r' = Some (class_id C) /\
    (forall f, In f (dc_fields C) -> f_init f = true -> ~ In (f_name f) (hook_set_names C) ->
       match lookup kw (f_name f) with
       | Some v => getattr h' r' (f_name f) = Some v
       | None => exists v v', getattr h r (f_name f) = Some v /\ getattr h' r' (f_name f) = Some v' /\
                              is_deepcopy h h' v v'
       end) /\
    (forall f, In f (dc_fields C) -> f_init f = false ->
       lookup kw (f_name f) = None /\
       (~ In (f_name f) (hook_set_names C) ->
        (forall v, f_default f = DVal v -> getattr h' r' (f_name f) = Some v) /\
        (forall k, f_default f = DFactory k -> exists q, getattr h' r' (f_name f) = Some (VRef q) /\
             List.length h <= q /\ nth_error h' q = Some (mkObj k [] [])))) /\
    (forall n, lookup kw n <> None -> exists f, In f (dc_fields C) /\ f_init f = true /\ f_name f = n).
  Proof.
    intros C r kw st st' r' H Hr Hnd h h'. subst h h'.
    destruct (grows_deep_copy_with P check C r kw _ _ _ H) as [extT HT].
    unfold deep_copy_with in H. change (has_meth P MDeepCopyWith) with true in H. cbv iota in H.
    unfold bindM at 1 in H. unfold deep_args in H.
    destruct (nearest_deco C) as [D|] eqn:HD; [|discriminate].
    rewrite (nearest_deco_fields _ _ HD) in H.
    change (d_filter_init (p_deep P)) with true in H. change (d_merge (p_deep P)) with MergeKwLast in H. cbv iota in H.
    unfold bindM at 1 in H.
    destruct (current_values P (filter f_init (dc_fields C)) r st) as [s1 [cur|e]] eqn:Ec; [|discriminate].
    unfold ret in H. change (deep_ctor P C) with C in H.
    assert (Hst : exists e0, s_heap st = s_heap st ++ e0) by (exists []; now rewrite app_nil_r).
    destruct (current_values_spec _ _ _ _ _ _ Hr Hst Ec) as [CV1 CV2].
    destruct (grows_current_values P _ _ _ _ _ Ec) as [e1 He1].
    set (args := dict_merge cur kw) in *.
    destruct (construct_result P check _ _ _ _ _ _ H) as [attrs [attrs' [ext [HB [Hh [Hr' [Hkk [Hu Hm]]]]]]]].
    destruct (build_attrs_spec _ _ _ _ _ HB (dc_fields_nodup C)) as [BN BF].
    assert (Hget : forall n, ~ In n (hook_set_names C) -> getattr (s_heap st') r' n = lookup attrs n).
    { intros n Hn. rewrite Hh, Hr', getattr_new. simpl. now apply Hkk. }
    assert (Largs : forall n, lookup args n = match lookup kw n with Some v => Some v | None => lookup cur n end).
    { intro n. unfold args. now apply lookup_dict_merge. }
    split; [exists extT; exact HT|]. split; [subst r'; rewrite app_length, He1, app_length; lia|]. split.
    { unfold class_of. rewrite Hh, Hr'. rewrite nth_error_app2, Nat.sub_diag by lia. reflexivity. }
    assert (Hkw : forall n, lookup kw n <> None -> exists f, In f (dc_fields C) /\ f_init f = true /\ f_name f = n).
    { intros n Hn. unfold kw_unexpected in Hu.
      assert (Hc : lookup args n <> None) by (rewrite Largs; destruct (lookup kw n); congruence).
      destruct (lookup args n) as [v|] eqn:Ea; [|congruence]. apply lookup_some_in in Ea.
      destruct (existsb (fun f => Nat.eqb (f_name f) n && f_init f) (dc_fields C)) eqn:E1.
      + apply existsb_exists in E1 as [f [Hf Hb]]. apply andb_true_iff in Hb as [Hb1 Hb2].
        exists f. split; [assumption|]. split; [assumption|]. now apply Nat.eqb_eq in Hb1.
      + exfalso. assert (X : existsb (fun nv => negb (existsb (fun f => Nat.eqb (f_name f) (fst nv) && f_init f) (dc_fields C))) args = true).
        { apply existsb_exists. exists (n, v). split; [assumption|]. simpl. now rewrite E1. }
        congruence. }
    split; [|split; [|exact Hkw]].
    - intros f Hf Hi Hnh. destruct (BF f Hf) as [B1 _]. rewrite (Hget _ Hnh).
      destruct (lookup kw (f_name f)) as [v|] eqn:El.
      + apply (B1 Hi). rewrite Largs, El. reflexivity.
      + assert (Hin : In (f_name f) (map fst cur)).
        { rewrite CV1. apply in_map. apply filter_In. split; assumption. }
        destruct (lookup cur (f_name f)) as [v'|] eqn:Ecur; [|exfalso; apply lookup_none_notin in Ecur; contradiction].
        destruct (CV2 _ _ (lookup_some_in _ _ _ _ Ecur)) as [v [G1 G2]].
        exists v, v'. split; [assumption|]. split.
        * apply (B1 Hi). rewrite Largs, El. assumption.
        * destruct (grows_construct P check VDeep C args _ _ _ H) as [e3 He3]. rewrite He3. now apply is_deepcopy_later.
    - intros f Hf Hi. destruct (BF f Hf) as [_ [_ [B3 B4]]].
      assert (Hn : f_init f && is_some (lookup args (f_name f)) = false) by (rewrite Hi; reflexivity).
      assert (Hk : lookup kw (f_name f) = None).
      { destruct (lookup kw (f_name f)) eqn:E; [|reflexivity]. exfalso.
        destruct (Hkw (f_name f)) as [g [G1 [G2 G3]]]; [congruence|].
        (* two fields with the same name are the same field *)
        assert (g = f).
        { clear - G1 Hf G3. pose proof (dc_fields_nodup C) as ND. unfold field_names in ND.
          induction (dc_fields C) as [|x l IH]; [destruct G1|]. simpl in ND. inversion ND as [|? ? Hx ND']; subst.
          destruct G1 as [G1|G1], Hf as [Hf|Hf]; subst.
          - reflexivity.
          - exfalso. apply Hx. rewrite G3. now apply in_map.
          - exfalso. apply Hx. rewrite <- G3. now apply in_map.
          - now apply IH. }
        subst g. congruence. }
      split; [assumption|]. intro Hnh. split.
      + intros v Hv. rewrite (Hget _ Hnh). now apply B3.
      + intros k Hk'. destruct (B4 Hn k Hk') as [q [Q1 [Q2 Q3]]]. exists q. rewrite (Hget _ Hnh). split; [assumption|].
        split; [rewrite He1, app_length in Q2; lia|]. rewrite Hh. simpl in Q3. rewrite nth_error_app1; [assumption|].
        apply nth_error_Some. congruence.
  Qed.

  (* ---- frozen: every assignment / deletion is rejected *)
  Lemma setattr_chain_field : forall C n top, mem n (field_names C) = true -> setattr_chain P top C n = SAFrozen.
  Proof.
    induction C as [|L C IH]; intros n top H; [discriminate|].
    simpl. destruct (decorated L) eqn:HL; simpl.
    - change (eff_frozen P L) with true. simpl. rewrite H. now rewrite orb_true_r.
    - apply IH. unfold field_names in *. simpl in H. now rewrite HL in H.
  Qed.

  Lemma setattr_chain_decorated : forall L rest n, decorated L = true ->
    setattr_chain P true (L :: rest) n =
    if negb (eff_slots P L) || mem n (field_names (L :: rest)) then SAFrozen else SATypeError.
  Proof.
    intros L rest n HL. simpl. rewrite HL. change (eff_frozen P L) with true. simpl.
    destruct (negb (eff_slots P L) || mem n (field_names (L :: rest))) eqn:E; [reflexivity|].
    apply orb_false_iff in E as [E1 _]. apply negb_false_iff in E1. now rewrite E1.
  Qed.

  (* ---- which assignments the generated __setattr__ / __delattr__ chain lets through to object.__setattr__ *)
  Lemma setattr_chain_slots : forall C n top,
    existsb (fun L => decorated L && eff_slots P L) C = true -> setattr_chain P top C n <> SAObject.
  Proof.
    induction C as [|L C IH]; intros n top H; [discriminate|]. simpl in H. simpl setattr_chain.
    destruct (decorated L) eqn:HL; simpl in *.
    - change (eff_frozen P L) with true. cbv iota.
      destruct ((top && negb (eff_slots P L)) || mem n (field_names (L :: C))); [discriminate|].
      destruct (eff_slots P L); [discriminate|]. simpl in H. now apply IH.
    - now apply IH.
  Qed.
  Lemma field_names_rest : forall L rest n, mem n (field_names (L :: rest)) = false -> mem n (field_names rest) = false.
  Proof.
    intros L rest n H. apply mem_false. apply mem_false in H. intro X. apply H.
    destruct (decorated L) eqn:HL; [now apply dc_fields_inherited|]. unfold field_names in *. simpl. now rewrite HL.
  Qed.
  Lemma setattr_chain_open : forall C n, mem n (field_names C) = false ->
    existsb (fun L => decorated L && eff_slots P L) C = false -> setattr_chain P false C n = SAObject.
  Proof.
    induction C as [|L C IH]; intros n Hm Hs; [reflexivity|]. simpl in Hs. apply orb_false_iff in Hs as [Hs1 Hs2].
    simpl setattr_chain. destruct (decorated L) eqn:HL; simpl in *.
    - change (eff_frozen P L) with true. cbv iota. rewrite Hm, Hs1. simpl.
      apply IH; [eapply field_names_rest; eassumption|assumption].
    - apply IH; [eapply field_names_rest; eassumption|assumption].
  Qed.
End Copy.

(* ---------------------------------------------------------------- __eq__ / __hash__ / ordering *)
Section Cmp.
  Variable defs : list (dparam * bool).
  Let P := ref_prog defs.
  Variable R : Type.
  Variable tuple_cmp : cmpop -> heap -> list value -> list value -> outcome R.
  Variable tuple_hash : heap -> list value -> outcome R.

  Lemma getattrs_fields_tuple : forall h r fs,
    getattrs h r (cmp_fields fs) =
    match fields_tuple h r fs with Some t => Ok t | None => Raise AttributeErrorC end.
  Proof.
    induction fs as [|f fs IH]; simpl; [reflexivity|].
    unfold cmp_fields in *. simpl. destruct (f_compare f); [|apply IH]. simpl.
    destruct (getattr h r (f_name f)) as [v|]; [|reflexivity]. rewrite IH.
    destruct (fields_tuple h r fs); reflexivity.
  Qed.

  Lemma dc_cmp_eq : forall L rest h r1 r2 t1 t2, decorated L = true ->
    class_of h r2 = Some (class_id (L :: rest)) ->
    fields_tuple h r1 (dc_fields (L :: rest)) = Some t1 -> fields_tuple h r2 (dc_fields (L :: rest)) = Some t2 ->
    dc_cmp P R tuple_cmp OpEq (L :: rest) h r1 r2 = bind (tuple_cmp OpEq h t1 t2) (fun x => Ok (ViaTuple x)).
  Proof.
    intros L rest h r1 r2 t1 t2 HL Hc H1 H2. unfold dc_cmp. simpl nearest_deco. rewrite HL, Hc.
    rewrite Nat.eqb_refl. rewrite !getattrs_fields_tuple, H1, H2. reflexivity.
  Qed.

  Lemma dc_cmp_order : forall op L rest h r1 r2 t1 t2, decorated L = true -> eff_order P L = true -> op <> OpEq ->
    class_of h r2 = Some (class_id (L :: rest)) ->
    fields_tuple h r1 (dc_fields (L :: rest)) = Some t1 -> fields_tuple h r2 (dc_fields (L :: rest)) = Some t2 ->
    dc_cmp P R tuple_cmp op (L :: rest) h r1 r2 = bind (tuple_cmp op h t1 t2) (fun x => Ok (ViaTuple x)).
  Proof.
    intros op L rest h r1 r2 t1 t2 HL Ho Hop Hc H1 H2. unfold dc_cmp.
    assert (E : match op with OpEq => nearest_deco (L :: rest) | _ => order_layer P (L :: rest) end = Some (L :: rest)).
    { destruct op; try congruence; simpl; now rewrite HL, Ho. }
    rewrite E, Hc, Nat.eqb_refl, !getattrs_fields_tuple, H1, H2. reflexivity.
  Qed.

  Lemma nearest_deco_head : forall C D, nearest_deco C = Some D -> exists L rest, D = L :: rest /\ decorated L = true.
  Proof.
    induction C as [|L C IH]; intros D H; simpl in H; [discriminate|]. destruct (decorated L) eqn:E.
    - inversion H. now exists L, C.
    - now apply IH.
  Qed.
  (* == for every class with a decorated class in its MRO (also undecorated subclasses) *)
  Lemma dc_cmp_eq_gen : forall C D h r1 r2 t1 t2, nearest_deco C = Some D ->
    class_of h r2 = Some (class_id C) ->
    fields_tuple h r1 (dc_fields C) = Some t1 -> fields_tuple h r2 (dc_fields C) = Some t2 ->
    dc_cmp P R tuple_cmp OpEq C h r1 r2 = bind (tuple_cmp OpEq h t1 t2) (fun x => Ok (ViaTuple x)).
  Proof.
    intros C D h r1 r2 t1 t2 HD Hc H1 H2. unfold dc_cmp. rewrite HD, Hc, Nat.eqb_refl, (nearest_deco_fields _ _ HD).
    rewrite !getattrs_fields_tuple, H1, H2. reflexivity.
  Qed.
  (* ordering: through the class that defines the order methods, when it has the fields of the instance's class *)
  Lemma dc_cmp_order_gen : forall op C D' h r1 r2 t1 t2, order_layer P C = Some D' -> dc_fields D' = dc_fields C -> op <> OpEq ->
    class_of h r2 = Some (class_id C) ->
    fields_tuple h r1 (dc_fields C) = Some t1 -> fields_tuple h r2 (dc_fields C) = Some t2 ->
    dc_cmp P R tuple_cmp op C h r1 r2 = bind (tuple_cmp op h t1 t2) (fun x => Ok (ViaTuple x)).
  Proof.
    intros op C D' h r1 r2 t1 t2 Ho Hf Hop Hc H1 H2. unfold dc_cmp.
    assert (E : match op with OpEq => nearest_deco C | _ => order_layer P C end = Some D') by (destruct op; congruence).
    rewrite E, Hc, Nat.eqb_refl, Hf, !getattrs_fields_tuple, H1, H2. reflexivity.
  Qed.
  Lemma dc_hash_gen : forall C D h r t, nearest_deco C = Some D ->
    fields_tuple h r (dc_fields C) = Some t -> dc_hash P R tuple_hash C h r = tuple_hash h t.
  Proof.
    intros C D h r t HD H. unfold dc_hash. rewrite HD. destruct (nearest_deco_head _ _ HD) as [L [rest [-> HL]]].
    change (eff_frozen P L) with true. cbv iota. rewrite (nearest_deco_fields _ _ HD), getattrs_fields_tuple, H. reflexivity.
  Qed.

  Lemma dc_cmp_other_class : forall op C h r1 r2 c2, class_of h r2 = Some c2 -> c2 <> class_id C ->
    dc_cmp P R tuple_cmp op C h r1 r2 = Ok NotImpl.
  Proof.
    intros op C h r1 r2 c2 Hc Hne. unfold dc_cmp.
    destruct (match op with OpEq => nearest_deco C | _ => order_layer P C end); [|reflexivity].
    rewrite Hc. destruct (Nat.eqb (class_id C) c2) eqn:E; [apply Nat.eqb_eq in E; congruence|reflexivity].
  Qed.

  Lemma dc_hash_tuple : forall L rest h r t, decorated L = true ->
    fields_tuple h r (dc_fields (L :: rest)) = Some t ->
    dc_hash P R tuple_hash (L :: rest) h r = tuple_hash h t.
  Proof.
    intros L rest h r t HL H. unfold dc_hash. simpl nearest_deco. rewrite HL.
    change (eff_frozen P L) with true. cbv iota. rewrite getattrs_fields_tuple, H. reflexivity.
  Qed.
End Cmp.
