(* C07, frame lemma: an annotation that mentions no TypeVar (`inert`) is checked without reading
   or writing the TypeVar table and without calling the bound-annotation hook - for EVERY
   regenerated configuration, every value, by nested induction on the annotation.            *)
From Coq Require Import List Arith Bool ZArith Lia.
From PV Require Import Base.Exn Base.Values Base.Ann Model.CheckerCfg Model.Checker Spec.Conforms Spec.TypeVarSpec.
Import ListNotations.

Definition hookT := ann -> value -> tvenv -> res.

(* the result does not depend on the hook nor on the table, and the table is left as it was *)
Definition uniform (F : hookT -> tvenv -> res) : Prop := exists r, forall h tv, F h tv = (r, tv).

Lemma uniform_const r : uniform (fun _ tv => (r, tv)).
Proof. exists r. reflexivity. Qed.

Lemma uniform_ext F G : (forall h tv, F h tv = G h tv) -> uniform G -> uniform F.
Proof. intros E [r H]. exists r. intros. now rewrite E. Qed.

Section Iterators.
  Context {A : Type}.
  Variable f : hookT -> A -> tvenv -> res.

  Lemma q_all_uniform l : (forall x, In x l -> uniform (fun h => f h x)) -> uniform (fun h => q_all (f h) l).
  Proof.
    induction l as [|x l IH]; intro H.
    - exists (Ok true). reflexivity.
    - destruct (H x (or_introl eq_refl)) as [r Hr].
      destruct IH as [r' Hr']; [intros y Hy; apply H; now right|].
      destruct r as [[|]|e].
      + exists r'. intros h tv. simpl. rewrite Hr. apply Hr'.
      + exists (Ok false). intros h tv. simpl. now rewrite Hr.
      + exists (Raise e). intros h tv. simpl. now rewrite Hr.
  Qed.

  Lemma q_any_uniform l : (forall x, In x l -> uniform (fun h => f h x)) -> uniform (fun h => q_any (f h) l).
  Proof.
    induction l as [|x l IH]; intro H.
    - exists (Ok false). reflexivity.
    - destruct (H x (or_introl eq_refl)) as [r Hr].
      destruct IH as [r' Hr']; [intros y Hy; apply H; now right|].
      destruct r as [[|]|e].
      + exists (Ok true). intros h tv. simpl. now rewrite Hr.
      + exists r'. intros h tv. simpl. rewrite Hr. apply Hr'.
      + exists (Raise e). intros h tv. simpl. now rewrite Hr.
  Qed.

  Lemma q_run_uniform q l : (forall x, In x l -> uniform (fun h => f h x)) -> uniform (fun h => q_run (f h) q l).
  Proof. destruct q; [apply q_all_uniform|apply q_any_uniform]. Qed.
End Iterators.

Section Frame.
  Variable cfg : checker_cfg.
  Variable ctx : nat -> option cls.

  Notation II := (fun (h : hookT) (a : ann) => is_inst cfg ctx h a).

  Lemma members_uniform (f : hookT -> ann -> value -> tvenv -> res) v l :
    (forall m, In m l -> is_typevar m = false -> uniform (fun h => f h m v)) ->
    forall acc, uniform (fun h tv => members_f cfg (f h) v l tv acc).
  Proof.
    induction l as [|m l IH]; intros H acc.
    - exists (Ok acc). reflexivity.
    - simpl. destruct (is_typevar m) eqn:Em.
      + apply IH. intros y Hy. apply H. now right.
      + destruct (H m (or_introl eq_refl) Em) as [r Hr].
        destruct r as [b|e].
        * destruct (IH (fun y Hy => H y (or_intror Hy))
                      (match un_quant cfg with QAny => acc || b | QAll => acc && b end)) as [r' Hr'].
          exists r'. intros h tv. rewrite Hr. apply Hr'.
        * exists (Raise e). intros h tv. now rewrite Hr.
  Qed.

  Lemma union_tail_no_tv h l tv0 v tv :
    (forall m, In m l -> is_typevar m = false) -> union_tail cfg h l tv0 v tv = (Ok false, tv).
  Proof.
    intro H. unfold union_tail.
    assert (Hb : union_bounded cfg h l tv0 v tv = (None, tv) /\ union_unbounded l tv0 = []).
    { induction l as [|m l IH]; simpl; [auto|].
      pose proof (H m (or_introl eq_refl)) as Hm.
      destruct m; try discriminate; apply IH; intros y Hy; apply H; now right. }
    destruct Hb as [-> ->]. reflexivity.
  Qed.

  Lemma union_uniform (f : hookT -> ann -> value -> tvenv -> res) l v :
    (forall m, In m l -> is_typevar m = false) ->
    (forall m, In m l -> uniform (fun h => f h m v)) ->
    uniform (fun h => union_f cfg h (f h) l v).
  Proof.
    intros Htv H.
    destruct (members_uniform f v l (fun m Hm _ => H m Hm)
                (match un_quant cfg with QAny => false | QAll => true end)) as [r Hr].
    destruct r as [[|]|e].
    - exists (Ok true). intros h tv. unfold union_f. now rewrite Hr.
    - exists (Ok false). intros h tv. unfold union_f. rewrite Hr. now apply union_tail_no_tv.
    - exists (Raise e). intros h tv. unfold union_f. now rewrite Hr.
  Qed.

  Lemma zip_uniform (f : hookT -> ann -> value -> tvenv -> res) :
    forall l vs, (forall a0, In a0 l -> forall v, uniform (fun h => f h a0 v)) ->
    uniform (fun h => zip_f cfg (f h) l vs).
  Proof.
    induction l as [|a0 l IH]; intros vs H.
    - eexists. intros h tv. simpl. reflexivity.
    - destruct vs as [|v0 vs].
      + eexists. intros h tv. simpl. reflexivity.
      + destruct (H a0 (or_introl eq_refl) v0) as [r Hr].
        destruct (IH vs (fun y Hy => H y (or_intror Hy))) as [r' Hr'].
        destruct r as [[|]|e]; destruct (tu_zip_quant cfg) eqn:Eq.
        * exists r'. intros h tv. simpl. rewrite Hr. simpl. rewrite Eq. apply Hr'.
        * exists (Ok true). intros h tv. simpl. rewrite Hr. simpl. now rewrite Eq.
        * exists (Ok false). intros h tv. simpl. rewrite Hr. simpl. now rewrite Eq.
        * exists r'. intros h tv. simpl. rewrite Hr. simpl. rewrite Eq. apply Hr'.
        * exists (Raise e). intros h tv. simpl. rewrite Hr. simpl. now rewrite ?Eq.
        * exists (Raise e). intros h tv. simpl. rewrite Hr. simpl. now rewrite ?Eq.
  Qed.

  Lemma pair_uniform (f : hookT -> ann -> value -> tvenv -> res) ka va kv :
    (forall v, uniform (fun h => f h ka v)) -> (forall v, uniform (fun h => f h va v)) ->
    uniform (fun h => pair_check cfg (f h) ka va kv).
  Proof.
    intros Hk Hv. destruct (Hk (fst kv)) as [rk Hrk]. destruct (Hv (snd kv)) as [rv Hrv].
    unfold pair_check. destruct (iv_conj cfg).
    - destruct rk as [[|]|e].
      + exists rv. intros. rewrite Hrk. apply Hrv.
      + exists (Ok false). intros. now rewrite Hrk.
      + exists (Raise e). intros. now rewrite Hrk.
    - destruct rk as [[|]|e].
      + exists (Ok true). intros. now rewrite Hrk.
      + exists rv. intros. rewrite Hrk. apply Hrv.
      + exists (Raise e). intros. now rewrite Hrk.
    - exists rk. intros. apply Hrk.
    - exists rv. intros. apply Hrv.
  Qed.

  Lemma items_uniform (f : hookT -> ann -> value -> tvenv -> res) args kvs :
    (forall a0, In a0 args -> forall v, uniform (fun h => f h a0 v)) ->
    uniform (fun h => items_f cfg (f h) args kvs).
  Proof.
    intro H. unfold items_f.
    destruct args as [|ka [|va [|? ?]]]; try apply uniform_const.
    apply (q_run_uniform (fun h => pair_check cfg (f h) ka va)).
    intros kv _. apply pair_uniform; intro v; apply H; simpl; auto.
  Qed.

  Lemma generic_uniform (f : hookT -> ann -> value -> tvenv -> res) o args v :
    (forall a0, In a0 args -> forall w, uniform (fun h => f h a0 w)) ->
    uniform (fun h => generic_f cfg (f h) o args v).
  Proof.
    intro H. unfold generic_f.
    destruct (negb (has_required cfg (AGeneric SpTyping o args))); [apply uniform_const|].
    destruct (negb (abc_instance o (class_of v))); [apply uniform_const|].
    destruct (origin_checker cfg o) as [[| | | | |]|]; try apply uniform_const.
    - destruct (iter_values v) as [l|]; [|apply uniform_const].
      destruct (it_index cfg) as [|[|n]].
      + destruct args as [|a0 args']; [apply uniform_const|].
        apply (q_run_uniform (fun h => f h a0)). intros x _. apply H. now left.
      + destruct args as [|a0 [|a1 args']]; try apply uniform_const.
        apply (q_run_uniform (fun h => f h a1)). intros x _. apply H. simpl; auto.
      + destruct args as [|a0 [|a1 args']]; apply uniform_const.
    - destruct (mp_via_items cfg); [|apply uniform_const].
      destruct (items_of v); [|apply uniform_const]. now apply items_uniform.
    - destruct (pairs_of v); [|apply uniform_const]. now apply items_uniform.
    - destruct v; try apply uniform_const.
      destruct (tu_len_check cfg && negb (Nat.eqb (List.length l) (List.length args))); [apply uniform_const|].
      now apply zip_uniform.
    - destruct (ty_index cfg); [|destruct args; apply uniform_const].
      destruct args as [|a0 args']; [apply uniform_const|].
      destruct a0; try apply uniform_const; destruct v; apply uniform_const.
  Qed.

  Lemma tuple_var_uniform (f : hookT -> ann -> value -> tvenv -> res) e v :
    (forall w, uniform (fun h => f h e w)) ->
    uniform (fun h => tuple_var_f cfg (f h) e v).
  Proof.
    intro H. unfold tuple_var_f.
    destruct (negb (has_required cfg (ATupleVar SpTyping e))); [apply uniform_const|].
    destruct (negb (abc_instance TTuple (class_of v))); [apply uniform_const|].
    destruct (origin_checker cfg TTuple) as [[| | | | |]|]; try apply uniform_const.
    - destruct (iter_values v) as [l|]; [|destruct (it_index cfg); apply uniform_const].
      destruct (it_index cfg); [|apply uniform_const].
      apply (q_run_uniform (fun h => f h e)). intros x _. apply H.
    - destruct v; try apply uniform_const.
      destruct (tu_ell_index cfg).
      + apply (q_run_uniform (fun h => f h e)). intros x _. apply H.
      + destruct l; apply uniform_const.
  Qed.

  (* the frame lemma *)
  Theorem inert_uniform : forall a, inert a = true -> forall v, uniform (fun h => is_inst cfg ctx h a v).
  Proof.
    induction a using ann_ind'; intros Hi v; cbn [is_inst];
      try (destruct (negb (has_required cfg _)); [apply uniform_const|]).
    - apply uniform_const.
    - apply uniform_const.
    - destruct (special_checker cfg TAny) as [[| | |]|]; apply uniform_const.
    - (* Union *)
      cbn [inert] in Hi.
      assert (Hm : forall m, In m args -> is_typevar m = false).
      { intros m Hm. rewrite forallb_forall in Hi. specialize (Hi m Hm). destruct m; try reflexivity. discriminate. }
      assert (Hu : forall m, In m args -> uniform (fun h => is_inst cfg ctx h m v)).
      { intros m Hm'. rewrite Forall_forall in H. apply H; [assumption|]. rewrite forallb_forall in Hi. now apply Hi. }
      destruct sp.
      + destruct (special_checker cfg (if is_optional args then TOptional else TUnion)) as [[| | |]|]; try apply uniform_const.
        apply (union_uniform (fun h m => is_inst cfg ctx h m)); assumption.
      + apply (union_uniform (fun h m => is_inst cfg ctx h m)); assumption.
    - destruct (special_checker cfg TLiteral) as [[| | |]|]; apply uniform_const.
    - (* NewType *) cbn [inert] in Hi. destruct a; try apply uniform_const;
        (destruct (newtype_recurses cfg); [now apply IHa|apply uniform_const]).
    - destruct (ctx n); apply uniform_const.
    - apply uniform_const.
    - (* Generic *)
      cbn [inert] in Hi.
      assert (Hu : forall a0, In a0 args -> forall w, uniform (fun h => is_inst cfg ctx h a0 w)).
      { intros a0 Ha w. rewrite Forall_forall in H. apply H; [assumption|]. rewrite forallb_forall in Hi. now apply Hi. }
      destruct sp;
        [ apply (generic_uniform (fun h x => is_inst cfg ctx h x)); assumption
        | (destruct (conv_ok cfg (AGeneric _ o args)); [|apply uniform_const];
           apply (generic_uniform (fun h x => is_inst cfg ctx h x)); assumption) .. ].
    - (* TupleVar *)
      cbn [inert] in Hi.
      destruct sp;
        [ apply (tuple_var_uniform (fun h x => is_inst cfg ctx h x)); intro w; now apply IHa
        | (destruct (conv_ok cfg (ATupleVar _ a)); [|apply uniform_const];
           apply (tuple_var_uniform (fun h x => is_inst cfg ctx h x)); intro w; now apply IHa) .. ].
    - (* TupleEmpty *)
      destruct sp;
        [ apply (generic_uniform (fun h x => is_inst cfg ctx h x)); intros a0 []
        | (destruct (conv_ok cfg (ATupleEmpty _)); [|apply uniform_const];
           apply (generic_uniform (fun h x => is_inst cfg ctx h x)); intros a0 []) .. ].
    - (* Bare *)
      destruct (special_checker cfg o) as [[| | |]|]; try apply uniform_const.
      apply (generic_uniform (fun h x => is_inst cfg ctx h x)). intros a0 [].
    - destruct (special_checker cfg TCallable) as [[| | |]|]; apply uniform_const.
    - discriminate.
    - apply uniform_const.
  Qed.
End Frame.
